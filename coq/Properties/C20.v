(* C20 - conversions to and from CF, rasterio (gdal), odc-geo and cartopy preserve the grid.
   Only statements here; proofs live in Proofs/C20_convert.v.  The kernels gen_* are regenerated from the source tree
   on every run (Gen/GenC20.v); the theorems are about the model instantiated with the reals (RO). *)
From Coq Require Import Reals ZArith Lra Lia List Bool PrimFloat.
From PR Require Import Base.Num Base.RNum Base.F64 Model.Grid Proofs.Grid_real Model.ConvertBase Gen.GenC20 Model.Convert
     Model.C20_run Proofs.C20_convert.
Import ListNotations.
Open Scope R_scope.

(* ---------------------------------------------------------------- CF, north-to-south storage *)
(* for every area (either sign of the pixel sizes) with at least two columns and two rows: the area loaded from the
   area's own pixel-centre vectors is the area itself - equal extent, exactly, and equal shape *)
Theorem C20_cf_axis_roundtrip : forall a : area R, wf_area a -> (2 <= width a)%Z -> (2 <= height a)%Z ->
  cf_load RO (cf_x RO a) (cf_y_ns RO a) (width a) (height a) = a.
Proof. exact cf_axis_roundtrip. Qed.
Print Assumptions C20_cf_axis_roundtrip.
Example C20_cf_axis_roundtrip_ex :
  let a := mk_area (-4096) (-2048) 4096 2048 8 4 in wf_area a /\ (2 <= width a)%Z /\ (2 <= height a)%Z.
Proof. cbn. unfold wf_area; cbn. repeat split; try lia; lra. Qed.
(* the same numerals executed in binary64 *)
Example C20_cf_axis_roundtrip_f64 :
  let a := mk_area (-4096)%float (-2048)%float 4096%float 2048%float 8 4 in
  f4_same (area_extent (cf_load F64 (cf_x F64 a) (cf_y_ns F64 a) 8 4)) (area_extent a) = true.
Proof. vm_compute. reflexivity. Qed.

(* for every equally spaced pair of coordinate vectors, ascending or descending (x[c] = x0 + c*sx, y[r] = y0 + r*sy,
   sx, sy of either sign), the loaded area has the vectors' shape and its pixel (r, c) is located exactly where
   element (r, c) of the stored array is *)
Theorem C20_cf_pixel_location : forall x0 sx y0 sy w h, (2 <= w)%Z -> (2 <= h)%Z -> sx <> 0 -> sy <> 0 ->
  let b := cf_load RO (fun c => x0 + IZR c * sx) (fun r => y0 + IZR r * sy) w h in
  width b = w /\ height b = h /\
  forall c r, proj_x RO b c = x0 + IZR c * sx /\ proj_y RO b r = y0 + IZR r * sy.
Proof. exact cf_pixel_location. Qed.
Print Assumptions C20_cf_pixel_location.
Example C20_cf_pixel_location_ex : (2 <= 3)%Z /\ (2 <= 2)%Z /\ 1000 <> 0 /\ -500 <> 0.
Proof. repeat split; try lia; lra. Qed.

(* storage independence (any arithmetic, in particular binary64): the loaded area is a function of the stored VALUES
   v[0], v[-1] and the length only - float32 / integer coordinate variables holding the same values load to the same area *)
Theorem C20_cf_load_values_only : forall (T : Type) (OP : ops T) (xs xs' ys ys' : Z -> T) w h,
  xs 0%Z = xs' 0%Z -> xs (w - 1)%Z = xs' (w - 1)%Z -> ys 0%Z = ys' 0%Z -> ys (h - 1)%Z = ys' (h - 1)%Z ->
  cf_load OP xs ys w h = cf_load OP xs' ys' w h /\
  load_axis_raises OP xs w = load_axis_raises OP xs' w /\ load_axis_raises OP ys h = load_axis_raises OP ys' h.
Proof. exact @cf_load_values_only. Qed.
Print Assumptions C20_cf_load_values_only.
(* the seeded witness in binary64: 1 m UTM grid, centres on whole metres at northing 9,000,000: corners at .5 *)
Example C20_cf_float32_witness_f64 :
  let a := mk_area (499999.5)%float (8999999.5)%float (500006.5)%float (9000004.5)%float 7 5 in
  f4_same (area_extent (cf_load F64 (cf_x F64 a) (cf_y_ns F64 a) 7 5)) (area_extent a) = true.
Proof. vm_compute. reflexivity. Qed.

(* ---------------------------------------------------------------- CF, south-to-north storage / descending x *)
Theorem C20_cf_flipped_rows : forall a : area R, wf_area a -> (2 <= width a)%Z -> (2 <= height a)%Z ->
  let b := cf_load RO (cf_x RO a) (cf_y_sn RO a) (width a) (height a) in
  b = rows_reversed a /\
  forall r c, proj_x RO b c = proj_x RO a c /\ proj_y RO b r = proj_y RO a (height a - 1 - r).
Proof. exact cf_flipped_rows. Qed.
Print Assumptions C20_cf_flipped_rows.
Theorem C20_cf_flipped_cols : forall a : area R, wf_area a -> (2 <= width a)%Z -> (2 <= height a)%Z ->
  let b := cf_load RO (cf_x_rev RO a) (cf_y_ns RO a) (width a) (height a) in
  b = cols_reversed a /\
  forall r c, proj_x RO b c = proj_x RO a (width a - 1 - c) /\ proj_y RO b r = proj_y RO a r.
Proof. exact cf_flipped_cols. Qed.
Print Assumptions C20_cf_flipped_cols.
Example C20_cf_flipped_rows_f64 :
  let a := mk_area (-4096)%float (-2048)%float 4096%float 2048%float 8 4 in
  f4_same (area_extent (cf_load F64 (cf_x F64 a) (cf_y_sn F64 a) 8 4))
          ((-4096)%float, 2048%float, 4096%float, (-2048)%float) = true.
Proof. vm_compute. reflexivity. Qed.

(* ---------------------------------------------------------------- CF, units *)
(* coordinates stored in a unit of k CRS units (k = 1000: kilometres on a metre CRS); hypothesis on the external
   engine: the unit conversion create_area_def applies to the two extent corners multiplies by k *)
Theorem C20_cf_units : forall (a : area R) k, wf_area a -> (2 <= width a)%Z -> (2 <= height a)%Z -> k <> 0 ->
  forall uconv, (forall p, uconv p = (k * fst p, k * snd p)) ->
  cf_load_units RO uconv (scaled RO k (cf_x RO a)) (scaled RO k (cf_y_ns RO a)) (width a) (height a) = a.
Proof. exact cf_units. Qed.
Print Assumptions C20_cf_units.
Example C20_cf_units_ex : 1000 <> 0 /\ forall p : R * R, (fun p => (1000 * fst p, 1000 * snd p)) p = (1000 * fst p, 1000 * snd p).
Proof. split; [lra|reflexivity]. Qed.
(* geostationary scanning angles: stored value = projection coordinate / satellite height *)
Theorem C20_cf_geos_angles : forall (a : area R) hgt, wf_area a -> (2 <= width a)%Z -> (2 <= height a)%Z -> hgt <> 0 ->
  cf_load_geos RO hgt (scaled RO hgt (cf_x RO a)) (scaled RO hgt (cf_y_ns RO a)) (width a) (height a) = a.
Proof. exact cf_geos. Qed.
Print Assumptions C20_cf_geos_angles.
Example C20_cf_geos_angles_ex : 35785831 <> 0.
Proof. lra. Qed.

(* ---------------------------------------------------------------- CF, one-pixel axes (the guard made precise) *)
(* a one-element coordinate vector never yields an area: the code raises; every equally spaced vector with at least
   two elements and a non-zero step loads *)
Theorem C20_cf_one_pixel_axis_raises : forall v : Z -> R, load_axis_raises RO v 1 = true.
Proof. exact cf_one_pixel_axis_raises. Qed.
Print Assumptions C20_cf_one_pixel_axis_raises.
Theorem C20_cf_regular_axis_loads : forall v0 s nb, (2 <= nb)%Z -> s <> 0 ->
  load_axis_raises RO (fun i => v0 + IZR i * s) nb = false.
Proof. exact cf_regular_axis_loads. Qed.
Print Assumptions C20_cf_regular_axis_loads.
Example C20_cf_one_pixel_f64 : load_axis_raises F64 (fun _ => 5%float) 1 = true /\ load_axis_raises F64 (fun _ => 5%float) 3 = true
                               /\ load_axis_raises F64 (fun i => Z2F i) 3 = false.
Proof. vm_compute. repeat split. Qed.

(* ---------------------------------------------------------------- rasters (rasterio / gdal) *)
(* every shape, including one-pixel axes, and every extent *)
Theorem C20_raster_transform_roundtrip : forall a : area R, (1 <= width a)%Z -> (1 <= height a)%Z ->
  raster_load RO (area_affine RO a) (width a) (height a) = a.
Proof. exact raster_transform_roundtrip. Qed.
Print Assumptions C20_raster_transform_roundtrip.
Example C20_raster_transform_roundtrip_ex : let a := mk_area 0 0 10 7 1 1 in (1 <= width a)%Z /\ (1 <= height a)%Z.
Proof. cbn. lia. Qed.
(* any unrotated transform, north-up (e < 0) or south-up (e > 0): pixel (r, c) of the area is the image of the centre
   of array cell (r, c) under the raster's own transform *)
Theorem C20_raster_pixel_location : forall (a c e f : R) w h, (1 <= w)%Z -> (1 <= h)%Z ->
  let tr : affine6 R := (a, 0, c, 0, e, f) in
  let b := raster_load RO tr w h in
  width b = w /\ height b = h /\
  forall col row, (proj_x RO b col, proj_y RO b row) = affine_apply RO tr (IZR col + / 2) (IZR row + / 2).
Proof. exact raster_pixel_location. Qed.
Print Assumptions C20_raster_pixel_location.
Theorem C20_raster_flipped_rows : forall a : area R, (1 <= width a)%Z -> (1 <= height a)%Z ->
  raster_load RO (area_affine_sn RO a) (width a) (height a) = rows_reversed a.
Proof. exact raster_flipped_rows. Qed.
Print Assumptions C20_raster_flipped_rows.
Example C20_raster_f64 :
  let a := mk_area (-4096)%float (-2048)%float 4096%float 2048%float 8 1 in
  f4_same (area_extent (raster_load F64 (area_affine F64 a) 8 1)) (area_extent a) = true.
Proof. vm_compute. reflexivity. Qed.

(* rasterio branch: extent from dataset.bounds, shape from the dataset.  Named hypothesis on the external engine
   (H_bounds): rasterio's .bounds is the geotransform expression, i.e. what raster_load computes *)
Theorem C20_rasterio_roundtrip : forall (a : area R) (ds : rio_ds R), (1 <= width a)%Z -> (1 <= height a)%Z ->
  rio_height ds = height a -> rio_width ds = width a ->
  rio_bounds ds = area_extent (raster_load RO (area_affine RO a) (width a) (height a)) ->
  rio_load ds = a.
Proof. exact rio_roundtrip. Qed.
Print Assumptions C20_rasterio_roundtrip.
Example C20_rasterio_roundtrip_ex :
  let a := mk_area 0 0 8 6 4 3 in let ds := mk_rio 3%Z 4%Z (0, 0, 8, 6) in
  rio_height ds = height a /\ rio_width ds = width a /\
  rio_bounds ds = area_extent (raster_load RO (area_affine RO a) (width a) (height a)).
Proof. cbv zeta. split; [reflexivity|split; [reflexivity|]]. rewrite raster_transform_roundtrip by (cbn; lia). reflexivity. Qed.
(* a raster is refused exactly when one of the rotation terms is non-zero (both branches) *)
Theorem C20_raster_rotated_refused : forall tr : affine6 R,
  let '(a, b, c, d, e, f) := tr in
  (rotated RO tr = true <-> ~ (b = 0 /\ d = 0)) /\ (rotated_rio RO tr = true <-> ~ (b = 0 /\ d = 0)).
Proof. exact rotated_iff. Qed.
Print Assumptions C20_raster_rotated_refused.

(* ---------------------------------------------------------------- compositions *)
(* raster -> area -> GeoBox gives back the raster's own transform and shape *)
Theorem C20_raster_geobox_same_transform : forall (a c e f : R) w h, (1 <= w)%Z -> (1 <= h)%Z ->
  let tr : affine6 R := (a, 0, c, 0, e, f) in
  geobox_affine RO (raster_load RO tr w h) = tr /\ geobox_shape RO (raster_load RO tr w h) = (h, w).
Proof. exact raster_geobox_same_transform. Qed.
Print Assumptions C20_raster_geobox_same_transform.
(* CF in any orientation -> area -> GeoBox: GeoBox cell (row, col) is where stored element (row, col) is
   (the chain on which the to_odc_geobox defect was found) *)
Theorem C20_cf_then_geobox : forall x0 sx y0 sy w h, (2 <= w)%Z -> (2 <= h)%Z -> sx <> 0 -> sy <> 0 ->
  let b := cf_load RO (fun c => x0 + IZR c * sx) (fun r => y0 + IZR r * sy) w h in
  geobox_shape RO b = (h, w) /\
  forall col row, affine_apply RO (geobox_affine RO b) (IZR col + / 2) (IZR row + / 2) = (x0 + IZR col * sx, y0 + IZR row * sy).
Proof. exact cf_then_geobox. Qed.
Print Assumptions C20_cf_then_geobox.
Example C20_cf_then_geobox_f64 :       (* south-to-north storage: y ascending *)
  let b := cf_load F64 (fun c => PrimFloat.add 512%float (PrimFloat.mul (Z2F c) 1024%float))
                       (fun r => PrimFloat.add (-1536)%float (PrimFloat.mul (Z2F r) 1024%float)) 8 4 in
  f2_same (affine_apply F64 (geobox_affine F64 b) (2.5)%float (0.5)%float) (2560%float, (-1536)%float) = true
  /\ geobox_shape F64 b = (4, 8)%Z.
Proof. vm_compute. split; reflexivity. Qed.
(* a history: read south-to-north data, write the loaded (upside-down) area out, read it again: same area *)
Theorem C20_cf_reload_after_flip : forall a : area R, wf_area a -> (2 <= width a)%Z -> (2 <= height a)%Z ->
  let b := cf_load RO (cf_x RO a) (cf_y_sn RO a) (width a) (height a) in
  cf_load RO (cf_x RO b) (cf_y_ns RO b) (width b) (height b) = b.
Proof. exact cf_reload_after_flip. Qed.
Print Assumptions C20_cf_reload_after_flip.

(* ---------------------------------------------------------------- odc-geo GeoBox *)
(* same shape; the affine transform maps array corner (0, 0) to (xmin, ymax) and (width, height) to (xmax, ymin), and
   every cell centre to the pixel's projection coordinates - for either sign of the pixel sizes *)
Theorem C20_geobox_affine : forall a : area R, (1 <= width a)%Z -> (1 <= height a)%Z ->
  geobox_shape RO a = (height a, width a) /\
  affine_apply RO (geobox_affine RO a) 0 0 = (xmin a, ymax a) /\
  affine_apply RO (geobox_affine RO a) (IZR (width a)) (IZR (height a)) = (xmax a, ymin a) /\
  forall col row, affine_apply RO (geobox_affine RO a) (IZR col + / 2) (IZR row + / 2) = (proj_x RO a col, proj_y RO a row).
Proof. exact geobox_affine_corners. Qed.
Print Assumptions C20_geobox_affine.
Example C20_geobox_f64 :
  let a := mk_area (-4096)%float 2048%float 4096%float (-2048)%float 8 4 in   (* upside-down extent *)
  f2_same (affine_apply F64 (geobox_affine F64 a) (Z2F 8) (Z2F 4)) (4096%float, 2048%float) = true.
Proof. vm_compute. reflexivity. Qed.

(* ---------------------------------------------------------------- cartopy *)
Theorem C20_cartopy_bounds : forall a : area R, cartopy_bounds a = (xmin a, xmax a, ymin a, ymax a).
Proof. exact cartopy_bounds_eq. Qed.
Print Assumptions C20_cartopy_bounds.
