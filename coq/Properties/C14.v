(* C14 — Freezing a dynamic area yields a grid containing all the data it was fitted to.
   Only statements here; proofs live in Proofs/C14_*.v.  Model: Model/Dynamic.v (freeze, _compute_bound_centers,
   _compute_new_x_corners_for_antimeridian, masked_ints) dispatching to Gen/GenC14.v, the definitions of
   compute_domain / _update_corners_for_full_extent REGENERATED from the current source on every run.
   Reals instance RO; [wrapR x = x - 360*floor(x/360)] is numpy's x % 360.
   Oracles (inputs, not axioms): the projected points [pts] (PROJ), [geo] (crs.is_geographic), [aou] (CRS area of use). *)
From Coq Require Import Reals ZArith Lra Lia List Bool.
From PR Require Import Base.Num Base.RNum Model.Grid Model.DynBase Gen.GenC14 Model.Dynamic
     Proofs.Grid_real Proofs.C14_lists Proofs.C14_domain Proofs.C14_freeze.
From PR Require Import Base.Imp Model.DynImp Gen.GenC14imp Proofs.C14_imp.
Import ListNotations.
Open Scope R_scope.

(* Every valid projected point (x, y) of the data lies in the frozen extent and maps to a valid pixel through the
   area's own index function (masked_ints model: not masked, 0 <= col < width, 0 <= row < height); unless the x extent
   is the global one it lies strictly inside and its canonical floor cell is a valid pixel too.
   The point's x coordinate in the frozen CRS is x - pm + 360 k (pm = 180 iff the prime meridian of the requested CRS was moved by 180 degrees; k = 0 and
   pm = 0 for every non-geographic CRS); in closed form it is [frozen_x]: x itself, x % 360 in the wrapped modes, x % 360 - 180
   for modify_crs (H_pm: this is how PROJ places a longitude in the +pm=180 CRS; validated on the implementation by the harness).
   Hypotheses: extent/size not given explicitly (else see C14_explicit_kept); at least one valid point, all <= 9e29;
   requested resolution > 0; requested shape >= 1 x 1; H_aou: the CRS area of use has west < east and, when
   global_extents is selected, contains the longitudes PROJ returned. *)
Theorem C14_freeze_contains_points : forall d fres fshape geo mode aou pts fr,
  explicit_area d fshape = None ->
  valid_pts pts -> res_pos (eff_res d fres) -> shape_pos (eff_shape d fshape) ->
  aou_west aou < aou_east aou ->
  (geo = true -> mode = MGlobal -> Forall (fun p => aou_west aou <= fst p <= aou_east aou) pts) ->
  freeze RO wrapR d fres fshape geo mode aou pts = Some fr ->
  pos_area (f_area fr) /\
  (geo = false -> f_pm180 fr = false) /\
  forall p, In p pts -> exists x' (k : Z),
    x' = fst p - (if f_pm180 fr then 180 else 0) + 360 * IZR k /\ (geo = false -> x' = fst p) /\
    inside (f_area fr) x' (snd p) /\
    (~ (geo = true /\ mode = MGlobal) -> strictly_inside (f_area fr) x' (snd p)) /\
    x' = frozen_x geo mode pts (fst p).
Proof. exact freeze_contains_points. Qed.
Print Assumptions C14_freeze_contains_points.

Definition ex_dyn : dyn R := mk_dyn None None None RNone.
Definition ex_pts : list (R * R) := [(1, 1); (9, 5); (4, 9)].
Definition ex_aou : aou_t R := mk_aou (-180) 180.
Lemma ex_valid : valid_pts ex_pts.
Proof.
  pose proof bigR_pos. assert (9 < bigR) by (unfold bigR, big; cbn; rewrite Rmult_1_r; apply (IZR_lt 9); lia).
  split; [discriminate|]. split; repeat constructor; cbn; lra.
Qed.
(* the hypotheses are satisfiable and the freeze succeeds: resolution 2 on three points *)
Example C14_freeze_contains_ex :
  explicit_area ex_dyn None = None /\ valid_pts ex_pts /\ res_pos (eff_res ex_dyn (RScalar 2)) /\
  shape_pos (eff_shape ex_dyn None) /\ aou_west ex_aou < aou_east ex_aou /\
  exists fr, freeze RO wrapR ex_dyn (RScalar 2) None false MNone ex_aou ex_pts = Some fr.
Proof.
  split; [reflexivity|]. split; [exact ex_valid|]. split; [cbn; lra|]. split; [exact I|]. split; [cbn; lra|].
  apply (freeze_res_total ex_dyn (RScalar 2) None false MNone ex_aou ex_pts 2 2); reflexivity.
Qed.

(* A requested resolution is honoured exactly: all four extent bounds are integer multiples of it, the size is the
   difference of those integers and the pixel size of the result equals the resolution. *)
Theorem C14_resolution_exact_aligned : forall d fres fshape geo mode aou pts fr rx ry,
  explicit_area d fshape = None -> eff_shape d fshape = None -> res_xy (eff_res d fres) = Some (rx, ry) ->
  0 < rx -> 0 < ry -> valid_pts pts -> aou_west aou < aou_east aou ->
  freeze RO wrapR d fres fshape geo mode aou pts = Some fr ->
  let a := f_area fr in
  (exists k0 k1 k2 k3 : Z,
      xmin a = IZR k0 * rx /\ ymin a = IZR k1 * ry /\ xmax a = IZR k2 * rx /\ ymax a = IZR k3 * ry /\
      width a = (k2 - k0)%Z /\ height a = (k3 - k1)%Z) /\
  pixel_size_x RO a = rx /\ pixel_size_y RO a = ry.
Proof. exact freeze_resolution_exact_aligned. Qed.
Print Assumptions C14_resolution_exact_aligned.
Example C14_resolution_ex :
  explicit_area ex_dyn None = None /\ eff_shape ex_dyn None = None /\ res_xy (eff_res ex_dyn (RPair 2 3)) = Some (2, 3) /\
  exists fr, freeze RO wrapR ex_dyn (RPair 2 3) None false MNone ex_aou ex_pts = Some fr.
Proof.
  repeat split. apply (freeze_res_total ex_dyn (RPair 2 3) None false MNone ex_aou ex_pts 2 3); reflexivity.
Qed.

(* A requested shape (h, w), h, w >= 2, on data with extent in x and y is honoured exactly and the corners computed by
   _compute_bound_centers — the min/max of the projected points — are the centres of the outermost pixels. *)
Theorem C14_shape_exact_centres : forall d fres fshape geo mode aou pts fr h w pm a b y0 y1,
  explicit_area d fshape = None -> eff_shape d fshape = Some (h, w) -> eff_res d fres = RNone ->
  (2 <= w)%Z -> (2 <= h)%Z ->
  bound_centers RO wrapR geo mode pts = (pm, Some (a, b), y0, y1) -> a < b -> y0 < y1 ->
  freeze RO wrapR d fres fshape geo mode aou pts = Some fr ->
  let ar := f_area fr in
  width ar = w /\ height ar = h /\
  proj_x RO ar 0 = a /\ proj_x RO ar (w - 1) = b /\ proj_y RO ar 0 = y1 /\ proj_y RO ar (h - 1) = y0 /\
  pixel_size_x RO ar = (b - a) / IZR (w - 1) /\ pixel_size_y RO ar = (y1 - y0) / IZR (h - 1).
Proof. exact freeze_shape_exact_centres. Qed.
Print Assumptions C14_shape_exact_centres.
(* the corners of the example points are (1, 1, 9, 9): the hypotheses hold for shape (5, 5) *)
Example C14_shape_ex :
  bound_centers RO wrapR false MNone ex_pts = (false, Some (1, 9), 1, 9) /\
  cd_shape_clean 1 1 9 9 5 5 = Some ((0, 0, 10, 10), 5%Z, 5%Z).
Proof.
  split.
  - rewrite (bound_centers_modes false MNone ex_pts ex_valid). unfold antimeridian_branch. cbn [andb].
    unfold nanmin, nanmax; cbn [map fst snd ex_pts nanmin_o nanmax_o isnan ltb RO].
    rewrite (Rltb_lt 4 9), (Rltb_ge 9 4), (Rltb_ge 9 5), (Rltb_lt 5 9) by lra.
    rewrite (Rltb_ge 4 1), (Rltb_lt 1 9), (Rltb_ge 5 1) by lra.
    reflexivity.
  - destruct (cd_shape_some 1 1 9 9 5 5 ltac:(lra) ltac:(lra) ltac:(left; lra)) as (rx & ry & _ & _ & E & Rx & Ry).
    rewrite E, Rx, Ry by lra. unfold shape_res. cbn. repeat f_equal; lra.
Qed.

(* One-pixel axes and data without extent along one axis (repaired in /repo by the `fix:` commit for C14): the shape is
   still honoured and, by C14_freeze_contains_points (shape_pos only asks for >= 1), the data is strictly inside;
   e.g. for width 1 the single column is centred on the data.  A single point cannot be given a pixel size from a
   shape alone: the code raises ValueError (model: None). *)
Theorem C14_shape_one_pixel_axis : forall a b y0 y1 h, a < b -> y0 <= y1 ->
  exists ry, 0 < ry /\
    cd_shape_clean a y0 b y1 1 h = Some ((a - (b - a) / 2, y0 - ry / 2, b + (b - a) / 2, y1 + ry / 2), 1%Z, h).
Proof. exact cd_shape_one_pixel_x. Qed.
Print Assumptions C14_shape_one_pixel_axis.
Theorem C14_shape_single_point_rejected : forall c0 c1 w h aou,
  gen_cd_shape RO (c0, c1, c0, c1) tt (h, w) aou = None.
Proof. intros. rewrite gen_cd_shape_char. apply cd_shape_point. Qed.
Print Assumptions C14_shape_single_point_rejected.

(* Explicitly given extent and size (constructor extent; width/height from the constructor or the shape passed to
   freeze, both non-zero) are returned unchanged, whatever the data; a requested shape is the shape of the result. *)
Theorem C14_explicit_kept : forall d fres fshape geo mode aou pts,
  (forall a, explicit_area d fshape = Some a ->
     freeze RO wrapR d fres fshape geo mode aou pts = Some (mk_frozen a false)) /\
  (forall x0 y0 x1 y1 w h, d_extent d = Some (x0, y0, x1, y1) -> eff_hw d fshape = (Some h, Some w) ->
     w <> 0%Z -> h <> 0%Z -> explicit_area d fshape = Some (mk_area x0 y0 x1 y1 w h)) /\
  (forall fr h w, explicit_area d fshape = None -> eff_shape d fshape = Some (h, w) ->
     freeze RO wrapR d fres fshape geo mode aou pts = Some fr -> width (f_area fr) = w /\ height (f_area fr) = h).
Proof.
  intros. split; [intros a; apply freeze_explicit_kept|]. split; [intros; apply explicit_area_given; assumption|].
  intros fr h w; apply freeze_shape_kept.
Qed.
Print Assumptions C14_explicit_kept.
Example C14_explicit_ex :
  freeze RO wrapR (mk_dyn (Some (0, 0, 100, 100)) (Some 4%Z) None RNone) RNone (Some (Some 5%Z, Some 4%Z)) true MCrs ex_aou ex_pts
  = Some (mk_frozen (mk_area 0 0 100 100 4 5) false).
Proof. reflexivity. Qed.

(* Antimeridian modes.  The decision of _compute_bound_centers in closed form: when the CRS is geographic, the x span
   exceeds 355 and no latitude is within 0.1 of a pole, the x corners become the min/max of x % 360 (modify_extents,
   None, any other string), the same minus 180 together with +pm=180 (modify_crs), or None = full extent of the
   CRS (global_extents); otherwise the plain min/max.  In every mode each x, taken modulo 360 and relative to the
   new prime meridian, lies between the corners (and the frozen area contains it: C14_freeze_contains_points, which
   holds for all modes). *)
Theorem C14_antimeridian_modes : forall geo mode pts, valid_pts pts ->
  (let xs := map fst pts in let ys := map snd pts in let wx := map wrapR xs in
   bound_centers RO wrapR geo mode pts =
     if antimeridian_branch geo pts then
       match mode with
       | MGlobal => (false, None, nanmin RO ys, nanmax RO ys)
       | MCrs => (true, Some (nanmin RO wx - 180, nanmax RO wx - 180), nanmin RO ys, nanmax RO ys)
       | _ => (false, Some (nanmin RO wx, nanmax RO wx), nanmin RO ys, nanmax RO ys)
       end
     else (false, Some (nanmin RO xs, nanmax RO xs), nanmin RO ys, nanmax RO ys)) /\
  (forall pm xc y0 y1, bound_centers RO wrapR geo mode pts = (pm, xc, y0, y1) ->
     y0 <= y1 /\ (forall p, In p pts -> y0 <= snd p <= y1) /\
     match xc with
     | Some (a, b) => a <= b /\ forall p, In p pts -> exists x' (k : Z),
           x' = fst p - (if pm then 180 else 0) + 360 * IZR k /\ a <= x' <= b /\ (geo = false -> x' = fst p) /\
           x' = frozen_x geo mode pts (fst p)
     | None => geo = true /\ mode = MGlobal /\ pm = false
     end /\ (geo = false -> pm = false) /\
     pm = (antimeridian_branch geo pts && match mode with MCrs => true | _ => false end)).
Proof.
  intros geo mode pts Hv. split; [exact (bound_centers_modes geo mode pts Hv)|].
  intros pm xc y0 y1. apply bound_centers_spec, Hv.
Qed.
Print Assumptions C14_antimeridian_modes.
(* the prime meridian is moved by 180 degrees (+pm=180 on a Greenwich-based CRS) exactly when the antimeridian branch is taken
   with mode modify_crs *)
Theorem C14_pm180_iff : forall d fres fshape geo mode aou pts fr,
  explicit_area d fshape = None -> valid_pts pts ->
  freeze RO wrapR d fres fshape geo mode aou pts = Some fr ->
  f_pm180 fr = (antimeridian_branch geo pts && match mode with MCrs => true | _ => false end).
Proof. exact freeze_pm180_iff. Qed.
Print Assumptions C14_pm180_iff.

(* The regenerated pieces of _compute_bound_centers / _compute_new_x_corners_for_antimeridian equal their clean forms in EVERY
   arithmetic (so also in binary64): the guard of the antimeridian branch, the three-mode corner computation, the 1e30 filter. *)
Theorem C14_bound_centers_pieces : forall (T : Type) (OP : ops T) (wrap360 : T -> T),
  (forall xmin xmax ymin ymax geo, gen_am_test OP xmin xmax ymin ymax (mk_crs geo) =
      geo && passes_antimeridian OP xmin xmax && negb (y_is_pole OP ymin ymax)) /\
  (forall mode xs, new_x_corners OP wrap360 mode xs =
      match mode with
      | MGlobal => None
      | MCrs => Some (sub OP (nanmin OP (map wrap360 xs)) (ofZ OP 180), sub OP (nanmax OP (map wrap360 xs)) (ofZ OP 180))
      | _ => Some (nanmin OP (map wrap360 xs), nanmax OP (map wrap360 xs))
      end) /\
  (forall p, clean_xy OP p = (clean OP (fst p), clean OP (snd p))).
Proof.
  intros T OP w. split; [intros; apply gen_am_test_char|]. split; [intros; apply new_x_corners_char | intros; apply clean_xy_char].
Qed.
Print Assumptions C14_bound_centers_pieces.

(* optimize_projection=True (SwathDefinition.compute_optimal_bb_area): whatever projection parameters and uniform shape
   (h, w >= 1) PROJ / Geod deliver, the area frozen on ALL positions of the swath has that shape and contains every valid
   position strictly (repaired in /repo by the second `fix:` commit for C14: it used to be frozen on the edge positions only). *)
Theorem C14_optimize_projection_contains : forall h w geo aou pts fr,
  (1 <= h)%Z -> (1 <= w)%Z -> valid_pts pts -> aou_west aou < aou_east aou ->
  optimal_bb_area RO wrapR h w geo aou pts = Some fr ->
  pos_area (f_area fr) /\ width (f_area fr) = w /\ height (f_area fr) = h /\
  forall p, In p pts -> exists x',
    x' = frozen_x geo MNone pts (fst p) /\ (geo = false -> x' = fst p) /\
    strictly_inside (f_area fr) x' (snd p) /\ inside (f_area fr) x' (snd p).
Proof. exact optimal_bb_area_contains. Qed.
Print Assumptions C14_optimize_projection_contains.
Example C14_optimize_ex : (1 <= 7)%Z /\ (1 <= 45)%Z /\ valid_pts ex_pts /\ aou_west ex_aou < aou_east ex_aou /\
  exists e, cd_shape_clean 1 1 9 9 45 7 = Some (e, 45%Z, 7%Z).
Proof.
  split; [lia|]. split; [lia|]. split; [exact ex_valid|]. split; [cbn; lra|].
  destruct (cd_shape_some 1 1 9 9 45 7 ltac:(lra) ltac:(lra) ltac:(left; lra)) as (rx & ry & _ & _ & E & _). eexists; exact E.
Qed.

(* x % 360 over the reals: in [0, 360) and congruent to x *)
Theorem C14_wrap360 : forall x, 0 <= wrapR x < 360 /\ exists k : Z, wrapR x = x + 360 * IZR k.
Proof. intros x. split; [apply wrapR_range | apply wrapR_shift]. Qed.
Print Assumptions C14_wrap360.

(* ====================================================================================================================
   Wave 3: the object-level methods, translated from /repo by tools/py2coq_imp.py on every run (Gen/GenC14imp.v), ARE the
   object-level model of Model/DynImp.v.  Every statement holds in every arithmetic [OP] and for every [world] W, i.e. for
   every behaviour of pyproj / PROJ / the geometry objects (CRS parsing, to_dict, dict update, the transformer, attrs,
   get_lonlats, to_epsg, area of use, compute_optimal_bb_area are abstract functions, none of them an axiom). *)

(* _extract_lons_lats: a pair as it is; an object's bounding_box attribute if it has one; else ALL its positions *)
Theorem C14_extract_lons_lats_code_is_model : forall (T : Type) (W : world T) l,
  value_of (imp_extract_lons_lats W l) = COk (extract_model W l).
Proof. intros T W. exact (extract_code W). Qed.
Print Assumptions C14_extract_lons_lats_code_is_model.

(* _get_proj_dict: always a NEW dict (dict(..) / crs.to_dict()), and self is left as it was *)
Theorem C14_get_proj_dict_code_is_model : forall (T : Type) (W : world T) o,
  exists st, imp_get_proj_dict W o = Ret [] st (get_pd W o) /\ imp_get_proj_dict_self W st = o.
Proof. intros T W. exact (get_proj_dict_code W). Qed.
Print Assumptions C14_get_proj_dict_code_is_model.

(* _compute_bound_centers on a dict it owns = the hand model [bound_centers] on PROJ's output; the prime-meridian entry is
   written into that dict exactly when the model's flag says so *)
Theorem C14_bound_centers_code_is_model : forall (T : Type) (OP : ops T) (W : world T) (wrap360 : T -> T) o d l mode,
  value_of (imp_bound_centers OP W wrap360 o d l mode) = bc_model OP W wrap360 d l mode.
Proof. intros T OP W w. exact (bound_centers_value OP W w). Qed.
Print Assumptions C14_bound_centers_code_is_model.

(* freeze: it returns / raises what the object-level model [freeze_obj] says, and self is as it was *)
Theorem C14_freeze_code_is_model : forall (T : Type) (OP : ops T) (W : world T) (wrap360 : T -> T) o ll fres fshape pinfo mode,
  match imp_freeze OP W wrap360 o ll fres fshape pinfo mode with
  | Ret _ st v => freeze_obj OP W wrap360 o ll fres fshape pinfo mode = COk v /\ imp_freeze_self W st = o
  | Raised => freeze_obj OP W wrap360 o ll fres fshape pinfo mode = CRaised
  | _ => False
  end.
Proof. intros T OP W w. exact (freeze_code OP W w). Qed.
Print Assumptions C14_freeze_code_is_model.

(* history independence, by induction over the list of calls: running the generated freeze call after call on ONE object
   (each call gets the self the previous one left) gives, for every call, what a fresh object gives *)
Theorem C14_freeze_history_independent : forall (T : Type) (OP : ops T) (W : world T) (wrap360 : T -> T) o calls,
  imp_history OP W wrap360 o calls = Some (map (fresh_freeze OP W wrap360 o) calls).
Proof. intros T OP W w. exact (history_independent OP W w). Qed.
Print Assumptions C14_freeze_history_independent.

(* the object-level model is the hand model [freeze] the theorems above are about *)
Theorem C14_object_freeze_is_model : forall (T : Type) (OP : ops T) (W : world T) (wrap360 : T -> T)
    o l fres fshape pinfo mode p w h x0 y0 x1 y1,
  o_optimize W o = false -> init_res (o_resolution W o) = o_resolution W o ->
  freeze_obj OP W wrap360 o (Some l) fres fshape pinfo mode = COk (FzArea W p w h (x0, y0, x1, y1)) ->
  let d := match pinfo with Some i => w_update W (get_pd W o) i | None => get_pd W o end in
  match explicit_area (dyn_of W o) fshape with
  | Some a => a = mk_area x0 y0 x1 y1 w h
  | None => exists c pm, w_parse_pd W d = Some c /\
      freeze OP wrap360 (dyn_of W o) fres fshape (w_is_geographic W c) mode (w_aou W p)
             (w_project W c (fst (extract_model W l)) (snd (extract_model W l)))
        = Some (mk_frozen (mk_area x0 y0 x1 y1 w h) pm)
  end.
Proof. intros T OP W w. exact (freeze_obj_is_freeze OP W w). Qed.
Print Assumptions C14_object_freeze_is_model.

(* composition over the reals: the area the (generated) freeze returns contains every valid projected position *)
Theorem C14_object_freeze_contains : forall (W : world R) (o : dyn_obj W) l fres fshape pinfo mode p w h x0 y0 x1 y1,
  o_optimize W o = false -> init_res (o_resolution W o) = o_resolution W o ->
  explicit_area (dyn_of W o) fshape = None ->
  freeze_obj RO W wrapR o (Some l) fres fshape pinfo mode = COk (FzArea W p w h (x0, y0, x1, y1)) ->
  let d := match pinfo with Some i => w_update W (get_pd W o) i | None => get_pd W o end in
  exists c, w_parse_pd W d = Some c /\
    let pts := w_project W c (fst (extract_model W l)) (snd (extract_model W l)) in
    let geo := w_is_geographic W c in
    let a := mk_area x0 y0 x1 y1 w h in
    (valid_pts pts -> res_pos (eff_res (dyn_of W o) fres) -> shape_pos (eff_shape (dyn_of W o) fshape) ->
     aou_west (w_aou W p) < aou_east (w_aou W p) ->
     (geo = true -> mode = MGlobal -> Forall (fun q => aou_west (w_aou W p) <= fst q <= aou_east (w_aou W p)) pts) ->
     pos_area a /\
     forall q, In q pts -> inside a (frozen_x geo mode pts (fst q)) (snd q) /\
                           (~ (geo = true /\ mode = MGlobal) -> strictly_inside a (frozen_x geo mode pts (fst q)) (snd q))).
Proof. exact object_freeze_contains. Qed.
Print Assumptions C14_object_freeze_contains.

(* non-vacuity, on the binary64 instance and a concrete world (3 projected points, resolution 2): the generated freeze
   returns an area (the Ret branch of C14_freeze_code_is_model), and a history of two calls on one object - the second
   with modify_crs-style arguments - equals two fresh freezes *)
From Coq Require Import PrimFloat.
From PR Require Import Base.F64 Model.C14_run Model.C14_imp_run.
Definition exF_pts : list (float * float) := [(1, 1); (9, 5); (4, 9)]%float.
Definition exF_world := case_world false (mk_aou (-180) 180)%float exF_pts.
Definition exF_obj : dyn_obj exF_world := mk_dobj exF_world (0%nat, false) RNone None None None false.
Example C14_imp_freeze_ex :
  value_of (imp_freeze F64 exF_world wrap360_F exF_obj (Some (LL_pair exF_world [] [])) (RScalar 2%float) None None MNone)
  = COk (FzArea exF_world (0%nat, false) 5 5 (0, 0, 10, 10)%float).
Proof. vm_compute. reflexivity. Qed.
Example C14_imp_history_ex :
  let c1 := mk_fcall exF_world (Some (LL_pair exF_world [] [])) (RScalar 2%float) None (Some (1%nat, false)) MCrs in
  let c2 := mk_fcall exF_world (Some (LL_pair exF_world [] [])) RNone (Some (Some 5, Some 5)) None MNone in
  imp_history F64 exF_world wrap360_F exF_obj [c1; c2] =
    Some [COk (FzArea exF_world (1%nat, false) 5 5 (0, 0, 10, 10)%float); COk (FzArea exF_world (0%nat, false) 5 5 (0, 0, 10, 10)%float)].
Proof. vm_compute. reflexivity. Qed.
