(* C03 — kd-tree resampling results do not depend on how the work is organised.
   Only statements here; proofs live in Proofs/C03_org.v and Proofs/C03_pipe.v.
   Model: Model/Organise.v (segmentation, RowAppendableArray, worker slices, neighbour info, samples),
          Model/ReduceMask.v (decision skeleton of data_reduce._get_valid_index; tied to the code bit for bit by
          the correspondence, its geometric soundness H_red is a HYPOTHESIS below, not proved). *)
From Coq Require Import Reals ZArith List Bool Lia Lra Arith Permutation.
From Interval Require Import Tactic.
From PR Require Import Base.ZX Base.ListX Base.Slice Base.Num Base.RNum Model.Partition Model.Organise Model.ReduceMask
     Model.Sched
     Proofs.C19_partition Proofs.C19_raa Proofs.C03_org Proofs.C03_pipe Proofs.C03_refuted Proofs.C03_sphere Proofs.C03_compose Proofs.C03_history
     Gen.GenC03 Proofs.C03_gen Base.Imp Model.OrganiseImp Gen.GenC19 Gen.GenC03imp Proofs.C03_imp.
From PR Require Model.KDTree.
Import ListNotations.
Local Close Scope Z_scope.
Local Open Scope nat_scope.

(* ---- segments: for EVERY value of the segments argument (None, <= 1, 2 .. rows, more than rows) and every target
   grid, appending the per-segment query results to the RowAppendableArrays gives exactly the arrays of the single
   full-slice query.  Uses C19's get_slice_partition and raa_refines_concat. *)
Theorem C03_segments_invariant : forall (target result : Type) (q : target -> result) (valid : target -> bool)
    (segments : option Z) (g : list (list target)) (capacity : Z),
  neighbour_info q valid (segments_of segments (Z.of_nat (length (concat g)))) g capacity = info_plain q valid g.
Proof. intros. apply segments_invariant. Qed.
Print Assumptions C03_segments_invariant.
Example C03_segments_ex :
  neighbour_info (fun t => t * 10) Nat.odd 2%Z [[1; 2]; [3; 4]; [5; 6]] 6%Z
  = ([Some true; Some false; Some true; Some false; Some true; Some false], [Some 10; Some 30; Some 50])
  /\ get_slice 2 3 = [mk_slice 0 2; mk_slice 2 3].
Proof. split; reflexivity. Qed.

(* the same, for the concrete pipeline: under any segmentation get_neighbour_info's general path returns the
   valid_output_index and the index/distance rows of [general_info] *)
Theorem C03_segments_pipeline : forall (src tgt D : Type) (dist : tgt -> src -> D) within dle dinf svalid tvalid red redT k
    (srcs : list src) (segments : option Z) (g : list (list tgt)) (capacity : Z),
  let i := general_info dist within dle dinf svalid tvalid red redT k srcs (concat g) in
  neighbour_info (query_row dist within dle dinf k (filter (keepS svalid red) srcs)) (keepT tvalid redT)
                 (segments_of segments (Z.of_nat (length (concat g)))) g capacity
  = (map Some (voi i), map Some (nrows i)).
Proof. intros. rewrite segments_invariant. reflexivity. Qed.
Print Assumptions C03_segments_pipeline.

(* ---- segments, on the TRANSLATED code: kd_tree.get_neighbour_info itself (Gen/GenC03imp.v, regenerated from /repo on
   every run by tools/py2coq_imp.py; its loop iterates what the translated generator geometry._get_slice yields and runs
   the translated RowAppendableArray.append_row / to_array of Gen/GenC19.v) returns, for EVERY value of the segments argument
   (None, <= 1, 2.., more than rows), the arrays of its single full-slice query - when the kd-tree query is a per-row
   oracle: Hseg / Hfull say that the query on a row slice returns the rows fv / fi / fd of the pixels of that slice
   (fi, fd only for the pixels with valid = true), and on slice(None) those of all pixels.  The geometry objects, radius,
   epsilon, tree, and the callees _get_valid_input_index / _create_resample_kdtree / _query_resample_kdtree /
   _create_empty_info are abstract (pattern-trusted readings: tools/gen_specs/GenC03imp.json "note"). *)
Theorem C03_get_neighbour_info_code_segments_independent :
  forall (A SRC TGT RAD EPS TREE VII LL P : Type) src_size tgt_size tgt_shape
         (get_vii : SRC -> TGT -> bool -> RAD -> Z -> VII * LL * LL) tree_ok (mk_tree : LL -> LL -> VII -> Z -> TREE)
         empty_info query_seg query_full all_inf nd tree0 vii0 ll0
         (g : list (list P)) (valid : P -> bool) (fv fi fd : P -> A) src tgt rad k (eps : EPS) red np rest,
  let V := get_vii src tgt red rad np in
  let tree := mk_tree (snd (fst V)) (snd V) (fst (fst V)) np in
  tgt_shape tgt = Z.of_nat (length g) :: rest -> length rest <= 1 -> g <> [] -> (0 <= tgt_size tgt)%Z ->
  (forall sl, query_seg tree src tgt rad (wrap rest sl) k eps red np = q3 valid fv fi fd (rows_of sl g)) ->
  query_full tree src tgt rad (mk_oslice None None) k eps red np = q3 valid fv fi fd (concat g) ->
  forall segments, tree_ok (snd (fst V)) (snd V) (fst (fst V)) np = true ->
  value_of (imp_get_neighbour_info src_size tgt_size tgt_shape get_vii tree_ok mk_tree empty_info query_seg query_full all_inf nd
                                   tree0 vii0 ll0 src tgt rad k eps red np segments)
  = COk (fst (fst V), fst (fst (q3 valid fv fi fd (concat g))), snd (fst (q3 valid fv fi fd (concat g))), snd (q3 valid fv fi fd (concat g))).
Proof.
  intros A SRC TGT RAD EPS TREE VII LL P src_size tgt_size tgt_shape get_vii tree_ok mk_tree empty_info query_seg query_full all_inf nd
         tree0 vii0 ll0 g valid fv fi fd src tgt rad k eps red np rest V tree Hs Hr Hg Hz Hq Hf segments Hok.
  exact (gni_segments_independent src_size tgt_size tgt_shape get_vii tree_ok mk_tree empty_info query_seg query_full all_inf nd
           tree0 vii0 ll0 g valid fv fi fd src tgt rad k eps red np rest Hs Hr Hg Hz Hq Hf segments Hok).
Qed.
Print Assumptions C03_get_neighbour_info_code_segments_independent.
(* ... and when every source is reduced away (EmptyResult) it returns _create_empty_info's arrays for every segments value *)
Theorem C03_get_neighbour_info_code_empty :
  forall (A SRC TGT RAD EPS TREE VII LL : Type) src_size tgt_size tgt_shape
         (get_vii : SRC -> TGT -> bool -> RAD -> Z -> VII * LL * LL) tree_ok (mk_tree : LL -> LL -> VII -> Z -> TREE)
         (empty_info : SRC -> TGT -> Z -> list (option A) * list (option A) * list (option A)) query_seg query_full all_inf nd tree0 vii0 ll0
         src tgt rad k (eps : EPS) red np segments,
  let V := get_vii src tgt red rad np in
  tree_ok (snd (fst V)) (snd V) (fst (fst V)) np = false ->
  value_of (imp_get_neighbour_info src_size tgt_size tgt_shape get_vii tree_ok mk_tree empty_info query_seg query_full all_inf nd
                                   tree0 vii0 ll0 src tgt rad k eps red np segments)
  = COk (fst (fst V), fst (fst (empty_info src tgt k)), snd (fst (empty_info src tgt k)), snd (empty_info src tgt k)).
Proof.
  intros A SRC TGT RAD EPS TREE VII LL src_size tgt_size tgt_shape get_vii tree_ok mk_tree empty_info query_seg query_full all_inf nd
         tree0 vii0 ll0 src tgt rad k eps red np segments V Hok.
  exact (gni_empty_segments_independent src_size tgt_size tgt_shape get_vii tree_ok mk_tree empty_info query_seg query_full all_inf nd
           tree0 vii0 ll0 src tgt rad k eps red np segments Hok).
Qed.
Print Assumptions C03_get_neighbour_info_code_empty.
(* the translated function run on a concrete instance: 3 x 2 pixels, pixel 1 and 4 not queried, 2 segments of rows *)
Example C03_get_neighbour_info_code_ex :
  let qs := fun (_ : unit) (_ _ _ : unit) (sl : pslice + pslice * oslice) (_ : Z) (_ : unit) (_ : bool) (_ : Z) =>
              q3 (fun p : Z => negb (p mod 3 =? 1)%Z) (fun p => p) (fun p => (10 * p)%Z) (fun p => (100 * p)%Z)
                 (rows_of (match sl with inl s => s | inr (s, _) => s end) [[0; 1]; [2; 3]; [4; 5]]%Z) in
  value_of (imp_get_neighbour_info (fun _ : unit => 9%Z) (fun _ : unit => 6%Z) (fun _ => [3; 2]%Z) (fun _ _ _ (_ : unit) _ => (tt, tt, tt))
              (fun _ _ _ _ => true) (fun _ _ _ _ => tt) (fun _ _ _ => ([], [], [])) qs (fun _ _ _ _ _ _ _ _ _ => ([], [], [])) (fun _ => true) 1%Z
              tt tt tt tt tt tt 1%Z tt true 1%Z (Some 2%Z))
  = COk (tt, map Some [0; 1; 2; 3; 4; 5]%Z, map Some [0; 20; 30; 50]%Z, map Some [0; 200; 300; 500]%Z).
Proof. vm_compute. reflexivity. Qed.

(* ---- history on the target object: after get_lonlats(cache=True) every segment reads its rows from the stored grid
   instead of computing them; for ONE pointwise coordinate function both give the same rows, so the segmented query sees the
   same targets.  (The hypothesis fails for float32 sources: the stored grid is float64, the computed rows float32 -
   known finding C03.cached_lonlats.float32_source.) *)
Theorem C03_cached_lonlats : forall (P C : Type) (coord : P -> C) (s : pslice) (g : list (list P)),
  rows_of s (map (map coord) g) = map coord (rows_of s g).
Proof. intros P C. exact (@cached_rows_equal P C). Qed.
Print Assumptions C03_cached_lonlats.

(* ---- histories of calls in one process.  The model of every entry point is a function of the call alone, so a history is
   [map f]; an implementation that remembers earlier results keeps this law IF its memory key determines everything the
   result depends on (any bounded memory that only forgets).  A key without the radius does not (refuted): this is the
   class the call-history oracle of the check exercises on the real code (each call of a history == the same call made first). *)
Theorem C03_memo_history_if : forall (C K V : Type) (key : C -> K) (keqb : K -> K -> bool),
  (forall a b, keqb a b = true <-> a = b) ->
  forall (f : C -> V) (evict : list (K * V) -> list (K * V)), (forall t, incl (evict t) t) ->
  (forall c c', key c = key c' -> f c = f c') ->
  forall hist, run_memo key keqb f evict [] hist = map f hist.
Proof.
  intros C K V key keqb Hk f evict He Hd hist. apply (memo_history_sound key keqb Hk f evict He Hd). intros k v [].
Qed.
Print Assumptions C03_memo_history_if.
Theorem C03_memo_without_radius_refuted :
  exists (hist : list (nat * nat)),
    run_memo (fun c => fst c) Nat.eqb (fun c : nat * nat => fst c + snd c) (fun t => t) [] hist
    <> map (fun c : nat * nat => fst c + snd c) hist.
Proof. exact memo_key_without_radius_refuted. Qed.
Example C03_memo_history_ex :
  run_memo (fun c : nat * nat => c) (fun a b => Nat.eqb (fst a) (fst b) && Nat.eqb (snd a) (snd b)) (fun c => fst c + snd c) (fun t => firstn 1 t) []
           [(7, 5); (7, 120); (7, 5)] = [12; 127; 12].
Proof. reflexivity. Qed.

(* ---- nprocs: whatever slices the scheduler hands out, to whichever worker and in whatever order, as long as together
   they tile [0, n) (C15: the scheduler's slices do), out[s] = f(x[s]) for each of them leaves out = map f x,
   independent of the initial content of the shared array. *)
Theorem C03_nprocs_invariant : forall (A B : Type) (f : A -> B) (xs : list A) (handed tiling : list pslice) (init : list B),
  tiles 0 tiling (Z.of_nat (length xs)) -> Permutation handed tiling -> length init = length xs ->
  run_workers f xs handed init = map f xs.
Proof. intros A B. exact (@nprocs_invariant A B). Qed.
Print Assumptions C03_nprocs_invariant.
Example C03_nprocs_ex :
  tiles 0 [mk_slice 0 2; mk_slice 2 3; mk_slice 3 5] (Z.of_nat (length [1; 2; 3; 4; 5]))
  /\ Permutation [mk_slice 3 5; mk_slice 0 2; mk_slice 2 3] [mk_slice 0 2; mk_slice 2 3; mk_slice 3 5]
  /\ run_workers (fun x => x * x) [1; 2; 3; 4; 5] [mk_slice 3 5; mk_slice 0 2; mk_slice 2 3] [0; 0; 0; 0; 0] = [1; 4; 9; 16; 25].
Proof.
  split; [cbn; lia|]. split; [|reflexivity].
  apply Permutation_sym. apply (Permutation_cons_app [mk_slice 3 5] [mk_slice 2 3] (mk_slice 0 2)).
  cbn. apply perm_swap.
Qed.

(* ---- nprocs, composed with C15: the tiling is no longer a hypothesis.  For EVERY configuration of _multi_proc.Scheduler
   (guided / dynamic / static, any chunk, 32-bit counters: Sched.wf), any number nw >= 1 of worker processes and EVERY
   interleaving [sched] of their atomic shared-memory actions after which all workers have returned, the slices actually
   written (Sched.wdone, in completion order) leave out = map f x.  Uses C15's cover_all_done and writes_exactly_once. *)
Theorem C03_nprocs_scheduler : forall (A B : Type) (f : A -> B) (xs : list A) (init : list B) c nw sched,
  wf c -> Sched.n c = Z.of_nat (length xs) -> 1 <= nw -> workers_below nw sched -> all_done nw (run c sched) ->
  length init = length xs ->
  run_workers f xs (map to_pslice (wdone (run c sched))) init = map f xs.
Proof. intros A B. exact (@nprocs_scheduler A B). Qed.
Print Assumptions C03_nprocs_scheduler.
(* ... and every fair schedule (each worker gets a turn in each of 7 n + 5 nw rounds) does get all workers to return *)
Theorem C03_nprocs_scheduler_fair : forall (A B : Type) (f : A -> B) (xs : list A) (init : list B) c nw sched,
  wf c -> Sched.n c = Z.of_nat (length xs) -> 1 <= nw -> workers_below nw sched ->
  fair_rounds nw (Z.to_nat (7 * Sched.n c + 5 * Z.of_nat nw)) sched ->
  length init = length xs ->
  run_workers f xs (map to_pslice (wdone (run c sched))) init = map f xs.
Proof. intros A B. exact (@nprocs_scheduler_fair A B). Qed.
Print Assumptions C03_nprocs_scheduler_fair.
Example C03_nprocs_scheduler_ex :
  let c := mk_cfg 5 2 None Guided 32 in
  let sched := repeat 1 6 ++ repeat 0 7 ++ concat (repeat [0; 1] 40) in     (* worker 1 takes the first slice, worker 0 finishes first *)
  wf c /\ workers_below 2 sched /\ all_done 2 (run c sched)
  /\ wdone (run c sched) <> slices (run c sched)
  /\ run_workers (fun x => x * x) [1; 2; 3; 4; 5] (map to_pslice (wdone (run c sched))) [0; 0; 0; 0; 0] = [1; 4; 9; 16; 25].
Proof.
  cbv zeta. split; [unfold wf; cbn; lia|].
  split; [apply Forall_forall; intros w Hw; vm_compute in Hw; repeat (destruct Hw as [<-|Hw]; [lia|]); destruct Hw|].
  split; [intros w Hw; destruct w as [|[|w]]; [vm_compute; reflexivity|vm_compute; reflexivity|lia]|].
  split; [vm_compute; discriminate|vm_compute; reflexivity].
Qed.

(* ---- composed with C02: for neighbours = 1 and exact squared distances, the index the model's query returns for a
   target satisfies the contract C02 places on KDTree.query(k=1, distance_upper_bound=r) (Model/KDTree.knn_spec), so C02's
   theorems about the nearest-neighbour result apply to every organisation of the work that this file proves equal to
   the plain call. *)
Theorem C03_query_meets_C02_contract : forall (src tgt : Type) (dist : tgt -> src -> Z) (r2 : Z) (s0 : src)
    (pts : list src) (t : tgt),
  KDTree.knn_spec r2 (fun j => dist t (nth j pts s0)) (seq 0 (length pts)) (nn_index dist r2 pts t).
Proof. intros src tgt. exact (@nn_index_meets_contract src tgt). Qed.
Print Assumptions C03_query_meets_C02_contract.
Example C03_query_contract_ex :
  nn_index (fun t s : Z => (t - s) * (t - s))%Z 30%Z [0; 10; 20]%Z 13%Z = 1
  /\ nn_index (fun t s : Z => (t - s) * (t - s))%Z 30%Z [0; 10; 20]%Z 40%Z = 3.
Proof. split; reflexivity. Qed.

(* ---- two-step: _resample is get_sample_from_neighbour_info o get_neighbour_info; the info does not depend on the
   data, and the result for ANY dataset is a function of the neighbour info mapped back to source indices and of that
   dataset alone, so info computed once gives, on every dataset, what a fresh resample of that dataset gives. *)
Theorem C03_two_step : forall (src tgt D V : Type) (dist : tgt -> src -> D) within dle dinf svalid tvalid red redT k done
    (fill : V) (weigh : list (D * V) -> V) (srcs : list src) (tgts : list tgt),
  let info := get_neighbour_info dist within dle dinf svalid tvalid red redT k done srcs tgts in
  (forall datasets,
     map (sample fill (nn_row fill) info) datasets
     = map (resample dist within dle dinf svalid tvalid red redT k done fill (nn_row fill) srcs tgts) datasets
     /\ map (sample fill (w_row fill weigh) info) datasets
     = map (resample dist within dle dinf svalid tvalid red redT k done fill (w_row fill weigh) srcs tgts) datasets)
  /\ (forall data, length data = length srcs ->
        sample fill (nn_row fill) info data = map (pick_nn fill data) (canon info)
        /\ sample fill (w_row fill weigh) info data = map (pick_w fill weigh data) (canon info)).
Proof.
  intros. split; [intros; split; reflexivity|]. intros data Hlen. split.
  - apply sample_by_canon; [apply nn_row_agrees; exact tvalid|reflexivity|exact Hlen].
  - apply sample_by_canon; [apply w_row_agrees; exact tvalid|reflexivity|exact Hlen].
Qed.
Print Assumptions C03_two_step.

(* ---- reduce_data: IF the source mask keeps every legal source within the radius of some legal target (H_red) and the
   target mask (grid -> swath) keeps every legal target within the radius of some legal source (H_redT), THEN the
   neighbour info mapped back to original source indices, the nearest-neighbour result and the k-neighbour weighted
   result are those of the unreduced call, for every dataset.  H_red / H_redT are statements of spherical geometry
   about data_reduce._get_valid_index; they are NOT proved here (the failing-input search exercises them). *)
Theorem C03_reduce_sound_if : forall (src tgt D V : Type) (dist : tgt -> src -> D) within dle dinf svalid tvalid k done
    (fill : V) (weigh : list (D * V) -> V) (red : src -> bool) (redT : tgt -> bool) (srcs : list src) (tgts : list tgt),
  H_red dist within svalid tvalid red srcs tgts ->
  H_redT dist within svalid tvalid redT srcs tgts ->
  canon (get_neighbour_info dist within dle dinf svalid tvalid red redT k done srcs tgts)
  = canon (get_neighbour_info dist within dle dinf svalid tvalid all_s all_t k done srcs tgts)
  /\ forall data, length data = length srcs ->
       resample dist within dle dinf svalid tvalid red redT k done fill (nn_row fill) srcs tgts data
       = resample dist within dle dinf svalid tvalid all_s all_t k done fill (nn_row fill) srcs tgts data
       /\ resample dist within dle dinf svalid tvalid red redT k done fill (w_row fill weigh) srcs tgts data
          = resample dist within dle dinf svalid tvalid all_s all_t k done fill (w_row fill weigh) srcs tgts data.
Proof.
  intros until tgts. intros HS HT. split; [apply reduce_canon; assumption|]. intros data Hlen. split.
  - apply (reduce_sample _ _ _ _ _ _ _ _ _ _ (pick_nn fill)); auto. intros r. apply nn_row_agrees. exact tvalid.
  - apply (reduce_sample _ _ _ _ _ _ _ _ _ _ (pick_w fill weigh)); auto. intros r. apply w_row_agrees. exact tvalid.
Qed.
Print Assumptions C03_reduce_sound_if.

(* H_red does NOT hold for the snapshot's data_reduce._get_valid_index (Model/ReduceMask.legacy_win, which the
   correspondence ties to the code bit for bit), over the reals with the true sine: for the 2 x 2 longlat grid
   10..20E / 80..85N (pixel centres 12.5/17.5E, 83.75/81.25N)
   (1) the source (11E, 83.75N) is 18 km (chord) from the pixel (12.5E, 83.75N) but outside the longitude window
       buffered by degrees(r / (sin(max|lat|) R)) for r = 50 km  [replayed on the implementation: KNOWN finding lon_window];
   (2) the source (12.5E, 58.7N) is within r = 2500 km (chord) of the pixel (12.5E, 81.25N) but outside the latitude window
       buffered by degrees(r / R)                                [KNOWN finding lat_window.large_radius]. *)
Theorem C03_snapshot_reduce_refuted :
  exists (Wt : sides (T := R)),
    (exists (r : R) (t s : R * R), In (fst t) (lo1 Wt) /\ In (snd t) (la1 Wt) /\ (chord s t < r)%R /\
        in_lon RO pymodR (legacy_win RO sin Wt r) (fst s) = false /\ in_lat RO (legacy_win RO sin Wt r) (snd s) = true /\
        keep RO pymodR (legacy_win RO sin Wt r) s = false)
    /\ (exists (r : R) (t s : R * R), In (fst t) (lo4 Wt) /\ In (snd t) (la3 Wt) /\ (chord s t < r)%R /\
        in_lat RO (legacy_win RO sin Wt r) (snd s) = false /\
        keep RO pymodR (legacy_win RO sin Wt r) s = false).
Proof. exact snapshot_reduce_refuted. Qed.
Print Assumptions C03_snapshot_reduce_refuted.

(* The body of the boundary loop of data_reduce._get_valid_index is REGENERATED from /repo on every run (Gen/GenC03.v,
   generic over the arithmetic): it is the step of the model's loop, and the model's winding sum is that body folded over
   the four sides.  An edit of the loop body in /repo breaks this obligation, not only the bit-level correspondence. *)
Theorem C03_boundary_step_generated : forall (T : Type) (OP : ops T) prev lon angle_sum side_sum,
  gen_boundary_step OP prev lon angle_sum side_sum
  = ((if ReduceMask.truthy OP prev then add OP angle_sum (wrap_delta OP lon prev) else angle_sum),
     (if ReduceMask.truthy OP prev then add OP side_sum (wrap_delta OP lon prev) else side_sum), lon).
Proof. intros T OP. exact (gen_boundary_step_char OP). Qed.
Print Assumptions C03_boundary_step_generated.
Theorem C03_no_pole_mask_generated : forall (T : Type) (OP : ops T) (pymod : T -> T -> T) lon lat lo hi a b s2min s4max,
  gen_no_pole_mask OP lon lat lo hi a b s2min s4max
  = keep OP pymod (mk_win 2 lo hi (if ltb OP s4max s2min then 0 else 1) a b) (lon, lat).
Proof. intros T OP. exact (gen_no_pole_mask_char OP). Qed.
Print Assumptions C03_no_pole_mask_generated.
Theorem C03_winding_sum_generated : forall (T : Type) (OP : ops T) (s : sides),
  fst (fst (angle_loop OP (ReduceMask.truthy OP) s))
  = gen_side_sum OP (lo4 s) None (gen_side_sum OP (lo3 s) None (gen_side_sum OP (lo2 s) None (gen_side_sum OP (lo1 s) None (cz OP 0)))).
Proof. intros T OP. exact (angle_sum_generated OP). Qed.
Print Assumptions C03_winding_sum_generated.

(* The bounds a sound window needs (pure spherical geometry, radians, sphere of radius Re, chord2 = squared chord length):
   what H_red would follow from for a window buffered by a := 2 asin(r / 2Re) in latitude and by asin(sin a / cos lat) in
   longitude (no reduction in longitude once a pole is within reach).  They are the bounds used by the repaired reference
   skeleton ReduceMask.fixed_win; the snapshot uses r/Re and r/(sin(lat) Re) instead (refuted above). *)
Theorem C03_latitude_bound : forall Re r ls ps lt pt : R, (0 < Re)%R -> (0 <= r <= 2 * Re)%R ->
  (- (PI / 2) <= ps <= PI / 2)%R -> (- (PI / 2) <= pt <= PI / 2)%R ->
  (chord2 Re ls ps lt pt < r * r)%R -> (Rabs (ps - pt) < 2 * asin (r / (2 * Re)))%R.
Proof. exact latitude_bound. Qed.
Print Assumptions C03_latitude_bound.
Theorem C03_longitude_bound : forall Re r ls ps lt pt : R, (0 < Re)%R -> (0 <= r <= 2 * Re)%R ->
  (- (PI / 2) <= ps <= PI / 2)%R -> (- (PI / 2) <= pt <= PI / 2)%R ->
  let a := (2 * asin (r / (2 * Re)))%R in
  (Rabs pt + a < PI / 2)%R -> (chord2 Re ls ps lt pt < r * r)%R ->
  (0 < cos (ls - lt))%R /\ (cos pt * Rabs (sin (ls - lt)) < sin a)%R.
Proof. exact longitude_bound. Qed.
Print Assumptions C03_longitude_bound.

(* the hypotheses of both bounds hold for the first witness: (11E, 83.75N) and the pixel (12.5E, 83.75N), 50 km *)
Example C03_bounds_ex :
  let Re := 6370997%R in let r := 50000%R in
  let ls := (11 * PI / 180)%R in let ps := (83.75 * PI / 180)%R in let lt := (12.5 * PI / 180)%R in let pt := (83.75 * PI / 180)%R in
  (0 < Re /\ 0 <= r <= 2 * Re /\ - (PI / 2) <= ps <= PI / 2 /\ - (PI / 2) <= pt <= PI / 2 /\
   Rabs pt + 2 * asin (r / (2 * Re)) < PI / 2 /\ chord2 Re ls ps lt pt < r * r)%R.
Proof.
  cbv zeta. split; [lra|]. split; [lra|].
  split; [split; interval with (i_prec 60)|]. split; [split; interval with (i_prec 60)|]. split.
  - assert (asin (50000 / (2 * 6370997)) < 0.004)%R.
    { apply asin_lt_of_sin; [split; interval with (i_prec 60)|split; interval with (i_prec 60)|interval with (i_prec 60)]. }
    assert (Rabs (83.75 * PI / 180) < 1.4618)%R by interval with (i_prec 60).
    assert (1.5707 < PI / 2)%R by interval with (i_prec 60). lra.
  - unfold chord2. interval with (i_prec 60).
Qed.

(* non-vacuity: sources on a line at 0, 10, 20, 35 (35 flagged illegal), targets at 9 and 22, radius 5, a mask that
   drops source 0 (too far from both targets): H_red holds, the mask is not trivial, and the result is not all fill *)
Definition ex_dist (t s : Z) : Z := Z.abs (t - s).
Definition ex_red (s : Z) : bool := (5 <=? s)%Z.
Example C03_reduce_ex :
  H_red ex_dist (fun d => d <? 5)%Z (fun s => negb (s =? 35)%Z) (fun _ => true) ex_red [0; 10; 20; 35]%Z [9; 22]%Z
  /\ H_redT ex_dist (fun d => d <? 5)%Z (fun s => negb (s =? 35)%Z) (fun _ => true) (fun _ => true) [0; 10; 20; 35]%Z [9; 22]%Z
  /\ filter ex_red [0; 10; 20; 35]%Z <> [0; 10; 20; 35]%Z
  /\ resample ex_dist (fun d => d <? 5)%Z Z.leb 1000%Z (fun s => negb (s =? 35)%Z) (fun _ => true) ex_red (fun _ => true) 2 1%Z
       (-1)%Z (nn_row (-1)%Z) [0; 10; 20; 35]%Z [9; 22]%Z [100; 200; 300; 400]%Z = [200; 300]%Z.
Proof.
  split; [|split; [|split; [discriminate|reflexivity]]].
  - intros s t Hs Ht _ _ W. cbn in Hs, Ht.
    destruct Ht as [<-|[<-|[]]]; destruct Hs as [<-|[<-|[<-|[<-|[]]]]]; cbn in W |- *; congruence.
  - intros s t _ _ _ _ _. reflexivity.
Qed.

(* two-step on the same instance: one info, two datasets, each equal to the fresh call and to the canonical read-off *)
Example C03_two_step_ex :
  let i := get_neighbour_info ex_dist (fun d => d <? 5)%Z Z.leb 1000%Z (fun s => negb (s =? 35)%Z) (fun _ => true) ex_red (fun _ => true) 2 1%Z
             [0; 10; 20; 35]%Z [9; 22]%Z in
  canon i = [[(1, 1%Z)]; [(2, 2%Z)]]
  /\ sample (-1)%Z (nn_row (-1)%Z) i [100; 200; 300; 400]%Z = [200; 300]%Z
  /\ sample (-1)%Z (nn_row (-1)%Z) i [7; 8; 9; 10]%Z = [8; 9]%Z
  /\ map (pick_nn (-1)%Z [7; 8; 9; 10]%Z) (canon i) = [8; 9]%Z.
Proof. repeat split; reflexivity. Qed.

(* ---- empty shortcuts: when the (reduced) candidate set is empty, _create_empty_info describes the same neighbours
   as the general path would (none, for every target), and the shortcut sample (_get_empty_sample) equals the
   general sample computed from the general path's info: all fill.  Likewise when no target is valid. *)
Theorem C03_empty_shortcuts : forall (src tgt D V : Type) (dist : tgt -> src -> D) within dle dinf svalid tvalid red redT k done
    (fill : V) (weigh : list (D * V) -> V) (srcs : list src) (tgts : list tgt) (data : list V),
  (filter (keepS svalid red) srcs = [] ->
     canon (create_empty_info svalid red k done srcs tgts)
     = canon (general_info dist within dle dinf svalid tvalid red redT k srcs tgts)
     /\ sample fill (nn_row fill) (create_empty_info svalid red k done srcs tgts) data
        = sample_general fill (nn_row fill) (general_info dist within dle dinf svalid tvalid red redT k srcs tgts) data
     /\ sample fill (w_row fill weigh) (create_empty_info svalid red k done srcs tgts) data
        = sample_general fill (w_row fill weigh) (general_info dist within dle dinf svalid tvalid red redT k srcs tgts) data
     /\ sample fill (nn_row fill) (create_empty_info svalid red k done srcs tgts) data = repeat fill (length tgts))
  /\ (filter (keepT tvalid redT) tgts = [] ->
      forall rowf, sample fill rowf (general_info dist within dle dinf svalid tvalid red redT k srcs tgts) data
                   = sample_general fill rowf (general_info dist within dle dinf svalid tvalid red redT k srcs tgts) data).
Proof.
  intros. split.
  - intros E. split; [apply empty_info_canon; exact E|].
    rewrite !sample_empty_info by exact E.
    rewrite !(sample_general_empty dist within dle dinf svalid tvalid k fill weigh red redT) by (auto; exact E).
    repeat split; reflexivity.
  - intros E rowf. apply sample_no_outputs. exact E.
Qed.
Print Assumptions C03_empty_shortcuts.
Example C03_empty_ex :
  let i := create_empty_info (fun _ : Z => false) (fun _ => true) 2 1%Z [7; 8; 9]%Z [1; 2]%Z in
  nrows i = [[(3, 1%Z); (3, 1%Z)]; [(3, 1%Z); (3, 1%Z)]] /\ canon i = [[]; []]
  /\ sample 0%Z (nn_row 0%Z) i [5; 6; 7]%Z = [0; 0]%Z.
Proof. repeat split; reflexivity. Qed.
