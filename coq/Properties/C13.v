(* C13 — create_area_def is parameter-set independent, rejects contradictions, returns a dynamic area when
   information is missing; AreaDefinition.dump followed by load_area* is lossless.
   Only statements here; proofs live in Proofs/C13_*.v.  The model is Model/AreaConfig.v (area_config.py, generic
   over the arithmetic) and Model/AreaYaml.v (dump / load at the level of the parsed dictionaries).  PROJ, pyproj's
   CRS parsing and the YAML text layer are oracles (function / table arguments), never axioms. *)
From Coq Require Import Reals ZArith Bool List Lra Lia PrimFloat.
From PR Require Import Base.Num Base.RNum Base.F64 Model.AreaConfig Model.AreaYaml Model.C13_run
     Gen.GenC13 Proofs.C13_base Proofs.C13_sets Proofs.C13_contra Proofs.C13_missing Proofs.C13_round Proofs.C13_yaml Proofs.C13_gen Proofs.C13_snap Model.Grid Proofs.C13_more Proofs.C13_hist.
Import ListNotations.
Open Scope R_scope.

(* ------------------------------------------------------------------------------------------------------------
   1. Every one of the seven sufficient descriptions derived from a grid g gives g back: shape exactly, extent
      exactly (real arithmetic).  The values may be handed over in the projection's own unit, in another metric
      unit (s projection units per given unit, the product of PROJ's unitconvert factors; also on CRSs in feet), per keyword or per DataArray attribute, or in degrees
      on a geographic CRS.  The three descriptions that contain a centre need the centre not to be moved by
      _round_poles (see 2.). *)
Theorem C13_param_sets_agree :
  forall (pfwd pinv : R * R -> option (R * R)) (fac : cu -> R * R) (geographic : bool) (crs_units : cu)
         (d : desc) (g : grid) (attr units : option utok) (c : cu) (s : R),
    wf_grid g ->
    unit_ok fac geographic crs_units (eff_units crs_units attr units) c s ->
    (uses_center d = true -> round_poles RO pfwd pinv (g_center g) (cu_eqb c Cdeg) = Ok (g_center g)) ->
    create_area_def RO pfwd pinv fac geographic crs_units (describe d g s attr units) = Area (g_ext g) (gh g, gw g).
Proof. exact param_sets_agree. Qed.
Print Assumptions C13_param_sets_agree.
(* the hypotheses are satisfiable: a 20 x 10 grid on a metre CRS described in kilometres (factor 1000), with an
   invertible projection oracle whose "latitude" of the centre is far from a pole *)
Example C13_param_sets_ex :
  let g := mk_grid (-200000) (-300000) 400000 500000 20 10 in
  let id := fun p : R * R => Some (fst p / 100000, snd p / 100000) in
  let fw := fun p : R * R => Some (fst p * 100000, snd p * 100000) in
  wf_grid g /\ unit_ok (fun _ => (1000, 1)) false Cm (eff_units Cm None (Some UTkm)) Ckm (1000 * 1) /\
  round_poles RO fw id (g_center g) (cu_eqb Ckm Cdeg) = Ok (g_center g).
Proof.
  cbn zeta. split; [unfold wf_grid; cbn; repeat split; lra || lia|]. split.
  - unfold unit_ok, eff_units. cbn. split; [reflexivity|]. right. repeat split; try discriminate; lra.
  - apply round_poles_metric_id with (ll := (1, 1)).
    + unfold g_center. cbn. f_equal. f_equal; lra.
    + cbn [snd]. rewrite c1em4_val. rewrite (Rabs_pos_eq 1) by lra.
      unfold Rabs. destruct (Rcase_abs _); lra.
    + unfold g_center. cbn. f_equal. f_equal; lra.
Qed.

(* a CRS in US survey feet (_get_proj_units keeps the unit name: Cother) described in metres or in kilometres: PROJ goes
   through metres, km -> m -> us-ft, and the description is rescaled by the product of the two factors *)
Example C13_param_sets_feet_ex :
  let fac := fun u : cu => match u with Ckm => (1000, 3937 / 1200) | _ => (3937 / 1200, 1) end in
  get_proj_units false UNother = Cother /\
  unit_ok fac false Cother (eff_units Cother None (Some UTmeters)) Cm (3937 / 1200 * 1) /\
  unit_ok fac false Cother (eff_units Cother (Some UTkm) None) Ckm (1000 * (3937 / 1200)) /\
  unit_ok fac false Cother (eff_units Cother None None) Cother 1.
Proof.
  cbn zeta. split; [reflexivity|]. unfold unit_ok, eff_units. cbn.
  repeat split; try reflexivity; right; repeat split; try discriminate; lra.
Qed.

(* ------------------------------------------------------------------------------------------------------------
   2. _round_poles: the centre is left alone unless it lies within 1e-4 degrees of a pole (degrees: pure
      arithmetic; other units: PROJ inverse, test, PROJ forward, so additionally the round trip must be exact). *)
Theorem C13_centre_kept_degrees :
  forall pfwd pinv (c : R * R), c_1em4 RO <= Rabs (Rabs (snd c) - 90) -> round_poles RO pfwd pinv c true = Ok c.
Proof. exact round_poles_deg_id. Qed.
Print Assumptions C13_centre_kept_degrees.
Theorem C13_centre_kept_metric :
  forall pfwd pinv (c ll : R * R),
    pinv c = Some ll -> c_1em4 RO <= Rabs (Rabs (snd ll) - 90) -> pfwd ll = Some c -> round_poles RO pfwd pinv c false = Ok c.
Proof. exact round_poles_metric_id. Qed.
Print Assumptions C13_centre_kept_metric.
Theorem C13_centre_snapped_degrees :
  forall pfwd pinv (lon lat : R), 0 < lat -> Rabs (lat - 90) < c_1em4 RO -> round_poles RO pfwd pinv (lon, lat) true = Ok (lon, 90).
Proof. exact round_poles_deg_snaps. Qed.
Print Assumptions C13_centre_snapped_degrees.
(* Without that hypothesis clause 1 is refuted on the current tree (known finding C13.param_sets.pole_snap):
   binary64 run of the model on a geographic CRS, grid extent (-20, 79.99995, 20, 99.99995), shape (20, 40):
   centre + radius + shape gives (-20, 80, 20, 100).  The same input is replayed on the implementation by the harness. *)
Theorem C13_pole_snap_refuted :
  outcome_eqb (run_geo snap_crs_args) (Area (-20, 80, 20, 100)%float (20, 40)%Z) = true /\
  outcome_eqb (run_geo snap_es_args) (Area (-20, 0x1.3ffff2e48e8a7p+6, 20, 0x1.8ffff2e48e8a7p+6)%float (20, 40)%Z) = true /\
  outcome_eqb (run_geo snap_crs_args) (run_geo snap_es_args) = false.
Proof. exact pole_snap_refuted. Qed.
Print Assumptions C13_pole_snap_refuted.

(* ------------------------------------------------------------------------------------------------------------
   3. Where shape rounding enters.  extent + an arbitrary positive resolution: the extent is kept exactly and the
      shape is the pixel count (extent / resolution) pushed through _round_shape, which returns the count itself
      when it is an integer, else the next integer up, unless the count is less than .01 above an integer (then
      down).  So the resolution asked for is honoured exactly iff it divides the extent exactly. *)
Theorem C13_extent_resolution_rounding :
  forall pfwd pinv fac geographic crs_units, (geographic = true <-> crs_units = Cdeg) ->
  forall x0 y0 x1 y1 dx dy, x0 < x1 -> y0 < y1 -> 0 < dx -> 0 < dy ->
    let h := round_dim RO ((y1 - y0) / dy) in
    let w := round_dim RO ((x1 - x0) / dx) in
    (1 <= h)%Z -> (1 <= w)%Z ->
    create_area_def RO pfwd pinv fac geographic crs_units
      (mk_args None None (Some ((x0, y0, x1, y1), None)) None None None (Some ((dx, dy), None)) None None)
    = Area (x0, y0, x1, y1) (h, w).
Proof. exact extent_resolution_rounding. Qed.
Print Assumptions C13_extent_resolution_rounding.
Theorem C13_round_shape_exact : forall n : Z, round_dim RO (IZR n) = n.
Proof. exact round_dim_exact. Qed.
Theorem C13_round_shape_up : forall x : R, c_001 RO <= x - IZR (Raux.Zfloor x) -> round_dim RO x = Raux.Zceil x.
Proof. exact round_dim_up. Qed.
Theorem C13_round_shape_down : forall x : R, x - IZR (Raux.Zfloor x) < c_001 RO -> round_dim RO x = Raux.Zfloor x.
Proof. exact round_dim_down. Qed.
Print Assumptions C13_round_shape_up.
(* the tie to the source: _round_shape and _sign as regenerated from /repo on every run (coq/Gen/GenC13.v) are the model's *)
Theorem C13_generated_round_shape_is_model :
  forall s : R * R, gen_round_shape RO s tt tt = (round_dim RO (fst s), round_dim RO (snd s)).
Proof. exact gen_round_shape_is_model. Qed.
Print Assumptions C13_generated_round_shape_is_model.
Theorem C13_generated_sign_is_model : forall x : R, IZR (gen_sign RO x) = signT RO x.
Proof. exact gen_sign_is_model. Qed.
(* _extrapolate_information, regenerated from /repo once per None-pattern of its arguments (the six descriptions that reach
   it, the patterns with a redundant centre / radius / upper-left / shape that exercise every _validate_variable site, and
   the patterns with nothing to combine), is the model's extrapolate on that pattern: every arithmetic, every oracle.
   So are _validate_variable (None / pair / quadruple / shape given) and the None path of _convert_units. *)
Theorem C13_generated_extrapolate_descriptions :
  forall (T : Type) (OP : ops T) pfwd pinv fac geographic crs_units units,
    (forall s c r, extrapolate OP pfwd pinv fac geographic crs_units None (Some s) (Some c) (Some r) None None units
                   = full_nores (gen_extrapolate_crs OP pfwd pinv fac geographic crs_units tt s c r tt tt units)) /\
    (forall s c d, extrapolate OP pfwd pinv fac geographic crs_units None (Some s) (Some c) None (Some d) None units
                   = full (gen_extrapolate_cds OP pfwd pinv fac geographic crs_units tt s c tt d tt units)) /\
    (forall s d ul, extrapolate OP pfwd pinv fac geographic crs_units None (Some s) None None (Some d) (Some ul) units
                   = full (gen_extrapolate_uds OP pfwd pinv fac geographic crs_units tt s tt tt d ul units)) /\
    (forall c r d, extrapolate OP pfwd pinv fac geographic crs_units None None (Some c) (Some r) (Some d) None units
                   = full (gen_extrapolate_crd OP pfwd pinv fac geographic crs_units tt tt c r d tt units)) /\
    (forall e0 e1 e2 e3 d, extrapolate OP pfwd pinv fac geographic crs_units (Some (e0, e1, e2, e3)) None None None (Some d) None units
                   = full (gen_extrapolate_ed OP pfwd pinv fac geographic crs_units (e0, e1, e2, e3) tt tt tt d tt units)).
Proof.
  intros. refine (conj _ (conj _ (conj _ (conj _ _)))); intros.
  - apply gen_crs_is_model. - apply gen_cds_is_model. - apply gen_uds_is_model. - apply gen_crd_is_model. - apply gen_ed_is_model.
Qed.
Print Assumptions C13_generated_extrapolate_descriptions.
Theorem C13_generated_extrapolate_redundant :
  forall (T : Type) (OP : ops T) pfwd pinv fac geographic crs_units units,
    (forall e0 e1 e2 e3 c d, extrapolate OP pfwd pinv fac geographic crs_units (Some (e0, e1, e2, e3)) None (Some c) None (Some d) None units
                   = full (gen_extrapolate_ed_c OP pfwd pinv fac geographic crs_units (e0, e1, e2, e3) tt c tt d tt units)) /\
    (forall e0 e1 e2 e3 r d, extrapolate OP pfwd pinv fac geographic crs_units (Some (e0, e1, e2, e3)) None None (Some r) (Some d) None units
                   = full (gen_extrapolate_ed_r OP pfwd pinv fac geographic crs_units (e0, e1, e2, e3) tt tt r d tt units)) /\
    (forall e0 e1 e2 e3 d ul, extrapolate OP pfwd pinv fac geographic crs_units (Some (e0, e1, e2, e3)) None None None (Some d) (Some ul) units
                   = full (gen_extrapolate_ed_u OP pfwd pinv fac geographic crs_units (e0, e1, e2, e3) tt tt tt d ul units)) /\
    (forall s c r ul, extrapolate OP pfwd pinv fac geographic crs_units None (Some s) (Some c) (Some r) None (Some ul) units
                   = full_nores (gen_extrapolate_ucrs OP pfwd pinv fac geographic crs_units tt s c r tt ul units)) /\
    (forall s c r d, extrapolate OP pfwd pinv fac geographic crs_units None (Some s) (Some c) (Some r) (Some d) None units
                   = full (gen_extrapolate_crds OP pfwd pinv fac geographic crs_units tt s c r d tt units)).
Proof.
  intros. refine (conj _ (conj _ (conj _ (conj _ _)))); intros.
  - apply gen_ed_c_is_model. - apply gen_ed_r_is_model. - apply gen_ed_u_is_model. - apply gen_ucrs_is_model. - apply gen_crds_is_model.
Qed.
Theorem C13_generated_validate_is_model :
  forall (T : Type) (OP : ops T),
    (forall n : T * T, gen_validate_none tt n = validate2 OP None n) /\
    (forall v n : T * T, gen_validate_pair OP v n = validate2 OP (Some v) n) /\
    (forall v n : T * T * T * T, gen_validate_quad OP v n = validate4 OP (Some v) n) /\
    (forall v n : Z * Z, gen_validate_shape OP v n = validate_shape OP (Some v) n).
Proof.
  intros. refine (conj _ (conj _ (conj _ _))); intros.
  - apply gen_validate_none_is_model. - apply gen_validate_pair_is_model. - apply gen_validate_quad_is_model. - apply gen_validate_shape_is_model.
Qed.
Print Assumptions C13_generated_validate_is_model.
Example C13_round_shape_ex : round_dim RO 7 = 7%Z /\ 1 / 100 - 1 / 10 ^ 17 < c_001 RO < 1 / 100 + 1 / 10 ^ 17.
Proof. split; [apply (round_dim_exact 7)|apply c001_bounds]. Qed.

(* ------------------------------------------------------------------------------------------------------------
   4. Contradictions.  _validate_variable raises exactly when some component of the value given is outside
      numpy.allclose (atol = 1e-8, rtol = 1e-5 relative to the value FOUND) of the value found from the other
      parameters; otherwise the value found replaces the value given.  Every place where _extrapolate_information
      combines parameters is covered; a contradiction makes create_area_def raise. *)
Theorem C13_tolerance_is_allclose :
  forall given found : R * R, validate2 RO (Some given) found = Err <-> far2 given found.
Proof. exact validate2_far. Qed.
Print Assumptions C13_tolerance_is_allclose.
Theorem C13_consistent_accepted :
  forall given found : R * R, ~ far2 given found -> validate2 RO (Some given) found = Ok found.
Proof. exact validate2_near. Qed.
Theorem C13_tolerance_constants :
  1 / 100000 - 1 / 10 ^ 20 < rtol RO < 1 / 100000 + 1 / 10 ^ 20 /\
  1 / 100000000 - 1 / 10 ^ 23 < atol RO < 1 / 100000000 + 1 / 10 ^ 23.
Proof. exact (conj rtol_bounds atol_bounds). Qed.
Theorem C13_contradiction_extent_center :
  forall pfwd pinv fac geographic crs_units e shape c radius res ul units,
    far2 c (mid e) -> extrapolate RO pfwd pinv fac geographic crs_units (Some e) shape (Some c) radius res ul units = Err.
Proof. exact contra_extent_center. Qed.
Theorem C13_contradiction_extent_radius :
  forall pfwd pinv fac geographic crs_units e shape radius r res ul units,
    convert_units RO pfwd pinv fac geographic crs_units radius Nradius units (Some (mid e)) = Ok (Some r) -> far2 r (half e) ->
    extrapolate RO pfwd pinv fac geographic crs_units (Some e) shape None radius res ul units = Err.
Proof. exact contra_extent_radius. Qed.
Theorem C13_contradiction_extent_upper_left :
  forall pfwd pinv fac geographic crs_units e shape res ul units,
    far2 ul (ulc e) -> extrapolate RO pfwd pinv fac geographic crs_units (Some e) shape None None res (Some ul) units = Err.
Proof. exact contra_extent_ul. Qed.
Theorem C13_contradiction_upper_left_center_radius :
  forall pfwd pinv fac geographic crs_units shape c radius r res ul units,
    convert_units RO pfwd pinv fac geographic crs_units radius Nradius units (Some c) = Ok (Some r) ->
    far2 r (fst c - fst ul, snd ul - snd c) ->
    extrapolate RO pfwd pinv fac geographic crs_units None shape (Some c) radius res (Some ul) units = Err.
Proof. exact contra_ul_center_radius. Qed.
Theorem C13_contradiction_radius_resolution_shape :
  forall pfwd pinv fac geographic crs_units s c radius r res d units,
    convert_units RO pfwd pinv fac geographic crs_units radius Nradius units (Some c) = Ok (Some r) ->
    convert_units RO pfwd pinv fac geographic crs_units res Nresolution units (Some c) = Ok (Some d) ->
    fst d <> 0 -> snd d <> 0 ->
    far2 (IZR (fst s), IZR (snd s)) (IZR (round_dim RO (2 * snd r / snd d)), IZR (round_dim RO (2 * fst r / fst d))) ->
    extrapolate RO pfwd pinv fac geographic crs_units None (Some s) (Some c) radius res None units = Err.
Proof. exact contra_radius_resolution_shape. Qed.
Theorem C13_contradiction_width_height :
  forall pfwd pinv fac geographic crs_units (a : args (T:=R)) h w s,
    a_height a = Some h -> a_width a = Some w -> a_shape a = Some s -> far2 s (h, w) ->
    create_area_def RO pfwd pinv fac geographic crs_units a = Raised.
Proof. exact contra_width_height. Qed.
Theorem C13_one_of_width_height_raises :
  forall pfwd pinv fac geographic crs_units (a : args (T:=R)),
    has_one (a_height a) (a_width a) = true -> create_area_def RO pfwd pinv fac geographic crs_units a = Raised.
Proof. exact one_of_width_height. Qed.
(* end to end: extent + resolution of a grid together with a centre that is not the extent's midpoint *)
Theorem C13_contradictions_raise :
  forall pfwd pinv fac geographic crs_units, (geographic = true <-> crs_units = Cdeg) ->
  forall (g : grid) (c : R * R),
    wf_grid g -> round_poles RO pfwd pinv c (cu_eqb crs_units Cdeg) = Ok c -> far2 c (g_center g) ->
    create_area_def RO pfwd pinv fac geographic crs_units
      (mk_args None None (Some (g_ext g, None)) None None (Some (c, None)) (Some (g_res g, None)) None None) = Raised.
Proof. exact extent_resolution_vs_center. Qed.
Print Assumptions C13_contradictions_raise.
Example C13_contradiction_ex : far2 (0, 3) (0, 2) /\ ~ far2 (0, 2 + 1 / 1000000) (0, 2).
Proof.
  pose proof rtol_bounds. pose proof atol_bounds. unfold far2, far. cbn [fst snd]. split.
  - right. replace (3 - 2) with 1 by lra. rewrite Rabs_R1, (Rabs_pos_eq 2) by lra. lra.
  - replace (0 - 0) with 0 by lra. replace (2 + 1 / 1000000 - 2) with (1 / 1000000) by lra.
    rewrite Rabs_R0, (Rabs_pos_eq 2), (Rabs_pos_eq (1 / 1000000)) by lra. lra.
Qed.
(* integer shapes: any difference raises while the shape found stays below 99999; beyond that the relative
   tolerance swallows an off-by-one (100000 given, 100001 found is accepted) *)
Theorem C13_shape_mismatch_raises :
  forall a b : Z, a <> b -> (Z.abs b <= 99998)%Z -> far (IZR a) (IZR b).
Proof. exact far_int. Qed.
Theorem C13_shape_tolerance_witness : validate_shape RO (Some (100000, 7)%Z) (100001, 7)%Z = Ok (100001, 7)%Z.
Proof. exact shape_tolerance_witness. Qed.
Print Assumptions C13_shape_tolerance_witness.

(* ------------------------------------------------------------------------------------------------------------
   5. Missing information.  For every arithmetic and every oracle: unless create_area_def raises, it returns an
      AreaDefinition exactly when extent and shape can both be found from what was given (sufficient_ext /
      sufficient_shape spell out the search order of the code), and otherwise a DynamicAreaDefinition that
      carries the extent / the shape precisely when that one can be found. *)
Theorem C13_missing_gives_dynamic :
  forall (T : Type) (OP : ops T) pfwd pinv fac geographic crs_units (a : args (T:=T)),
    match create_area_def OP pfwd pinv fac geographic crs_units a with
    | Raised => True
    | Area _ _ => sufficient_ext a = true /\ sufficient_shape a = true
    | Dynamic e s _ => has e = sufficient_ext a /\ has s = sufficient_shape a /\ sufficient_ext a && sufficient_shape a = false
    end.
Proof. exact @missing_gives_dynamic. Qed.
Print Assumptions C13_missing_gives_dynamic.
Example C13_missing_ex :
  run_geo (@mk_args float None None None (Some (10, 20)%float) None None None None None) = Dynamic None (Some (10, 20)%Z) None /\
  outcome_eqb (run_geo (@mk_args float None None None None None (Some ((1, 2)%float, None)) None (Some ((3, 4)%float, None)) None))
              (Dynamic (Some (-2, -2, 4, 6)%float) None None) = true.
Proof. vm_compute. split; reflexivity. Qed.

(* ------------------------------------------------------------------------------------------------------------
   6. dump -> load at the level of the parsed dictionaries: same id, description, shape; same extent, or the
      extent times PROJ's unit factor when the dump moved non-metre units from the CRS into area_extent (the CRS
      is then reparsed in metres); for files with many areas every area comes back, in file order or in the order
      of the regions asked for; a region that is not in the file raises; the loaded area compares equal to the
      original whenever pyproj finds the reparsed CRS equal and no unit was rewritten. *)
Theorem C13_dump_load_dict_id :
  forall (crs_facts : pentry -> bool * cu * (cu -> R * R)) (a : area_rec (T:=R)),
    area_ok crs_facts a -> load_one RO crs_facts (dump_dict a) = Ok (loaded_of crs_facts a).
Proof. exact dump_load_one. Qed.
Print Assumptions C13_dump_load_dict_id.
Theorem C13_dump_load_file :
  forall crs_facts (areas : list (area_rec (T:=R))),
    Forall (area_ok crs_facts) areas -> NoDup (map r_id areas) ->
    load_file RO crs_facts (map dump_dict areas) [] = Ok (map (loaded_of crs_facts) areas).
Proof. exact dump_load_file. Qed.
Print Assumptions C13_dump_load_file.
Theorem C13_dump_load_regions :
  forall crs_facts (areas sel : list (area_rec (T:=R))),
    Forall (area_ok crs_facts) areas -> NoDup (map r_id areas) -> incl sel areas -> sel <> [] ->
    load_file RO crs_facts (map dump_dict areas) (map r_id sel) = Ok (map (loaded_of crs_facts) sel).
Proof. exact dump_load_regions. Qed.
Theorem C13_load_missing_region :
  forall crs_facts (areas : list (area_rec (T:=R))) regions r,
    In r regions -> ~ In r (map r_id areas) -> load_file RO crs_facts (map dump_dict areas) regions = Err.
Proof. exact load_missing_region. Qed.
Theorem C13_dump_load_equal :
  forall crs_facts (a : area_rec (T:=R)), dumped_units a <> Some UTkm -> area_eq RO true a (loaded_of crs_facts a) = true.
Proof. exact dump_load_equal. Qed.
Print Assumptions C13_dump_load_equal.
(* strings are opaque values: an empty description or proj_id is kept like any other (token 0 stands for '' here),
   it is the PRESENCE of the key that decides; without a description entry the area id is used *)
Example C13_empty_strings_kept :
  let facts := fun _ : pentry => (false, Cm, fun _ : cu => (1%float, 1%float)) in
  let body := [(Kprojection, YProj (PEpsg 3857)); (Kshape, YDict [(Kheight, YInt 2); (Kwidth, YInt 3)]);
               (Karea_extent, YDict [(Klower_left_xy, YList [YNum 0%float; YNum 0%float]);
                                     (Kupper_right_xy, YList [YNum 3%float; YNum 2%float])])] in
  (match load_one F64 facts (5%Z, (Kdescription, YStr 0) :: (Kproj_id, YStr 0) :: body) with
   | Ok l => (l_id l =? 5)%Z && (l_desc l =? 0)%Z && opt_eqb Z.eqb (l_projid l) (Some 0%Z) | Err => false end) = true /\
  (match load_one F64 facts (5%Z, body) with
   | Ok l => (l_id l =? 5)%Z && (l_desc l =? 5)%Z && opt_eqb Z.eqb (l_projid l) None | Err => false end) = true.
Proof. vm_compute. split; reflexivity. Qed.
(* area_ok is satisfiable: a kilometre CRS without EPSG code, reparsed as a projected metre CRS with factor 1000 *)
Example C13_dump_load_ex :
  let a := @mk_area_rec R 1 2 3 None (Some UTkm) (5, 6)%Z (-100, -200, 300, 400) in
  let facts := fun _ : pentry => (false, Cm, fun _ : cu => (1000, 1)) in
  area_ok facts a /\ loaded_extent facts a = (-100 * (1000 * 1), -200 * (1000 * 1), 300 * (1000 * 1), 400 * (1000 * 1)).
Proof.
  cbn zeta. split.
  - unfold area_ok. cbn. repeat split; try lia; try lra; try discriminate. right. repeat split; lra.
  - reflexivity.
Qed.

(* ------------------------------------------------------------------------------------------------------------
   7. Alternative entry points, the pixel grid of the result, centres in degrees on projected CRSs, repeated cycles. *)
(* AreaDefinition.from_extent / from_circle (with shape or with resolution) / from_area_of_interest / from_ul_corner pass
   their arguments to create_area_def by keyword: described from a grid they give that grid *)
Theorem C13_classmethods_agree :
  forall pfwd pinv (fac : cu -> R * R) geographic crs_units (g : grid) attr units c s,
    wf_grid g -> unit_ok fac geographic crs_units (eff_units crs_units attr units) c s ->
    round_poles RO pfwd pinv (g_center g) (cu_eqb c Cdeg) = Ok (g_center g) ->
    let want := Area (g_ext g) (gh g, gw g) in
    let create := create_area_def RO pfwd pinv fac geographic crs_units in
    create (from_extent (IZR (gh g), IZR (gw g)) ((gx0 g / s, gy0 g / s, gx1 g / s, gy1 g / s), attr) units) = want /\
    create (from_circle (sc s (g_center g), attr) (sc s (g_radius g), attr) (Some (IZR (gh g), IZR (gw g))) None units) = want /\
    create (from_circle (sc s (g_center g), attr) (sc s (g_radius g), attr) None (Some (sc s (g_res g), attr)) units) = want /\
    create (from_area_of_interest (IZR (gh g), IZR (gw g)) (sc s (g_center g), attr) (sc s (g_res g), attr) units) = want /\
    create (from_ul_corner (IZR (gh g), IZR (gw g)) (sc s (g_ul g), attr) (sc s (g_res g), attr) units) = want.
Proof. exact classmethods_agree. Qed.
Print Assumptions C13_classmethods_agree.
(* composition with the shared grid model (Model/Grid.v, C01): the area made from a description has exactly the pixel size
   of the grid (= the resolution handed over) and its pixel centres are the canonical ones *)
Theorem C13_result_pixel_grid :
  forall (g : grid) (col row : Z), wf_grid g ->
    (pixel_size_x RO (area_of (g_ext g) (gh g, gw g)) = fst (g_res g) /\ pixel_size_y RO (area_of (g_ext g) (gh g, gw g)) = snd (g_res g)) /\
    (proj_x RO (area_of (g_ext g) (gh g, gw g)) col = gx0 g + (IZR col + / 2) * fst (g_res g) /\
     proj_y RO (area_of (g_ext g) (gh g, gw g)) row = gy1 g - (IZR row + / 2) * snd (g_res g)).
Proof. intros g col row H. exact (conj (result_pixel_size g H) (result_pixel_centres g col row H)). Qed.
(* dump -> load with a unit rewrite: every pixel centre of the loaded area is the original one times PROJ's factor, i.e. the
   same point on the ground in the reparsed (metre) CRS; without a rewrite the extents, hence all centres, are identical *)
Theorem C13_dump_load_pixel_centres :
  forall (e : R * R * R * R) (s : Z * Z) (k : R) (col row : Z), (1 <= fst s)%Z -> (1 <= snd s)%Z ->
    proj_x RO (area_of (scale4 k e) s) col = k * proj_x RO (area_of e s) col /\
    proj_y RO (area_of (scale4 k e) s) row = k * proj_y RO (area_of e s) row.
Proof. exact scaled_pixel_centres. Qed.
Print Assumptions C13_dump_load_pixel_centres.
(* a centre given in degrees on a projected CRS, PROJ's forward projection as oracle *)
Theorem C13_centre_in_degrees :
  forall pfwd pinv (fac : cu -> R * R) crs_units, crs_units <> Cdeg ->
  forall (g : grid) lon lat tok,
    wf_grid g -> tok = UTdeg \/ tok = UTdegrees ->
    pfwd (lon, lat) = Some (g_center g) -> c_1em4 RO <= Rabs (Rabs lat - 90) ->
    round_poles RO pfwd pinv (g_center g) false = Ok (g_center g) ->
    let create := create_area_def RO pfwd pinv fac false crs_units in
    let S := Some (IZR (gh g), IZR (gw g)) in
    let C := Some ((lon, lat), Some tok) in
    create (mk_args None None None S None C None (Some (sc 1 (g_radius g), None)) None) = Area (g_ext g) (gh g, gw g) /\
    create (mk_args None None None S None C (Some (sc 1 (g_res g), None)) None None) = Area (g_ext g) (gh g, gw g) /\
    create (mk_args None None None None None C (Some (sc 1 (g_res g), None)) (Some (sc 1 (g_radius g), None)) None) = Area (g_ext g) (gh g, gw g).
Proof. exact centre_in_degrees. Qed.
Print Assumptions C13_centre_in_degrees.
(* any number of dump / load cycles on the same area object returns the area of the first cycle; from the second cycle on
   nothing is rewritten (induction over the number of cycles) *)
Theorem C13_dump_load_cycles :
  forall (crs_facts : pentry -> bool * cu * (cu -> R * R)) (n : nat) (a : area_rec (T:=R)),
    area_ok crs_facts a -> load_one RO crs_facts (dump_dict (cycles crs_facts n a)) = Ok (loaded_of crs_facts a).
Proof. exact dump_load_cycles. Qed.
Print Assumptions C13_dump_load_cycles.
Theorem C13_second_cycle_exact :
  forall crs_facts (n : nat) (a : area_rec (T:=R)), area_ok crs_facts a ->
    let b := cycles crs_facts (S n) a in
    loaded_extent crs_facts b = r_ext b /\ r_shape b = r_shape a /\ r_id b = r_id a /\ r_desc b = r_desc a.
Proof. exact second_cycle_exact. Qed.
Example C13_cycles_ex :
  let a := @mk_area_rec R 1 2 3 None (Some UTkm) (5, 6)%Z (-100, -200, 300, 400) in
  let facts := fun _ : pentry => (false, Cm, fun _ : cu => (1000, 1)) in
  r_ext (cycles facts 3 a) = (-100 * (1000 * 1), -200 * (1000 * 1), 300 * (1000 * 1), 400 * (1000 * 1)) /\
  r_units (cycles facts 3 a) = Some UTm.
Proof. cbn zeta. split; reflexivity. Qed.

(* ------------------------------------------------------------------------------------------------------------
   8. Histories on one file: dump(filename) appends, the file may be rewritten or removed, loads (whole file, a selection,
      one id) are interleaved.  By induction over the history: every load returns exactly the areas the file holds at that
      moment (all of them in file order / the selection / AreaNotFound for an id that is not there / an error when there
      is no file); what was loaded or written earlier does not matter.  The harness drives the same histories through one
      path in one process and compares every load with the model's load_file on the current content. *)
Theorem C13_history_loads :
  forall (crs_facts : pentry -> bool * cu * (cu -> R * R)) (ops : list op) cur,
    (match cur with Some c => good crs_facts c | None => True end) -> ok_hist crs_facts ops cur ->
    run crs_facts ops (option_map (map dump_dict) cur) = expect crs_facts ops cur.
Proof. intros crs_facts ops. exact (history_loads crs_facts ops). Qed.
Print Assumptions C13_history_loads.
(* a history with an append after a load, a load by the new id, a rewrite, and a load of an id that is gone *)
Example C13_history_ex :
  let a1 := @mk_area_rec R 1 10 3 (Some 3857%Z) None (5, 6)%Z (-100, -200, 300, 400) in
  let a2 := @mk_area_rec R 2 20 3 (Some 3857%Z) None (7, 8)%Z (0, 0, 30, 40) in
  let facts := fun _ : pentry => (false, Cm, fun _ : cu => (1, 1)) in
  let ops := [OpDump a1; OpLoadAll; OpDump a2; OpLoadAll; OpLoadId 2; OpOverwrite [a2]; OpLoadId 1] in
  ok_hist facts ops None /\
  expect facts ops None = [Ok [loaded_of facts a1]; Ok [loaded_of facts a1; loaded_of facts a2]; Ok [loaded_of facts a2]; Err].
Proof.
  cbn zeta. split; [|reflexivity].
  assert (A1 : area_ok (fun _ : pentry => (false, Cm, fun _ : cu => (1, 1))) (@mk_area_rec R 1 10 3 (Some 3857%Z) None (5, 6)%Z (-100, -200, 300, 400))).
  { unfold area_ok. cbn. repeat split; try lia; try lra; try discriminate. }
  assert (A2 : area_ok (fun _ : pentry => (false, Cm, fun _ : cu => (1, 1))) (@mk_area_rec R 2 20 3 (Some 3857%Z) None (7, 8)%Z (0, 0, 30, 40))).
  { unfold area_ok. cbn. repeat split; try lia; try lra; try discriminate. }
  cbn [ok_hist app]. unfold good. cbn [map r_id].
  repeat split; auto; repeat constructor; auto; cbn; intuition lia.
Qed.
