(* placeholder while the harness is being brought up *)
From PR Require Import Model.AreaConfig Model.AreaYaml.
Theorem C13_placeholder : True. Proof. exact I. Qed.
