(* C17 — spherical polygon area and set operations obey the laws of area.
   Only statements here; proofs live in Proofs/C17_area.v and Proofs/C17_setops.v.

   What is proved is the STRUCTURE of SphPolygon.area (Model/SphPoly.v: which azimuth differences, the single
   conditional "+ 2 pi", the sum, the (n-2) pi term, the radius factor) and of _bool_oper's case analysis.  The
   spherical trigonometry itself is an oracle: [az x p] stands for the arctan2 expression (azimuth of x seen from
   the pivot p), and the geometric meaning of the edge walk is the named hypothesis record [geometry_ok].  The
   harness checks those oracles numerically on the implementation (interior angles from tangent vectors, enclosed
   area by a triangle fan, common region by planar clipping). *)
From Coq Require Import Reals ZArith List Bool Lra Lia PrimFloat.
From PR Require Import Base.Num Base.RNum Base.F64 Base.Imp Model.SphPoly Model.SphTrigR Model.SphPolyObj Gen.GenC17 Gen.GenC17imp Proofs.C17_imp
     Proofs.C17_area Proofs.C17_setops Proofs.C17_walk Proofs.C17_gen Proofs.C17_hist.
Import ListNotations.
Open Scope R_scope.

(* cyclic relabelling: starting the vertex list at any vertex k gives the same area (the angle sum is a sum over
   the cyclic windows (v_i, v_i+1, v_i+2)) *)
Theorem C17_area_cyclic : forall (V : Type) (az : V -> V -> R) (k : nat) (vs : list V) (r : R),
  area RO V az PI (skipn k vs ++ firstn k vs) r = area RO V az PI vs r.
Proof. exact area_cyclic_k. Qed.
Print Assumptions C17_area_cyclic.

(* the area scales with the square of the radius *)
Theorem C17_area_radius_sq : forall (V : Type) (az : V -> V -> R) (vs : list V) (r : R),
  area RO V az PI vs r = area RO V az PI vs 1 * r ^ 2.
Proof. exact area_radius_sq. Qed.
Print Assumptions C17_area_radius_sq.

(* polygon + inverse (reversed vertex list) = whole sphere, provided no vertex angle is degenerate: at every cyclic
   window (a, p, b) the two azimuths differ (az a p - az b p <> 0; the code adds 2 pi only to negative differences,
   so a zero difference counts 0 in both orientations) *)
Theorem C17_area_inverse_4pi : forall (V : Type) (az : V -> V -> R) (vs : list V) (r : R),
  nondegenerate V az vs ->
  area RO V az PI vs r + area RO V az PI (inverse vs) r = 4 * PI * r ^ 2.
Proof. exact area_inverse_4pi. Qed.
Print Assumptions C17_area_inverse_4pi.
Example C17_inverse_ex : nondegenerate nat (fun x _ => INR x) [0%nat; 1%nat; 2%nat].
Proof. unfold nondegenerate, windows. cbn. repeat (apply Forall_cons; [cbn; lra|]). apply Forall_nil. Qed.

(* history on one object: invert() twice restores the vertex list, hence the area (after invert() the polygon is the
   inverse: C17_area_inverse_4pi applies to it) *)
Theorem C17_invert_twice : forall (V : Type) (az : V -> V -> R) (vs : list V) (r : R),
  inverse (inverse vs) = vs /\ area RO V az PI (inverse (inverse vs)) r = area RO V az PI vs r.
Proof. intros. unfold inverse. rewrite rev_involutive. split; reflexivity. Qed.
Print Assumptions C17_invert_twice.

(* histories of calls on ONE object (area(), inverse(), invert() in any order and number): after every call the
   object is the given polygon or its inverse, according to the parity of the invert() calls so far; inverse() and
   area() leave the object alone; and whatever inverse() returned, at any point of the history, satisfies the 4 pi law
   together with the object as it is at that point (so the law holds in either order of evaluation and on re-use) *)
Theorem C17_history_state : forall (V : Type) (vs : list V) (h : list pop),
  fold_left pstep h vs = (if Nat.even (inverts h) then vs else inverse vs) /\
  pstep vs PInverse = vs /\ pstep vs PArea = vs.
Proof. intros. split; [apply history_state | apply pure_calls]. Qed.
Print Assumptions C17_history_state.
Theorem C17_history_inverse_law : forall (V : Type) (az : V -> V -> R) (vs : list V) (r : R) (h : list pop),
  nondegenerate V az vs ->
  Forall (fun e => (fst e = vs \/ fst e = inverse vs) /\
                   forall q, snd e = Some q -> area RO V az PI (fst e) r + area RO V az PI q r = 4 * PI * r ^ 2)
         (ptrace vs h).
Proof. intros V az vs r h ND. exact (history_law V az vs r ND h). Qed.
Print Assumptions C17_history_inverse_law.
Example C17_history_ex : ptrace [1; 2; 3]%Z [PInverse; PArea; PInvert; PInverse] =
  [([1; 2; 3], Some [3; 2; 1]); ([1; 2; 3], None); ([3; 2; 1], None); ([3; 2; 1], Some [1; 2; 3])]%Z.
Proof. reflexivity. Qed.

(* additivity along the diagonal v0--vk of the polygon v0 :: l1 ++ vk :: l2.  Hypotheses, all about the oracle:
   az_range       every azimuth lies in (-pi, pi]  (the range of arctan2);
   inside_at ...  seen from v0 (resp. vk), turning from the direction of the next vertex towards the direction of
                  the previous vertex, the diagonal is met first: the diagonal leaves the vertex inside its angle *)
Theorem C17_area_additive_diagonal : forall (V : Type) (az : V -> V -> R) (v0 vk : V) (l1 l2 : list V) (r : R),
  l1 <> [] -> l2 <> [] -> az_range V az ->
  inside_at V az v0 (last l2 vk) (hd vk l1) vk ->
  inside_at V az vk (last l1 v0) (hd v0 l2) v0 ->
  area RO V az PI (v0 :: l1 ++ vk :: l2) r =
    area RO V az PI (v0 :: l1 ++ [vk]) r + area RO V az PI (vk :: l2 ++ [v0]) r.
Proof. exact area_additive_diagonal. Qed.
Print Assumptions C17_area_additive_diagonal.
(* a "square" 0 1 2 3 with diagonal 0--2: azimuths at the pivots 0 and 2 in steps of 1/2 rad *)
Definition ex_az (x p : nat) : R :=
  match p, x with
  | 0%nat, 1%nat => 1 / 2 | 0%nat, 2%nat => 1 | 0%nat, 3%nat => 3 / 2
  | 2%nat, 3%nat => 1 / 2 | 2%nat, 0%nat => 1 | 2%nat, 1%nat => 3 / 2
  | _, _ => 0
  end.
Example C17_additive_ex :
  az_range nat ex_az /\ inside_at nat ex_az 0%nat (last [3%nat] 2%nat) (hd 2%nat [1%nat]) 2%nat
  /\ inside_at nat ex_az 2%nat (last [1%nat] 0%nat) (hd 0%nat [3%nat]) 0%nat.
Proof.
  pose proof PI2_3_2 as P. unfold PI2 in P.
  split; [|split].
  - intros x p. unfold ex_az.
    destruct p as [|[|[|p]]]; destruct x as [|[|[|[|x]]]]; lra.
  - unfold inside_at, normR, ex_az, tau. cbn [last hd].
    destruct (Rltb (1 - 1 / 2) 0) eqn:E1, (Rltb (3 / 2 - 1 / 2) 0) eqn:E2;
      repeat match goal with H : Rltb _ _ = true |- _ => apply Rltb_true in H | H : Rltb _ _ = false |- _ => apply Rltb_false in H end; lra.
  - unfold inside_at, normR, ex_az, tau. cbn [last hd].
    destruct (Rltb (1 - 1 / 2) 0) eqn:E1, (Rltb (3 / 2 - 1 / 2) 0) eqn:E2;
      repeat match goal with H : Rltb _ _ = true |- _ => apply Rltb_true in H | H : Rltb _ _ = false |- _ => apply Rltb_false in H end; lra.
Qed.

(* rotation of the sphere, GIVEN that the azimuth oracle transforms like an azimuth: a rotation rho changes all
   azimuths at a pivot by the same offset, i.e. every difference of two azimuths by a whole number of turns *)
Theorem C17_area_rotation_if : forall (V : Type) (az : V -> V -> R) (rho : V -> V) (vs : list V) (r : R),
  az_range V az -> rotation_invariant V az rho ->
  area RO V az PI (map rho vs) r = area RO V az PI vs r.
Proof. exact area_rotation_if. Qed.
Print Assumptions C17_area_rotation_if.
(* two points exchanged by rho; the differences change by +-1 turn *)
Definition ex_az2 (x p : bool) : R :=
  match p, x with
  | false, false => PI | false, true => - PI / 2
  | true, false => PI / 2 | true, true => 0
  end.
Example C17_rotation_ex : az_range bool ex_az2 /\ rotation_invariant bool ex_az2 negb.
Proof.
  pose proof PI_RGT_0. split.
  - intros x p. destruct x, p; cbn; lra.
  - intros a p b. destruct a, p, b; cbn;
      ((exists 0%Z; lra) || (exists 1%Z; lra) || (exists (-1)%Z; lra)).
Qed.

(* set operations, PARTIAL: over a finitely additive measure mu >= 0 on the cells of the arrangement, and GIVEN
   the geometric correctness of the oracles for the pair (record geometry_ok: Arc.intersection finds a crossing
   exactly for properly overlapping polygons; _is_inside decides containment; the walk returns the boundary of the
   cells in both / in either polygon and terminates), the model's _bool_oper obeys:
   overlap   -> both results exist, area(inter) <= min, area(union) = area A + area B - area(inter);
                the same areas with the operands exchanged;
   disjoint  -> intersection is None;   A inside B -> the intersection is A itself (and the union is B). *)
Theorem C17_setops_laws_partial :
  forall (cell : Type) (cells : list cell) (mu : cell -> R), (forall c, In c cells -> 0 <= mu c) ->
  forall (T : Type) (OP : ops T) (enclosed : list node -> region cell)
         (Arr Arr' : arrangement) (i12 i21 i12' i21' : bool) (RA RB : region cell),
  geometry_ok cell cells OP enclosed Arr i12 i21 RA RB ->
  geometry_ok cell cells OP enclosed Arr' i12' i21' RB RA ->
  let res := result cell OP enclosed in
  (proper_overlap cell cells RA RB ->
     exists I U I' U',
       res Arr (-1)%Z i12 i21 RA RB = Some I /\ res Arr 1%Z i12 i21 RA RB = Some U /\
       res Arr' (-1)%Z i12' i21' RB RA = Some I' /\ res Arr' 1%Z i12' i21' RB RA = Some U' /\
       meas cell cells mu I = meas cell cells mu I' /\ meas cell cells mu U = meas cell cells mu U' /\
       meas cell cells mu I <= Rmin (meas cell cells mu RA) (meas cell cells mu RB) /\
       meas cell cells mu U = meas cell cells mu RA + meas cell cells mu RB - meas cell cells mu I) /\
  (rdisj cell cells RA RB -> nonempty cell cells RA -> nonempty cell cells RB ->
     res Arr (-1)%Z i12 i21 RA RB = None) /\
  (rsub cell cells RA RB ->
     res Arr (-1)%Z i12 i21 RA RB = Some RA /\ res Arr 1%Z i12 i21 RA RB = Some RB).
Proof. exact setops_laws. Qed.
Print Assumptions C17_setops_laws_partial.

(* Arc.get_next_intersection as modelled, over real distances: without a known crossing the result is a crossing
   of edge e with one of the offered edges, and no other such crossing is nearer to the start of e *)
Theorem C17_next_intersection_nearest : forall (side : bool) (Arr : @arrangement R) (e : Z) (others : list Z) (x : xing),
  get_next_intersection RO Arr side e others None = Some x ->
  (In x (res_list Arr side e others) /\ xe side x = e /\ In (xe (negb side) x) others) /\
  forall y, In y (res_list Arr side e others) -> xd side x <= xd side y.
Proof.
  intros side Arr e others x H. destruct (next_intersection_nearest side Arr e others x H) as (Hin & Hmin).
  destruct (res_list_on_edge side Arr e others x Hin) as (H1 & H2 & _). repeat split; assumption.
Qed.
Print Assumptions C17_next_intersection_nearest.
(* ... and after a known crossing k the result is another crossing of edge e, not nearer than k *)
Theorem C17_next_intersection_after : forall (side : bool) (Arr : @arrangement R) (e : Z) (others : list Z) (k : Z) (x : xing),
  get_next_intersection RO Arr side e others (Some k) = Some x ->
  In x (res_list Arr side e others) /\ xid x <> k /\
  exists y, In y (res_list Arr side e others) /\ xid y = k /\ xd side y <= xd side x.
Proof. exact next_intersection_after. Qed.
Print Assumptions C17_next_intersection_after.

(* ---------- the tie by translation: coq/Gen/GenC17.v is regenerated from /repo's SphPolygon.area and
   Arc._convert_to_angle on every run; these statements fail to type-check / prove when the source changes shape *)

(* the vectorised body of SphPolygon.area, for one cyclic window (a, p, b) of (lon, lat) vertices, is the model's
   [alpha] with the oracle az := the arctan2 expression [az_lonlat] *)
Theorem C17_gen_area_alpha : forall (T : Type) (OP : ops T) (sin cos : T -> T) (arctan2 : T -> T -> T) (pi : T) (a p b : T * T),
  gen_area_alpha OP sin cos arctan2 pi (snd a) (snd p) (snd b) (fst a) (fst p) (fst b)
  = alpha OP (T * T) (az_lonlat OP sin cos arctan2) pi a p b.
Proof. exact @gen_area_alpha_is_alpha. Qed.
Print Assumptions C17_gen_area_alpha.
(* the return statement of SphPolygon.area over sum(alpha) and len(self.lon) is the model's area *)
Theorem C17_gen_area_total : forall (T : Type) (OP : ops T) (sin cos : T -> T) (arctan2 : T -> T -> T) (pi : T)
    (vs : list (T * T)) (r la lp lb oa op ob : T),
  gen_area_total OP sin cos arctan2 pi la lp lb oa op ob
    (fsum OP (alphas OP (T * T) (az_lonlat OP sin cos arctan2) pi vs)) (Z.of_nat (length vs)) r
  = area OP (T * T) (az_lonlat OP sin cos arctan2) pi vs r.
Proof. exact @gen_area_total_is_area. Qed.
Print Assumptions C17_gen_area_total.

(* the hypothesis az_range is DISCHARGED for the arctan2 expression over the reals (atan2R built from Coq's atan) *)
Theorem C17_az_range_atan2 : az_range (R * R) az_real.
Proof. exact az_real_range. Qed.
Print Assumptions C17_az_range_atan2.
Theorem C17_area_additive_diagonal_atan2 : forall (v0 vk : R * R) (l1 l2 : list (R * R)) (r : R),
  l1 <> [] -> l2 <> [] ->
  inside_at (R * R) az_real v0 (last l2 vk) (hd vk l1) vk ->
  inside_at (R * R) az_real vk (last l1 v0) (hd v0 l2) v0 ->
  area RO (R * R) az_real PI (v0 :: l1 ++ vk :: l2) r =
    area RO (R * R) az_real PI (v0 :: l1 ++ [vk]) r + area RO (R * R) az_real PI (vk :: l2 ++ [v0]) r.
Proof. intros. apply area_additive_diagonal; auto. exact az_real_range. Qed.
Print Assumptions C17_area_additive_diagonal_atan2.
Theorem C17_area_rotation_atan2_if : forall (rho : R * R -> R * R) (vs : list (R * R)) (r : R),
  rotation_invariant (R * R) az_real rho ->
  area RO (R * R) az_real PI (map rho vs) r = area RO (R * R) az_real PI vs r.
Proof. intros. apply area_rotation_if; auto. exact az_real_range. Qed.
Print Assumptions C17_area_rotation_atan2_if.

(* Arc._convert_to_angle (the repaired turn direction): unsnapped, every cosine strictly between -1 and 1 gives the
   non-zero angle acos val, so np.sign of Arc.angle(..., snap=False) is never 0 for arcs that are not (anti)parallel *)
Theorem C17_unsnapped_angle_keeps_sign : forall val : R, -1 < val < 1 ->
  gen_convert_to_angle RO acos PI eps7 val false = acos val /\ 0 < acos val < PI.
Proof. exact convert_unsnapped. Qed.
Print Assumptions C17_unsnapped_angle_keeps_sign.
(* ... whereas the snapped angle (what the edge walk used before the repair) is 0 for a crossing angle that is not 0 *)
Theorem C17_snapped_angle_refuted : exists val : R, -1 < val < 1 /\ acos val <> 0 /\
  gen_convert_to_angle RO acos PI eps7 val true = 0.
Proof. exact convert_snapped_loses_sign. Qed.
Print Assumptions C17_snapped_angle_refuted.

(* the hypotheses are satisfiable: the crossing tables (Arc.intersection, distances, turn signs, _is_inside) of two
   real triangles A, B -- vertex 1 of A lies inside B, cut off by edge 2 of B -- as captured from the implementation,
   with the three cells 0 = A only, 1 = A and B, 2 = B only.  The model's walk returns (crossing 0, vertex A1,
   crossing 1) for the intersection and a 7-node boundary for the union. *)
Definition ex_tab12 : arrangement := mk_arr 3 3
  [ mk_xing 0 0 2 (0x1.5b3bf7ef44628p-2)%float (0x1.9765a1df14a29p-4)%float (-1) 1;
    mk_xing 1 1 2 (0x1.0d0ba5ddb7509p-5)%float (0x1.b16eefa01cc15p-5)%float 1 (-1) ].
Definition ex_tab21 : arrangement := mk_arr 3 3
  [ mk_xing 0 2 0 (0x1.9765a1df14a29p-4)%float (0x1.5b3bf7ef44628p-2)%float 1 (-1);
    mk_xing 1 2 1 (0x1.b16eefa01cc15p-5)%float (0x1.0d0ba5ddb7509p-5)%float (-1) 1 ].
Definition ex_cells : list nat := [0%nat; 1%nat; 2%nat].
Definition ex_RA : region nat := fun c => Nat.leb c 1.
Definition ex_RB : region nat := fun c => Nat.leb 1 c.
Definition ex_enclosed (l : list node) : region nat := fun c => if Nat.leb (length l) 3 then Nat.eqb c 1 else true.

Example C17_setops_ex_walks :
  bool_oper F64 ex_tab12 (-1) true false = RPoly [Cross 0; Vert false 1; Cross 1] /\
  bool_oper F64 ex_tab12 1 true false = RPoly [Cross 0; Vert true 0; Vert true 1; Vert true 2; Cross 1; Vert false 2; Vert false 0] /\
  bool_oper F64 ex_tab21 (-1) false true = RPoly [Cross 1; Cross 0; Vert true 1].
Proof. repeat split; vm_compute; reflexivity. Qed.

Lemma ex_overlap : proper_overlap nat ex_cells ex_RA ex_RB.
Proof.
  intros [H|[H|H]].
  - specialize (H 0%nat (or_introl eq_refl) eq_refl). discriminate.
  - specialize (H 2%nat (or_intror (or_intror (or_introl eq_refl))) eq_refl). discriminate.
  - specialize (H 1%nat (or_intror (or_introl eq_refl))). discriminate.
Qed.

Ltac ex_cells_tac := intros c Hc; cbn in Hc; destruct Hc as [<-|[<-|[<-|[]]]]; reflexivity.

Example C17_setops_ex :
  geometry_ok nat ex_cells F64 ex_enclosed ex_tab12 true false ex_RA ex_RB /\
  geometry_ok nat ex_cells F64 ex_enclosed ex_tab21 false true ex_RB ex_RA /\
  proper_overlap nat ex_cells ex_RA ex_RB.
Proof.
  assert (P' : proper_overlap nat ex_cells ex_RB ex_RA).
  { intros [H|[H|H]]; apply ex_overlap; [right; left; exact H | left; exact H | right; right].
    intros c Hc. rewrite andb_comm. now apply H. }
  split; [|split; [|exact ex_overlap]].
  - constructor.
    + split; [intros H; vm_compute in H; discriminate | intros H; exfalso; exact (ex_overlap H)].
    + intros H; vm_compute in H; discriminate.
    + intros H; vm_compute in H; discriminate.
    + intros l H. vm_compute in H. injection H as <-. ex_cells_tac.
    + intros l H. vm_compute in H. injection H as <-. ex_cells_tac.
    + intros l H. vm_compute in H. discriminate.
    + intros l H. vm_compute in H. discriminate.
  - constructor.
    + split; [intros H; vm_compute in H; discriminate | intros H; exfalso; exact (P' H)].
    + intros H; vm_compute in H; discriminate.
    + intros H; vm_compute in H; discriminate.
    + intros l H. vm_compute in H. injection H as <-. ex_cells_tac.
    + intros l H. vm_compute in H. injection H as <-. ex_cells_tac.
    + intros l H. vm_compute in H. discriminate.
    + intros l H. vm_compute in H. discriminate.
Qed.

(* ---------- code is model (third round): loop-carrying and stateful code translated by tools/py2coq_imp.py
   (coq/Gen/GenC17imp.v, regenerated from /repo on every run), geometry abstract *)

(* Arc.get_next_intersection -- the collecting loop, the sort, the scan with the take_next flag and its early returns --
   computes [gni]: the (crossing, arc) pairs kept, sorted, then the first pair (no known crossing) or the first pair
   after an occurrence of the known crossing that is not itself the known crossing.  No fuel: both loops are for loops. *)
Theorem C17_get_next_intersection_code_is_model :
  forall (P ARC : Type) (isect : ARC -> ARC -> option P) (keep : ARC -> ARC -> P -> bool)
         (sort_res : ARC -> list (P * ARC) -> list (P * ARC)) (peq : P -> P -> bool) (p0 : P) (a0 : ARC)
         (self : ARC) (arcs : list ARC) (known : option P),
  value_of (imp_get_next_intersection isect keep sort_res peq p0 a0 self arcs known)
  = COk (gni isect keep sort_res peq self arcs known).
Proof. exact @get_next_intersection_code_is_model. Qed.
Print Assumptions C17_get_next_intersection_code_is_model.

(* ... and [gni] on the crossing table (arcs = edge indices, points = table rows, sort = stable insertion sort on the
   distance column) is the hand model's get_next_intersection that the edge walk and the correspondence use; the arc
   it returns is the crossing's edge of the other polygon *)
Theorem C17_gni_is_table_model :
  forall (T : Type) (OP : ops T) (A : @arrangement T) (side : bool) (e : Z) (others : list Z) (known : option (@xing T)),
  let r := gni (tab_isect A side) (@tab_keep T) (fun _ => sort_pairs OP side) (@tab_peq T) e others known in
  fst r = get_next_intersection OP A side e others (option_map xid known) /\
  snd r = option_map (xe (negb side)) (fst r).
Proof. exact @gni_is_table_model. Qed.
Print Assumptions C17_gni_is_table_model.

(* SphPolygon.invert(): the object becomes [invert_obj] (both arrays reversed, the five column attributes re-read),
   its vertex list is the model's [inverse] *)
Theorem C17_invert_code_is_model :
  forall (V C F : Type) (col0 col1 : V -> F) (c0 c1 c2 : C -> F) (p : poly V C F),
  state_of (imp_invert col0 col1 c0 c1 c2 p) = COk (mk_imp_invert_st (invert_obj col0 col1 c0 c1 c2 p)) /\
  pv (invert_obj col0 col1 c0 c1 c2 p) = inverse (pv p).
Proof. exact @invert_code_is_model. Qed.
Print Assumptions C17_invert_code_is_model.
(* SphPolygon.inverse(): returns the polygon constructed from the reversed vertex array; the object is unchanged *)
Theorem C17_inverse_code_is_model :
  forall (V C F : Type) (new_poly : list V -> F -> poly V C F) (f0 : F) (p : poly V C F),
  value_of (imp_inverse new_poly f0 p) = COk (new_poly (inverse (pv p)) (pradius p)) /\
  match state_of (imp_inverse new_poly f0 p) with COk s => imp_inverse_self s = p | _ => False end.
Proof. exact @inverse_code_is_model. Qed.
Print Assumptions C17_inverse_code_is_model.
(* any history of area()/inverse()/invert() run on the TRANSLATED methods leaves the object's vertex list where the
   history model (C17_history_state, C17_history_inverse_law) says *)
Theorem C17_history_code_is_model :
  forall (V C F : Type) (col0 col1 : V -> F) (c0 c1 c2 : C -> F) (new_poly : list V -> F -> poly V C F) (f0 : F)
         (h : list pop) (p : poly V C F),
  pv (fold_left (obj_step col0 col1 c0 c1 c2 new_poly f0) h p) = fold_left pstep h (pv p).
Proof. exact @history_code_is_model. Qed.
Print Assumptions C17_history_code_is_model.
