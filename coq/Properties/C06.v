(* C06 — bilinear resampling interpolates: convex weights, exact on affine fields.
   Only statements here; proofs live in Proofs/C06_*.v.  Model: Model/Bilinear.v (one term for every arithmetic);
   RO = reals, RN = reals with a NaN (option R, None = NaN), F64 = binary64.
   Corner order: p1 upper left, p2 upper right, p3 lower left, p4 lower right; s horizontal, t vertical. *)
From Coq Require Import Reals ZArith List Bool Lra PrimFloat Sorted.
From PR Require Import Base.Num Base.RNum Base.F64 Model.Bilinear Model.BilinearRN Gen.GenC06
     Model.BilinearWrap Proofs.C04_knn
     Proofs.C06_real Proofs.C06_rn Proofs.C06_branches Proofs.C06_pixel Proofs.C06_gen Proofs.C06_f64 Proofs.C06_slices Proofs.C06_wrap.
Import ListNotations.
Open Scope R_scope.

(* ---- the weights: s, t in [0,1] => the four weights are in [0,1] and sum to 1 *)
Theorem C06_weights_convex : forall s t, in01 s -> in01 t ->
  in01 ((1 - s) * (1 - t)) /\ in01 (s * (1 - t)) /\ in01 ((1 - s) * t) /\ in01 (s * t) /\
  (1 - s) * (1 - t) + s * (1 - t) + (1 - s) * t + s * t = 1.
Proof. exact weights_convex. Qed.
Print Assumptions C06_weights_convex.
Example C06_weights_convex_ex : in01 (1 / 4) /\ in01 (2 / 3).
Proof. unfold in01. lra. Qed.

(* ---- _resample (in the code's operation order) is that weighted sum, so it stays within the corner values *)
Theorem C06_range_bounded : forall p1 p2 p3 p4 s t lo hi, in01 s -> in01 t ->
  lo <= p1 <= hi -> lo <= p2 <= hi -> lo <= p3 <= hi -> lo <= p4 <= hi ->
  lo <= resample RO p1 p2 p3 p4 s t <= hi.
Proof. intros. rewrite resample_RO_bilerp. apply bilerp_bounded; assumption. Qed.
Print Assumptions C06_range_bounded.
Theorem C06_constant_exact : forall c s t, resample RO c c c c s t = c.
Proof. intros. rewrite resample_RO_bilerp. apply bilerp_constant. Qed.
Print Assumptions C06_constant_exact.

(* ---- the quadratic of _calc_abc IS the collinearity condition of the target with the two points moving along
   the left (p1->p3) and right (p2->p4) sides *)
Theorem C06_quad_is_collinearity : forall p1 p2 p3 p4 oy ox t,
  let '(a, b, c) := calc_abc RO p1 p2 p3 p4 oy ox in
  let ax := fst p1 + t * (fst p3 - fst p1) in let ay := snd p1 + t * (snd p3 - snd p1) in
  let bx := fst p2 + t * (fst p4 - fst p2) in let by_ := snd p2 + t * (snd p4 - snd p2) in
  a * t * t + b * t + c = (bx - ax) * (oy - ay) - (by_ - ay) * (ox - ax).
Proof. exact calc_abc_RO_collinear. Qed.
Print Assumptions C06_quad_is_collinearity.

(* ---- (t, s): every non-NaN pair returned by _get_fractional_distances lies in [0,1]^2 -- for ANY input,
   NaN corners included *)
Theorem C06_st_in_unit_square : forall p1 p2 p3 p4 ox oy t s,
  fractional_distances RN p1 p2 p3 p4 ox oy = (Some t, Some s) -> in01 t /\ in01 s.
Proof. exact fractional_distances_RN_range. Qed.
Print Assumptions C06_st_in_unit_square.

(* ---- (t, s) solves the bilinear inverse, branch by branch.
   Named hypothesis H_surround: the corners lie in the four open quadrants around the target (what the corner choice
   guarantees when it finds all four, C06_corners_surround).  It implies q(0) q(1) < 0 for both quadratics, hence a root
   in [0,1]; so the linear fall-back -c/b is only used when a = 0 (where it is the root), and no a <> 0 / non-degeneracy
   hypothesis is needed: a zero denominator makes the result NaN, which the premise excludes. *)
Theorem C06_st_solves_inverse_irregular : forall p1 p2 p3 p4 ox oy t s, surrounds p1 p2 p3 p4 ox oy ->
  frac_irregular RN (lift_pt p1) (lift_pt p2) (lift_pt p3) (lift_pt p4) (Some oy) (Some ox) = (Some t, Some s) ->
  in01 t /\ in01 s /\ ox = bilerp (fst p1) (fst p2) (fst p3) (fst p4) s t /\ oy = bilerp (snd p1) (snd p2) (snd p3) (snd p4) s t.
Proof. exact frac_irregular_RN_inverse. Qed.
Print Assumptions C06_st_solves_inverse_irregular.
(* the uprights-parallel order moreover always succeeds *)
Theorem C06_st_solves_inverse_uprights : forall p1 p2 p3 p4 ox oy, surrounds p1 p2 p3 p4 ox oy ->
  exists t s, frac_uprights RN (lift_pt p1) (lift_pt p2) (lift_pt p3) (lift_pt p4) (Some oy) (Some ox) = (Some t, Some s)
    /\ in01 t /\ in01 s
    /\ ox = bilerp (fst p1) (fst p2) (fst p3) (fst p4) s t /\ oy = bilerp (snd p1) (snd p2) (snd p3) (snd p4) s t.
Proof. exact frac_uprights_RN_complete. Qed.
Print Assumptions C06_st_solves_inverse_uprights.
(* the parallelogram case: only under H_upright (x3 = x1, uprights vertical in the target projection) ... *)
Theorem C06_st_solves_inverse_parallelogram_if_upright : forall p1 p2 p3 ox oy t s,
  frac_parallelogram RN (lift_pt p1) (lift_pt p2) (lift_pt p3) (Some oy) (Some ox) = (Some t, Some s) ->
  fst p3 = fst p1 ->
  let p4 := (fst p2 + fst p3 - fst p1, snd p2 + snd p3 - snd p1) in
  in01 t /\ in01 s /\
  ox = bilerp (fst p1) (fst p2) (fst p3) (fst p4) s t /\ oy = bilerp (snd p1) (snd p2) (snd p3) (snd p4) s t.
Proof. exact frac_parallelogram_RN_inverse_if_upright. Qed.
Print Assumptions C06_st_solves_inverse_parallelogram_if_upright.
(* ... and refuted without it (sign of x_31 * t): a parallelogram with slanted uprights surrounding the target *)
Theorem C06_st_solves_inverse_parallelogram_refuted :
  exists p1 p2 p3 ox oy t s,
    let p4 := (fst p2 + fst p3 - fst p1, snd p2 + snd p3 - snd p1) in
    surrounds p1 p2 p3 p4 ox oy /\
    frac_parallelogram RN (lift_pt p1) (lift_pt p2) (lift_pt p3) (Some oy) (Some ox) = (Some t, Some s) /\
    ox <> bilerp (fst p1) (fst p2) (fst p3) (fst p4) s t.
Proof. exact frac_parallelogram_slanted_refuted. Qed.
Print Assumptions C06_st_solves_inverse_parallelogram_refuted.
(* the composition with the code's fall-through order: under H_surround a pair IS produced and solves the inverse
   (the parallelogram case is then never the one that answers) *)
Theorem C06_st_solves_inverse : forall p1 p2 p3 p4 ox oy, surrounds p1 p2 p3 p4 ox oy ->
  exists t s, fractional_distances RN (lift_pt p1) (lift_pt p2) (lift_pt p3) (lift_pt p4) (Some ox) (Some oy) = (Some t, Some s)
    /\ in01 t /\ in01 s
    /\ ox = bilerp (fst p1) (fst p2) (fst p3) (fst p4) s t /\ oy = bilerp (snd p1) (snd p2) (snd p3) (snd p4) s t.
Proof. exact fractional_distances_RN_correct. Qed.
Print Assumptions C06_st_solves_inverse.
Example C06_surrounds_ex : surrounds (-1, 1) (1, 2) (-2, -1) (2, -4) 0 0.      (* the irregular quadrilateral of test_bilinear.py *)
Proof. unfold surrounds. cbn. lra. Qed.

(* ---- affine fields: if (s, t) solves the inverse and the four data are an affine function of the corner positions,
   _resample returns the function at the target *)
Theorem C06_affine_exact : forall c0 cx cy x1 y1 x2 y2 x3 y3 x4 y4 ox oy s t,
  ox = bilerp x1 x2 x3 x4 s t -> oy = bilerp y1 y2 y3 y4 s t ->
  resample RO (c0 + cx * x1 + cy * y1) (c0 + cx * x2 + cy * y2) (c0 + cx * x3 + cy * y3) (c0 + cx * x4 + cy * y4) s t
  = c0 + cx * ox + cy * oy.
Proof. intros. subst ox oy. rewrite resample_RO_bilerp. apply bilerp_affine. Qed.
Print Assumptions C06_affine_exact.

(* ---- corner choice: when every quadrant has a neighbour, the chosen corners surround the target and each is the
   first neighbour (kd-tree order = distance order) of its open quadrant *)
Theorem C06_corners_surround : forall ox oy l c1 c2 c3 c4, found_corners RO ox oy l = Some (c1, c2, c3, c4) ->
  surrounds (nb_xy c1) (nb_xy c2) (nb_xy c3) (nb_xy c4) ox oy /\
  (forall q c, In (q, c) [(UL, c1); (UR, c2); (LL, c3); (LR, c4)] ->
     exists l1 l2, l = l1 ++ c :: l2 /\ forall m, In m l1 -> in_quadrant RO q ox oy m = false).
Proof. exact found_corners_surround. Qed.
Print Assumptions C06_corners_surround.
Example C06_corners_ex :
  found_corners RO 0 0 [(1, 1, 7%Z); (-1, 1, 3%Z); (2, 2, 9%Z); (-1, -1, 4%Z); (1, -1, 5%Z)]
  = Some ((-1, 1, 3%Z), (1, 1, 7%Z), (-1, -1, 4%Z), (1, -1, 5%Z)).
Proof.
  unfold found_corners, first_valid, in_quadrant. cbn [nb_x nb_y sub ltb ofZ RO].
  repeat match goal with |- context [Rltb ?a ?b] =>
    (replace (Rltb a b) with true by (symmetry; apply Rltb_true; lra)) || (replace (Rltb a b) with false by (symmetry; apply Rltb_false; lra)) end.
  reflexivity.
Qed.

(* ---- one output pixel, end to end (neighbours -> corners -> (t, s) -> weighted sum), over RN.
   Convexity needs no hypothesis at all: any produced value is a convex combination of the data at the four chosen
   corner indices, hence within their range, and a constant field is reproduced. *)
Theorem C06_pixel_convex : forall data l ox oy v, pixel RN data l ox oy = Some v ->
  let '(c1, c2, c3, c4) := four_corners RN ox oy l in
  exists d1 d2 d3 d4 s t,
    data (nb_i c1) = Some d1 /\ data (nb_i c2) = Some d2 /\ data (nb_i c3) = Some d3 /\ data (nb_i c4) = Some d4 /\
    in01 s /\ in01 t /\ v = bilerp d1 d2 d3 d4 s t.
Proof. exact pixel_convex. Qed.
Print Assumptions C06_pixel_convex.
Theorem C06_pixel_range_bounded : forall data l ox oy v lo hi, pixel RN data l ox oy = Some v ->
  (forall i d, data i = Some d -> lo <= d <= hi) -> lo <= v <= hi.
Proof.
  intros data l ox oy v lo hi H Hd. pose proof (pixel_convex data l ox oy v H) as Hc.
  destruct (four_corners RN ox oy l) as [[[c1 c2] c3] c4].
  destruct Hc as (d1 & d2 & d3 & d4 & s & t & H1 & H2 & H3 & H4 & Hs & Ht & ->).
  apply bilerp_bounded; eauto.
Qed.
Print Assumptions C06_pixel_range_bounded.
Theorem C06_pixel_constant_exact : forall c l ox oy v, pixel RN (fun _ => Some c) l ox oy = Some v -> v = c.
Proof.
  intros c l ox oy v H. pose proof (pixel_convex _ l ox oy v H) as Hc.
  destruct (four_corners RN ox oy l) as [[[c1 c2] c3] c4].
  destruct Hc as (d1 & d2 & d3 & d4 & s & t & H1 & H2 & H3 & H4 & Hs & Ht & ->).
  injection H1 as <-. injection H2 as <-. injection H3 as <-. injection H4 as <-. apply bilerp_constant.
Qed.
Print Assumptions C06_pixel_constant_exact.
(* Affine exactness, full strength in exact arithmetic.  H_found = "k (and the radius) large enough to surround the
   target": every open quadrant around the target holds a neighbour.  Then a value IS produced and equals the field. *)
Theorem C06_pixel_affine_exact : forall l ox oy data c0 cx cy c1 c2 c3 c4,
  found_corners RO ox oy l = Some (c1, c2, c3, c4) ->
  (forall n, In n l -> data (nb_i n) = c0 + cx * nb_x n + cy * nb_y n) ->
  pixel RN (fun i => Some (data i)) (map lift_nb l) (Some ox) (Some oy) = Some (c0 + cx * ox + cy * oy).
Proof. exact pixel_affine_exact. Qed.
Print Assumptions C06_pixel_affine_exact.

(* ---- what the theorems above do not cover: binary64 rounding.  The SAME model term run on binary64 accepts a (t, s)
   that misses the target by > 9000 m on a 10 km grid (near-parallel sides; known finding, replayed by the harness) *)
Theorem C06_float_inverse_refuted :
  let '(t, s) := fractional_distances F64 wit_p1 wit_p2 wit_p3 wit_p4 wit_ox wit_oy in
  (PrimFloat.ltb (fst wit_p1) wit_ox && PrimFloat.ltb wit_oy (snd wit_p1) && PrimFloat.ltb wit_ox (fst wit_p2) && PrimFloat.ltb wit_oy (snd wit_p2)
   && PrimFloat.ltb (fst wit_p3) wit_ox && PrimFloat.ltb (snd wit_p3) wit_oy && PrimFloat.ltb wit_ox (fst wit_p4) && PrimFloat.ltb (snd wit_p4) wit_oy
   && in01_64 t && in01_64 s
   && PrimFloat.ltb 9000 (PrimFloat.abs (PrimFloat.sub (bilerp64 (fst wit_p1) (fst wit_p2) (fst wit_p3) (fst wit_p4) s t) wit_ox)))%bool
  = true.
Proof. exact float_inverse_refuted. Qed.
Print Assumptions C06_float_inverse_refuted.

(* ... and corner choice does not guard the value: with NO neighbour in the lower-right quadrant the parallelogram case
   (three corners) still answers, and the fourth weight multiplies the datum of the first neighbour: 175 = (100+200+300+100)/4
   (known finding; the theorems above therefore carry "found_corners = Some ..." as a hypothesis) *)
Theorem C06_value_with_missing_corner_refuted :
  found_corners F64 0%float 0%float miss_l = None /\
  nb_i (corner F64 LR 0%float 0%float miss_l) = 10%Z /\
  fractional_distances F64 (-1, 1)%float (1, 1)%float (-1, -1)%float (PrimFloat.nan, PrimFloat.nan) 0%float 0%float = (0.5, 0.5)%float /\
  pixel F64 miss_data miss_l 0%float 0%float = 175%float.
Proof. exact value_with_missing_corner_f64. Qed.
Print Assumptions C06_value_with_missing_corner_refuted.

(* ---- tie to /repo: the kernels of the model are the definitions regenerated from the current source, for every
   arithmetic *)
Theorem C06_gen_kernels_are_model : forall (T : Type) (OP : ops T),
  (forall d lo hi, gen_find_outside OP d lo hi = outside OP d lo hi) /\
  (forall p1 p2 p3 p4 oy ox, gen_calc_abc OP (p1, p2, p3, p4) oy ox = calc_abc OP p1 p2 p3 p4 oy ox) /\
  (forall a b c lo hi, gen_solve_quadratic OP a b c lo hi = solve_quadratic OP a b c lo hi) /\
  (forall f y1 y2 y3 y4 oy, gen_solve_other OP f (y1, y2, y3, y4) oy = solve_other OP f y1 y2 y3 y4 oy) /\
  (forall p1 p2 p3 oy ox, gen_frac_parallelogram OP (p1, p2, p3) oy ox = frac_parallelogram OP p1 p2 p3 oy ox) /\
  (forall p1 p2 p3 p4 s t, gen_resample OP (p1, p2, p3, p4) (s, t) = resample OP p1 p2 p3 p4 s t).
Proof.
  intros T OP.
  split; [intros; apply gen_find_outside_eq|]. split; [intros; apply gen_calc_abc_eq|].
  split; [intros; apply gen_solve_quadratic_eq|]. split; [intros; apply gen_solve_other_eq|].
  split; [intros; apply gen_frac_parallelogram_eq|]. intros; apply gen_resample_eq.
Qed.
Print Assumptions C06_gen_kernels_are_model.
(* ... and so are the two quadratic branches (the star-argument / keyword calls included) and _invalid_s_and_t_to_nan *)
Theorem C06_gen_branches_are_model : forall (T : Type) (OP : ops T),
  (forall t s, gen_invalid_to_nan OP t s = invalid_to_nan OP (t, s)) /\
  (forall p1 p2 p3 p4 oy ox, gen_frac_irregular OP (p1, p2, p3, p4) oy ox = frac_irregular OP p1 p2 p3 p4 oy ox) /\
  (forall p1 p2 p3 p4 oy ox, gen_frac_uprights OP (p1, p2, p3, p4) oy ox = frac_uprights OP p1 p2 p3 p4 oy ox).
Proof.
  intros T OP. split; [intros; apply gen_invalid_to_nan_eq|]. split; [intros; apply gen_frac_irregular_eq|].
  intros; apply gen_frac_uprights_eq.
Qed.
Print Assumptions C06_gen_branches_are_model.

(* ---- the wrappers of the resampler classes.
   Range clip (XArrayBilinearResampler._limit_output_values_to_input, legacy get_sample_from_bil_info): the identity on
   every value the per-pixel kernel produces, for any non-negative margin; so the clipping (xarray, legacy) and the
   non-clipping (numpy) entry points agree in exact arithmetic.  The code's margin is positive. *)
Theorem C06_range_clip_keeps_pixel : forall data l ox oy v dmin dmax eps fill,
  pixel RN data l ox oy = Some v -> (forall i d, data i = Some d -> dmin <= d <= dmax) -> 0 <= eps ->
  limit_output RN (Some dmin) (Some dmax) (Some eps) fill (pixel RN data l ox oy) = Some v.
Proof. exact pixel_survives_range_clip. Qed.
Print Assumptions C06_range_clip_keeps_pixel.
Theorem C06_range_clip_nan_is_fill : forall dmin dmax eps fill, limit_output RN dmin dmax eps fill None = fill.
Proof. exact limit_output_RN_nan. Qed.
Print Assumptions C06_range_clip_nan_is_fill.
Theorem C06_range_margin_positive : forall dmin dmax, 0 < range_margin RO dmin dmax.
Proof. exact range_margin_RO_pos. Qed.
Print Assumptions C06_range_margin_positive.

(* _reshape_to_target_area (both classes): pixel i of the full target holds the result number rank(i) when the pixel has
   valid lon/lat and the fill otherwise; every band of 3-D data is placed on its own *)
Theorem C06_scatter_spec : forall (fill d : R) valid res i, (i < length valid)%nat ->
  length res = length (filter (fun b => b) valid) ->
  length (scatter fill valid res) = length valid /\
  nth i (scatter fill valid res) d = if nth i valid false then nth (rank valid i) res d else fill.
Proof. intros. split; [apply scatter_length|apply scatter_nth; assumption]. Qed.
Print Assumptions C06_scatter_spec.
Theorem C06_scatter_bands_independent : forall (fill : R) valid bands b,
  nth b (scatter_bands fill valid bands) [] = match nth_error bands b with Some r => scatter fill valid r | None => [] end.
Proof. intros. apply scatter_bands_nth. Qed.
Print Assumptions C06_scatter_bands_independent.
Example C06_scatter_ex : scatter 0 [true; false; true; true] [1; 2; 3] = [1; 0; 2; 3].
Proof. reflexivity. Qed.

(* ---- composition with the kd-tree contract (C04's knn_slots, an oracle checked on every run by C02/C04).
   H_sorted: the neighbours come in distance order; H_knn: they are the k nearest valid sources inside the radius.
   Then the corner chosen for a quadrant is the NEAREST source of that quadrant: no listed neighbour of the quadrant and no
   source left out of the list is nearer. *)
Theorem C06_corner_is_nearest_in_quadrant : forall (D : Z -> R) (n : Z) (radius ox oy : R) (l : list (R * R * Z)) (ds : list R),
  StronglySorted (fun a b => D (nb_i a) <= D (nb_i b)) l ->
  knn_slots D n radius (map (@nb_i R) l) ds ->
  forall q c, first_valid (in_quadrant RO q ox oy) l = Some c ->
  (forall m, In m l -> in_quadrant RO q ox oy m = true -> D (nb_i c) <= D (nb_i m)) /\
  (forall j, (0 <= j < n)%Z -> D j < radius -> ~ In j (map (@nb_i R) l) -> D (nb_i c) <= D j).
Proof. intros D n radius ox oy l ds Hs Hk. exact (corner_is_nearest_in_quadrant D n radius ox oy l Hs ds Hk). Qed.
Print Assumptions C06_corner_is_nearest_in_quadrant.

(* ---- look-up tables: (line, column) recombine to the flat position of the compacted source pixel the index refers
   to, and that pixel is a valid one *)
Open Scope Z_scope.
Theorem C06_slices_address_valid_pixel : forall ncols valid idx, 0 < ncols ->
  0 <= idx < Z.of_nat (length (valid_positions 0 valid)) ->
  let '(line, col) := line_col ncols valid idx in
  line * ncols + col = znth 0 (valid_positions 0 valid) idx /\ 0 <= col < ncols /\
  nth (Z.to_nat (line * ncols + col)) valid false = true.
Proof.
  intros ncols valid idx H Hi. pose proof (line_col_flat ncols valid idx H) as A. pose proof (line_col_valid ncols valid idx H Hi) as B.
  destruct (line_col ncols valid idx) as [line col]. tauto.
Qed.
Print Assumptions C06_slices_address_valid_pixel.
Example C06_slices_ex : line_col 3 [true; false; true; true; false; true] 2 = (1, 0).
Proof. reflexivity. Qed.
