(* C07 — bucket resampling conserves counts and sums and reports true per-cell statistics.
   Only statements here; proofs live in Proofs/C07_*.v; the model is Model/Bucket.v.

   Conventions.  [bk_cell_of OP a (x, y)] is the cell (row, column) that _get_indices assigns to the
   projected position (x, y), [bk_idx] the raveled index the statistics are binned by.  A datum is
   [option Z]: [None] = NaN, [Some v] an integer-valued float (exact data; float summation order of
   non-integer data is outside these theorems: IEEE gap).  [bk_cell_data OP a r c pts data] are the
   data of the points assigned to cell (r, c).  Theorems with [OP : ops T] hold for every arithmetic
   instance (reals and binary64 alike); theorems with [RO] are over the reals. *)
From Coq Require Import PrimFloat.
From Coq Require Import Reals ZArith List Lia Lra Bool Sorted Permutation.
From PR Require Import Base.Num Base.RNum Base.F64 Base.ZX Model.Grid Model.Bucket Gen.GenC07
     Proofs.Grid_real Proofs.C07_index Proofs.C07_hist Proofs.C07_minmax Proofs.C07_stats Proofs.C07_empty
     Proofs.C07_gen Proofs.C07_history Proofs.C07_compose Proofs.C07_imp.
From PR Require Import Base.Imp Model.ImpBucket Gen.GenC07imp Model.C07_imp_run.
From PR Require Model.CellIndex Proofs.C18_real.
Import ListNotations.

(* ------------------------------------------------------------------ cell <-> extent (reals) *)
(* North-up area: a point gets cell (r, c) iff it lies in [xmin + c dx, xmin + (c+1) dx) x
   (ymax - (r+1) dy, ymax - r dy]: the left and top border of a cell belong to it, the right and bottom
   border do not.  Hence x = xmin and y = ymax are inside, x = xmax and y = ymin are outside. *)
Theorem C07_cell_iff_extent : forall (a : area R) x y r c, bk_wf a -> bk_north_up a ->
  (bk_cell_of RO a (x, y) = Some (r, c) <->
   (0 <= c < width a)%Z /\ (0 <= r < height a)%Z /\
   xmin a + IZR c * dxR a <= x < xmin a + (IZR c + 1) * dxR a /\
   ymax a - (IZR r + 1) * dyR a < y <= ymax a - IZR r * dyR a)%R.
Proof. exact cell_iff_extent. Qed.
Print Assumptions C07_cell_iff_extent.

Theorem C07_cell_none_iff_outside : forall (a : area R) x y, bk_wf a -> bk_north_up a ->
  (bk_cell_of RO a (x, y) = None <-> ~ (xmin a <= x < xmax a /\ ymin a < y <= ymax a))%R.
Proof. exact cell_none_iff_outside. Qed.
Print Assumptions C07_cell_none_iff_outside.

(* any orientation (flipped extents give negative cell sizes; the closed border flips with the sign) *)
Theorem C07_cell_iff_extent_any_orientation : forall (a : area R) x y r c, bk_wf a ->
  (bk_cell_of RO a (x, y) = Some (r, c) <->
   (0 <= c < width a)%Z /\ (0 <= r < height a)%Z /\
   ((0 < dxR a -> xmin a + IZR c * dxR a <= x < xmin a + (IZR c + 1) * dxR a) /\
    (dxR a < 0 -> xmin a + (IZR c + 1) * dxR a < x <= xmin a + IZR c * dxR a)) /\
   ((0 < dyR a -> ymax a - (IZR r + 1) * dyR a < y <= ymax a - IZR r * dyR a) /\
    (dyR a < 0 -> ymax a - IZR r * dyR a <= y < ymax a - (IZR r + 1) * dyR a)))%R.
Proof. exact cell_iff_extent_general. Qed.
Print Assumptions C07_cell_iff_extent_any_orientation.

Definition ex_area : area R := mk_area 0%R 0%R 8%R 4%R 4 2.
Lemma ex_area_wf : bk_wf ex_area /\ bk_north_up ex_area.
Proof. unfold bk_wf, bk_north_up, ex_area; cbn. repeat split; try lia; try lra; intros H; lra. Qed.
(* a point on an interior cell border goes to the cell to its right / below *)
Example C07_cell_ex_border : bk_cell_of RO ex_area (2, 2)%R = Some (1, 1)%Z.
Proof.
  destruct ex_area_wf as [Hw Hn]. apply (cell_iff_extent ex_area 2 2 1 1 Hw Hn).
  unfold dxR, dyR, ex_area; cbn. repeat split; try lia; lra.
Qed.
(* the right outer edge is outside, the left outer edge inside *)
Example C07_cell_ex_right_edge : bk_cell_of RO ex_area (8, 1)%R = None.
Proof.
  destruct ex_area_wf as [Hw Hn]. apply (cell_none_iff_outside ex_area 8 1 Hw Hn). unfold ex_area; cbn. lra.
Qed.
Example C07_cell_ex_top_left : bk_cell_of RO ex_area (0, 4)%R = Some (0, 0)%Z.
Proof.
  destruct ex_area_wf as [Hw Hn]. apply (cell_iff_extent ex_area 0 4 0 0 Hw Hn).
  unfold dxR, dyR, ex_area; cbn. repeat split; try lia; lra.
Qed.

Open Scope Z_scope.

(* the raveled index names the cell: r*w + c for a point of cell (r, c), negative for a point outside *)
Theorem C07_idx_identifies_cell : forall {T} (OP : ops T) (a : area T) p r c,
  1 <= width a -> 0 <= c < width a -> 0 <= r < height a ->
  (bk_idx OP a p = r * width a + c <-> bk_cell_of OP a p = Some (r, c)).
Proof. intros T OP a p r c. exact (bk_idx_iff_cell OP a p r c). Qed.
Print Assumptions C07_idx_identifies_cell.
Theorem C07_idx_outside_negative : forall {T} (OP : ops T) (a : area T) p,
  bk_idx OP a p = match bk_cell_of OP a p with Some (r, c) => r * width a + c | None => - width a - 1 end.
Proof. intros T OP a p. exact (bk_idx_cell OP a p). Qed.
Print Assumptions C07_idx_outside_negative.

(* ------------------------------------------------------------------ counts *)
Theorem C07_count_conservation : forall {T} (OP : ops T) (a : area T) (pts : list (T * T)),
  1 <= width a -> 1 <= height a ->
  (forall r c, 0 <= c < width a -> 0 <= r < height a ->
     bk_count (bk_size a) (bk_idxs OP a pts) (r * width a + c)
     = Z.of_nat (length (filter (bk_in_cell OP a r c) pts))) /\
  sumZ (bk_cells (bk_size a) (bk_count (bk_size a) (bk_idxs OP a pts)))
  = Z.of_nat (length (filter (bk_inside OP a) pts)).
Proof.
  intros T OP a pts Hw Hh. split.
  - intros r c Hc Hr. apply count_cell; assumption.
  - apply count_total; assumption.
Qed.
Print Assumptions C07_count_conservation.

(* ------------------------------------------------------------------ sums *)
(* per cell, every configuration of fill_value / skipna / empty_bucket_value:
   the sum of the valid data of the cell's points ([bk_sum_spec]: with skipna=False a cell holding an
   invalid datum reports fill_value; a result equal to 0 is replaced by empty_bucket_value, as documented) *)
Theorem C07_sum_spec : forall {T} (OP : ops T) (a : area T) pts data fill skipna ebv r c,
  1 <= width a -> 0 <= c < width a -> 0 <= r < height a -> bk_data_ok fill data ->
  bk_get_sum (bk_size a) (bk_idxs OP a pts) data fill skipna ebv (r * width a + c)
  = bk_sum_spec fill skipna ebv (bk_cell_data OP a r c pts data).
Proof. intros T OP. exact (sum_cell OP). Qed.
Print Assumptions C07_sum_spec.

Theorem C07_sum_conservation : forall {T} (OP : ops T) (a : area T) pts data fill,
  1 <= width a -> 1 <= height a -> bk_data_ok fill data ->
  exists zs, bk_cells (bk_size a) (bk_get_sum (bk_size a) (bk_idxs OP a pts) data fill true (Some 0)) = map Some zs
             /\ sumZ zs = sumZ (bk_valid_vals fill (bk_inside_data OP a pts data)).
Proof. intros T OP. exact (sum_total OP). Qed.
Print Assumptions C07_sum_conservation.

(* ------------------------------------------------------------------ average *)
(* [bk_avg_spec]: sum / number of the cell's valid data (valid = not NaN and not equal to fill_value);
   fill_value if there is none or, with skipna=False, if the cell holds an invalid datum *)
Theorem C07_average_spec : forall (a : area R) pts data fill skipna r c,
  1 <= width a -> 0 <= c < width a -> 0 <= r < height a ->
  bk_get_average RO (bk_size a) (bk_idxs RO a pts) data fill skipna (r * width a + c)
  = let vs := bk_vals (bk_avg_data fill (bk_cell_data RO a r c pts data)) in
    if (Z.of_nat (length vs) =? 0)
       || negb (skipna || negb (existsb dat_isnan (bk_avg_data fill (bk_cell_data RO a r c pts data))))
    then option_map IZR fill
    else Some (IZR (sumZ vs) / IZR (Z.of_nat (length vs)))%R.
Proof. exact (average_cell RO). Qed.
Print Assumptions C07_average_spec.
Theorem C07_average_spec_any_arith : forall {T} (OP : ops T) (a : area T) pts data fill skipna r c,
  1 <= width a -> 0 <= c < width a -> 0 <= r < height a ->
  bk_get_average OP (bk_size a) (bk_idxs OP a pts) data fill skipna (r * width a + c)
  = bk_avg_spec OP fill skipna (bk_cell_data OP a r c pts data).
Proof. intros T OP. exact (average_cell OP). Qed.
Print Assumptions C07_average_spec_any_arith.

(* ------------------------------------------------------------------ min / max / abs max (finite data) *)
Theorem C07_min_spec : forall {T} (OP : ops T) (a : area T) pts data r c,
  1 <= width a -> 0 <= c < width a -> 0 <= r < height a -> bk_finite data ->
  bk_is_min (bk_cell_data OP a r c pts data) (bk_get_min (bk_size a) (bk_idxs OP a pts) data (r * width a + c)).
Proof. intros T OP. exact (min_cell OP). Qed.
Print Assumptions C07_min_spec.
Theorem C07_max_spec : forall {T} (OP : ops T) (a : area T) pts data r c,
  1 <= width a -> 0 <= c < width a -> 0 <= r < height a -> bk_finite data ->
  bk_is_max (bk_cell_data OP a r c pts data) (bk_get_max (bk_size a) (bk_idxs OP a pts) data (r * width a + c)).
Proof. intros T OP. exact (max_cell OP). Qed.
Print Assumptions C07_max_spec.
Theorem C07_absmax_spec : forall {T} (OP : ops T) (a : area T) pts data r c,
  1 <= width a -> 0 <= c < width a -> 0 <= r < height a -> bk_finite data ->
  bk_is_absmax (bk_cell_data OP a r c pts data) (bk_get_abs_max (bk_size a) (bk_idxs OP a pts) data (r * width a + c)).
Proof. intros T OP. exact (absmax_cell OP). Qed.
Print Assumptions C07_absmax_spec.

(* np.argsort's quicksort is not stable: the pick is the extreme value for EVERY arrangement of the
   points that is a permutation of the input sorted by value (ascending for min, descending for max) *)
Theorem C07_min_spec_any_sort : forall (pts s : list (Z * dat)) k,
  Permutation s pts -> bk_finite (map snd pts) -> StronglySorted ple s ->
  bk_is_min (bk_members k pts) (bk_pick s k).
Proof. intros pts s k Hp Hf Hs. rewrite pick_find. apply pick_is_min; assumption. Qed.
Print Assumptions C07_min_spec_any_sort.
Theorem C07_max_spec_any_sort : forall (pts s : list (Z * dat)) k,
  Permutation s pts -> bk_finite (map snd pts) -> StronglySorted pge s ->
  bk_is_max (bk_members k pts) (bk_pick s k).
Proof. intros pts s k Hp Hf Hs. rewrite pick_find. apply pick_is_max; assumption. Qed.
Print Assumptions C07_max_spec_any_sort.

(* _get_abs_max_from_min_max and _get_invalid_mask as regenerated from /repo agree with the model *)
Theorem C07_gen_abs_max_char : forall a b,
  Some (gen_abs_max_from_min_max RO (IZR a) (IZR b)) = option_map IZR (bk_absmax_of (Some a) (Some b)).
Proof. exact gen_abs_max_char. Qed.
Print Assumptions C07_gen_abs_max_char.
Theorem C07_gen_invalid_char : forall d f, gen_get_invalid_mask RO (IZR d) (IZR f) = bk_invalid (Some f) (Some d).
Proof. exact gen_invalid_char. Qed.
Print Assumptions C07_gen_invalid_char.

(* ------------------------------------------------------------------ fractions *)
Theorem C07_fraction_spec : forall (a : area R) pts data cat fill r c,
  1 <= width a -> 0 <= c < width a -> 0 <= r < height a -> length data = length pts ->
  bk_get_fraction RO (bk_size a) (bk_idxs RO a pts) data cat fill (r * width a + c)
  = let ms := bk_cell_data RO a r c pts data in
    if Z.of_nat (length ms) =? 0 then option_map IZR fill
    else Some (IZR (bk_cat_count cat ms) / IZR (Z.of_nat (length ms)))%R.
Proof. exact (fraction_cell RO). Qed.
Print Assumptions C07_fraction_spec.

Theorem C07_fractions_sum_1 : forall (a : area R) pts data cats fill r c,
  1 <= width a -> 0 <= c < width a -> 0 <= r < height a -> length data = length pts ->
  NoDup cats ->
  (forall d, In d (bk_cell_data RO a r c pts data) -> exists v, d = Some v /\ In v cats) ->
  bk_cell_data RO a r c pts data <> [] ->
  exists fs, map (fun cat => bk_get_fraction RO (bk_size a) (bk_idxs RO a pts) data cat fill (r * width a + c)) cats
             = map Some fs /\ Rsum fs = 1%R.
Proof. exact fractions_sum_1. Qed.
Print Assumptions C07_fractions_sum_1.

(* ------------------------------------------------------------------ empty cells *)
Theorem C07_empty_reported_empty : forall {T} (OP : ops T) (a : area T) pts data r c fill skipna ebv cat,
  1 <= width a -> 0 <= c < width a -> 0 <= r < height a ->
  bk_finite data -> length data = length pts ->
  filter (bk_in_cell OP a r c) pts = [] ->
  let k := r * width a + c in
  let size := bk_size a in
  let idxs := bk_idxs OP a pts in
  bk_count size idxs k = 0 /\
  bk_get_sum size idxs data fill skipna ebv k = (if dat_eqb ebv (Some 0) then Some 0 else ebv) /\
  bk_get_average OP size idxs data fill skipna k = bk_fill_T OP fill /\
  bk_get_min size idxs data k = None /\
  bk_get_max size idxs data k = None /\
  bk_get_abs_max size idxs data k = None /\
  bk_get_fraction OP size idxs data cat fill k = bk_fill_T OP fill.
Proof. intros T OP. exact (empty_cell OP). Qed.
Print Assumptions C07_empty_reported_empty.

(* ------------------------------------------------------------------ chunking *)
(* da.histogram: for EVERY list of chunks, the sum of the per-chunk histograms is the histogram of the
   concatenation (weights in any monoid: counts in Z, NaN-carrying sums) *)
Theorem C07_chunk_invariant : forall {V} (vadd : V -> V -> V) (vzero : V),
  (forall a b c, vadd (vadd a b) c = vadd a (vadd b c)) -> (forall a, vadd vzero a = a) -> (forall a, vadd a vzero = a) ->
  forall size (chunks : list (list (Z * V))) k,
  bk_hist_chunked vadd vzero size chunks k = bk_hist vadd vzero size (concat chunks) k.
Proof. intros V vadd vzero. exact (hist_chunk_invariant vadd vzero). Qed.
Print Assumptions C07_chunk_invariant.
Theorem C07_chunk_invariant_app : forall size (l1 l2 : list (Z * dat)) k,
  bk_hist oadd (Some 0) size (l1 ++ l2) k = oadd (bk_hist oadd (Some 0) size l1 k) (bk_hist oadd (Some 0) size l2 k).
Proof. exact (hist_app oadd (Some 0) oadd_assoc oadd_0_l oadd_0_r). Qed.
Print Assumptions C07_chunk_invariant_app.
(* two chunkings of the same points give the same counts and sums *)
Theorem C07_rechunk_same_result : forall size (chunks1 chunks2 : list (list (Z * dat))) k,
  concat chunks1 = concat chunks2 ->
  bk_hist_chunked oadd (Some 0) size chunks1 k = bk_hist_chunked oadd (Some 0) size chunks2 k.
Proof.
  intros size c1 c2 k E.
  rewrite !(hist_chunk_invariant oadd (Some 0) oadd_assoc oadd_0_l oadd_0_r). rewrite E. reflexivity.
Qed.
Print Assumptions C07_rechunk_same_result.
(* map_blocks over coordinate chunks: same indices as one block *)
Theorem C07_index_chunk_invariant : forall {T} (OP : ops T) (a : area T) (chunks : list (list (T * T))),
  bk_idxs_chunked OP a chunks = bk_idxs OP a (concat chunks).
Proof. intros T OP. exact (bk_idxs_chunk_invariant OP). Qed.
Print Assumptions C07_index_chunk_invariant.

(* ------------------------------------------------------------------ source tie (definitions regenerated from /repo) *)
(* _get_indices as it stands in /repo IS the model's index function, for every arithmetic (reals and binary64) *)
Theorem C07_gen_indices_char : forall {T} (OP : ops T) (a : area T) x y,
  gen_bucket_indices OP a x y = (fst (bk_xy_idx OP a (x, y)), snd (bk_xy_idx OP a (x, y)), bk_idx OP a (x, y)).
Proof. intros T OP. exact (gen_bucket_indices_char OP). Qed.
Print Assumptions C07_gen_indices_char.
(* the statistics are compositions of element-wise pieces ... *)
Theorem C07_get_sum_pieces : forall size idxs data fill skipna ebv k,
  bk_get_sum size idxs data fill skipna ebv k
  = let s := bk_hist oadd (Some 0) size (combine idxs (map (bk_weight fill) data)) k in
    bk_ebv_apply ebv (if skipna then s else bk_missing_apply (bk_count size (bk_missing_idxs fill idxs data) k) fill s).
Proof. exact get_sum_pieces. Qed.
Print Assumptions C07_get_sum_pieces.
Theorem C07_get_average_pieces : forall {T} (OP : ops T) size idxs data fill skipna k,
  bk_get_average OP size idxs data fill skipna k
  = bk_avg_cell OP (bk_get_sum size idxs (map (bk_avg_datum fill) data) None skipna (Some 0) k)
                   (bk_hist Z.add 0 size (combine idxs (bk_valid_flags (map (bk_avg_datum fill) data))) k) fill.
Proof. intros T OP. exact (get_average_pieces OP). Qed.
Print Assumptions C07_get_average_pieces.
Theorem C07_get_fraction_pieces : forall {T} (OP : ops T) size idxs data cat fill k,
  bk_get_fraction OP size idxs data cat fill k
  = bk_frac_cell OP (bk_hist Z.add 0 size (combine idxs (map (bk_cat_flag cat) data)) k) (bk_count size idxs k) fill.
Proof. intros T OP. exact (get_fraction_pieces OP). Qed.
Print Assumptions C07_get_fraction_pieces.
(* ... and each piece is the statement regenerated from get_sum / _mask_bins_with_nan_if_not_skipna / get_average / get_fractions:
   without float comparison for every arithmetic, with float comparisons over R on finite values and, NaN included, on binary64
   for every combination over {NaN, 0, 1, -1, 2, -3, 255, -999, 4095} (counts {0,1,2,3,7}) *)
Theorem C07_gen_sum_weight_char : forall {T} (OP : ops T) fill d,
  gen_sum_weight OP (bk_invalid fill d) (dat_embT OP d) = dat_embT OP (bk_weight fill d).
Proof. intros T OP. exact (gen_sum_weight_char OP). Qed.
Print Assumptions C07_gen_sum_weight_char.
Theorem C07_gen_sum_mask_missing_char : forall {T} (OP : ops T) m fill s,
  gen_sum_mask_missing m (dat_embT OP fill) (dat_embT OP s) = dat_embT OP (bk_missing_apply m fill s).
Proof. intros T OP. exact (gen_sum_mask_missing_char OP). Qed.
Print Assumptions C07_gen_sum_mask_missing_char.
Theorem C07_gen_sum_empty_bucket_char : forall s e,
  gen_sum_empty_bucket RO (IZR s) (IZR e) = match bk_ebv_apply (Some e) (Some s) with Some v => IZR v | None => 0%R end.
Proof. exact gen_sum_empty_bucket_char. Qed.
Print Assumptions C07_gen_sum_empty_bucket_char.
Theorem C07_gen_average_cell_char : forall s c fill, c <> 0 ->
  Some (gen_average_cell RO (IZR s) (IZR c) fill) = bk_avg_cell RO (Some s) c None.
Proof. exact gen_average_cell_char. Qed.
Print Assumptions C07_gen_average_cell_char.
Theorem C07_gen_fraction_cell_char : forall s c fill,
  Some (gen_fraction_cell RO (IZR s) (IZR c) (IZR fill)) = bk_frac_cell RO s c (Some fill).
Proof. exact gen_fraction_cell_char. Qed.
Print Assumptions C07_gen_fraction_cell_char.
Theorem C07_gen_fraction_flag_char : forall d cat, gen_fraction_flag RO (IZR d) (IZR cat) = IZR (bk_cat_flag cat (Some d)).
Proof. exact gen_fraction_flag_char. Qed.
Print Assumptions C07_gen_fraction_flag_char.
Theorem C07_gen_pieces_binary64 : chk_gen_pieces = true.
Proof. exact gen_pieces_f64. Qed.
Print Assumptions C07_gen_pieces_binary64.
Example C07_gen_average_cell_ex : bk_avg_cell RO (Some 3) 2 None = Some (3 / 2)%R /\ (2 <> 0).
Proof. split; [reflexivity | lia]. Qed.

(* ------------------------------------------------------------------ histories of calls on one object *)
(* self.idxs is re-chunked in place by get_sum / get_min / get_max and get_count memoises self.counts: for EVERY sequence of
   calls (with any data chunk layouts) on one object, every call returns what a fresh object holding the same indices returns *)
Theorem C07_history_independent : forall {T} (OP : ops T) size (chunks0 : list (list Z)) (calls : list bk_call),
  bk_run OP (mk_obj size chunks0 None) calls = map (bk_fresh OP size (concat chunks0)) calls.
Proof. intros T OP. exact (history_independent OP). Qed.
Print Assumptions C07_history_independent.
Theorem C07_get_sum_chunked_is_get_sum : forall size lens idxs data fill skipna ebv k,
  bk_get_sum_chunked size lens idxs data fill skipna ebv k = bk_get_sum size idxs data fill skipna ebv k.
Proof. exact get_sum_chunked_flat. Qed.
Print Assumptions C07_get_sum_chunked_is_get_sum.
(* get_average on data with missing values FIRST, then get_count / get_fractions: the memo holds the hit counts (2, 0, 2),
   not the valid-value counts (1, 0, 2) *)
Example C07_history_ex :
  bk_run F64 (mk_obj 3 [[0; 2]; [2; -4; 0]] None)
         [CallAvg [1%nat; 4%nat] [Some 1; Some 2; Some 4; Some 9; None] None true; CallCount;
          CallFrac [5%nat] [Some 1; Some 2; Some 2; Some 9; Some 5] 2 None;
          CallSum [1%nat; 4%nat] [Some 1; Some 2; None; Some 9; Some 5] None true (Some 0);
          CallMax [5%nat] [Some 1; Some 2; Some 3; Some 9; Some 5]; CallCount]
  = [ResF [Some 1%float; None; Some 3%float]; ResZ [2; 0; 2]; ResF [Some 0%float; None; Some 1%float];
     ResD [Some 6; Some 0; Some 2]; ResD [Some 5; None; Some 3]; ResZ [2; 0; 2]].
Proof. vm_compute. reflexivity. Qed.

(* ------------------------------------------------------------------ the stateful methods translated from /repo ARE the model
   (coq/Gen/GenC07imp.v, regenerated on every run by tools/py2coq_imp.py; self = the record bk_obj; the dask/numpy array
   expressions are the ib_* readings of Model/ImpBucket.v, named in the spec).  Each generated method returns (no raise, no fuel)
   the model's statistic of the flattened data and leaves self in the model's next state. *)
Theorem C07_get_count_code_is_model : forall o,
  exists st, imp_get_count o = Ret [] st (snd (bk_count_step o)) /\ imp_get_count_self st = fst (bk_count_step o).
Proof. exact get_count_code. Qed.
Print Assumptions C07_get_count_code_is_model.
Theorem C07_get_sum_code_is_model : forall o data fill skipna ebv,
  exists st, imp_get_sum o data fill skipna ebv
             = Ret [] st (bk_cells (o_size o) (bk_get_sum (o_size o) (concat (o_chunks o)) (concat data) fill skipna ebv))
             /\ imp_get_sum_self st = bk_rechunk (ib_lens data) o.
Proof. exact get_sum_code. Qed.
Print Assumptions C07_get_sum_code_is_model.
Theorem C07_get_min_max_code_is_model : forall o data fill skipna,
  (exists st, imp_get_min o data fill skipna
              = Ret [] st (bk_cells (o_size o) (bk_get_min (o_size o) (concat (o_chunks o)) (concat data)))
              /\ imp_get_min_self st = bk_rechunk (ib_lens data) o) /\
  (exists st, imp_get_max o data fill skipna
              = Ret [] st (bk_cells (o_size o) (bk_get_max (o_size o) (concat (o_chunks o)) (concat data)))
              /\ imp_get_max_self st = bk_rechunk (ib_lens data) o) /\
  (exists st, imp_get_abs_max o data fill skipna
              = Ret [] st (bk_cells (o_size o) (bk_get_abs_max (o_size o) (concat (o_chunks o)) (concat data)))
              /\ imp_get_abs_max_self st = bk_rechunk (ib_lens data) o).
Proof. intros. split; [apply get_min_code | split; [apply get_max_code | apply get_abs_max_code]]. Qed.
Print Assumptions C07_get_min_max_code_is_model.
Theorem C07_get_average_code_is_model : forall {T} (OP : ops T) o data fill skipna,
  exists st, imp_get_average OP o data fill skipna
             = Ret [] st (bk_cells (o_size o) (bk_get_average OP (o_size o) (concat (o_chunks o)) (concat data) fill skipna))
             /\ imp_get_average_self st = bk_rechunk (ib_lens data) o.
Proof. intros T OP. exact (get_average_code OP). Qed.
Print Assumptions C07_get_average_code_is_model.
(* get_fractions: the loop over the categories fills the result dict with the per-category fractions taken over the MEMOISED
   counts (self.get_count()), and leaves the memo filled *)
Theorem C07_get_fractions_code_is_model : forall {T} (OP : ops T) o data cats fill,
  exists st, imp_get_fractions OP o data cats fill
             = Ret [] st (frac_results OP (o_size o) (concat (o_chunks o)) (concat data) fill (snd (bk_count_step o)) cats [])
             /\ o_size (imp_get_fractions_self st) = o_size o
             /\ concat (o_chunks (imp_get_fractions_self st)) = concat (o_chunks o)
             /\ o_counts (imp_get_fractions_self st) = Some (snd (bk_count_step o)).
Proof. intros T OP. exact (get_fractions_code OP). Qed.
Print Assumptions C07_get_fractions_code_is_model.
(* for EVERY sequence of calls of the generated methods on one object, every call returns what the pure model functions give
   for a fresh object holding the same indices (memo and re-chunking are invisible) *)
Theorem C07_history_independent_code : forall {T} (OP : ops T) size (chunks0 : list (list Z)) (calls : list icall),
  imp_run OP (mk_obj size chunks0 None) calls = Some (map (imp_fresh OP size (concat chunks0)) calls).
Proof. intros T OP. exact (imp_history_independent OP). Qed.
Print Assumptions C07_history_independent_code.
Example C07_history_code_ex :
  imp_run F64 (mk_obj 3 [[0; 2]; [2; -4; 0]] None)
          [IAvg [[Some 1]; [Some 2; Some 4; Some 9; None]] None true; ICount;
           IFrac [[Some 1; Some 2; Some 2; Some 9; Some 5]] [2; 9] None; IMax [[Some 1; Some 2]; [Some 3; Some 9; Some 5]]; ICount]
  = Some [IFl [Some 1%float; None; Some 3%float]; IZ [2; 0; 2];
          IFr [(2, [Some 0%float; None; Some 1%float]); (9, [Some 0%float; None; Some 0%float])];
          ID [Some 5; None; Some 3]; IZ [2; 0; 2]].
Proof. vm_compute. reflexivity. Qed.

(* ------------------------------------------------------------------ composition with C18 *)
(* the cell a point is counted in is the cell grid.get_linesample and GridFilter assign to it (off the border lines; C18) *)
Theorem C07_counted_cell_is_common_cell : forall (a : area R) x y,
  wf_area a -> C18_real.fits_int32 a -> C18_real.off_border a x y ->
  bk_cell_of RO a (x, y) = CellIndex.grid_cell RO a x y /\ bk_cell_of RO a (x, y) = CellIndex.gf_cell RO a x y.
Proof. exact counted_cell_is_common_cell. Qed.
Print Assumptions C07_counted_cell_is_common_cell.

(* ------------------------------------------------------------------ round_to_resolution (regenerated from /repo) *)
Theorem C07_round_to_resolution_nearest : forall arr res, res <> 0%R ->
  exists k : Z, gen_round_to_resolution RO arr res = (res * IZR k)%R
                /\ (Rabs (gen_round_to_resolution RO arr res - arr) <= Rabs res / 2)%R.
Proof. exact round_to_resolution_nearest. Qed.
Print Assumptions C07_round_to_resolution_nearest.
Example C07_round_to_resolution_ex : gen_round_to_resolution F64 7.4%float 0.5%float = 7.5%float.
Proof. vm_compute. reflexivity. Qed.

(* ------------------------------------------------------------------ non-vacuity on binary64 *)
Definition exF : area float := mk_area 0%float 0%float 8%float 4%float 4 2.
Definition ex_pts : list (float * float) :=
  [(0, 4); (8, 4); (2, 2); (2.5, 1.5); (3, 0.5); (7.5, 3.5); (0.5, 3.5); (-1, 1)]%float.
Definition ex_data : list dat := [Some 1; Some 2; Some (-3); Some 3; Some 5; Some 7; Some (-4); Some 9].
Example C07_ex_idxs : bk_idxs F64 exF ex_pts = [0; -5; 5; 5; 5; 3; 0; -5].
Proof. vm_compute. reflexivity. Qed.
Example C07_ex_count : bk_cells 8 (bk_count 8 (bk_idxs F64 exF ex_pts)) = [2; 0; 0; 1; 0; 3; 0; 0].
Proof. vm_compute. reflexivity. Qed.
Example C07_ex_sum : bk_cells 8 (bk_get_sum 8 (bk_idxs F64 exF ex_pts) ex_data None true (Some 0))
  = map Some [-3; 0; 0; 7; 0; 5; 0; 0].
Proof. vm_compute. reflexivity. Qed.
Example C07_ex_min : bk_cells 8 (bk_get_min 8 (bk_idxs F64 exF ex_pts) ex_data)
  = [Some (-4); None; None; Some 7; None; Some (-3); None; None].
Proof. vm_compute. reflexivity. Qed.
Example C07_ex_max : bk_cells 8 (bk_get_max 8 (bk_idxs F64 exF ex_pts) ex_data)
  = [Some 1; None; None; Some 7; None; Some 5; None; None].
Proof. vm_compute. reflexivity. Qed.
Example C07_ex_absmax : bk_cells 8 (bk_get_abs_max 8 (bk_idxs F64 exF ex_pts) ex_data)
  = [Some (-4); None; None; Some 7; None; Some 5; None; None].
Proof. vm_compute. reflexivity. Qed.
Example C07_ex_avg :
  map (bk_get_average F64 8 (bk_idxs F64 exF ex_pts) ex_data None true) [0; 1; 3]
  = [Some (-1.5)%float; None; Some 7%float].
Proof. vm_compute. reflexivity. Qed.
(* categories covering all values of the cell: the fractions are 1/2 + 1/2 *)
Example C07_ex_fractions :
  map (fun cat => bk_get_fraction F64 8 (bk_idxs F64 exF ex_pts) ex_data cat None 0) [1; -4; 7]
  = [Some 0.5%float; Some 0.5%float; Some 0%float]
  /\ NoDup [1; -4; 7] /\ bk_cell_data F64 exF 0 0 ex_pts ex_data = [Some 1; Some (-4)].
Proof.
  split; [vm_compute; reflexivity|]. split; [|vm_compute; reflexivity].
  repeat constructor; cbn; intuition discriminate.
Qed.
Example C07_ex_empty : filter (bk_in_cell F64 exF 0 1) ex_pts = [] /\ filter (bk_in_cell F64 exF 1 1) ex_pts <> [].
Proof. split; vm_compute; [reflexivity | discriminate]. Qed.
Example C07_ex_data_ok : bk_finite ex_data /\ bk_data_ok None ex_data.
Proof. split; repeat constructor; try discriminate; right; discriminate. Qed.
Example C07_ex_sorted : StronglySorted ple (bk_sort (combine (bk_idxs F64 exF ex_pts) ex_data)).
Proof. apply sort_sorted. Qed.
Example C07_ex_chunked :
  bk_cells 8 (bk_hist_chunked oadd (Some 0) 8
     [[(0, Some 1); (-5, Some 2)]; []; [(5, Some (-3))]; [(5, Some 3); (5, Some 5); (3, Some 7); (0, Some (-4)); (-5, Some 9)]])
  = map Some [-3; 0; 0; 7; 0; 5; 0; 0].
Proof. vm_compute. reflexivity. Qed.
