(* C16 - a geometry's boundary is a closed, clockwise ring of its own edge pixels.
   Only statements here; proofs live in Proofs/C16_*.v.

   The model (Model/Boundary.v) follows geometry.py after the two repairs
   (_get_bbox_slices clips the number of vertices of a side to the side;
    _get_geostationary_boundary_sides splits the vertices actually returned).
   [r_sides] is the model instantiated with real arithmetic; the binary64 instance is the one compared
   with the implementation on every run.
   NOT proved (spherical geometry, validated by search on the implementation only):
     H_corner_is_clockwise   _corner_is_clockwise returns True iff the ring turns clockwise at the first corner
     H_footprint             the clockwise ring encloses the footprint (area below a hemisphere, equal to the
                             footprint's area up to discretisation, interior pixel centres inside, far points outside)
     H_geos_intersection     shapely returns the vertices of (extent /\ Earth disk polygon) *)
From Coq Require Import Reals ZArith List Lia Bool Sorted PrimFloat.
From PR Require Import Base.Num Base.RNum Base.F64 Model.Boundary
     Gen.GenC16 Proofs.C16_idx Proofs.C16_ring Proofs.C16_f64 Proofs.C16_geos Proofs.C16_gen Proofs.C16_legacy Proofs.C16_decimate Proofs.C16_nan
     Base.Imp Model.ImpBoundary Gen.GenC16imp Proofs.C16_imp_nan Proofs.C16_imp_state Proofs.C16_imp_decimate.
Import ListNotations.
Open Scope Z_scope.

(* the tie to the source: the Gallina definition regenerated from BaseDefinition._get_bbox_slices of /repo on every run
   (Gen/GenC16.v; vertices_per_side an int, resp. None), with Python's negative indices resolved, IS the side model,
   over any arithmetic (so both over the reals, where the theorems below live, and over binary64) *)
Theorem C16_generated_slices_are_model : forall (T : Type) (OP : ops T) h w,
  (forall v, resolve_slices h w (gen_bbox_slices_some OP (mk_geom (h, w)) v)
             = bbox_sides (linspace_idx OP) (linspace_idx_desc OP) h w (Some v))
  /\ resolve_slices h w (gen_bbox_slices_none OP (mk_geom (h, w)) tt)
     = bbox_sides (linspace_idx OP) (linspace_idx_desc OP) h w None.
Proof.
  intros T OP h w. split; [intros v; apply gen_bbox_slices_some_is_model|apply gen_bbox_slices_none_is_model].
Qed.
Print Assumptions C16_generated_slices_are_model.
Example C16_generated_ex : resolve_slices 4 3 (gen_bbox_slices_some F64 (mk_geom (4, 3)) 6) =
  [[(0, 0); (0, 1); (0, 2)]; [(0, 2); (1, 2); (2, 2); (3, 2)]; [(3, 2); (3, 1); (3, 0)]; [(3, 0); (2, 0); (1, 0); (0, 0)]].
Proof. vm_compute. reflexivity. Qed.

(* np.linspace(0, n-1, m, dtype=int) in exact arithmetic is entry i -> floor(i (n-1) / (m-1)); the descending
   table np.linspace(n-1, 0, m, dtype=int) is its reversal *)
Theorem C16_idx_real_is_integer : forall n m, 1 <= n -> (2 <= m)%nat ->
  linspace_idx RO n m = idx_list n m /\ linspace_idx_desc RO n m = rev (idx_list n m).
Proof.
  intros n m Hn Hm. split; [apply linspace_idx_RO; assumption|].
  rewrite linspace_idx_desc_RO by assumption. apply idx_list_desc_rev.
Qed.
Print Assumptions C16_idx_real_is_integer.

(* m indices in 0..n-1, first 0, last n-1, non-decreasing; STRICTLY increasing iff m <= n
   (so asking for more vertices than the side has pixels must repeat a pixel) *)
Theorem C16_idx_spec : forall n m, 1 <= n -> (2 <= m)%nat ->
  let t := linspace_idx RO n m in
  length t = m
  /\ (forall i, (i < m)%nat -> 0 <= nth i t 0 <= n - 1)
  /\ nth 0 t 0 = 0 /\ nth (m - 1) t 0 = n - 1
  /\ non_decreasing t
  /\ (strictly_increasing t <-> Z.of_nat m <= n).
Proof. intros n m Hn Hm. cbv zeta. rewrite linspace_idx_RO by assumption. apply idx_list_spec; assumption. Qed.
Print Assumptions C16_idx_spec.
Example C16_idx_ex : idx_list 10 4 = [0; 3; 6; 9] /\ idx_list 3 5 = [0; 0; 1; 1; 2].
Proof. split; reflexivity. Qed.

(* the same specification holds for the binary64 tables (numpy's own arithmetic: start + i*step rounded, then floor)
   for every side length 1..48 and vertex count 2..49, ascending and descending - by computation inside Coq.
   (Single entries differ from the integer table by rounding, first for n = 27, m = 47.) *)
Theorem C16_idx_f64_spec : forall n m : nat, (1 <= n <= 48)%nat -> (2 <= m <= 49)%nat ->
  table_spec_b (Z.of_nat n) m (linspace_idx F64 (Z.of_nat n) m) = true
  /\ table_spec_b (Z.of_nat n) m (rev (linspace_idx_desc F64 (Z.of_nat n) m)) = true.
Proof. exact f64_tables_spec. Qed.
Print Assumptions C16_idx_f64_spec.

(* every vertex of every side is a pixel of the first/last row or column of the h x w geometry *)
Theorem C16_ring_on_edge_pixels : forall h w vps, 2 <= h -> 2 <= w -> vps_ok vps ->
  Forall (Forall (on_edge h w)) (r_sides h w vps).
Proof. intros h w vps Hh Hw Hv. rewrite r_sides_eq by assumption. apply ring_on_edge_pixels; assumption. Qed.
Print Assumptions C16_ring_on_edge_pixels.
Example C16_sides_ex : c_sides 4 3 (Some 6) =
  [[(0, 0); (0, 1); (0, 2)]; [(0, 2); (1, 2); (2, 2); (3, 2)]; [(3, 2); (3, 1); (3, 0)]; [(3, 0); (2, 0); (1, 0); (0, 0)]].
Proof. reflexivity. Qed.

(* each side ends where the next begins, cyclically; also after _reverse_boundaries *)
Theorem C16_ring_closed : forall h w vps, 2 <= h -> 2 <= w -> vps_ok vps ->
  closed4 (r_sides h w vps) /\ closed4 (reverse_boundaries (r_sides h w vps)).
Proof. intros h w vps Hh Hw Hv. rewrite r_sides_eq by assumption. apply ring_closed; assumption. Qed.
Print Assumptions C16_ring_closed.
Theorem C16_reverse_keeps_closed : forall (A : Type) (S : list (list A)), closed4 S -> closed4 (reverse_boundaries S).
Proof. intros A. exact (@closed4_reverse A). Qed.
Print Assumptions C16_reverse_keeps_closed.

(* for explicit numbers of vertices per row-side (cn) and column-side (rn): the contour (sides without their
   last vertex) is free of repetitions iff neither exceeds its side *)
Theorem C16_ring_no_repeat_iff : forall h w rn cn, 2 <= h -> 2 <= w -> (2 <= rn)%nat -> (2 <= cn)%nat ->
  NoDup (contour (r_sides_num h w rn cn)) <-> (Z.of_nat cn <= w /\ Z.of_nat rn <= h).
Proof. intros h w rn cn Hh Hw Hr Hc. rewrite r_sides_num_eq by assumption. apply ring_no_repeat_iff; assumption. Qed.
Print Assumptions C16_ring_no_repeat_iff.

(* the code as it is now (vertices per side clipped to the side): no vertex is repeated, for every
   vertices_per_side >= 2 or None, also in coordinates when the coordinates of the edge pixels are distinct *)
Theorem C16_ring_no_repeat : forall (C : Type) (coord : pix -> C) h w vps, 2 <= h -> 2 <= w -> vps_ok vps ->
  (forall p q, on_edge h w p -> on_edge h w q -> coord p = coord q -> p = q) ->
  NoDup (contour (r_sides h w vps)) /\ NoDup (map coord (contour (r_sides h w vps))).
Proof.
  intros C coord h w vps Hh Hw Hv Hinj. rewrite r_sides_eq by assumption. split.
  - apply ring_no_repeat; assumption.
  - apply ring_no_repeat_coords; assumption.
Qed.
Print Assumptions C16_ring_no_repeat.
Example C16_no_repeat_ex : vps_ok (Some 6) /\ contour (c_sides 4 3 (Some 6)) =
  [(0, 0); (0, 1); (0, 2); (1, 2); (2, 2); (3, 2); (3, 1); (3, 0); (2, 0); (1, 0)].
Proof. split; [cbn; lia|reflexivity]. Qed.

(* the code before the repair (row_num = col_num = vertices_per_side): repeated vertices exactly when
   vertices_per_side exceeds a side *)
Theorem C16_ring_repeats_before_fix : forall h w v, 2 <= h -> 2 <= w -> 2 <= v ->
  NoDup (contour (r_sides_unclipped h w (Some v))) <-> (v <= w /\ v <= h).
Proof. intros h w v Hh Hw Hv. rewrite r_sides_unclipped_eq by assumption. apply ring_repeats_unclipped; assumption. Qed.
Print Assumptions C16_ring_repeats_before_fix.
Example C16_before_fix_ex : contour (c_sides_unclipped 4 3 (Some 4)) =
  [(0, 0); (0, 0); (0, 1); (1, 2) ; (2, 2) ; (3, 2); (3, 1); (3, 0); (2, 0); (1, 0)] \/
  contour (c_sides_unclipped 4 3 (Some 4)) =
  [(0, 0); (0, 0); (0, 1); (0, 2); (1, 2); (2, 2); (3, 2); (3, 1); (3, 0); (3, 0); (2, 0); (1, 0)].
Proof. right. reflexivity. Qed.

(* _reverse_boundaries turns the ring into its mirror traversal (same cyclic vertex sequence, opposite direction,
   same first vertex), closure is preserved (above) and the signed area of the ring of pixel indices changes sign *)
Theorem C16_reverse_flips_orientation : forall (S : list (list pix)),
  closed4 S -> Forall (fun s => (2 <= length s)%nat) S ->
  contour (reverse_boundaries S) = rev (rotl1 (contour S))
  /\ ring_area2 (contour (reverse_boundaries S)) = - ring_area2 (contour S).
Proof. intros S Hc Hl. split; [apply reverse_is_mirror; assumption|apply reverse_flips_area; assumption]. Qed.
Print Assumptions C16_reverse_flips_orientation.
Theorem C16_sides_have_two_vertices : forall h w vps, 2 <= h -> 2 <= w -> vps_ok vps ->
  Forall (fun s => (2 <= length s)%nat) (r_sides h w vps).
Proof. intros h w vps Hh Hw Hv. rewrite r_sides_eq by assumption. apply sides_len2; assumption. Qed.
Print Assumptions C16_sides_have_two_vertices.
Example C16_reverse_ex : contour (reverse_boundaries (c_sides 3 3 (Some 2))) = [(0, 0); (2, 0); (2, 2); (0, 2)]
  /\ ring_area2 (contour (c_sides 3 3 (Some 2))) = -8 /\ ring_area2 (contour (reverse_boundaries (c_sides 3 3 (Some 2)))) = 8.
Proof. repeat split. Qed.

(* in pixel-index space the ring encloses the WHOLE grid whatever vertices_per_side: twice its signed area is
   -2 (h-1)(w-1), i.e. the rectangle through the four corner pixel centres, traversed top -> right -> bottom -> left;
   after _reverse_boundaries +2 (h-1)(w-1) *)
Theorem C16_ring_encloses_grid : forall h w vps, 2 <= h -> 2 <= w -> vps_ok vps ->
  ring_area2 (contour (r_sides h w vps)) = - 2 * (h - 1) * (w - 1)
  /\ ring_area2 (contour (reverse_boundaries (r_sides h w vps))) = 2 * (h - 1) * (w - 1).
Proof.
  intros h w vps Hh Hw Hv. rewrite r_sides_eq by assumption.
  pose proof (ring_encloses_grid h w vps Hh Hw Hv) as E. split; [exact E|].
  rewrite reverse_flips_area; [rewrite E; lia|apply ring_closed; assumption|apply sides_len2; assumption].
Qed.
Print Assumptions C16_ring_encloses_grid.

(* the ring built from the binary64 tables (the model instance compared with the implementation): on the edge
   pixels, closed (also reversed), no repeated vertex (also reversed) - all shapes 2..12 x 2..12, vertices_per_side
   None and 2..20, by computation inside Coq; and the pre-repair ring fails the same check *)
Theorem C16_ring_f64_small_scope : forall (h w : nat) (vps : option Z), (2 <= h <= 12)%nat -> (2 <= w <= 12)%nat ->
  In vps vps_list_20 -> f64_ring_ok (Z.of_nat h) (Z.of_nat w) vps = true.
Proof. exact f64_ring_spec. Qed.
Print Assumptions C16_ring_f64_small_scope.
Theorem C16_ring_f64_before_fix_refuted :
  nodup_b (contour (bbox_sides_unclipped (linspace_idx F64) (linspace_idx_desc F64) 4 3 (Some 4))) = false.
Proof. exact f64_ring_unclipped_repeats. Qed.
Print Assumptions C16_ring_f64_before_fix_refuted.

(* geostationary areas: whatever number (>= 4) of vertices the intersection of the extent with the Earth disk has,
   the four sides form a closed ring whose contour is exactly that vertex list - every vertex once, in order *)
Theorem C16_geos_ring_is_intersection : forall (A : Type) (x : list A), (4 <= length x)%nat ->
  contour (geos_sides x) = x /\ closed4 (geos_sides x) /\ Forall (fun s => (2 <= length s)%nat) (geos_sides x).
Proof. intros A. exact (@geos_ring A). Qed.
Print Assumptions C16_geos_ring_is_intersection.
Example C16_geos_ex : geos_sides [0; 1; 2; 3; 4] = [[0; 1]; [1; 2]; [2; 3; 4]; [4; 0]].
Proof. reflexivity. Qed.

(* ------------------------------------------------------------------ alternative entry points *)
(* vertices_per_side=None and the legacy get_boundary_lonlats give the four COMPLETE sides; every edge pixel is a vertex
   of that ring; any vertices_per_side >= both side lengths gives the same ring *)
Theorem C16_full_ring : forall h w, 2 <= h -> 2 <= w ->
  r_sides h w None = full_sides h w
  /\ (forall p, on_edge h w p -> In p (contour (r_sides h w None)))
  /\ (forall v, h <= v -> w <= v -> r_sides h w (Some v) = r_sides h w None).
Proof.
  intros h w Hh Hw. rewrite r_sides_eq by (cbn; auto). split; [apply full_sides_are_vps_none; assumption|]. split.
  - intros p Hp. apply full_ring_covers_edge; assumption.
  - intros v Hhv Hwv. rewrite r_sides_eq by (cbn; lia). apply vps_beyond_sides_is_full; assumption.
Qed.
Print Assumptions C16_full_ring.
Example C16_full_ex : full_sides 2 3 = [[(0, 0); (0, 1); (0, 2)]; [(0, 2); (1, 2)]; [(1, 2); (1, 1); (1, 0)]; [(1, 0); (0, 0)]].
Proof. reflexivity. Qed.

(* AreaBoundary.decimate(ratio) (the legacy AreaDefBoundary(area, frequency)): on a side of L >= 2 vertices the kept
   positions start at 0, end at L-1 and are strictly increasing, for every ratio >= 1 *)
Theorem C16_decimate_positions : forall L ratio, 2 <= L -> 1 <= ratio ->
  hd_error (decimate_idx L ratio) = Some 0 /\ last_opt (decimate_idx L ratio) = Some (L - 1)
  /\ StronglySorted Z.lt (decimate_idx L ratio).
Proof. exact decimate_idx_spec. Qed.
Print Assumptions C16_decimate_positions.
Example C16_decimate_ex : decimate_idx 12 3 = [0; 3; 6; 9; 11] /\ decimate_idx 9 4 = [0; 4; 8] /\ decimate_idx 7 10 = [0; 3; 6].
Proof. repeat split. Qed.

(* hence a decimated ring is still closed, and a side without repeated vertices stays so and keeps only its own vertices *)
Theorem C16_decimate_keeps_ring : forall (A : Type) (d : A) ratio (S : list (list A)), 1 <= ratio ->
  closed4 S -> Forall (fun s => (2 <= length s)%nat) S ->
  closed4 (decimate_sides d ratio S)
  /\ Forall (fun s => NoDup s -> NoDup (select d s (decimate_idx (Z.of_nat (length s)) ratio))
                                /\ incl (select d s (decimate_idx (Z.of_nat (length s)) ratio)) s) S.
Proof.
  intros A d ratio S Hr Hc Hl. split; [apply decimate_keeps_closed; assumption|].
  apply Forall_forall. intros s Hs Hn. rewrite Forall_forall in Hl. apply decimate_side_no_repeat; auto.
Qed.
Print Assumptions C16_decimate_keeps_ring.

(* ------------------------------------------------------------------ NaN coordinates *)
(* _filter_sides_nans keeps a vertex iff NEITHER its longitude NOR its latitude is NaN (the two coordinate arrays may carry
   different fill masks), keeps the order, and fails exactly when a side has no valid vertex left: no vertex with a NaN
   coordinate can reach the ring, whichever of the two coordinates is the invalid one *)
Theorem C16_nan_filter_spec : forall (T : Type) (OP : ops T) (sides r : list (list (T * T))),
  filter_sides_nans OP sides = Some r ->
  r = map (filter (valid_vertex OP)) sides
  /\ Forall (fun s => s <> []) r
  /\ Forall (Forall (fun p => isnan OP (fst p) = false /\ isnan OP (snd p) = false)) r
  /\ (forall x y, isnan OP x = true \/ isnan OP y = true -> Forall (fun s => ~ In (x, y) s) r).
Proof.
  intros T OP sides r H. destruct (filter_sides_nans_spec OP sides r H) as (A & B & C).
  repeat split; try assumption. intros x y Hn. exact (one_nan_coordinate_is_dropped OP sides r x y H Hn).
Qed.
Print Assumptions C16_nan_filter_spec.
Theorem C16_nan_filter_error_iff : forall (T : Type) (OP : ops T) (sides : list (list (T * T))),
  filter_sides_nans OP sides = None <-> Exists (Forall (fun p => valid_vertex OP p = false)) sides.
Proof. intros T OP. exact (filter_sides_nans_error OP). Qed.
Print Assumptions C16_nan_filter_error_iff.
Example C16_nan_ex :
  filter_sides_nans F64 [[(1%float, 2%float); (3%float, PrimFloat.nan); (PrimFloat.nan, 4%float); (5%float, 6%float)]]
  = Some [[(1%float, 2%float); (5%float, 6%float)]]
  /\ filter_sides_nans F64 [[(1%float, 2%float)]; [(3%float, PrimFloat.nan)]] = None.
Proof. split; vm_compute; reflexivity. Qed.

(* ------------------------------------------------------------------ code is model (imperative front end, Gen/GenC16imp.v) *)
(* BaseDefinition._filter_sides_nans, regenerated from /repo WITH its per-side loop, the two accumulators and the raise:
   on two lists of sides of matching lengths it returns exactly the model's filtered sides (unzipped), and raises exactly
   when the model fails *)
Theorem C16_filter_sides_nans_code_is_model : forall (T : Type) (OP : ops T) (d1 d2 : list (list T)),
  same_lengths d1 d2 ->
  value_of (imp_filter_sides_nans OP d1 d2)
  = match filter_sides_nans OP (zip_sides d1 d2) with Some r => COk (unzip_sides r) | None => CRaised end.
Proof. intros T OP. exact (imp_filter_sides_nans_code_is_model OP). Qed.
Print Assumptions C16_filter_sides_nans_code_is_model.
(* so the NaN specification is a theorem about the generated code: what it returns are the valid vertices of every side, in
   order, no coordinate of either returned list is NaN, no side is empty *)
Theorem C16_filter_sides_nans_code_spec : forall (T : Type) (OP : ops T) (d1 d2 r1 r2 : list (list T)),
  same_lengths d1 d2 -> value_of (imp_filter_sides_nans OP d1 d2) = COk (r1, r2) ->
  r1 = map (fun s => map fst (filter (valid_vertex OP) s)) (zip_sides d1 d2)
  /\ r2 = map (fun s => map snd (filter (valid_vertex OP) s)) (zip_sides d1 d2)
  /\ Forall (Forall (fun x => isnan OP x = false)) r1 /\ Forall (Forall (fun y => isnan OP y = false)) r2
  /\ Forall (fun s => s <> []) r1.
Proof. intros T OP. exact (imp_filter_sides_nans_spec OP). Qed.
Print Assumptions C16_filter_sides_nans_code_spec.
Example C16_imp_nan_ex :
  value_of (imp_filter_sides_nans F64 [[1%float; 3%float; PrimFloat.nan; 5%float]] [[2%float; PrimFloat.nan; 4%float; 6%float]])
  = COk ([[1%float; 5%float]], [[2%float; 6%float]]).
Proof. vm_compute. reflexivity. Qed.

(* AreaBoundary.decimate, regenerated with its loop over the sides, the in-place item assignment into self.sides_lons /
   self.sides_lats and the final reset of the memoised polygon: for ratio >= 1 and an object with as many latitude as longitude
   sides, each with >= 2 vertices, it does not raise, every side becomes its selection at decimate_idx (the positions of
   C16_decimate_positions), and the memo is None *)
Theorem C16_decimate_code_is_model : forall (T : Type) (OP : ops T) (P : Type) (b : @area_boundary T P) ratio,
  1 <= ratio -> sides_ok b ->
  exists s', imp_decimate OP b ratio = Fall [] s'
    /\ imp_decimate_self s' = mk_ab (decimate_sides (nan OP) ratio (ab_lons b)) (decimate_sides (nan OP) ratio (ab_lats b)) None.
Proof. intros T OP P. exact (imp_decimate_code_is_model OP). Qed.
Print Assumptions C16_decimate_code_is_model.
(* whatever the object and the ratio: if decimate completes, the memoised polygon is gone *)
Theorem C16_decimate_resets_memo : forall (T : Type) (OP : ops T) (P : Type) (b : @area_boundary T P) ratio s',
  state_of (imp_decimate OP b ratio) = COk s' -> ab_poly (imp_decimate_self s') = None.
Proof. intros T OP P. exact (imp_decimate_resets_memo OP). Qed.
Print Assumptions C16_decimate_resets_memo.

(* Boundary.contour_poly (a memoising property), regenerated: it returns the memo if there is one, else poly_of(contour())
   which it stores; the sides are untouched *)
Theorem C16_contour_poly_code_is_model : forall (T P : Type) (poly_of : list T * list T -> P) (p0 : P) (b : @area_boundary T P),
  exists s', imp_contour_poly poly_of p0 b = Ret [] s' (match ab_poly b with Some p => p | None => poly_of (ab_contour b) end)
    /\ imp_contour_poly_self s'
       = mk_ab (ab_lons b) (ab_lats b) (Some (match ab_poly b with Some p => p | None => poly_of (ab_contour b) end)).
Proof. intros T P. exact (@imp_contour_poly_code_is_model T P). Qed.
Print Assumptions C16_contour_poly_code_is_model.

(* histories on ONE object: for every sequence of decimate(r) / contour_poly calls (run on the generated code) starting from an
   object whose memo, if any, is the polygon of its sides (a fresh object has none), every contour_poly observation is the
   polygon of the sides the object has at that moment - never a stale one *)
Theorem C16_history_contour_poly_is_current : forall (T : Type) (OP : ops T) (P : Type) (poly_of : list T * list T -> P) (p0 : P)
  (h : list op) (b b' : @area_boundary T P) obs,
  memo_ok poly_of b -> run_ops OP poly_of p0 h b = Some (b', obs) ->
  memo_ok poly_of b' /\ obs = map (option_map poly_of) (expected OP poly_of h b).
Proof. intros T OP P poly_of p0. exact (history_contour_poly_is_current OP poly_of p0). Qed.
Print Assumptions C16_history_contour_poly_is_current.
