(* C01 -- an area's pixel grid, projection coordinates and lon/lats are one consistent map.
   Only statements here; proofs live in Proofs/C01_*.v and Proofs/Grid_real.v.
   Model: Model/Grid.v (affine kernels) + Model/C01_Area.v (accessors), instantiated with the reals (RO).
   wf_area a  :=  1 <= width, 1 <= height, xmin <> xmax, ymin <> ymax   (flipped areas, ymin > ymax, are included). *)
From Coq Require Import Reals ZArith List Lia Lra Bool PrimFloat.
From PR Require Import Base.Num Base.RNum Base.F64 Model.Grid Model.C01_Area Model.C01_Cache Gen.GenC01
     Proofs.Grid_real Proofs.C01_grid Proofs.C01_index Proofs.C01_lonlat Proofs.C01_gen Proofs.C01_cache Proofs.C01_imp.
From PR Require Import Base.Imp Model.C01_ImpObj Gen.GenC01imp.
Import ListNotations.
Open Scope R_scope.

(* pixel (r, c) is centred at x = xmin + (c + 1/2) dx, y = ymax - (r + 1/2) dy; the 1-D vectors have exactly
   width / height entries and entry c / r is that centre *)
Theorem C01_canonical_map : forall a : area R,
  (forall c, proj_x RO a c = xmin a + (IZR c + /2) * dxR a) /\
  (forall r, proj_y RO a r = ymax a - (IZR r + /2) * dyR a) /\
  (forall c d, (0 <= c < width a)%Z -> nth (Z.to_nat c) (fst (c01_proj_vectors RO a)) d = xmin a + (IZR c + /2) * dxR a) /\
  (forall r d, (0 <= r < height a)%Z -> nth (Z.to_nat r) (snd (c01_proj_vectors RO a)) d = ymax a - (IZR r + /2) * dyR a) /\
  length (fst (c01_proj_vectors RO a)) = Z.to_nat (width a) /\
  length (snd (c01_proj_vectors RO a)) = Z.to_nat (height a).
Proof. exact c01_canonical_map. Qed.
Print Assumptions C01_canonical_map.

(* 2-D coordinates: slicing the vectors then meshgrid (numpy path) and assembling the per-block coordinates of ANY
   row/column chunking then slicing (dask path) both give entry [i][j] = canonical centre of pixel (rows[i], cols[j]) *)
Theorem C01_accessors_agree : forall (a : area R) (rch cch rows cols : list Z),
  Forall (fun x => (0 <= x)%Z) rch -> Forall (fun x => (0 <= x)%Z) cch ->
  c01_sumZ rch = height a -> c01_sumZ cch = width a ->
  c01_in_range (height a) rows -> c01_in_range (width a) cols ->
  c01_coords_numpy RO a rows cols = c01_canon_grid a rows cols /\
  c01_coords_dask RO a rch cch rows cols = c01_canon_grid a rows cols.
Proof. exact c01_accessors_agree. Qed.
Print Assumptions C01_accessors_agree.
Example C01_accessors_agree_ex :
  let a := mk_area 0 0 4 2 4%Z 2%Z in
  Forall (fun x => (0 <= x)%Z) [1; 1]%Z /\ Forall (fun x => (0 <= x)%Z) [3; 0; 1]%Z /\
  c01_sumZ [1; 1]%Z = height a /\ c01_sumZ [3; 0; 1]%Z = width a /\
  c01_in_range (height a) [1; 0]%Z /\ c01_in_range (width a) [0; 2; 3]%Z.
Proof. cbn. repeat split; repeat constructor; lia. Qed.

(* the same for every arithmetic, in particular binary64: the blocks of any chunking assemble to the single-block
   result and the dask path equals the numpy path bit for bit (no real-number reasoning involved) *)
Theorem C01_chunk_invariant : forall (T : Type) (OP : ops T) (a : area T) (rch cch rows cols : list Z),
  Forall (fun x => (0 <= x)%Z) rch -> Forall (fun x => (0 <= x)%Z) cch ->
  c01_sumZ rch = height a -> c01_sumZ cch = width a ->
  c01_in_range (height a) rows -> c01_in_range (width a) cols ->
  c01_assemble OP a 0 0 rch cch = c01_block OP a 0 (height a) 0 (width a) /\
  c01_coords_dask OP a rch cch rows cols = c01_coords_numpy OP a rows cols.
Proof.
  intros T OP a rch cch rows cols Hr Hc Sh Sw Hrows Hcols. split.
  - rewrite c01_assemble_eq by assumption. cbn [Z.add]. now rewrite Sh, Sw.
  - apply c01_accessors_agree_any; assumption.
Qed.
Print Assumptions C01_chunk_invariant.

(* the two affine conversions are mutual inverses, on both axes *)
Theorem C01_inverses : forall a : area R, wf_area a ->
  (forall c, arr_of_proj_x RO a (proj_of_arr_x RO a c) = c) /\ (forall x, proj_of_arr_x RO a (arr_of_proj_x RO a x) = x) /\
  (forall r, arr_of_proj_y RO a (proj_of_arr_y RO a r) = r) /\ (forall y, proj_of_arr_y RO a (arr_of_proj_y RO a y) = y) /\
  (forall c, proj_of_arr_x RO a c = xmin a + (c + /2) * dxR a) /\ (forall r, proj_of_arr_y RO a r = ymax a - (r + /2) * dyR a).
Proof.
  intros a W. repeat split; intros.
  - apply arr_proj_inverse_x; assumption.
  - apply proj_arr_inverse_x; assumption.
  - apply arr_proj_inverse_y; assumption.
  - apply proj_arr_inverse_y; assumption.
  - apply proj_of_arr_x_canonical.
  - apply proj_of_arr_y_canonical.
Qed.
Print Assumptions C01_inverses.
(* the same for the definitions REGENERATED from /repo's current source on every run (coq/Gen/GenC01.v):
   get_projection_coordinates_from_array_coordinates and get_array_coordinates_from_projection_coordinates, with
   _get_corner_and_scale inlined, are mutual inverses and the canonical map *)
Theorem C01_source_inverses : forall a : area R, wf_area a ->
  (forall c r, let '(x, y) := gen01_projection_coordinates_from_array_coordinates RO a c r in
               gen01_array_coordinates_from_projection_coordinates RO a x y = (c, r)) /\
  (forall x y, let '(c, r) := gen01_array_coordinates_from_projection_coordinates RO a x y in
               gen01_projection_coordinates_from_array_coordinates RO a c r = (x, y)) /\
  (forall c r, gen01_projection_coordinates_from_array_coordinates RO a c r =
               (xmin a + (c + /2) * dxR a, ymax a - (r + /2) * dyR a)).
Proof. exact gen01_inverses. Qed.
Print Assumptions C01_source_inverses.
(* source level, continued: AreaDefinition.__init__'s arithmetic followed by _generate_1d_proj_vectors' element recipe
   (both regenerated from the source) is the canonical map of the property text ... *)
Theorem C01_source_canonical : forall (x0 y0 x1 y1 : R) (w h c r : Z), (1 <= w)%Z -> (1 <= h)%Z ->
  let '(psx, psy, ul, _, _) := gen01_init RO w h (x0, y0, x1, y1) in
  gen01_proj_vector_elements RO (psx, psy) ul c r =
  (x0 + (IZR c + /2) * ((x1 - x0) / IZR w), y1 - (IZR r + /2) * ((y1 - y0) / IZR h)).
Proof. exact gen01_source_canonical. Qed.
Print Assumptions C01_source_canonical.
(* ... and the regenerated integer lookup (affine conversion, then the element-wise block of masked_ints.wrapper: mask,
   clip, round, cast) is the lookup that C01_index_contains / C01_index_scalar_rejects speak about *)
Theorem C01_source_index_lookup : forall (a : area R) (x y : R), wf_area a ->
  let '(cf, rf) := gen01_array_coordinates_from_projection_coordinates RO a x y in
  let '(cd, rd, cm, rm) := gen01_masked_ints RO a cf rf in
  c01_index_array RO a x y = ((if cm then None else Some cd), (if rm then None else Some rd)).
Proof. exact gen01_source_lookup. Qed.
Print Assumptions C01_source_index_lookup.
Example C01_wf_ex : wf_area (mk_area 0 0 4 2 4%Z 2%Z) /\ wf_area (mk_area (-3) 5 3 (-5) 6%Z 4%Z).
Proof. unfold wf_area; cbn. repeat split; try lia; lra. Qed.

(* the documented edge tolerance is the binary64 number written 0.02 *)
Theorem C01_index_tolerance : 2/100 <= c01_epsR <= 2/100 + 1/100000000000000000.
Proof. exact c01_epsR_bounds. Qed.
Print Assumptions C01_index_tolerance.

(* integer lookups on arrays (get_array_indices_from_projection_coordinates): an unmasked column c / row r is a valid
   index and the point lies in that cell's closed extent, widened by eps pixels at the area's two outer edges only
   (c01_tol_lo c = eps iff c = 0, c01_tol_hi n c = eps iff c = n-1); an axis is masked exactly when the point lies
   outside the extent widened by eps pixels.  "between p q" is the closed interval with end points p, q in either order,
   so negative pixel sizes (flipped areas) are covered. *)
Theorem C01_index_contains : forall (a : area R) (x y : R) (oc orow : option Z), wf_area a ->
  c01_index_array RO a x y = (oc, orow) ->
  (forall c, oc = Some c -> (0 <= c <= width a - 1)%Z /\
     c01_between (xmin a + (IZR c - c01_tol_lo c) * dxR a) (xmin a + (IZR c + 1 + c01_tol_hi (width a) c) * dxR a) x) /\
  (forall r, orow = Some r -> (0 <= r <= height a - 1)%Z /\
     c01_between (ymax a - (IZR r - c01_tol_lo r) * dyR a) (ymax a - (IZR r + 1 + c01_tol_hi (height a) r) * dyR a) y) /\
  (oc = None <-> ~ c01_between (xmin a - c01_epsR * dxR a) (xmax a + c01_epsR * dxR a) x) /\
  (orow = None <-> ~ c01_between (ymax a + c01_epsR * dyR a) (ymin a - c01_epsR * dyR a) y).
Proof. exact c01_index_array_contains. Qed.
Print Assumptions C01_index_contains.

(* scalar inputs: a returned (col, row) contains the point as above; ValueError (None) exactly when the point is
   outside the widened extent on either axis *)
Theorem C01_index_scalar_rejects : forall (a : area R) (x y : R), wf_area a ->
  (forall c r, c01_index_scalar RO a x y = Some (c, r) ->
     (0 <= c <= width a - 1)%Z /\ (0 <= r <= height a - 1)%Z /\
     c01_between (c01_cell_x_lo a c) (c01_cell_x_hi a c) x /\ c01_between (c01_cell_y_lo a r) (c01_cell_y_hi a r) y) /\
  (c01_index_scalar RO a x y = None <->
     ~ c01_between (xmin a - c01_epsR * dxR a) (xmax a + c01_epsR * dxR a) x \/
     ~ c01_between (ymax a + c01_epsR * dyR a) (ymin a - c01_epsR * dyR a) y).
Proof. exact c01_index_scalar_spec. Qed.
Print Assumptions C01_index_scalar_rejects.

(* a point strictly inside cell c (fractional index within 1/2 of c) gets exactly c, and its fractional index is
   within 1/2 of the returned integer (round half to even decides only the shared borders) *)
Theorem C01_index_nearest : forall (n : Z) (v : R) (c : Z), (1 <= n)%Z ->
  ((0 <= c <= n - 1)%Z -> IZR c - /2 < v < IZR c + /2 -> c01_masked_index RO n v = Some c) /\
  (c01_masked_index RO n v = Some c ->
     (0 <= c <= n - 1)%Z /\ IZR c - /2 - c01_tol_lo c <= v <= IZR c + /2 + c01_tol_hi n c).
Proof.
  intros n v c Hn. split.
  - apply c01_index_axis_interior.
  - intros H. apply c01_index_axis_sound in H; tauto.
Qed.
Print Assumptions C01_index_nearest.
(* in binary64 a NaN coordinate is masked / rejected as well (the real-number theorems have no NaN) *)
Example C01_nan_masked_ex : c01_masked_index F64 5 PrimFloat.nan = None /\
  c01_index_scalar F64 (mk_area 0 0 4 2 4%Z 2%Z)%float PrimFloat.nan 1%float = None.
Proof. split; vm_compute; reflexivity. Qed.
Example C01_index_ex : 1 <= 4 /\ (0 <= 2 <= 4 - 1)%Z /\ IZR 2 - /2 < 2.25 < IZR 2 + /2.
Proof. split; [lra|]. split; [lia|lra]. Qed.

(* lon/lat: for any PROJ oracles with  fwdP o invP = id  on a domain containing the pixel centres (H_roundtrip, H_dom)
   and with both inverse routes agreeing there (H_same: Transformer-without-datum-shift = Proj(crs)), every lon/lat
   accessor returns the inverse projection of the canonical pixel centre, whole / sliced / chunked arrays included,
   and the forward accessors take it back to (c, r) exactly *)
Theorem C01_lonlat_roundtrip : forall (invT invP fwdP : R * R -> R * R) (dom : R * R -> Prop) (a : area R),
  wf_area a -> c01_H_roundtrip invP fwdP dom -> c01_H_same invT invP dom -> c01_H_dom dom a ->
  forall c r, (0 <= c < width a)%Z -> (0 <= r < height a)%Z ->
    let ll := c01_get_lonlat RO invT a r c in
    c01_colrow2lonlat RO invP a c r = ll /\
    c01_lonlat_from_arr RO invP a (IZR c) (IZR r) = ll /\
    c01_lonlat_from_proj invP (proj_x RO a c) (proj_y RO a r) = ll /\
    (forall rch cch rows cols i j,
       Forall (fun x => (0 <= x)%Z) rch -> Forall (fun x => (0 <= x)%Z) cch ->
       c01_sumZ rch = height a -> c01_sumZ cch = width a ->
       c01_in_range (height a) rows -> c01_in_range (width a) cols ->
       nth_error rows i = Some r -> nth_error cols j = Some c ->
       (exists row, nth_error (c01_lonlats RO invT a rows cols) i = Some row /\ nth_error row j = Some ll) /\
       (exists row, nth_error (c01_lonlats_dask RO invT a rch cch rows cols) i = Some row /\ nth_error row j = Some ll)) /\
    c01_proj_from_lonlat fwdP (fst ll) (snd ll) = (proj_x RO a c, proj_y RO a r) /\
    c01_arr_from_lonlat RO fwdP a (fst ll) (snd ll) = (IZR c, IZR r) /\
    c01_index_from_lonlat_scalar RO fwdP a (fst ll) (snd ll) = Some (c, r) /\
    c01_index_from_lonlat_array RO fwdP a (fst ll) (snd ll) = (Some c, Some r).
Proof. exact c01_lonlat_roundtrip. Qed.
Print Assumptions C01_lonlat_roundtrip.
Example C01_lonlat_hyps_ex :
  let a := mk_area 0 0 4 2 4%Z 2%Z in let id := fun p : R * R => p in
  wf_area a /\ c01_H_roundtrip id id (fun _ => True) /\ c01_H_same id id (fun _ => True) /\ c01_H_dom (fun _ => True) a.
Proof.
  cbn. split; [unfold wf_area; cbn; repeat split; try lia; lra|].
  split; [intros p _; reflexivity|]. split; [intros p _; reflexivity|]. intros c r _ _. exact I.
Qed.

(* H_same cannot be dropped: with a datum-shift-like offset between the two inverse routes all other hypotheses hold
   and colrow2lonlat differs from get_lonlat -- the situation of a Bound CRS (+towgs84) on the real code *)
Theorem C01_lonlat_agreement_needs_H_same :
  exists invT invP fwdP a,
    wf_area a /\ c01_H_roundtrip invP fwdP (fun _ => True) /\
    c01_colrow2lonlat RO invP a 0 0 <> c01_get_lonlat RO invT a 0 0.
Proof. exact c01_H_same_needed. Qed.
Print Assumptions C01_lonlat_agreement_needs_H_same.

(* HISTORIES of calls on one object.  State = the memoised self.lons/self.lats (None or a grid); ops = get_lonlats with any
   data_slice / chunks / cache flag, get_lonlat(row, col), colrow2lonlat, in any order and number.  For every arithmetic and
   every PROJ oracle, every observation of the history equals what a fresh object returns for the same call (induction over
   the op list; invariant: the cache is empty or holds the lon/lats of the WHOLE grid) ... *)
Theorem C01_history_stateless : forall (T : Type) (OP : ops T) (invT invP : T * T -> T * T) (a : area T) (ops : list c01_op),
  (0 <= width a)%Z -> (0 <= height a)%Z -> Forall (c01_op_ok a) ops ->
  c01_run OP invT invP a false None ops = map (c01_stateless OP invT invP a) ops.
Proof. intros T OP invT invP a ops Hw Hh Hok. apply c01_history_stateless; try assumption. left; reflexivity. Qed.
Print Assumptions C01_history_stateless.
(* ... and over the reals that answer is the inverse projection of the canonical centres of the selected pixels *)
Theorem C01_history_canonical : forall (invT invP : R * R -> R * R) (a : area R) (ops : list c01_op),
  wf_area a -> Forall (c01_op_ok a) ops ->
  c01_run RO invT invP a false None ops = map (c01_stateless RO invT invP a) ops /\
  (forall sl ch cache, c01_sl_ok a sl -> c01_ch_ok a ch ->
     c01_stateless RO invT invP a (OpLonlats sl ch cache) =
     map (map invT) (c01_canon_grid a (fst (c01_sel a sl)) (snd (c01_sel a sl)))) /\
  (forall r c, (0 <= r < height a)%Z -> (0 <= c < width a)%Z ->
     c01_stateless RO invT invP a (OpGetLonlat r c) = [[invT (xmin a + (IZR c + /2) * dxR a, ymax a - (IZR r + /2) * dyR a)]]).
Proof.
  intros invT invP a ops (Hw & Hh & _) Hok.
  assert (Hw0 : (0 <= width a)%Z) by lia. assert (Hh0 : (0 <= height a)%Z) by lia.
  split; [apply c01_history_stateless; try assumption; left; reflexivity|]. split.
  - intros sl ch cache Hs Hc. rewrite c01_stateless_lonlats by assumption. unfold c01_ll_fn. now rewrite c01_grid_fn_canon.
  - intros r c Hr Hc. rewrite c01_stateless_get_lonlat by assumption. unfold c01_get_lonlat.
    now rewrite proj_x_canonical, proj_y_canonical.
Qed.
Print Assumptions C01_history_canonical.
Example C01_history_ex :
  let a := mk_area 0 0 4 2 4%Z 2%Z in
  Forall (c01_op_ok a) [OpLonlats (Some ([1], [0; 2])%Z) None true; OpLonlats None None true; OpGetLonlat 1 3;
                        OpLonlats (Some ([0], [3])%Z) (Some ([1; 1], [3; 1])%Z) false; OpColrow 3 1].
Proof. cbn. repeat constructor; cbn; try lia. Qed.

(* the variant that stores a sliced result (`if cache:` instead of `if cache and data_slice is None:`) is refuted:
   after get_lonlats(data_slice=([1],[0]), cache=True) on a 2x2 area, get_lonlats() returns 1 row instead of 2 *)
Theorem C01_history_store_sliced_refuted :
  let a := mk_area 0%float 0%float 2%float 2%float 2 2 in
  let ops := [OpLonlats (Some ([1], [0])%Z) None true; OpLonlats None None false] in
  Forall (c01_op_ok a) ops /\
  c01_run F64 (fun p => p) (fun p => p) a true None ops <> map (c01_stateless F64 (fun p => p) (fun p => p) a) ops /\
  length (nth 1 (c01_run F64 (fun p => p) (fun p => p) a true None ops) []) = 1%nat /\
  length (nth 1 (map (c01_stateless F64 (fun p => p) (fun p => p) a) ops) []) = 2%nat.
Proof. exact c01_store_sliced_refuted. Qed.
Print Assumptions C01_history_store_sliced_refuted.

(* CALLER-SIDE OVERWRITES.  A call may be followed by the caller overwriting, in place, the arrays it was handed; the effect
   is modelled as an arbitrary change g of the cache IF those arrays were the cache or a view of it.  get_lonlats stores and
   hands out copies (alias = false): for every history of calls and overwrites, with any cache flags, every observation is
   what a fresh object returns ... *)
Theorem C01_history_overwrite_safe : forall (T : Type) (OP : ops T) (invT invP : T * T -> T * T) (a : area T)
    (ms : list (c01_mop (T:=T))),
  (0 <= width a)%Z -> (0 <= height a)%Z -> Forall (fun m => c01_op_ok a (c01_mop_op m)) ms ->
  c01_mrun OP invT invP a false None ms = map (fun m => c01_stateless OP invT invP a (c01_mop_op m)) ms.
Proof.
  intros T OP invT invP a ms Hw Hh Hok. rewrite c01_mrun_no_alias.
  rewrite (c01_history_stateless OP invT invP a Hw Hh (map (@c01_mop_op T) ms)); [now rewrite map_map | | left; reflexivity].
  rewrite Forall_map. exact Hok.
Qed.
Print Assumptions C01_history_overwrite_safe.
(* ... and even the variant that hands out the cache itself (alias = true) is safe as long as nothing is cached ... *)
Theorem C01_history_overwrite_safe_without_cache : forall (T : Type) (OP : ops T) (invT invP : T * T -> T * T) (a : area T)
    (ms : list (c01_mop (T:=T))),
  Forall (fun m => c01_no_cache_op (c01_mop_op m)) ms ->
  c01_mrun OP invT invP a true None ms = map (fun m => c01_stateless OP invT invP a (c01_mop_op m)) ms.
Proof. intros T OP invT invP a ms H. apply c01_mrun_no_cache. exact H. Qed.
Print Assumptions C01_history_overwrite_safe_without_cache.
(* ... but with cache=True that variant is refuted (the behaviour fixed by 0014900f) *)
Theorem C01_history_aliased_overwrite_refuted :
  let a := mk_area 0%float 0%float 2%float 2%float 2 2 in
  let scale := map (map (fun p : float * float => (PrimFloat.mul (fst p) 0.5%float, snd p))) in
  let ms := [MCall (OpLonlats None None true) (Some scale); MCall (OpLonlats None None false) None] in
  c01_mrun F64 (fun p => p) (fun p => p) a true None ms <> map (fun m => c01_stateless F64 (fun p => p) (fun p => p) a (c01_mop_op m)) ms.
Proof. exact c01_aliased_overwrite_refuted. Qed.
Print Assumptions C01_history_aliased_overwrite_refuted.

(* the 1-D projection vectors are not memoised: every get_proj_vectors() returns the freshly computed vector whatever callers
   overwrote before; the variant that memoises them and hands the same arrays out is refuted *)
Theorem C01_vectors_no_memo : forall (T : Type) (OP : ops T) (a : area T) (ops : list (c01_vop (T:=T))),
  c01_vrun OP a false None ops =
  map (fun op => match op with VGet => Some (c01_vec_x OP a 0 (width a)) | VOverwrite _ => None end) ops.
Proof. intros. apply c01_vrun_no_memo. Qed.
Print Assumptions C01_vectors_no_memo.
Theorem C01_vector_memo_refuted :
  let a := mk_area 0%float 0%float 2%float 2%float 2 2 in
  let ops := [VGet; VOverwrite (fun x => PrimFloat.mul x 0.5%float); VGet] in
  nth 2 (c01_vrun F64 a true None ops) None <> Some (c01_vec_x F64 a 0 (width a)) /\
  nth 2 (c01_vrun F64 a false None ops) None = Some (c01_vec_x F64 a 0 (width a)).
Proof. exact c01_vector_memo_refuted. Qed.
Print Assumptions C01_vector_memo_refuted.

(* JOINT EVALUATION.  Several lazy dask results evaluated in ONE dask.compute share one task graph, merged by task name.
   _proj_coords_dask's task name is a token of ALL arguments handed to _generate_2d_coords (pixel sizes, upper-left pixel
   centre, block location; the token is assumed injective, as sha1 elsewhere) and the block value is a function of those
   arguments: for any collection of areas and chunkings every block of the merged graph is its own stand-alone block ... *)
Theorem C01_joint_compute : forall (T : Type) (OP : ops T) (keq : c01_task T -> c01_task T -> bool) (tasks : list (c01_task T)),
  (forall k k', keq k k' = true -> k = k') -> (forall k, keq k k = true) ->
  (forall t, In t tasks -> c01_glookup keq (c01_graph (fun t => t) (c01_task_value OP) tasks) t = Some (c01_task_value OP t)) /\
  (forall a r0 r1 c0 c1, c01_task_value OP (c01_task_of OP a r0 r1 c0 c1) = c01_block OP a r0 r1 c0 c1).
Proof. intros T OP keq tasks Hs Hr. split; [apply c01_joint_coords; assumption | intros; apply c01_task_value_block]. Qed.
Print Assumptions C01_joint_compute.
(* ... and a name that leaves out the grid origin is refuted: two tiles of one grid then share a name and one tile's block is
   served for both *)
Theorem C01_joint_name_without_origin_refuted :
  let west := mk_area 0%float 0%float 2%float 2%float 2 2 in
  let east := mk_area 2%float 0%float 4%float 2%float 2 2 in
  let tw := c01_task_of F64 west 0 2 0 2 in let te := c01_task_of F64 east 0 2 0 2 in
  c01_glookup c01_keq_no_origin (c01_graph c01_name_no_origin (c01_task_value F64) [tw; te]) (c01_name_no_origin te)
  = Some (c01_task_value F64 tw) /\
  c01_task_value F64 tw <> c01_task_value F64 te.
Proof. exact c01_name_without_origin_refuted. Qed.
Print Assumptions C01_joint_name_without_origin_refuted.

(* CODE IS MODEL.  AreaDefinition.get_lonlats and _get_proj_vectors as REGENERATED from the source by the imperative front end
   (coq/Gen/GenC01imp.v; self is a record with the lons / lats fields, the method may assign them), specialised to the numpy
   path (chunks=None, nprocs unset); the numeric parts are abstract functions (what is pattern-trusted is listed in the note
   of tools/gen_specs/GenC01imp.json).  One call of the generated get_lonlats is the clean step c01_obj_get_lonlats:
   served from the cache (sliced) when self.lons is set, otherwise computed and stored only when cache and data_slice is None *)
Theorem C01_imp_get_lonlats_code_is_model : forall (G SL : Type) (g0 : G) (proj_coords : areaobj G -> option SL -> G * G)
    (invproj : areaobj G -> G * G -> G * G) (slice_arr : G -> SL -> G) self nprocs sl cache dtype chunks,
  c01_lonlats_outcome (imp_get_lonlats g0 proj_coords invproj slice_arr self nprocs sl cache dtype chunks) =
  c01_obj_get_lonlats proj_coords invproj slice_arr self sl cache.
Proof. intros. apply imp_get_lonlats_code_is_model. Qed.
Print Assumptions C01_imp_get_lonlats_code_is_model.
(* the generated _get_proj_vectors leaves the object unchanged and returns the freshly computed vectors: no memo *)
Theorem C01_imp_get_proj_vectors_code_is_model : forall (G : Type) (g0 : G) (proj_vectors : areaobj G -> G * G) self dtype chunks,
  c01_vectors_outcome (imp_get_proj_vectors g0 proj_vectors self dtype chunks) =
  Some (self, (fst (proj_vectors self), snd (proj_vectors self))).
Proof. intros. apply imp_get_proj_vectors_code_is_model. Qed.
Print Assumptions C01_imp_get_proj_vectors_code_is_model.

(* HISTORIES THROUGH THE GENERATED METHODS.  On a fresh object (self.lons is None), for ANY list of calls (data_slice, cache
   flag), every call of the generated get_lonlats returns what a fresh object computes for that data_slice, provided
   H_slice holds at the slices asked for (slicing the lon/lats of the whole grid = the lon/lats of the slice).  The generated
   method is a function of values: arrays it returns cannot alias the object, which is the reading `x.copy()` is trusted for *)
Theorem C01_imp_history_stateless : forall (G SL : Type) (g0 : G) (proj_coords : areaobj G -> option SL -> G * G)
    (invproj : areaobj G -> G * G -> G * G) (slice_arr : G -> SL -> G) (self0 : areaobj G) (calls : list (option SL * bool)),
  ao_lons self0 = None ->
  (forall sl cache, In (Some sl, cache) calls -> c01_H_slice_at proj_coords invproj slice_arr self0 sl) ->
  imp_lonlats_history g0 proj_coords invproj slice_arr self0 calls =
  map (fun c => Some (c01_fresh_value proj_coords invproj self0 (fst c))) calls.
Proof. intros. apply imp_lonlats_history_stateless; assumption. Qed.
Print Assumptions C01_imp_history_stateless.
Theorem C01_imp_vectors_history_stateless : forall (G : Type) (g0 : G) (proj_vectors : areaobj G -> G * G) self n,
  imp_vectors_history g0 proj_vectors self n = repeat (Some (fst (proj_vectors self), snd (proj_vectors self))) n.
Proof. intros. apply imp_vectors_history_stateless. Qed.
Print Assumptions C01_imp_vectors_history_stateless.
(* H_slice is not an assumption about the code left open: for the accessors of Model/C01_Area.v (coordinates of any
   in-range selection, element-wise inverse projection by any oracle, numpy selection) it holds for every in-range selection *)
Theorem C01_imp_H_slice_holds : forall (T : Type) (OP : ops T) (invT : T * T -> T * T) (a : area T) self rows cols,
  (0 <= width a)%Z -> (0 <= height a)%Z -> c01_in_range (height a) rows -> c01_in_range (width a) cols ->
  c01_H_slice_at (c01_pc_inst OP a) (c01_inv_inst invT) (c01_slice_inst OP) self (rows, cols).
Proof. intros T OP invT a self rows cols Hw Hh Hr Hc. apply c01_H_slice_inst; assumption. Qed.
Print Assumptions C01_imp_H_slice_holds.
Example C01_imp_history_ex :
  let self0 := mk_areaobj (@None (list (list Z))) None 1%Z tt tt in
  ao_lons self0 = None /\
  imp_lonlats_history [] (fun _ sl => match sl with None => ([[1; 2]], [[3; 4]]) | Some _ => ([[2]], [[4]]) end)%Z (fun _ xy => xy)
                      (fun g (_ : unit) => map (fun r => tl r) g) self0 [(Some tt, true); (None, true); (Some tt, false); (None, false)]
  = [Some ([[2]], [[4]]); Some ([[1; 2]], [[3; 4]]); Some ([[2]], [[4]]); Some ([[1; 2]], [[3; 4]])]%Z.
Proof. split; [reflexivity | vm_compute; reflexivity]. Qed.

(* DERIVED OBJECTS.  __getitem__ (crop, strided slice) and copy() build a new AreaDefinition; whatever lon/lat cache a derived
   object starts with, all its call histories are those of a fresh object of ITS grid provided that cache is empty or holds the
   derived area's own whole-grid lon/lats (the invariant of C01_history_stateless, here as a statement about the initial state) ... *)
Theorem C01_derived_history_stateless : forall (T : Type) (OP : ops T) (invT invP : T * T -> T * T) (child : area T)
    (st0 : option (list (list (T * T)))) (ops : list c01_op),
  (0 <= width child)%Z -> (0 <= height child)%Z -> Forall (c01_op_ok child) ops ->
  st0 = None \/ st0 = Some (c01_whole OP invT child) ->
  c01_run OP invT invP child false st0 ops = map (c01_stateless OP invT invP child) ops.
Proof. intros T OP invT invP child st0 ops Hw Hh Hok Hst. apply c01_history_stateless; assumption. Qed.
Print Assumptions C01_derived_history_stateless.
(* ... and the variant that carries the parent's cached lon/lats over as parent.lons[yslice, xslice] is refuted for a strided
   slice: the derived pixels are block centres, not every step-th parent pixel (parent 2x4, child = parent[:, ::2]) *)
Theorem C01_derived_carried_cache_refuted :
  let parent := mk_area 0%float 0%float 4%float 2%float 4 2 in
  let child := mk_area 0%float 0%float 4%float 2%float 2 2 in
  let id := fun p : float * float => p in
  let carried := c01_slice_cached F64 (c01_fresh_lonlats F64 id parent None None) (Some ([0; 1], [0; 2])%Z) in
  let ops := [OpLonlats None None false] in
  Forall (c01_op_ok child) ops /\
  c01_run F64 id id child false (Some carried) ops <> map (c01_stateless F64 id id child) ops /\
  c01_run F64 id id child false None ops = map (c01_stateless F64 id id child) ops.
Proof. exact c01_derived_carried_cache_refuted. Qed.
Print Assumptions C01_derived_carried_cache_refuted.
