(* C12 -- geometry equality, hashing and cache keys are consistent and representation-free.
   Statements only; proofs live in Proofs/C12_*.v.

   Reading guide.  A geometry is its byte image (Model/HashEq.v); digest = H image with H any function
   (sha1) that is injective on the images met -- hypothesis [H_inj], stated in every theorem that needs it;
   hash(obj) = py_hash_int (toint digest).  crs tokens index the strings pyproj returns for
   CRS(projection).to_wkt(); [crs_eq] is pyproj's CRS equality and [rt] its WKT round trip
   CRS(wkt).to_wkt(): oracles, with the hypotheses on them spelled out ([crs_eq_refl], [rt tok = tok]).
   Numeric statements are over the reals (instance RO) or over every arithmetic instance (OP). *)
From Coq Require Import PrimFloat.
From Coq Require Import Reals ZArith Bool List Lra Lia.
From PR Require Import Base.Num Base.RNum Base.F64 Base.Slice Base.ListX Model.HashEq Gen.GenC12 Model.C12_slice
     Proofs.C12_image Proofs.C12_memo Proofs.C12_eq Proofs.C12_getitem Proofs.C12_gen.
Import ListNotations.
Open Scope Z_scope.

(* ------------------------------------------------------------------------------------------------
   1. spellings of identical parameters: same digest, same hash, equal (both ways) *)

(* areas: the crs spelling only enters through the token pyproj returns; width/height through int();
   extent numbers spelled as Python int / float / np.float64 / np.float32 / list / tuple / array through
   their values *)
Theorem C12_spelling_independent :
  forall (D : Type) (H : list (tok R) -> D) (toint : D -> Z) (crs_eq : Z -> Z -> bool),
  (forall t, crs_eq t t = true) ->
  forall tk w h e1 e2, nvals RO e1 = nvals RO e2 ->
  let a := area_of RO tk w h e1 in let b := area_of RO tk w h e2 in
  H (area_image RO a) = H (area_image RO b) /\
  py_hash_int (toint (H (area_image RO a))) = py_hash_int (toint (H (area_image RO b))) /\
  area_eq RO crs_eq a b = true /\ area_eq RO crs_eq b a = true.
Proof.
  intros D H toint crs_eq Hrefl tk w h e1 e2 E a b. subst a b. rewrite (area_of_values RO tk w h e1 e2 E).
  repeat split; try reflexivity; apply area_eq_refl; exact Hrefl.
Qed.
Print Assumptions C12_spelling_independent.
(* ints, floats, float32 scalars; tuple/list/array do not appear in the model at all *)
Example C12_spelling_ex :
  nvals RO (NInt (-1000), NF64 (-1000)%R, NF32 1000%R, NInt 1000) = nvals RO (NF64 (-1000)%R, NInt (-1000), NF64 1000%R, NF32 1000%R).
Proof. reflexivity. Qed.

(* the same for every arithmetic instance in which numerically equal numbers have one canonical form
   (binary64: x + 0.0 maps -0.0 to 0.0; see the executable example below) *)
Theorem C12_spelling_independent_any_arith :
  forall (T : Type) (OP : ops T) (D : Type) (H : list (tok T) -> D),
  forall tk w h e1 e2, map (canon OP) (nvals OP e1) = map (canon OP) (nvals OP e2) ->
  H (area_image OP (area_of OP tk w h e1)) = H (area_image OP (area_of OP tk w h e2)).
Proof. intros T OP D H tk w h e1 e2 E. rewrite (area_image_spelling OP tk w h e1 e2 E). reflexivity. Qed.
Print Assumptions C12_spelling_independent_any_arith.
Example C12_spelling_f64_ex :
  map (canon F64) (nvals F64 (NInt 0, NF64 (-0)%float, NF32 1000%float, NInt 1000))
  = map (canon F64) (nvals F64 (NF64 (-0)%float, NInt 0, NInt 1000, NF64 1000%float)).
Proof. vm_compute. reflexivity. Qed.

(* swaths: list / numpy array / xarray over numpy of the same numbers *)
Theorem C12_spelling_independent_swath :
  forall (D : Type) (H : list (tok R) -> D) k1 k2 nd (lon lat : list (list R)) n1 n2 n3 n4,
  named k1 = false -> named k2 = false ->
  let a := mk_swath k1 nd lon lat n1 n2 in let b := mk_swath k2 nd lon lat n3 n4 in
  H (swath_image a) = H (swath_image b) /\ swath_eq RO a b = true /\ swath_eq RO b a = true.
Proof.
  intros D H k1 k2 nd lon lat n1 n2 n3 n4 H1 H2 a b. subst a b.
  rewrite (swath_image_container k1 k2 nd nd lon lat n1 n2 n3 n4 H1 H2).
  split; [reflexivity | apply swath_eq_container; apply named_false_ne2; assumption].
Qed.
Print Assumptions C12_spelling_independent_swath.

(* copy() and a full slice: same digest, provided pyproj's WKT round trip leaves the token alone
   (it does not for EPSG:3857 in this PROJ build: known finding C12.spelling.crs_wkt_epsg_vs_object) *)
Theorem C12_copy_same_digest :
  forall (T : Type) (OP : ops T) (D : Type) (H : list (tok T) -> D) (rt : Z -> Z) (a : harea T),
  rt (h_crs a) = h_crs a -> H (area_image OP (area_copy rt a)) = H (area_image OP a).
Proof. intros T OP D H rt a Hrt. rewrite (copy_image OP rt a Hrt). reflexivity. Qed.
Print Assumptions C12_copy_same_digest.

(* about the definition regenerated from AreaDefinition.__getitem__ on every run *)
Theorem C12_full_slice_same_digest :
  forall (D : Type) (H : list (tok R) -> D) (rt : Z -> Z) (a : harea R) ys xs,
  spans ys (h_h a) -> spans xs (h_w a) -> rt (h_crs a) = h_crs a ->
  H (area_image RO (area_slice RO rt a (ys, xs))) = H (area_image RO a).
Proof. intros D H rt a ys xs Hy Hx Hrt. rewrite (full_slice_image_R rt a ys xs Hy Hx Hrt). reflexivity. Qed.
Print Assumptions C12_full_slice_same_digest.
(* the extent part for EVERY arithmetic (binary64 included: no rounding on the borders) *)
Theorem C12_full_slice_same_extent :
  forall (T : Type) (OP : ops T) (a : harea T) ys xs,
  spans ys (h_h a) -> spans xs (h_w a) -> h_ext (gen12_area_getitem OP a (ys, xs)) = h_ext a.
Proof. exact @getitem_full_ext. Qed.
Print Assumptions C12_full_slice_same_extent.
Example C12_full_slice_ex : spans (mk_oslice None None) 48 /\ spans (mk_oslice (Some 0) (Some 46)) 46.
Proof. split; [apply spans_none | apply spans_0_n; lia]. Qed.
(* the extent that an area[:, :] used to get wrong by one ulp, executed in binary64 *)
Example C12_full_slice_f64_ex :
  let a := mk_harea 1 46 48 ((-0x1.298eccccccccdp+18), 0x1.a830f0cccccccp+21, (-0x1.f910b33333334p+17), 0x1.ae1063fffffffp+21)%float (0, 0) in
  let b := gen12_area_getitem F64 a (mk_oslice None None, mk_oslice None None) in
  list_eqb same_bits (ext_list (h_ext b)) (ext_list (h_ext a)) && (h_h b =? 48) && (h_w b =? 46) = true.
Proof. vm_compute. reflexivity. Qed.

(* a token that the round trip changes changes the digest of the copy: the model side of the known finding *)
Theorem C12_copy_token_not_fixpoint_refuted :
  forall (T : Type) (OP : ops T) (D : Type) (H : list (tok T) -> D),
  (forall x y, H x = H y -> x = y) ->
  forall (rt : Z -> Z) (a : harea T), rt (h_crs a) <> h_crs a -> H (area_image OP (area_copy rt a)) <> H (area_image OP a).
Proof. intros T OP D H Hinj rt a Hrt E. apply Hinj in E. exact (copy_image_changed OP rt a Hrt E). Qed.
Print Assumptions C12_copy_token_not_fixpoint_refuted.

(* ------------------------------------------------------------------------------------------------
   2. == is reflexive, and symmetric on identical parameters *)
Theorem C12_eq_refl_sym_on_identical :
  forall (crs_eq : Z -> Z -> bool), (forall t, crs_eq t t = true) ->
  (forall a : harea R, area_eq RO crs_eq a a = true) /\
  (forall a b : harea R, h_crs a = h_crs b -> h_h a = h_h b -> h_w a = h_w b -> h_ext a = h_ext b ->
     area_eq RO crs_eq a b = true /\ area_eq RO crs_eq b a = true) /\
  (forall s : swath R, swath_eq RO s s = true).
Proof.
  intros crs_eq Hrefl. split; [|split].
  - intros a. apply area_eq_refl. exact Hrefl.
  - intros a b. apply area_eq_same_values. exact Hrefl.
  - exact swath_eq_refl.
Qed.
Print Assumptions C12_eq_refl_sym_on_identical.

(* ------------------------------------------------------------------------------------------------
   3. equal digests (hence equal hashes taken from them) only on == geometries *)
Theorem C12_hash_agrees_eq :
  forall (D : Type) (H : list (tok R) -> D), (forall x y, H x = H y -> x = y) ->
  forall (crs_eq : Z -> Z -> bool), (forall t, crs_eq t t = true) ->
  forall a b : harea R, H (area_image RO a) = H (area_image RO b) ->
  area_eq RO crs_eq a b = true /\ area_eq RO crs_eq b a = true.
Proof. intros D H Hinj crs_eq Hrefl a b E. apply area_eq_of_same_image; [exact Hrefl | apply Hinj; exact E]. Qed.
Print Assumptions C12_hash_agrees_eq.

(* ------------------------------------------------------------------------------------------------
   4. the memoised hash after any history of public calls *)
Theorem C12_memo_invariant :
  forall (C D S : Type) (dig : C -> D) (app : C -> C -> C) (slc : C -> S -> C) (cpy : C -> C)
         (ops : list (op C S)) (c : C),
  memo_ok C D dig (run C D S dig app slc cpy ops (new_obj c)).
Proof. intros. apply memo_invariant. apply new_ok. Qed.
Print Assumptions C12_memo_invariant.

(* hash(obj) after the history = hash of a fresh object built from the current coordinates *)
Theorem C12_hash_after_history :
  forall (C D S : Type) (dig : C -> D) (app : C -> C -> C) (slc : C -> S -> C) (cpy : C -> C)
         (ops : list (op C S)) (c : C),
  let o := run C D S dig app slc cpy ops (new_obj c) in
  hash_of C D dig o = hash_of C D dig (new_obj (coords o)).
Proof. intros. apply hash_is_fresh. Qed.
Print Assumptions C12_hash_after_history.

(* all orders: hash() and == calls interleaved anywhere do not influence any later hash *)
Theorem C12_hash_history_independent :
  forall (C D S : Type) (dig : C -> D) (app : C -> C -> C) (slc : C -> S -> C) (cpy : C -> C)
         (ops : list (op C S)) (c : C),
  hash_of C D dig (run C D S dig app slc cpy ops (new_obj c))
  = dig (coords (run C D S dig app slc cpy (filter (mutating C S) ops) (new_obj c))).
Proof. intros. apply hash_history_independent. Qed.
Print Assumptions C12_hash_history_independent.

(* instance: swaths with append / slice / copy, hashed through any H *)
Example C12_memo_swath_ex :
  forall (D : Type) (H : list (tok R) -> D) (ops : list (op (swath R) (oslice * oslice * (Z * Z)))) (s : swath R),
  let dig := fun c => H (swath_image c) in
  let slc := fun c (k : oslice * oslice * (Z * Z)) => swath_slice c (fst k) (snd k) in
  memo_ok _ _ dig (run _ _ _ dig swath_append slc swath_copy ops (new_obj s)).
Proof. intros. apply C12_memo_invariant. Qed.

(* why append has to reset the memo (the defect repaired in CoordinateDefinition.append /
   StackedAreaDefinition.append) *)
Theorem C12_memo_legacy_append_refuted :
  forall (C D S : Type) (dig : C -> D) (app : C -> C -> C) (slc : C -> S -> C) (cpy : C -> C) (c c' : C),
  dig (app c c') <> dig c ->
  let o := fold_left (step_legacy C D S dig app slc cpy) [OHash; OAppend c'] (new_obj c) in
  hash_of C D dig o <> dig (coords o) /\ ~ memo_ok C D dig o.
Proof. intros C D S dig app slc cpy c c' Hd. apply legacy_append_stale. exact Hd. Qed.
Print Assumptions C12_memo_legacy_append_refuted.

(* ------------------------------------------------------------------------------------------------
   5. geometries that differ get different digests and compare unequal *)
Theorem C12_distinct_digest :
  forall (T : Type) (OP : ops T) (D : Type) (H : list (tok T) -> D), (forall x y, H x = H y -> x = y) ->
  forall a b : harea T,
  h_crs a <> h_crs b \/ (h_h a, h_w a) <> (h_h b, h_w b) \/ cvals OP a <> cvals OP b ->
  H (area_image OP a) <> H (area_image OP b).
Proof. intros T OP D H Hinj a b Hd. apply area_distinct; assumption. Qed.
Print Assumptions C12_distinct_digest.

(* a single extent value beyond np.allclose's tolerance: unequal, and another digest *)
Theorem C12_distinct_beyond_tolerance :
  forall (D : Type) (H : list (tok R) -> D), (forall x y, H x = H y -> x = y) ->
  forall (crs_eq : Z -> Z -> bool) (a b : harea R) (x y : R),
  In (x, y) (combine (ext_list (h_ext a)) (ext_list (h_ext b))) ->
  (atol_area RO + rtol_area RO * Rabs y < Rabs (x - y))%R ->
  area_eq RO crs_eq a b = false /\ H (area_image RO a) <> H (area_image RO b).
Proof.
  intros D H Hinj crs_eq a b x y Hin Hfar. split.
  - unfold area_eq. rewrite (list_eqb_in_false _ _ _ x y Hin); [reflexivity|].
    apply isclose_far; try exact Hfar; apply Rlt_le; [apply rtol_area_pos | apply atol_area_pos].
  - apply area_distinct; [exact Hinj|]. right. right. unfold cvals. rewrite !map_canon_R.
    apply (combine_neq _ _ x y Hin). apply (far_distinct x y Hfar).
Qed.
Print Assumptions C12_distinct_beyond_tolerance.
Example C12_beyond_tolerance_ex : (atol_area RO + rtol_area RO * Rabs 1000 < Rabs (1001 - 1000))%R.
Proof.
  replace (1001 - 1000)%R with 1%R by ring. rewrite Rabs_R1, Rabs_pos_eq by lra.
  unfold atol_area, rtol_area. cbn -[Raux.bpow]. unfold Raux.bpow. cbn. lra.
Qed.

Theorem C12_distinct_crs_shape_unequal :
  forall (crs_eq : Z -> Z -> bool) (a b : harea R),
  crs_eq (h_crs a) (h_crs b) = false \/ (h_h a, h_w a) <> (h_h b, h_w b) -> area_eq RO crs_eq a b = false.
Proof. intros crs_eq a b [E | E]; [apply area_eq_crs | apply area_eq_shape]; exact E. Qed.
Print Assumptions C12_distinct_crs_shape_unequal.

(* a different CRS (pyproj says the two are not equal): unequal, and another digest *)
Theorem C12_distinct_crs :
  forall (D : Type) (H : list (tok R) -> D), (forall x y, H x = H y -> x = y) ->
  forall (crs_eq : Z -> Z -> bool), (forall t, crs_eq t t = true) ->
  forall a b : harea R, crs_eq (h_crs a) (h_crs b) = false ->
  area_eq RO crs_eq a b = false /\ H (area_image RO a) <> H (area_image RO b).
Proof.
  intros D H Hinj crs_eq Hrefl a b E. split; [apply area_eq_crs; exact E|].
  apply area_distinct; [exact Hinj|]. left. intros Et. rewrite Et, Hrefl in E. discriminate.
Qed.
Print Assumptions C12_distinct_crs.

(* swaths (numpy / xarray over numpy): a coordinate beyond the tolerance *)
Theorem C12_distinct_swath :
  forall (D : Type) (H : list (tok R) -> D), (forall x y, H x = H y -> x = y) ->
  forall (a b : swath R) (x y : R), named (s_kind a) = false -> named (s_kind b) = false ->
  length (concat (s_lon a)) = length (concat (s_lon b)) ->
  In (x, y) (combine (concat (s_lon a)) (concat (s_lon b))) ->
  (atol_swath RO + rtol_swath RO * Rabs y < Rabs (x - y))%R ->
  swath_eq RO a b = false /\ H (swath_image a) <> H (swath_image b).
Proof.
  intros D H Hinj a b x y Ha Hb Hl Hin Hfar. split.
  - apply (swath_eq_far_lon a b x y); try assumption.
    destruct (Z.eqb_spec (s_kind a) 2) as [E|]; [exfalso; exact (named_false_ne2 _ Ha E) | reflexivity].
  - apply swath_distinct_np; try assumption. left. apply (combine_neq _ _ x y Hin). apply (swath_far_distinct x y Hfar).
Qed.
Print Assumptions C12_distinct_swath.

(* swaths of different shape compare unequal (after the repair of BaseDefinition.__eq__) ... *)
Theorem C12_distinct_swath_shape_unequal :
  forall a b : swath R, s_kind a <> 2 -> same_shape a b = false -> swath_eq RO a b = false.
Proof.
  intros a b Ha Hs. apply swath_eq_shape; [|exact Hs]. destruct (Z.eqb_spec (s_kind a) 2); [contradiction | reflexivity].
Qed.
Print Assumptions C12_distinct_swath_shape_unequal.
(* ... but the digest of a numpy swath does not see the shape: known finding C12.distinct.swath_shape_not_hashed *)
Theorem C12_distinct_swath_shape_digest_refuted :
  exists a b : swath R, same_shape a b = false /\ swath_eq RO a b = false /\ swath_image a = swath_image b.
Proof.
  exists (mk_swath 0 2 [[0; 1; 2]; [3; 4; 5]]%R [[10; 11; 12]; [13; 14; 15]]%R 0 0),
         (mk_swath 0 2 [[0; 1]; [2; 3]; [4; 5]]%R [[10; 11]; [12; 13]; [14; 15]]%R 0 0).
  split; [reflexivity|]. split; [|reflexivity]. apply swath_eq_shape; reflexivity.
Qed.
Print Assumptions C12_distinct_swath_shape_digest_refuted.

(* xarray-over-dask swaths are compared and hashed by their dask names: == holds exactly when the digests agree *)
Theorem C12_dask_swath_eq_iff_digest :
  forall (T : Type) (OP : ops T) (D : Type) (H : list (tok T) -> D), (forall x y, H x = H y -> x = y) ->
  forall a b : swath T, s_kind a = 2 -> s_kind b = 2 ->
  (swath_eq OP a b = true <-> H (swath_image a) = H (swath_image b)).
Proof.
  intros T OP D H Hinj a b Ha Hb. rewrite (dask_swath_eq_iff_image OP a b Ha Hb). split; [intros ->; reflexivity | apply Hinj].
Qed.
Print Assumptions C12_dask_swath_eq_iff_digest.

(* ------------------------------------------------------------------------------------------------
   6. resampler cache keys: source digest + target digest + json(kwargs) *)
Theorem C12_key_depends_on_kwargs :
  forall (T : Type) (D : Type) (H : list (tok T) -> D), (forall x y, H x = H y -> x = y) ->
  forall (src tgt : list (tok T)) (k1 k2 : Z), k1 <> k2 -> H (key_image src tgt k1) <> H (key_image src tgt k2).
Proof. intros T D H Hinj src tgt k1 k2 Hk. apply key_kwargs; assumption. Qed.
Print Assumptions C12_key_depends_on_kwargs.

Theorem C12_key_spelling_independent :
  forall (T : Type) (D : Type) (H : list (tok T) -> D) (s1 t1 s2 t2 : list (tok T)) (k : Z),
  s1 = s2 -> t1 = t2 -> H (key_image s1 t1 k) = H (key_image s2 t2 k).
Proof. intros T D H s1 t1 s2 t2 k. apply key_congr. Qed.
Print Assumptions C12_key_spelling_independent.

(* between areas the key separates source, target and kwargs *)
Theorem C12_key_depends_on_geometries :
  forall (T : Type) (OP : ops T) (D : Type) (H : list (tok T) -> D), (forall x y, H x = H y -> x = y) ->
  forall (a b a' b' : harea T) (k k' : Z),
  area_image OP a <> area_image OP a' \/ area_image OP b <> area_image OP b' \/ k <> k' ->
  H (key_image (area_image OP a) (area_image OP b) k) <> H (key_image (area_image OP a') (area_image OP b') k').
Proof. intros T OP D H Hinj a b a' b' k k' Hd. apply key_area_distinct; assumption. Qed.
Print Assumptions C12_key_depends_on_geometries.
Example C12_key_ex : key_image (area_image RO (mk_harea 1 2 3 (0, 0, 2, 3)%R (0, 0))) [TName 5; TName 6] 9 <>
                     key_image (area_image RO (mk_harea 1 2 3 (0, 0, 2, 3)%R (0, 0))) [TName 5; TName 6] 8.
Proof. intros E. unfold key_image in E. rewrite !app_assoc in E. apply app_inj_tail in E. destruct E as [_ E]. discriminate. Qed.

(* ------------------------------------------------------------------------------------------------
   7. the methods themselves, regenerated from the source on every run (Gen/GenC12.v) *)

(* BaseDefinition / SwathDefinition / AreaDefinition.__hash__: (object after the call, returned value) is the
   model's memoising do_hash and its hash_of *)
Theorem C12_gen_hash_is_memoised :
  forall (C : Type) (dig : C -> Z) (o : obj C Z),
  gen12_base_hash C dig o = (do_hash C Z dig o, Some (hash_of C Z dig o)) /\
  gen12_swath_hash C dig o = (do_hash C Z dig o, Some (hash_of C Z dig o)) /\
  gen12_area_hash C dig o = (do_hash C Z dig o, Some (hash_of C Z dig o)).
Proof. intros. repeat split; [apply gen_base_hash_char | apply gen_swath_hash_char | apply gen_area_hash_char]. Qed.
Print Assumptions C12_gen_hash_is_memoised.

(* CoordinateDefinition.append: DimensionError, or the rows appended AND the memo reset *)
Theorem C12_gen_append_resets_memo :
  forall (T : Type) (self other : obj (swath T) Z),
  gen12_coord_append self other =
  if negb (s_ndim (coords self) =? s_ndim (coords other)) then None
  else Some (mk_obj (swath_append (coords self) (coords other)) None).
Proof. intros. apply gen_coord_append_char. Qed.
Print Assumptions C12_gen_append_resets_memo.

(* every history in which hash() and append() are the REGENERATED methods keeps the memo invariant *)
Theorem C12_gen_memo_invariant :
  forall (T : Type) (dig : swath T -> Z) (slc : swath T -> oslice * oslice * (Z * Z) -> swath T) (cpy : swath T -> swath T)
         (ops : list (op (swath T) (oslice * oslice * (Z * Z)))) (s : swath T),
  memo_ok (swath T) Z dig (fold_left (gstep dig slc cpy) ops (new_obj s)).
Proof. intros. apply gen_memo_invariant. left. reflexivity. Qed.
Print Assumptions C12_gen_memo_invariant.
Example C12_gen_history_ex :
  let s := mk_swath 0 2 [[1; 2]] [[3; 4]] 0 0 in
  let o := fold_left (gstep (fun c => zlen (s_lon c)) (fun c _ => c) (fun c => c)) [OHash; OAppend s; OHash; OAppend s] (new_obj s) in
  memo o = None /\ s_lon (coords o) = [[1; 2]; [1; 2]; [1; 2]].
Proof. split; reflexivity. Qed.

(* AreaDefinition.update_hash feeds exactly the model's byte image; hash_dict the json token *)
Theorem C12_gen_update_hash_is_image :
  forall (T : Type) (OP : ops T) (a : harea T) (h : hl T) (kw : Z),
  gen12_area_update_hash OP a h = Some (hl_tokens h ++ area_image OP a) /\
  gen12_hash_dict kw h = Some (hl_tokens h ++ [TJson kw]).
Proof. intros. split; [apply gen_area_update_hash_char | apply gen_hash_dict_char]. Qed.
Print Assumptions C12_gen_update_hash_is_image.

(* hash_resampler_geometries and BaseResampler.get_hash digest the model's key image *)
Theorem C12_gen_key_is_key_image :
  forall (T : Type) (kw : Z) (src tgt : list (tok T)),
  gen12_hash_resampler_geometries kw src tgt = key_image src tgt kw /\
  (forall (r : resampler T) sarg targ, pick_geo sarg (r_src r) = Some src -> pick_geo targ (r_tgt r) = Some tgt ->
     gen12_get_hash kw r sarg targ = key_image src tgt kw).
Proof. intros. split; [apply gen_hash_resampler_geometries_char | intros; apply gen_get_hash_char; assumption]. Qed.
Print Assumptions C12_gen_key_is_key_image.

(* ------------------------------------------------------------------------------------------------
   8. stacked areas with merging appends (C10's model of StackedAreaDefinition.append), and precomputed hashes *)
From PR Require Model.Stack.
(* the memo theorems hold for ANY append function: here C10's, which merges a member continuing the last one *)
Example C12_memo_stacked_merging_ex :
  forall (D : Type) (H : list (tok R) -> D) (dig : @Stack.stack R -> D)
         (ops : list (op (@Stack.stack R) unit)) (s : @Stack.stack R),
  let app := fun a b => match Stack.stack_append_all RO a (Stack.stack_defs b) with Some r => r | None => a end in
  let o := run _ _ _ dig app (fun c _ => c) (fun c => c) ops (new_obj s) in
  memo_ok _ _ dig o /\ hash_of _ _ dig o = hash_of _ _ dig (new_obj (coords o)).
Proof. intros. split; [apply C12_memo_invariant | apply C12_hash_after_history]. Qed.

(* == between stacks goes through get_lonlats (PROJ, an oracle ll): a stack equals every stack with the same
   members, in particular the fresh stack built from the areas appended so far *)
Theorem C12_stacked_eq_same_members :
  forall (St : Type) (ll : St -> list (list R) * list (list R)) (s : St),
  swath_eq RO (mk_swath 0 2 (fst (ll s)) (snd (ll s)) 0 0) (mk_swath 0 2 (fst (ll s)) (snd (ll s)) 0 0) = true.
Proof. intros. apply swath_eq_refl. Qed.
Print Assumptions C12_stacked_eq_same_members.

(* a DataArray attrs['hash'] replaces the bytes in the digest and SURVIVES slicing: a slice keeps the digest of the
   full swath although it is unequal to it -- known finding C12.distinct.hash_attr_survives_slice *)
Theorem C12_hash_attr_slice_refuted :
  exists (a : swath R) (key : oslice * oslice),
  let b := swath_slice a key (s_nlon a, s_nlat a) in
  swath_eq RO a b = false /\ swath_image a = swath_image b.
Proof.
  exists (mk_swath 3 2 [[0; 1]; [2; 3]]%R [[10; 11]; [12; 13]]%R 7 8), (mk_oslice (Some 0) (Some 1), mk_oslice None None).
  split; [|reflexivity]. apply swath_eq_shape; reflexivity.
Qed.
Print Assumptions C12_hash_attr_slice_refuted.

(* ------------------------------------------------------------------------------------------------
   9. wave 3 -- code is model: loop-carrying / stateful / branching methods translated by tools/py2coq_imp.py
   (Gen/GenC12imp.v, regenerated from the source on every run).  The array bytes (bytes_of), np.concatenate (cat) and
   sha1 + int (toint) are abstract; every statement bounds the fuel, Fuel is never an answer. *)
From PR Require Import Base.Imp Model.ImpHash Gen.GenC12imp Proofs.C12_imp.

(* get_array_hashable: attrs['hash'] of a DataArray else what its .data gives; a dask array's name; else the bytes --
   in this order (a DataArray's own .name is never consulted) *)
Theorem C12_imp_get_array_hashable_code_is_model :
  forall (A HV : Type) (bytes_of : A -> HV) (hv0 : HV) (a : parr A HV) (fuel : nat), (depth a < fuel)%nat ->
  value_of (imp_get_array_hashable bytes_of hv0 fuel a) = COk (arr_hashable bytes_of a).
Proof. intros. apply gah_code_is_model. assumption. Qed.
Print Assumptions C12_imp_get_array_hashable_code_is_model.
Example C12_imp_gah_ex :
  value_of (imp_get_array_hashable (fun x : Z => [x]) [] 3 (PXr (Some [7]) None (PXr None (Some [9]) (PDask [5] 1)))) = COk [9].
Proof. reflexivity. Qed.

(* BaseDefinition.update_hash feeds lons, lats (and the mask of a masked lons) and does NOT depend on self.hash *)
Theorem C12_imp_update_hash_code_is_model :
  forall (A HV : Type) (bytes_of : A -> HV) (hv0 : HV) (g : hgeo A HV) (h : hlg HV) (m : option Z) (fuel : nat),
  (depth (hg_lons g) < fuel)%nat -> (depth (hg_lats g) < fuel)%nat ->
  value_of (imp_base_update_hash bytes_of hv0 fuel g h) = COk (geo_update_hash bytes_of g h) /\
  value_of (imp_base_update_hash bytes_of hv0 fuel (mk_hgeo (hg_lons g) (hg_lats g) m (hg_ndim g) (hg_nprocs g)) h)
  = value_of (imp_base_update_hash bytes_of hv0 fuel g h).
Proof. intros. split; [apply update_hash_code_is_model | apply update_hash_ignores_memo]; assumption. Qed.
Print Assumptions C12_imp_update_hash_code_is_model.

(* ... and on a swath of the hand model (kinds numpy / xarray / xarray+dask / xarray with attrs['hash']) what it feeds
   concatenates to swath_image, the byte image all C12 theorems are about *)
Theorem C12_imp_update_hash_is_swath_image :
  forall (T : Type) (s : swath T) (m : option Z) (h : hlg (list (tok T))), 0 <= s_kind s <= 3 ->
  exists fed, value_of (imp_base_update_hash rows_bytes [] 2 (hgeo_of s m) h) = COk (Some (hlg_fed h ++ fed)) /\
              concat fed = swath_image s.
Proof.
  intros T s m h Hk. exists (geo_fed rows_bytes (hgeo_of s m)). split; [|apply swath_image_is_fed; exact Hk].
  destruct (hgeo_of_depth s m). apply update_hash_code_is_model; assumption.
Qed.
Print Assumptions C12_imp_update_hash_is_swath_image.

(* __hash__ of BaseDefinition and of SwathDefinition: returns the memo, filling it on first use with the digest of
   the CURRENT coordinates *)
Theorem C12_imp_hash_code_is_model :
  forall (A HV : Type) (bytes_of : A -> HV) (toint : option (list HV) -> Z) (hv0 : HV) (g : hgeo A HV) (fuel : nat),
  (depth (hg_lons g) < fuel)%nat -> (depth (hg_lats g) < fuel)%nat ->
  (let r := imp_base_hash bytes_of toint hv0 fuel g in
   value_of r = COk (Some (geo_hash_of bytes_of toint g)) /\
   match state_of r with COk s => imp_base_hash_self s = geo_do_hash bytes_of toint g | _ => False end) /\
  (let r := imp_swath_hash bytes_of toint hv0 fuel g in
   value_of r = COk (Some (geo_hash_of bytes_of toint g)) /\
   match state_of r with COk s => imp_swath_hash_self s = geo_do_hash bytes_of toint g | _ => False end).
Proof. intros. split; [apply base_hash_code_is_model | apply swath_hash_code_is_model]; assumption. Qed.
Print Assumptions C12_imp_hash_code_is_model.

(* append: DimensionError or both arrays concatenated and the memo reset; concatenate: a new object with an empty memo *)
Theorem C12_imp_append_concatenate_code_is_model :
  forall (A HV : Type) (cat : A -> A -> A) (a0 : A) (g o : hgeo A HV),
  match state_of (imp_coord_append cat g o) with
  | COk s => hg_ndim g = hg_ndim o /\ imp_coord_append_self s = geo_append cat g o
  | CRaised => hg_ndim g <> hg_ndim o
  | CFuel => False
  end /\
  value_of (imp_coord_concatenate cat a0 g o) =
  (if hg_ndim g =? hg_ndim o
   then COk (mk_hgeo (pa_concat cat (hg_lons g) (hg_lons o)) (pa_concat cat (hg_lats g) (hg_lats o)) None (hg_ndim g)
                     (Z.min (hg_nprocs g) (hg_nprocs o)))
   else CRaised).
Proof. intros. split; [apply append_code_is_model | apply concatenate_code_is_model]. Qed.
Print Assumptions C12_imp_append_concatenate_code_is_model.

(* the memo state machine run by the TRANSLATED hash() and append(), any order, any length: the memo is empty or the
   digest of the current coordinates (fuel: one more than the deepest DataArray nesting of the start object) *)
Theorem C12_imp_memo_invariant :
  forall (A HV : Type) (bytes_of : A -> HV) (cat : A -> A -> A) (toint : option (list HV) -> Z) (hv0 : HV)
         (fuel : nat) (ops : list (gop (A:=A) (HV:=HV))) (g : hgeo A HV),
  (hist_depth g < fuel)%nat -> hg_hash g = None ->
  geo_memo_ok bytes_of toint (fold_left (gstep_imp bytes_of cat toint hv0 fuel) ops g).
Proof. intros. apply imp_memo_invariant; [assumption | left; assumption]. Qed.
Print Assumptions C12_imp_memo_invariant.
Example C12_imp_history_ex :
  let g := mk_hgeo (PXr None None (PNp 1 None)) (PNp 2 None) None 2 1 in
  let o := fold_left (gstep_imp (fun x : Z => x) Z.add (fun h => match h with Some l => fold_left Z.add l 0 | None => 0 end) 0 2)
                     [GHash; GAppend g; GHash; GAppend g] g in
  hg_hash o = None /\ hg_lons o = PNp 3 None.
Proof. split; reflexivity. Qed.

(* StackedAreaDefinition.update_hash: the loop over the members feeds their images in order *)
Theorem C12_imp_stacked_update_hash_code_is_model :
  forall (T : Type) (OP : ops T) (st : hstack T) (h : hl T), hs_defs st <> [] ->
  value_of (imp_stacked_update_hash OP st h) = COk (Some (hl_tokens h ++ stack_image OP (hs_defs st))).
Proof. intros T OP st h Hne. rewrite stacked_update_hash_code_is_model. rewrite fold_area_update by exact Hne. reflexivity. Qed.
Print Assumptions C12_imp_stacked_update_hash_code_is_model.
