(* C15 — parallel scheduling hands out every item exactly once under any interleaving.
   Model: Model/Sched.v (state machine over the atomic lock / read / write / release actions of
   pyresample/_multi_proc.py Scheduler.__iter__, chunk rules of __init__, c_int stores, result array).
   Only statements here; proofs live in Proofs/C15_*.v.
   A schedule is any list of worker ids: each entry gives that worker one turn (one atomic action, or
   nothing when it is blocked on the lock or has returned).  All theorems are for EVERY schedule. *)
From Coq Require Import ZArith List Lia Bool Arith Permutation.
From PR Require Import Base.Slice Model.Partition Model.Sched Model.SchedGen Model.C15_run Gen.GenC15
     Proofs.C15_inv Proofs.C15_term Proofs.C15_array Proofs.C15_hist Proofs.C15_gen Proofs.C15_compose Proofs.C15_fail.
Import ListNotations.
Open Scope Z_scope.

(* wf c: 1 <= bits, 0 <= n < 2^(bits-1) (n fits the signed shared counters), 1 <= nprocs;
   chunk (None or any integer) and the schedule kind are unconstrained. *)
Example C15_wf_ex : wf (mk_cfg 7 2 None Guided 64) /\ wf (mk_cfg 0 1 (Some 0) Static 64) /\
                    wf (mk_cfg (2 ^ 31 - 1) 4 (Some (-3)) Dynamic 32) /\ wf (mk_cfg (2 ^ 63 - 1) 3 None Guided 64).
Proof. unfold wf; cbn. lia. Qed.

(* at most one worker is between acquire and release; it is the lock holder, and the lock is held only so *)
Theorem C15_mutual_exclusion : forall c sched, wf c ->
  let s := run c sched in
  (forall w1 w2, in_critical (pcs s w1) = true -> in_critical (pcs s w2) = true -> w1 = w2) /\
  (forall w, in_critical (pcs s w) = true -> lock s = Some w) /\
  (forall w, lock s = Some w -> in_critical (pcs s w) = true).
Proof. exact mutual_exclusion. Qed.
Print Assumptions C15_mutual_exclusion.

(* at every moment of every interleaving the slices handed out so far are non-empty, lie inside [0, n),
   are pairwise disjoint (an earlier one ends where a later one starts or before), and every item of a
   prefix [0, e) has been handed out exactly once, every other item not at all *)
Theorem C15_slices_partition : forall c sched, wf c ->
  let sl := slices (run c sched) in
  exists e, 0 <= e <= n c /\ ztiles 0 sl e /\
    Forall (fun s => 0 <= fst s /\ fst s < snd s /\ snd s <= n c) sl /\
    ForallOrdPairs (fun s t => snd s <= fst t) sl /\
    forall i, hits i sl = if (0 <=? i) && (i <? e) then 1%nat else 0%nat.
Proof.
  intros c sched Hwf sl. destruct (slices_prefix c sched Hwf) as (e & He & Ht). exists e.
  split; [exact He|]. split; [exact Ht|]. split; [|split].
  - eapply Forall_impl; [|exact (ztiles_inside _ _ _ Ht)]. cbn; intros; lia.
  - exact (ztiles_disjoint _ _ _ Ht).
  - exact (ztiles_hits _ _ _ Ht).
Qed.
Print Assumptions C15_slices_partition.

(* when the nw workers have all returned: lock free, counter exhausted, and every item of [0, n) has been
   handed out exactly once (and nothing else) *)
Theorem C15_exact_cover_at_completion : forall c nw sched, wf c -> (1 <= nw)%nat -> workers_below nw sched ->
  all_done nw (run c sched) ->
  let s := run c sched in
  lock s = None /\ ndata s = 0 /\ ztiles 0 (slices s) (n c) /\
  forall i, hits i (slices s) = if (0 <=? i) && (i <? n c) then 1%nat else 0%nat.
Proof.
  intros c nw sched Hwf Hnw Hb Hall s.
  destruct (cover_all_done c nw sched Hwf Hnw Hb Hall) as (Hl & Hn & Ht).
  repeat split; try assumption. exact (ztiles_hits _ _ _ Ht).
Qed.
Print Assumptions C15_exact_cover_at_completion.

(* termination, for every schedule kind, fair or not:
   (1) under ANY schedule at most 7 n + 5 nw turns are effective (a strictly decreasing measure);
   (2) no deadlock: unless all workers returned, some worker can move;
   (3) every worker with an enabled move strictly decreases the measure, which is never negative *)
Theorem C15_terminates : forall c nw sched, wf c -> workers_below nw sched ->
  let s := run c sched in
  Z.of_nat (effective c (init c) sched) <= 7 * n c + 5 * Z.of_nat nw /\
  ((exists w, (w < nw)%nat /\ pcs s w <> PDone) -> exists w, (w < nw)%nat /\ enabled s w = true) /\
  (forall w, (w < nw)%nat -> enabled s w = true -> 0 <= measure nw (step c s w) < measure nw s) /\
  ((forall w, (w < nw)%nat -> enabled s w = false) -> all_done nw s).
Proof.
  intros c nw sched Hwf Hb s. split; [exact (effective_bound c nw sched Hwf Hb)|]. split; [|split].
  - apply (progress c nw). exact (reach_run_from c nw sched (init c) Hwf (reach_init c nw Hwf) Hb).
  - intros w Hw Hen. pose proof (inv_run c sched Hwf) as Hi.
    pose proof (measure_step c nw s w Hwf Hi Hw Hen).
    pose proof (measure_nonneg c nw _ (inv_step c s w Hwf Hi)). lia.
  - exact (stuck_is_done c nw sched Hwf Hb).
Qed.
Print Assumptions C15_terminates.

(* any schedule that contains 7 n + 5 nw rounds, each giving every worker at least one turn (in any order,
   with any repetitions), ends with every worker's iteration finished *)
Theorem C15_terminates_fair : forall c nw sched, wf c -> workers_below nw sched ->
  fair_rounds nw (Z.to_nat (7 * n c + 5 * Z.of_nat nw)) sched -> all_done nw (run c sched).
Proof. exact terminates_fair. Qed.
Print Assumptions C15_terminates_fair.
Example C15_fair_ex :
  let c := mk_cfg 3 2 None Guided 32 in
  let sched := concat (repeat [1; 0; 1]%nat 31) in
  workers_below 2 sched /\ fair_rounds 2 (Z.to_nat (7 * n c + 5 * 2)) sched /\
  slices (run c sched) = [(0, 1); (1, 2); (2, 3)] /\ map fst (out (run c sched)) = [1; 0; 1]%nat.
Proof.
  cbn zeta. split; [|split; [|split]].
  - apply Forall_forall. intros w Hw. apply in_concat in Hw. destruct Hw as (l & Hl & Hw).
    apply repeat_spec in Hl. subst l. destruct Hw as [<-|[<-|[<-|[]]]]; lia.
  - exists (repeat [1; 0; 1]%nat 31). split; [reflexivity|]. split; [vm_compute; lia|].
    apply Forall_forall. intros l Hl. apply repeat_spec in Hl. subst l.
    intros w Hw. destruct w as [|[|w]]; cbn; auto; lia.
  - vm_compute. reflexivity.
  - vm_compute. reflexivity.
Qed.

(* the slices of any partition of [0, n), written into the shared array in any order, give map f *)
Theorem C15_partition_writes_equal_map : forall (V : Type) (f : Z -> V) (d : V) n l ws,
  0 <= n -> ztiles 0 l n -> Permutation l ws -> result_array f d n ws = single_process f n.
Proof. intros V. exact (@partition_writes_equal V). Qed.
Print Assumptions C15_partition_writes_equal_map.

(* the interleaved system: once the nw workers have returned, the shared result array written slice by slice
   (in completion order, whatever it was) equals the single-process result, for every row function f *)
Theorem C15_mp_equals_sp : forall (V : Type) (f : Z -> V) (d : V) c nw sched,
  wf c -> (1 <= nw)%nat -> workers_below nw sched -> all_done nw (run c sched) ->
  result_array f d (n c) (wdone (run c sched)) = single_process f (n c).
Proof. intros V. exact (@mp_equals_sp V). Qed.
Print Assumptions C15_mp_equals_sp.

(* ... and the completed result writes are exactly the handed-out slices, each written once (a permutation) *)
Theorem C15_writes_exactly_once : forall c nw sched,
  wf c -> (1 <= nw)%nat -> workers_below nw sched -> all_done nw (run c sched) ->
  Permutation (slices (run c sched)) (wdone (run c sched)).
Proof. exact writes_exactly_once. Qed.
Print Assumptions C15_writes_exactly_once.

(* consequence for fair schedules, end to end *)
Theorem C15_fair_run_equals_single_process : forall (V : Type) (f : Z -> V) (d : V) c nw sched,
  wf c -> (1 <= nw)%nat -> workers_below nw sched ->
  fair_rounds nw (Z.to_nat (7 * n c + 5 * Z.of_nat nw)) sched ->
  ztiles 0 (slices (run c sched)) (n c) /\
  result_array f d (n c) (wdone (run c sched)) = single_process f (n c).
Proof.
  intros V f d c nw sched Hwf Hnw Hb Hfair.
  pose proof (terminates_fair c nw sched Hwf Hb Hfair) as Hall.
  split; [exact (proj2 (proj2 (cover_all_done c nw sched Hwf Hnw Hb Hall)))|].
  exact (mp_equals_sp f d c nw sched Hwf Hnw Hb Hall).
Qed.
Print Assumptions C15_fair_run_equals_single_process.
Example C15_mp_ex :
  let c := mk_cfg 7 2 None Guided 32 in
  let sched := [0;1;0;0;0;1;0;0;1;1;1;1;1;1;0;0;0;0;0;0;0;1;1;1;1;1;1;1;1;0;0;0;0;0;0;0;0;1;1;1;1;0;0;0;0]%nat in
  slices (run c sched) = [(0, 3); (3, 5); (5, 6); (6, 7)] /\
  wdone (run c sched) = [(0, 3); (3, 5); (6, 7); (5, 6)] /\
  pcs (run c sched) 0%nat = PDone /\ pcs (run c sched) 1%nat = PDone /\
  result_array (fun i => 10 * i) (-1) 7 (wdone (run c sched)) = [0; 10; 20; 30; 40; 50; 60].
Proof. vm_compute. repeat split; reflexivity. Qed.

(* histories of calls on one cKDTree_MP / Proj_MP object: as long as every call runs the protocol on a FRESH
   scheduler (init) for its own number of rows, every call of the history (any sizes, any interleavings, any
   row functions) returns the single-process result *)
Theorem C15_fresh_scheduler_per_call : forall (V : Type) (d : V) (calls : list (call V)),
  Forall call_ok calls -> map (call_mp d) calls = map call_sp calls.
Proof. intros V. exact (@fresh_per_call V). Qed.
Print Assumptions C15_fresh_scheduler_per_call.
Example C15_history_ex :
  let k1 : call Z := (mk_cfg 3 2 None Guided 64, 2%nat, concat (repeat [0; 1]%nat 31), fun i => 10 * i) in
  let k2 : call Z := (mk_cfg 3 2 None Guided 64, 2%nat, concat (repeat [1; 1; 0]%nat 31), fun i => i + 7) in
  call_ok k1 /\ call_ok k2 /\ map (call_mp (-1)) [k1; k2] = [[0; 10; 20]; [7; 8; 9]].
Proof.
  cbn zeta. assert (H : forall l, In l [[0; 1]; [1; 1; 0]]%nat -> workers_below 2 (concat (repeat l 31))).
  { intros l Hl. apply Forall_forall. intros w Hw. apply in_concat in Hw. destruct Hw as (l' & Hl' & Hw).
    apply repeat_spec in Hl'. subst l'. destruct Hl as [<-|[<-|[]]]; cbn in Hw; lia. }
  split; [|split].
  - split; [unfold wf; cbn; lia|]. split; [lia|]. split; [apply H; cbn; auto|].
    intros w Hw. destruct w as [|[|w]]; [vm_compute; reflexivity..|lia].
  - split; [unfold wf; cbn; lia|]. split; [lia|]. split; [apply H; cbn; auto|].
    intros w Hw. destruct w as [|[|w]]; [vm_compute; reflexivity..|lia].
  - vm_compute. reflexivity.
Qed.

(* the hypothesis "fresh" is needed: workers that iterate the Scheduler left behind by a finished call (counter
   exhausted) receive no slice and write nothing, under any interleaving ... *)
Theorem C15_reused_scheduler_hands_out_nothing : forall c s sched, ndata s = 0 ->
  slices (run_from c (recycle s) sched) = [] /\ wdone (run_from c (recycle s) sched) = [].
Proof. exact reused_hands_out_nothing. Qed.
Print Assumptions C15_reused_scheduler_hands_out_nothing.
(* ... so a second call of the same size on a cached scheduler returns the untouched (fill) array *)
Theorem C15_reused_scheduler_refuted : exists c nw sched1 sched2 (f : Z -> Z) d,
  wf c /\ all_done nw (run c sched1) /\ all_done nw (run_from c (recycle (run c sched1)) sched2) /\
  result_array f d (n c) (wdone (run c sched1)) = single_process f (n c) /\
  result_array f d (n c) (wdone (run_from c (recycle (run c sched1)) sched2)) = repeat d (Z.to_nat (n c)) /\
  result_array f d (n c) (wdone (run_from c (recycle (run c sched1)) sched2)) <> single_process f (n c).
Proof.
  exists (mk_cfg 3 1 None Static 64), 1%nat, (repeat 0%nat 11), (repeat 0%nat 4), (fun i => i + 1), 0.
  split; [unfold wf; cbn; lia|]. split; [|split].
  - intros w Hw. assert (w = 0%nat) as -> by lia. vm_compute. reflexivity.
  - intros w Hw. assert (w = 0%nat) as -> by lia. vm_compute. reflexivity.
  - vm_compute. split; [reflexivity|]. split; [reflexivity|discriminate].
Qed.
Print Assumptions C15_reused_scheduler_refuted.

(* ---- the code as written (Gen/GenC15.v is regenerated from pyresample/_multi_proc.py on every run) ---- *)
(* Scheduler.__init__: for every kind and chunk argument the generated function stores ndata and 0 into 64-bit
   counters and computes the model's chunk rule *)
Theorem C15_init_as_written : forall c, bits c = 64 ->
  gen_init c = (ndata (init c), start (init c), nprocs c, init_chunk c).
Proof. exact gen_init_spec. Qed.
Print Assumptions C15_init_as_written.
Example C15_init_ex : gen_init_static_int 10 3 (-2) tt = (10, 0, 3, 3) /\ gen_init_guided_none 1000 4 tt tt = (1000, 0, 4, 25).
Proof. vm_compute. split; reflexivity. Qed.

(* Scheduler.__iter__: for every kind and every value of the shared counters, the trace of shared-memory actions of
   one loop iteration of the generated function respects the lock discipline (acquire; only counter reads/writes;
   release; then yield or return) and its net effect (new counters, slice yielded to worker w or return) is exactly
   that of the model's critical section, i.e. of the [step]s of worker w from the top of the loop to the yield *)
Theorem C15_iter_as_written : forall c s w, pcs s w = PIdle -> lock s = None ->
  let '(nd', st', tr) := gen_iter c (ndata s) (start s) in
  let s' := cs_steps 6 c s w in
  ndata s' = nd' /\ start s' = st' /\ lock s' = None /\ wdone s' = wdone s /\
  match cs_outcome tr with
  | Some (Some (a, b)) => pcs s' w = PWork a b /\ out s' = out s ++ [(w, (a, b))]
  | Some None => pcs s' w = PDone /\ out s' = out s
  | None => False
  end.
Proof. exact gen_iter_spec. Qed.
Print Assumptions C15_iter_as_written.
Theorem C15_iter_lock_discipline : forall c nd st, cs_outcome (snd (gen_iter c nd st)) <> None.
Proof. exact gen_iter_disciplined. Qed.
Print Assumptions C15_iter_lock_discipline.
Example C15_iter_ex :
  gen_iter (mk_cfg 7 2 None Guided 64) 7 0 = (4, 3, [(2, 0); (3, 7); (4, 0); (5, 4); (6, 3); (7, 0); (10, 0); (11, 3)]) /\
  gen_iter (mk_cfg 7 2 None Guided 64) 0 7 = (0, 7, [(2, 0); (3, 0); (4, 7); (7, 0); (12, 0)]).
Proof. vm_compute. split; reflexivity. Qed.

(* ---- writes of any granularity: any list of in-bounds writes (split, overlapping, repeated, in any order, e.g. one
   element at a time) that covers [0, n) leaves the single-process array, because every write stores f of its rows *)
Theorem C15_any_covering_writes_equal_map : forall (V : Type) (f : Z -> V) (d : V) n ws,
  0 <= n -> Forall (in_bounds n) ws -> (forall i, 0 <= i < n -> covered ws i = true) ->
  result_array f d n ws = single_process f n.
Proof. intros V. exact (@writes_cover_equal V). Qed.
Print Assumptions C15_any_covering_writes_equal_map.

(* ---- composed with C19: kd_tree.get_neighbour_info(segments = k) runs one multi-process query per row segment of
   geometry._get_slice (a fresh scheduler each, any interleaving each) and appends the results: together they are the
   single-process result over all rows *)
Theorem C15_segmented_calls_equal_single_query : forall (V : Type) (f : Z -> V) (d : V) segments size (calls : list (call V)),
  0 <= size -> 1 <= segments -> Forall call_ok calls ->
  Forall2 (call_for_segment f) calls (get_slice segments size) ->
  concat (map (call_mp d) calls) = single_process f size.
Proof. intros V. exact (@segmented_calls V). Qed.
Print Assumptions C15_segmented_calls_equal_single_query.
Example C15_segmented_ex :
  let k1 : call Z := (mk_cfg 2 1 None Static 64, 1%nat, repeat 0%nat 11, fun i => 10 * i) in
  let k2 : call Z := (mk_cfg 1 1 None Static 64, 1%nat, repeat 0%nat 11, fun i => 10 * (2 + i)) in
  get_slice 2 3 = [mk_slice 0 2; mk_slice 2 3] /\
  Forall2 (call_for_segment (fun i => 10 * i)) [k1; k2] (get_slice 2 3) /\
  concat (map (call_mp (-1)) [k1; k2]) = [0; 10; 20].
Proof.
  cbn zeta. split; [reflexivity|]. split; [|vm_compute; reflexivity].
  change (get_slice 2 3) with [mk_slice 0 2; mk_slice 2 3].
  repeat constructor; cbn; intros; f_equal; lia.
Qed.

(* ---- results kept by the caller: with copy semantics (each call hands out its own buffer) the array kept from call j still
   equals the single-process result of call j after ANY later calls on the same object (any sizes, any interleavings) *)
Theorem C15_kept_results_survive_later_calls : forall (V : Type) (d : V) (calls : list (call V)),
  Forall call_ok calls ->
  forall j k, nth_error calls j = Some k -> nth_error (history_copy d calls) j = Some (call_sp k).
Proof. intros V. exact (@kept_results_copy V). Qed.
Print Assumptions C15_kept_results_survive_later_calls.
(* result buffers cached per number of rows and handed out as views are refuted: two calls of 3 rows each; after the second
   call the array kept from the first holds the second call's result *)
Theorem C15_cached_result_buffers_refuted : exists (k1 k2 : call Z) d,
  call_ok k1 /\ call_ok k2 /\ handle k1 = handle k2 /\
  history_cached d [k1] (handle k1) = Some (call_sp k1) /\
  history_cached d [k1; k2] (handle k1) = Some (call_sp k2) /\ call_sp k2 <> call_sp k1.
Proof.
  exists (mk_cfg 3 1 None Static 64, 1%nat, repeat 0%nat 11, fun i => 10 * i),
         (mk_cfg 3 1 None Static 64, 1%nat, repeat 0%nat 11, fun i => i + 7), (-1).
  assert (Hok : forall f : Z -> Z, call_ok (mk_cfg 3 1 None Static 64, 1%nat, repeat 0%nat 11, f)).
  { intros f. split; [unfold wf; cbn; lia|]. split; [lia|]. split.
    - apply Forall_forall. intros w Hw. apply repeat_spec in Hw. lia.
    - intros w Hw. assert (w = 0%nat) as -> by lia. vm_compute. reflexivity. }
  split; [apply Hok|]. split; [apply Hok|]. vm_compute. repeat split; discriminate.
Qed.
Print Assumptions C15_cached_result_buffers_refuted.

(* ---- failing workers (the engine raises while a worker processes the slice it received; the worker counts the error and
   returns without having written anything).  [frun] runs turns (worker, fails); its second component lists the slices
   dropped.  Under every interleaving and every pattern of failures the slice of a failed worker has been handed out and is
   never written by anybody; the other guarantees (tiling of a prefix, writes only of handed-out slices) are unaffected *)
Theorem C15_failed_worker_slice_never_written : forall c fsched, wf c ->
  let sf := fst (frun c fsched) in
  (exists e, 0 <= e <= n c /\ ztiles 0 (slices sf) e) /\
  (forall a b, In (a, b) (wdone sf) -> In (a, b) (slices sf)) /\
  forall a b, In (a, b) (snd (frun c fsched)) -> In (a, b) (slices sf) /\ ~ In (a, b) (wdone sf).
Proof. exact failed_slice_never_written. Qed.
Print Assumptions C15_failed_worker_slice_never_written.
(* so the rows of a failed worker's slice still hold the initial value of the result array (0 in _spatial_mp): the arrays are
   the single-process result only when no worker failed - _run_jobs must raise whenever the error count is not 0 *)
Theorem C15_failed_rows_keep_initial_value : forall (V : Type) (f : Z -> V) (d : V) c fsched, wf c ->
  let sf := fst (frun c fsched) in
  ztiles 0 (slices sf) (n c) ->
  forall a b, In (a, b) (snd (frun c fsched)) ->
  forall i, a <= i < b -> nth (Z.to_nat i) (result_array f d (n c) (wdone sf)) d = d.
Proof. intros V. exact (@failed_rows_keep_initial V). Qed.
Print Assumptions C15_failed_rows_keep_initial_value.
Example C15_partial_failure_ex :
  let c := mk_cfg 4 2 (Some 2) Dynamic 64 in
  let fsched := repeat (0%nat, false) 6 ++ [(0%nat, true)] ++ repeat (1%nat, false) 20 ++ repeat (0%nat, false) 3 in
  let sf := fst (frun c fsched) in
  snd (frun c fsched) = [(0, 2)] /\ slices sf = [(0, 2); (2, 4)] /\ wdone sf = [(2, 4)] /\
  pcs sf 0%nat = PDone /\ pcs sf 1%nat = PDone /\
  result_array (fun i => 10 * i + 5) 0 4 (wdone sf) = [0; 0; 25; 35] /\ single_process (fun i => 10 * i + 5) 4 = [5; 15; 25; 35].
Proof. vm_compute. repeat split; reflexivity. Qed.

(* ---- layout independence: the array arguments are flattened in C (logical index) order, scheduled as flat rows and the
   flat result is reshaped in C order; then element (r, c0) of the multi-process result is g of the input VALUES at (r, c0),
   under every interleaving - nothing else about the inputs (strides, memory order) enters *)
Theorem C15_reshaped_result_elementwise : forall (V W : Type) (g : V -> V -> W) (a1 a2 : Z -> Z -> V) (d : W) rows cols c nw sched,
  wf c -> (1 <= nw)%nat -> workers_below nw sched -> all_done nw (run c sched) ->
  0 < cols -> n c = rows * cols ->
  forall r c0, 0 <= r < rows -> 0 <= c0 < cols ->
  nth (Z.to_nat (r * cols + c0))
      (result_array (fun k => g (flat_C cols a1 k) (flat_C cols a2 k)) d (n c) (wdone (run c sched))) d
  = g (a1 r c0) (a2 r c0).
Proof. intros V W. exact (@reshaped_result V W). Qed.
Print Assumptions C15_reshaped_result_elementwise.
(* flattening in MEMORY order instead (ravel(order='K') of a Fortran-ordered array) while reshaping in C order is
   refuted: a 2 x 3 input, element (0, 1) of the result is then computed from input element (1, 0) *)
Theorem C15_memory_order_flatten_refuted : exists (a : Z -> Z -> Z) rows cols r c0,
  0 <= r < rows /\ 0 <= c0 < cols /\
  nth (Z.to_nat (r * cols + c0)) (single_process (flat_C cols a) (rows * cols)) 0 = a r c0 /\
  nth (Z.to_nat (r * cols + c0)) (single_process (flat_F rows a) (rows * cols)) 0 <> a r c0.
Proof. exists (fun i j => 10 * i + j), 2, 3, 0, 1. vm_compute. repeat split; discriminate. Qed.
Print Assumptions C15_memory_order_flatten_refuted.

(* the guard n < 2^(bits-1) is needed: with 32-bit counters (ctypes.c_int) and n = 2^32 + 3 the single worker
   receives slice(0, 3) and returns; items 3 .. n-1 are never handed out *)
Theorem C15_counter_width_needed :
  let c := mk_cfg (2 ^ 32 + 3) 1 None Static 32 in
  let s := run c (repeat 0%nat 10) in
  all_done 1 s /\ slices s = [(0, 3)] /\ ~ wf c.
Proof.
  cbn zeta. split; [|split].
  - intros w Hw. assert (w = 0%nat) as -> by lia. vm_compute. reflexivity.
  - vm_compute. reflexivity.
  - unfold wf. cbn. lia.
Qed.
Print Assumptions C15_counter_width_needed.
(* with 64-bit counters (ctypes.c_longlong, the width the harness observes on the real object) the same
   configuration is well-formed and the single worker receives the whole range *)
Example C15_wide_counter_ex :
  let c := mk_cfg (2 ^ 32 + 3) 1 None Static 64 in
  wf c /\ slices (run c (repeat 0%nat 11)) = [(0, 2 ^ 32 + 3)] /\ pcs (run c (repeat 0%nat 11)) 0%nat = PDone.
Proof. cbn zeta. split; [unfold wf; cbn; lia|]. vm_compute. split; reflexivity. Qed.
