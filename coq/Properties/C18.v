(* C18 - every module assigns a projected point to the same grid cell, or to none.
   Only statements here; proofs live in Proofs/C18_axis.v and Proofs/C18_real.v; the index functions are the
   generic definitions of Model/CellIndex.v at the real-number instance RO (the binary64 instance of the same
   terms is compared bit for bit with the implementation on every run).

   Vocabulary (Proofs/C18_real.v), all in projection coordinates, any orientation of the area:
     cell_x a t / cell_y a t   coordinate of the column / row border number t (0 = left / top edge of the extent)
     in_cell_closed a r c x y  (x, y) lies in the closed extent of cell (r, c);  in_cell_open: in its interior
     in_extent a x y           (x, y) lies in the closed area extent;  in_extent_widened a e: extent grown by e pixels
     valid_cell a r c          0 <= r < height, 0 <= c < width
     off_border a x y          x is on no column border line and y on no row border line
     fits_int32 a              width, height <= 2^31 (indices are int32 in grid / GridFilter)
     ufrac a x / vfrac a y     (x - xmin) / pixel_size_x, (ymax - y) / pixel_size_y: position in pixels from the left / top edge
                               (between (cell_x a p) (cell_x a q) x <-> p <= ufrac a x <= q, lemma between_x; same for y)
     in_cell_or_band a e r c   per axis: in the closed cell, or c = 0 and -e <= ufrac < 0, or c = width-1 and width < ufrac <= width+e *)
From Coq Require Import Reals ZArith Lra Lia Bool PrimFloat List.
From Flocq Require Import Raux Generic_fmt Round_NE.
From PR Require Import Base.Num Base.RNum Base.F64 Model.Grid Model.CellIndex Model.CellSample Model.C18_run Gen.GenC18
     Proofs.Grid_real Proofs.C18_axis Proofs.C18_real Proofs.C18_gen Proofs.C18_sample.
From PR Require Model.Bucket Model.C01_Area Model.EWA.
From PR Require Import Base.Slice Base.Imp Model.QuickImp Gen.GenC18imp Proofs.C18_imp.
Open Scope R_scope.

(* a concrete area used by the non-vacuity examples: extent (0, 0, 8, 4), 8 x 4 cells of size 1 *)
Definition ex_a : area R := mk_area 0 0 8 4 8%Z 4%Z.
Example C18_ex_wf : wf_area ex_a /\ fits_int32 ex_a /\ valid_cell ex_a 1 0.
Proof. unfold wf_area, fits_int32, valid_cell; cbn. repeat split; try lia; lra. Qed.
Example C18_ex_interior : in_cell_open ex_a 1 0 (/ 2) (5 / 2).
Proof. unfold in_cell_open, sbetween, cell_x, cell_y, dxR, dyR; cbn. split; [left | right]; lra. Qed.
Example C18_ex_outside : ~ in_extent ex_a (- / 2) (5 / 2) /\ ~ in_extent_widened ex_a (eps_mi RO) (- / 2) (5 / 2).
Proof.
  pose proof eps_bounds. split; intros [[H1 | H1] _]; revert H1; unfold cell_x, dxR; cbn; lra.
Qed.
Example C18_ex_off_border : off_border ex_a (/ 2) (5 / 2).
Proof.
  split; intros k E; unfold cell_x, cell_y, dxR, dyR in E; cbn in E.
  - assert (H : IZR (2 * k) = IZR 1) by (rewrite mult_IZR; lra). apply eq_IZR in H. lia.
  - assert (H : IZR (2 * k) = IZR 3) by (rewrite mult_IZR; lra). apply eq_IZR in H. lia.
Qed.

(* ------------------------------------------------------------------ grid.get_linesample + validity masks
   (get_image_from_lonlats, get_resampled_image, ImageContainerQuick.resample) *)
Theorem C18_grid_cell_implies_extent : forall a x y r c, wf_area a ->
  grid_cell RO a x y = Some (r, c) -> valid_cell a r c /\ in_cell_closed a r c x y.
Proof. exact grid_sound. Qed.
Print Assumptions C18_grid_cell_implies_extent.
Theorem C18_grid_interior_implies_cell : forall a x y r c, wf_area a -> fits_int32 a ->
  valid_cell a r c -> in_cell_open a r c x y -> grid_cell RO a x y = Some (r, c).
Proof. exact grid_complete. Qed.
Print Assumptions C18_grid_interior_implies_cell.
Theorem C18_grid_outside_is_none : forall a x y, wf_area a -> ~ in_extent a x y -> grid_cell RO a x y = None.
Proof. exact grid_outside. Qed.
Print Assumptions C18_grid_outside_is_none.
Example C18_grid_ex : grid_cell RO ex_a (/ 2) (5 / 2) = Some (1%Z, 0%Z) /\ grid_cell RO ex_a (- / 2) (5 / 2) = None.
Proof.
  destruct C18_ex_wf as (W & F & V). split.
  - apply grid_complete; auto. exact C18_ex_interior.
  - apply grid_outside; auto. exact (proj1 C18_ex_outside).
Qed.

(* ------------------------------------------------------------------ utils.generate_quick_linesample_arrays
   (get_linesample + _downcast_index_array: sentinel [size] for out-of-range indices, uint16 cast = mod 2^16 when
   size <= 65535, int32 kept otherwise) consumed by ImageContainer.get_array_from_linesample.  The statements hold for
   ALL fractional indices, in particular <= -65536 and >= 65536 + size where the unsigned cast would wrap. *)
Theorem C18_quick_linesample_is_grid_cell : forall a x y, wf_area a -> quick_cell RO a x y = grid_cell RO a x y.
Proof. exact quick_is_grid. Qed.
Print Assumptions C18_quick_linesample_is_grid_cell.
Theorem C18_quick_linesample_cell_implies_extent : forall a x y r c, wf_area a ->
  quick_cell RO a x y = Some (r, c) -> valid_cell a r c /\ in_cell_closed a r c x y.
Proof. exact quick_sound. Qed.
Print Assumptions C18_quick_linesample_cell_implies_extent.
Theorem C18_quick_linesample_interior_implies_cell : forall a x y r c, wf_area a -> fits_int32 a ->
  valid_cell a r c -> in_cell_open a r c x y -> quick_cell RO a x y = Some (r, c).
Proof. exact quick_complete. Qed.
Print Assumptions C18_quick_linesample_interior_implies_cell.
Theorem C18_quick_linesample_outside_is_none : forall a x y, wf_area a -> ~ in_extent a x y -> quick_cell RO a x y = None.
Proof. exact quick_outside. Qed.
Print Assumptions C18_quick_linesample_outside_is_none.
(* dropping the `index_array < 0` part of the mask: 65536 pixels left of a 10 x 10 area wraps to column 0 *)
Theorem C18_quick_linesample_unmasked_refuted : exists (a : area R) (x y : R),
  wf_area a /\ ~ in_extent a x y /\ quick_cell_unmasked RO a x y = Some (5%Z, 0%Z).
Proof. exact quick_unmasked_refuted. Qed.
Print Assumptions C18_quick_linesample_unmasked_refuted.
Example C18_quick_f64 :
  let a := mk_area 0%float 0%float 10%float 10%float 10 10 in
  quick_cell F64 a (-65535.5)%float 4.5%float = None /\ quick_col F64 a (-65535.5)%float = 10%Z /\
  quick_cell_unmasked F64 a (-65535.5)%float 4.5%float = Some (5%Z, 0%Z) /\
  quick_cell F64 a 65536.5%float 4.5%float = None /\ quick_cell F64 a 0.5%float 4.5%float = Some (5%Z, 0%Z).
Proof. vm_compute. repeat split. Qed.

(* ------------------------------------------------------------------ GridFilter.get_valid_index *)
Theorem C18_gridfilter_cell_implies_extent : forall a x y r c, wf_area a ->
  gf_cell RO a x y = Some (r, c) -> valid_cell a r c /\ in_cell_closed a r c x y.
Proof. exact gf_sound. Qed.
Print Assumptions C18_gridfilter_cell_implies_extent.
Theorem C18_gridfilter_interior_implies_cell : forall a x y r c, wf_area a -> fits_int32 a ->
  valid_cell a r c -> in_cell_open a r c x y -> gf_cell RO a x y = Some (r, c).
Proof. exact gf_complete. Qed.
Print Assumptions C18_gridfilter_interior_implies_cell.
Theorem C18_gridfilter_outside_is_none : forall a x y, wf_area a -> ~ in_extent a x y -> gf_cell RO a x y = None.
Proof. exact gf_outside. Qed.
Print Assumptions C18_gridfilter_outside_is_none.

(* the code before the `fix: floor instead of truncation` commit (astype(int32) without np.floor) violates both "outside is none" clauses:
   half a pixel left of the extent is given column 0.  Real instance, and the binary64 instance that was replayed. *)
Theorem C18_grid_gridfilter_trunc_refuted : exists (a : area R) (x y : R),
  wf_area a /\ ~ in_extent a x y /\ grid_cell_trunc RO a x y = Some (1%Z, 0%Z) /\ gf_cell_trunc RO a x y = Some (1%Z, 0%Z).
Proof. exact grid_trunc_refuted. Qed.
Print Assumptions C18_grid_gridfilter_trunc_refuted.
Example C18_trunc_f64 :
  grid_cell_trunc F64 unit_area (-0.5)%float 2.5%float = Some (1%Z, 0%Z) /\
  gf_cell_trunc F64 unit_area 3%float 4.5%float = Some (0%Z, 3%Z) /\
  grid_cell F64 unit_area (-0.5)%float 2.5%float = None /\ gf_cell F64 unit_area 3%float 4.5%float = None.
Proof. vm_compute. repeat split. Qed.

(* ------------------------------------------------------------------ BucketResampler._get_indices (x_idxs, y_idxs) *)
Theorem C18_bucket_cell_implies_extent : forall a x y r c, wf_area a ->
  bk_cell RO a x y = Some (r, c) -> valid_cell a r c /\ in_cell_closed a r c x y.
Proof. exact bk_sound. Qed.
Print Assumptions C18_bucket_cell_implies_extent.
Theorem C18_bucket_interior_implies_cell : forall a x y r c, wf_area a -> fits_int32 a ->
  valid_cell a r c -> in_cell_open a r c x y -> bk_cell RO a x y = Some (r, c).
Proof. exact bk_complete. Qed.
Print Assumptions C18_bucket_interior_implies_cell.
Theorem C18_bucket_outside_is_none : forall a x y, wf_area a -> ~ in_extent a x y ->
  bk_cell RO a x y = None /\ bk_xy RO a x y = ((-1)%Z, (-1)%Z).
Proof. exact bk_outside_xy. Qed.
Print Assumptions C18_bucket_outside_is_none.

(* ------------------------------------------------------------------ AreaDefinition.get_array_indices_from_lonlat /
   _from_projection_coordinates (masked_ints).  eps = 0.02 pixel (the binary64 literal): an unmasked index means the
   point is in the closed cell, or within eps pixels outside the extent right next to that (edge) cell. *)
(* tie to the source: the fractional coordinates masked_ints works on are those of
   get_array_coordinates_from_projection_coordinates + _get_corner_and_scale as regenerated from geometry.py *)
Theorem C18_area_index_uses_source_coordinates : forall a x y, wf_area a ->
  area_cell RO a x y =
  (let '(cf, rf) := gen_array_coordinates_from_projection_coordinates RO a x y in
   if mi_mask RO (width a) cf || mi_mask RO (height a) rf then None
   else Some (mi_index RO (height a) rf, mi_index RO (width a) cf)).
Proof. exact area_cell_of_source. Qed.
Print Assumptions C18_area_index_uses_source_coordinates.
Theorem C18_area_eps_value : 0 < eps_mi RO /\ eps_mi RO < 2 / 100 + / 1000000000000000.
Proof. exact eps_bounds. Qed.
Theorem C18_area_cell_implies_extent_or_eps_band : forall a x y r c, wf_area a -> fits_int32 a ->
  area_cell RO a x y = Some (r, c) -> valid_cell a r c /\ in_cell_or_band a (eps_mi RO) r c x y.
Proof. exact area_sound. Qed.
Print Assumptions C18_area_cell_implies_extent_or_eps_band.
Theorem C18_area_interior_implies_cell : forall a x y r c, wf_area a -> fits_int32 a ->
  valid_cell a r c -> in_cell_open a r c x y -> area_cell RO a x y = Some (r, c).
Proof. exact area_complete. Qed.
Print Assumptions C18_area_interior_implies_cell.
Theorem C18_area_outside_eps_is_none : forall a x y, wf_area a ->
  ~ in_extent_widened a (eps_mi RO) x y -> area_cell RO a x y = None.
Proof. exact area_outside. Qed.
Print Assumptions C18_area_outside_eps_is_none.
Example C18_area_ex : area_cell RO ex_a (/ 2) (5 / 2) = Some (1%Z, 0%Z) /\ area_cell RO ex_a (- / 2) (5 / 2) = None.
Proof.
  destruct C18_ex_wf as (W & F & V). split.
  - apply area_complete; auto. exact C18_ex_interior.
  - apply area_outside; auto. exact (proj2 C18_ex_outside).
Qed.
(* the eps band is really taken (binary64 instance): 1/128 pixel left of the extent -> column 0; NaN -> masked *)
Example C18_area_band_f64 :
  area_cell F64 unit_area (-0x1p-7)%float 2.5%float = Some (1%Z, 0%Z) /\
  area_cell F64 unit_area (-0x1p-5)%float 2.5%float = None /\
  area_cell F64 unit_area PrimFloat.nan 2.5%float = None.
Proof. vm_compute. repeat split. Qed.

(* ------------------------------------------------------------------ EWA ll2cr (ewa.py + _ll2cr.pyx:ll2cr_static),
   any orientation of the area: ewa.py passes ch = -pixel_size_y, the area's own signed row scale (C08 fix; the former
   ch = -abs(pixel_size_y) broke the rows of flipped areas).  x >= 1e30 is PROJ's failure marker -> fill value. *)
Theorem C18_ll2cr_is_area_map : forall a fill x y, wf_area a -> x < big_1e30 RO ->
  ll2cr_point RO a fill x y =
  (arr_of_proj_x RO a x, arr_of_proj_y RO a y, ll_in_grid RO a (arr_of_proj_x RO a x) (arr_of_proj_y RO a y)).
Proof. exact ll2cr_point_R. Qed.
Print Assumptions C18_ll2cr_is_area_map.
Theorem C18_ll2cr_interior_rounds_to_cell : forall a fill x y r c, wf_area a -> x < big_1e30 RO ->
  valid_cell a r c -> in_cell_open a r c x y ->
  exists cf rf, ll2cr_point RO a fill x y = (cf, rf, true) /\ ZnearestE cf = c /\ ZnearestE rf = r
                /\ Rabs (cf - IZR c) < / 2 /\ Rabs (rf - IZR r) < / 2.
Proof. exact ll_cell. Qed.
Print Assumptions C18_ll2cr_interior_rounds_to_cell.
Theorem C18_ll2cr_outside_is_no_cell : forall a fill x y, wf_area a -> x < big_1e30 RO -> ~ in_extent a x y ->
  exists cf rf b, ll2cr_point RO a fill x y = (cf, rf, b) /\
    (cf < - / 2 \/ IZR (width a) - / 2 < cf \/ rf < - / 2 \/ IZR (height a) - / 2 < rf).
Proof. exact ll_outside. Qed.
Print Assumptions C18_ll2cr_outside_is_no_cell.
Theorem C18_ll2cr_counts_points_in_extent : forall a fill x y, wf_area a -> x < big_1e30 RO ->
  in_extent a x y -> snd (ll2cr_point RO a fill x y) = true.
Proof. exact ll_counted. Qed.
Print Assumptions C18_ll2cr_counts_points_in_extent.
Example C18_ll2cr_ex : / 2 < big_1e30 RO /\ ll2cr_point F64 unit_area PrimFloat.nan 0.5%float 2.5%float = (0%float, 1%float, true).
Proof. split; [rewrite big_R; lra | vm_compute; reflexivity]. Qed.
(* a flipped area (ymin = 4 > ymax = 0, rows counted from y = 0 upwards): y = 2.5 is in row 2, as for the area itself *)
Example C18_ll2cr_flipped_ex : wf_area (mk_area 0 4 8 0 8%Z 4%Z) /\
  ll2cr_point F64 (mk_area 0%float 4%float 8%float 0%float 8 4) PrimFloat.nan 0.5%float 2.5%float = (0%float, 2%float, true) /\
  area_cell F64 (mk_area 0%float 4%float 8%float 0%float 8 4) 0.5%float 2.5%float = Some (2%Z, 0%Z).
Proof. split; [unfold wf_area; cbn; repeat split; try lia; lra | vm_compute; split; reflexivity]. Qed.

(* ------------------------------------------------------------------ all modules agree
   Off the border lines, grid, GridFilter and bucket return the same answer everywhere; so does the area's index lookup
   except in the band of eps = 0.02 pixel just outside the extent, which it still attributes to the edge cell. *)
Theorem C18_all_modules_agree : forall a x y, wf_area a -> fits_int32 a -> off_border a x y ->
  grid_cell RO a x y = gf_cell RO a x y /\ gf_cell RO a x y = bk_cell RO a x y /\
  (in_extent a x y \/ ~ in_extent_widened a (eps_mi RO) x y -> area_cell RO a x y = bk_cell RO a x y).
Proof. exact all_agree. Qed.
Print Assumptions C18_all_modules_agree.
Example C18_agree_ex : grid_cell RO ex_a (/ 2) (5 / 2) = gf_cell RO ex_a (/ 2) (5 / 2) /\
  area_cell RO ex_a (/ 2) (5 / 2) = bk_cell RO ex_a (/ 2) (5 / 2) /\ bk_cell RO ex_a (/ 2) (5 / 2) = Some (1%Z, 0%Z).
Proof.
  destruct C18_ex_wf as (W & F & V).
  destruct (all_agree ex_a (/ 2) (5 / 2) W F C18_ex_off_border) as (A & B & C).
  split; [exact A |]. split.
  - apply C. left. unfold in_extent, between. cbn. lra.
  - apply bk_complete; auto. exact C18_ex_interior.
Qed.

(* ------------------------------------------------------------------ tie to the source (regenerated on every run, Gen/GenC18.v):
   the element-wise index recipes of the five modules ARE the model functions, for every arithmetic OP
   (hence for the real instance of the theorems above and for the binary64 instance of the correspondence). *)
Theorem C18_source_get_linesample : forall {T} (OP : ops T) a x y,
  gen_get_linesample OP a x y = (grid_row OP a y, grid_col OP a x).
Proof. intros T OP. exact (gen_get_linesample_char OP). Qed.
Print Assumptions C18_source_get_linesample.
Theorem C18_source_linesample_masks : forall {T} (a : area T) r c,
  gen_linesample_masks r c a = (in_range (height a) r, in_range (width a) c).
Proof. intros T. exact (@gen_linesample_masks_char T). Qed.
Print Assumptions C18_source_linesample_masks.
Theorem C18_source_gridfilter_index : forall {T} (OP : ops T) a x y,
  gen_gridfilter_index OP a x y =
  (let r := gf_row_with OP (floorZ OP) a y in let c := gf_col_with OP (floorZ OP) a x in
   ((if in_range (height a) r then r else 0), (if in_range (width a) c then c else 0), in_range (height a) r, in_range (width a) c))%Z.
Proof. intros T OP. exact (gen_gridfilter_index_char OP). Qed.
Print Assumptions C18_source_gridfilter_index.
Theorem C18_source_bucket_indices : forall {T} (OP : ops T) a x y, gen_bucket_indices OP a x y = bk_xy OP a x y.
Proof. intros T OP. exact (gen_bucket_indices_char OP). Qed.
Print Assumptions C18_source_bucket_indices.
Theorem C18_source_masked_ints : forall {T} (OP : ops T) a cf rf,
  gen_masked_ints OP a cf rf = (mi_mask OP (width a) cf, mi_index OP (width a) cf, mi_mask OP (height a) rf, mi_index OP (height a) rf).
Proof. intros T OP. exact (gen_masked_ints_char OP). Qed.
Print Assumptions C18_source_masked_ints.
Theorem C18_source_downcast_index_array : forall idx size, gen_downcast_index_array idx size = downcast size idx.
Proof. exact gen_downcast_char. Qed.
Print Assumptions C18_source_downcast_index_array.
Theorem C18_source_ll2cr_params : forall a : area R,
  gen_ll2cr_params RO a = (ll_cw RO a, ll_ch RO a, width a, height a, ll_ox RO a, ll_oy RO a).
Proof. exact gen_ll2cr_params_R. Qed.
Print Assumptions C18_source_ll2cr_params.
Theorem C18_source_ll2cr_params_binary64 : forall a : area PrimFloat.float,
  gen_ll2cr_params F64 a = (ll_cw F64 a, ll_ch F64 a, width a, height a, ll_ox F64 a, ll_oy F64 a).
Proof. exact gen_ll2cr_params_F. Qed.
Example C18_source_ex : gen_get_linesample F64 unit_area (-0.5)%float 2.5%float = (1%Z, (-1)%Z) /\
  gen_bucket_indices F64 unit_area (-0.5)%float 2.5%float = ((-1)%Z, (-1)%Z) /\ gen_downcast_index_array (-65536) 10 = 10%Z.
Proof. vm_compute. repeat split. Qed.

(* ------------------------------------------------------------------ what the index pairs are used for (Model/CellSample.v):
   get_image_from_linesample zeroes invalid indices, reads image[0, 0] there and overwrites it with the fill value;
   GridFilter reads filter[0, 0] there and ANDs it with the validity flags.  So no value of row 0 / column 0 (or of any
   other cell) ever reaches a point outside the extent, and an interior point gets exactly its cell's value. *)
Theorem C18_grid_image_value : forall {T} (OP : ops T) img fill a x y,
  grid_image OP img fill a x y = match grid_cell OP a x y with Some (r, c) => img r c | None => fill end.
Proof. intros T OP. exact (grid_image_spec OP). Qed.
Print Assumptions C18_grid_image_value.
Theorem C18_grid_image_outside_is_fill : forall img fill a x y, wf_area a -> ~ in_extent a x y -> grid_image RO img fill a x y = fill.
Proof. exact grid_image_outside. Qed.
Print Assumptions C18_grid_image_outside_is_fill.
Theorem C18_grid_image_interior_is_cell_value : forall img fill a x y r c, wf_area a -> fits_int32 a -> valid_cell a r c ->
  in_cell_open a r c x y -> grid_image RO img fill a x y = img r c.
Proof. exact grid_image_interior. Qed.
Print Assumptions C18_grid_image_interior_is_cell_value.
Theorem C18_quick_image_outside_is_fill : forall img fill a x y, wf_area a -> ~ in_extent a x y -> quick_image RO img fill a x y = fill.
Proof. exact quick_image_outside. Qed.
Print Assumptions C18_quick_image_outside_is_fill.
Theorem C18_quick_image_interior_is_cell_value : forall img fill a x y r c, wf_area a -> fits_int32 a -> valid_cell a r c ->
  in_cell_open a r c x y -> quick_image RO img fill a x y = img r c.
Proof. exact quick_image_interior. Qed.
Print Assumptions C18_quick_image_interior_is_cell_value.
Theorem C18_gridfilter_value : forall {T} (OP : ops T) filt a x y,
  gf_valid_index OP filt a x y = match gf_cell OP a x y with Some (r, c) => filt r c | None => false end.
Proof. intros T OP. exact (gf_valid_index_spec OP). Qed.
Print Assumptions C18_gridfilter_value.
Theorem C18_gridfilter_outside_is_false : forall filt a x y, wf_area a -> ~ in_extent a x y -> gf_valid_index RO filt a x y = false.
Proof. exact gf_valid_outside. Qed.
Print Assumptions C18_gridfilter_outside_is_false.
Example C18_value_ex : grid_image F64 (fun r c => r * 8 + c + 1)%Z 0 unit_area (-0.5)%float 2.5%float = 0%Z /\
  grid_image F64 (fun r c => r * 8 + c + 1)%Z 0 unit_area 0.5%float 2.5%float = 9%Z /\
  gf_valid_index F64 (fun _ _ => true) unit_area 3%float 4.5%float = false.
Proof. vm_compute. repeat split. Qed.

(* ------------------------------------------------------------------ composition with the area's own map (Grid_real, C01):
   the projection coordinates the area itself gives to the centre of pixel (r, c) come back as cell (r, c) in every
   module, and as exactly (c, r) from ll2cr *)
Theorem C18_pixel_centres_come_back : forall a r c, wf_area a -> fits_int32 a -> valid_cell a r c ->
  let x := proj_x RO a c in let y := proj_y RO a r in
  area_cell RO a x y = Some (r, c) /\ grid_cell RO a x y = Some (r, c) /\ quick_cell RO a x y = Some (r, c) /\
  gf_cell RO a x y = Some (r, c) /\ bk_cell RO a x y = Some (r, c) /\
  (x < big_1e30 RO -> forall fill, ll2cr_point RO a fill x y = (IZR c, IZR r, true)).
Proof. exact centres_roundtrip. Qed.
Print Assumptions C18_pixel_centres_come_back.

(* ------------------------------------------------------------------ the other properties' models of the same code are
   the same functions (C07's bucket indices for every arithmetic; C01's scalar index lookup and C08's ll2cr over R),
   so their theorems and C18's speak about one object *)
Theorem C18_bucket_model_is_C07_model : forall {T} (OP : ops T) (a : area T) x y,
  Bucket.bk_cell_of OP a (x, y) = bk_cell OP a x y /\ Bucket.bk_xy_idx OP a (x, y) = bk_xy OP a x y.
Proof. intros T OP. exact (c07_bucket_same OP). Qed.
Print Assumptions C18_bucket_model_is_C07_model.
Theorem C18_area_index_model_is_C01_model : forall a x y, wf_area a -> fits_int32 a ->
  C01_Area.c01_index_scalar RO a x y = match area_cell RO a x y with Some (r, c) => Some (c, r) | None => None end.
Proof. exact c01_index_same. Qed.
Print Assumptions C18_area_index_model_is_C01_model.
Theorem C18_ll2cr_model_is_C08_model : forall (a : area R) fill x y,
  EWA.ll2cr_pixel RO (EWA.ll2cr_params RO a) fill (x, y) = ll2cr_point RO a fill x y.
Proof. exact c08_ll2cr_same. Qed.
Print Assumptions C18_ll2cr_model_is_C08_model.

(* ------------------------------------------------------------------ several bucket resamplers evaluated in ONE dask.compute
   (merged task graph, Model/CellSample.v): as long as task names identify what the projection task computes (equal names
   only for equal outputs; in particular pairwise different names, which is what dask's default map_blocks naming gives:
   the token covers the bound method and thereby the resampler with its target area), every resampler's x_idxs / y_idxs
   are exactly its stand-alone indices, i.e. bk_xy of ITS OWN area on ITS OWN projection coordinates - for any number of
   resamplers, any arithmetic.  Naming the task after the lon/lat inputs only breaks the hypothesis (refuted below). *)
Theorem C18_bucket_joint_compute_is_standalone : forall {T} (OP : ops T) (rs : list (resampler (T := T))),
  keys_sound rs -> rs_joint OP rs = map (rs_standalone OP) rs.
Proof. intros T OP. exact (joint_is_standalone OP). Qed.
Print Assumptions C18_bucket_joint_compute_is_standalone.
Theorem C18_bucket_distinct_task_names_suffice : forall {T} (rs : list (resampler (T := T))),
  NoDup (map rs_key rs) -> keys_sound rs.
Proof. intros T. exact (@nodup_keys_sound T). Qed.
Print Assumptions C18_bucket_distinct_task_names_suffice.
Theorem C18_bucket_standalone_is_own_area : forall {T} (OP : ops T) (r : resampler (T := T)),
  rs_standalone OP r = map (fun p => bk_xy OP (rs_area r) (fst p) (snd p)) (rs_proj r).
Proof. intros T OP. exact (standalone_eq OP). Qed.
Print Assumptions C18_bucket_standalone_is_own_area.
(* two targets, one shared task name (the name depends on the lon/lats only): the second resampler bins the point with the
   first area's projection coordinates - a point outside its area lands in its cell (column 0, row 1) *)
Example C18_bucket_joint_shared_name_refuted :
  let ra := mk_rs unit_area 7 ((0.5%float, 2.5%float) :: nil) in
  let rb := mk_rs unit_area 7 ((100.5%float, 2.5%float) :: nil) in
  rs_standalone F64 rb = ((-1)%Z, (-1)%Z) :: nil /\ rs_joint F64 (ra :: rb :: nil) = (((0%Z, 1%Z) :: nil) :: ((0%Z, 1%Z) :: nil) :: nil) /\
  rs_joint F64 (mk_rs unit_area 7 ((0.5%float, 2.5%float) :: nil) :: mk_rs unit_area 8 ((100.5%float, 2.5%float) :: nil) :: nil)
    = (((0%Z, 1%Z) :: nil) :: (((-1)%Z, (-1)%Z) :: nil) :: nil).
Proof. vm_compute. repeat split. Qed.

(* ------------------------------------------------------------------ call histories on the caller's arrays (Model/CellSample.v)
   A program that hands the SAME lon/lat arrays / the same SwathDefinition to module after module - any of the five, any
   areas, any order, any repetitions - gets from every call what that call returns on the untouched arrays: the modules
   only read the caller's arrays (ll2cr writes col/row into the copy made by astype(copy=True)). *)
Theorem C18_history_of_read_only_calls : forall {S Out : Type} (h : list (call (S := S) (Out := Out))) (s : S),
  Forall read_only h -> run_history h s = map (fun c => fst (c s)) h.
Proof. intros S Out. exact (@history_independent S Out). Qed.
Print Assumptions C18_history_of_read_only_calls.
Theorem C18_module_history_independent : forall {T} (OP : ops T) (proj : T * T -> T * T) h s,
  Forall (is_module_call OP proj) h -> run_history h s = map (fun c => fst (c s)) h.
Proof. intros T OP proj. exact (module_history OP proj). Qed.
Print Assumptions C18_module_history_independent.
(* ll2cr without the copy: the second placement of the same arrays reads column/row numbers as coordinates -
   a point outside the unit area (x = 9.5) is then found in cell (row 2, column 1) *)
Example C18_history_inplace_ll2cr_refuted :
  let id := fun p : float * float => p in
  let s := ((9.5%float, 1.5%float) :: nil) in
  run_history (call_ll2cr F64 id unit_area PrimFloat.nan :: call_grid F64 id unit_area :: nil) s
    = OColRow ((9%float, 2%float, true) :: nil) :: OCells (None :: nil) :: nil /\
  run_history (call_ll2cr_inplace F64 id unit_area PrimFloat.nan :: call_bucket F64 id unit_area :: nil) s
    = OColRow ((9%float, 2%float, true) :: nil) :: OIdx (((-1)%Z, (-1)%Z) :: nil) :: nil /\
  run_history (call_ll2cr_inplace F64 id unit_area PrimFloat.nan :: call_ll2cr_inplace F64 id unit_area PrimFloat.nan
               :: call_grid F64 id unit_area :: nil) ((1.5%float, 0.5%float) :: nil)
    = OColRow ((1%float, 3%float, true) :: nil) :: OColRow ((0.5%float, 0.5%float, true) :: nil) :: OCells (Some (3%Z, 0%Z) :: nil) :: nil.
Proof. vm_compute. repeat split. Qed.

(* ------------------------------------------------------------------ memory layout on the multi-process path (Proj_MP):
   flatten in C order, apply the element-wise projection to the flat buffer, reshape in C order = the projection of every
   point at its own [i, j], for every rectangular array - whatever its memory layout, because ravel() is logical C order. *)
Theorem C18_flatten_project_reshape_is_pointwise : forall {A B : Type} (f : A -> B) (w : nat) (m : list (list A)),
  Forall (fun r => length r = w) m -> flat_apply f ravel_C w m = map (map f) m.
Proof. intros A B. exact (@flat_apply_pointwise A B). Qed.
Print Assumptions C18_flatten_project_reshape_is_pointwise.
(* flattening in MEMORY order (ravel(order='K')) a Fortran-ordered array permutes the points *)
Example C18_layout_memory_order_refuted :
  flat_apply (fun v : Z => (10 * v)%Z) ravel_C 3 ((1 :: 2 :: 3 :: nil) :: (4 :: 5 :: 6 :: nil) :: nil)%Z
    = ((10 :: 20 :: 30 :: nil) :: (40 :: 50 :: 60 :: nil) :: nil)%Z /\
  flat_apply (fun v : Z => (10 * v)%Z) (ravel_F 3) 3 ((1 :: 2 :: 3 :: nil) :: (4 :: 5 :: 6 :: nil) :: nil)%Z
    = ((10 :: 40 :: 20 :: nil) :: (50 :: 30 :: 60 :: nil) :: nil)%Z.
Proof. vm_compute. split; reflexivity. Qed.

(* ------------------------------------------------------------------ wave 3: grid.get_resampled_image (the engine of
   ImageContainerQuick.resample) TRANSLATED from source by tools/py2coq_imp.py (Gen/GenC18imp.v; world: Model/QuickImp.v).
   For every explicit `segments` and for the default (None: height // 500 segments above 500 rows) the function returns the
   unsegmented image: the target rows in order, each row sampled on its own - the loop over geometry._get_slice, the
   i == 0 / vstack accumulation and the final return neither lose, repeat nor reorder a row (uses C19's partition theorem
   for _get_slice).  With row_image = the per-point sampling of C18_grid_image_value this puts every pixel of the resampled
   image under the C18 clauses, whatever the segmentation.  Readings trusted by the spec are listed in GenC18imp.json. *)
Theorem C18_get_resampled_image_code_is_model : forall {Px : Type} (height : Z) (row_image : Z -> list Px) (k : Z),
  (1 < k -> 1 <= height)%Z ->
  value_of (imp_get_resampled_image height row_image tt tt tt tt tt (Some k) None)
  = COk (map row_image (zrows_from 0 (Z.to_nat height))).
Proof. intros Px height row_image k H. rewrite (resampled_explicit height row_image k H). unfold w_whole, w_sample, w_rows, w_all. cbn. rewrite Z.sub_0_r. reflexivity. Qed.
Print Assumptions C18_get_resampled_image_code_is_model.
Theorem C18_get_resampled_image_default_segments_code_is_model : forall {Px : Type} (height : Z) (row_image : Z -> list Px),
  (1 <= height < 2 ^ 40)%Z ->
  value_of (imp_get_resampled_image height row_image tt tt tt tt tt None None)
  = COk (map row_image (zrows_from 0 (Z.to_nat height))).
Proof. intros Px height row_image H. rewrite (resampled_default height row_image H). unfold w_whole, w_sample, w_rows, w_all. cbn. rewrite Z.sub_0_r. reflexivity. Qed.
Print Assumptions C18_get_resampled_image_default_segments_code_is_model.
(* the loop really runs (3 segments over 7 rows: slices [0,3) [3,6) [6,7)); with no target row the loop body never binds
   `result` and the generated definition answers Raised, as Python's UnboundLocalError does *)
Example C18_get_resampled_image_ex :
  value_of (imp_get_resampled_image 7%Z (fun i => (i :: nil)%Z) tt tt tt tt tt (Some 3%Z) None)
    = COk ((0 :: nil) :: (1 :: nil) :: (2 :: nil) :: (3 :: nil) :: (4 :: nil) :: (5 :: nil) :: (6 :: nil) :: nil)%Z /\
  value_of (imp_get_resampled_image 0%Z (fun i => (i :: nil)%Z) tt tt tt tt tt (Some 3%Z) None) = CRaised.
Proof. vm_compute. split; reflexivity. Qed.
