(* C09 — gradient search finds the exact source position; chunking is invisible.
   Only statements here; proofs live in Proofs/C09_*.v.  Reals; the source coordinate field is affine with
   non-zero determinant (for an area source that is the field of its own projection coordinates):
     sx(l,p) = x0 + a l + b p,  sy(l,p) = y0 + c l + e p,  gradients xl = a, xp = b, yl = c, yp = e.
   [exactL/exactP x0 y0 a b c e tx ty] = the exact fractional source line/pixel of the point (tx,ty): the inverse
   affine map.  "Inside the source grid" = inside the hull of the pixel centres, [inside lmax pmax L P]. *)
From Coq Require Import Reals ZArith Lra Lia Bool List PrimFloat.
From Flocq Require Import Zaux Raux Generic_fmt Round_NE.
From PR Require Import Model.Grid Model.CropBase Model.Crop Proofs.Grid_real Proofs.C11_crop.
From PR Require Import Base.ZX Base.Num Base.RNum Base.F64 Base.Slice Model.Partition Model.Blockwise Model.Gradient
     Gen.GenC09 Proofs.C09_newton Proofs.C09_scan Proofs.C09_kernels Proofs.C09_blocks Proofs.C09_main Proofs.C09_gen Proofs.C09_c11 Proofs.C09_legacy Proofs.C09_graph.
Import ListNotations.
Open Scope R_scope.

(* the three kernels of the model are the functions `nn`, `bil`, `indices_xy` of _gradient_search.pyx as they stand in the
   current tree (Gen/GenC09.v is regenerated from the source text on every run), for every arithmetic *)
Theorem C09_kernels_are_the_source : forall (T : Type) (OP : ops T) (data : Z -> Z -> T) l0 p0 dl dp lmax pmax,
  gen_nn OP data l0 p0 dl dp lmax pmax = nn_kern OP data lmax pmax l0 p0 dl dp /\
  gen_bil OP data l0 p0 dl dp lmax pmax = bil_kern OP data lmax pmax l0 p0 dl dp /\
  gen_indices_xy OP data l0 p0 dl dp lmax pmax = idx_kern OP l0 p0 dl dp.
Proof. intros. split; [apply gen_nn_eq | split; [apply gen_bil_eq | apply gen_indices_xy_eq]]. Qed.
(* the tail of gradient_resampler_indices (`indices_xy[0] += x_slice.start; indices_xy[1] += y_slice.start`), regenerated likewise *)
Theorem C09_indices_offset_is_the_source : forall (T : Type) (OP : ops T) ys xs (xy : T * T),
  gen_indices_offset OP (ys, xs) xy = add_offset OP ys xs xy.
Proof. intros. apply gen_indices_offset_eq. Qed.
Print Assumptions C09_indices_offset_is_the_source.
Print Assumptions C09_kernels_are_the_source.
(* ... and the per-pixel interpolators of the model are `_get_mask_and_adjusted_indices`, `block_nn_interpolator`,
   `block_bilinear_interpolator` of gradient/__init__.py as they stand (regenerated likewise), over the reals *)
Theorem C09_block_cores_are_the_source : forall (Dc : Z -> Z -> R) ny nx x y fill ys xs,
  gen_mask_adjust RO (x, y) (ys, xs) = mask_adjust RO ys xs (Some (x, y)) /\
  gen_block_nn RO (mk_arr2 (ny, nx) Dc) (x, y) fill (ys, xs) = block_nn RO Dc ny nx (x - IZR (sstart xs)) (y - IZR (sstart ys)) /\
  gen_block_bil RO (mk_arr2 (ny, nx) Dc) (x, y) fill (ys, xs) = block_bil RO Dc ny nx (x - IZR (sstart xs)) (y - IZR (sstart ys)).
Proof. intros. split; [apply gen_mask_adjust_RO | split; [apply gen_block_nn_RO | apply gen_block_bil_RO]]. Qed.
Print Assumptions C09_block_cores_are_the_source.

(* the gradient arrays the code hands to the search (np.gradient of the coordinate arrays of the full or cropped area) are,
   everywhere on a grid of at least 2x2 pixels, ends included, the constant slopes the theorems below are stated with *)
Theorem C09_np_gradient_of_affine : forall x0 y0 a b c e n_l n_p l p, (2 <= n_l)%Z -> (2 <= n_p)%Z -> (0 <= l < n_l)%Z -> (0 <= p < n_p)%Z ->
  let F := fields_of_coords RO n_l n_p (f_sx (affF x0 y0 a b c e)) (f_sy (affF x0 y0 a b c e)) in
  f_xl F l p = a /\ f_xp F l p = b /\ f_yl F l p = c /\ f_yp F l p = e.
Proof. exact fields_of_affine_coords. Qed.
Print Assumptions C09_np_gradient_of_affine.

(* [exactL], [exactP] really are the position: the affine map takes them back to the point *)
Theorem C09_exact_position_is_inverse : forall x0 y0 a b c e, c * b - e * a <> 0 -> forall tx ty,
  x0 + a * exactL x0 y0 a b c e tx ty + b * exactP x0 y0 a b c e tx ty = tx /\
  y0 + c * exactL x0 y0 a b c e tx ty + e * exactP x0 y0 a b c e tx ty = ty.
Proof. exact exact_is_inverse. Qed.
Print Assumptions C09_exact_position_is_inverse.

(* the Newton loop: from ANY in-image start, a target inside the hull of centres is accepted within two body
   executions (so within the 5 the code allows), at exactly its fractional position; indices_xy stores (P, L) *)
Theorem C09_newton_exact_affine : forall x0 y0 a b c e, c * b - e * a <> 0 ->
  forall lmax pmax, (0 <= lmax < 2 ^ 31)%Z -> (0 <= pmax < 2 ^ 31)%Z ->
  forall tx ty l0 p0 k,
    in_image lmax pmax l0 p0 = true ->
    inside lmax pmax (exactL x0 y0 a b c e tx ty) (exactP x0 y0 a b c e tx ty) = true ->
    exists l1 p1 dl dp,
      newton RO (affF x0 y0 a b c e) lmax pmax tx ty (S (S k)) l0 p0 = Conv l1 p1 dl dp /\
      IZR l1 + dl = exactL x0 y0 a b c e tx ty /\ IZR p1 + dp = exactP x0 y0 a b c e tx ty /\
      idx_kern RO l1 p1 dl dp = (exactP x0 y0 a b c e tx ty, exactL x0 y0 a b c e tx ty).
Proof. exact newton_exact. Qed.
Print Assumptions C09_newton_exact_affine.
Example C09_newton_ex :   (* rotated/sheared field, start in the far corner, target at line 2.25, pixel 0.5 of a 4x3 grid *)
  let tx := 1 + 2 * 2.25 + 1 * 0.5 in let ty := -1 + (-1) * 2.25 + 3 * 0.5 in
  exactL 1 (-1) 2 1 (-1) 3 tx ty = 2.25 /\ exactP 1 (-1) 2 1 (-1) 3 tx ty = 0.5 /\
  inside 3 2 (exactL 1 (-1) 2 1 (-1) 3 tx ty) (exactP 1 (-1) 2 1 (-1) 3 tx ty) = true.
Proof.
  cbv zeta. assert (E : exactL 1 (-1) 2 1 (-1) 3 (1 + 2 * 2.25 + 1 * 0.5) (-1 + -1 * 2.25 + 3 * 0.5) = 2.25 /\
                        exactP 1 (-1) 2 1 (-1) 3 (1 + 2 * 2.25 + 1 * 0.5) (-1 + -1 * 2.25 + 3 * 0.5) = 0.5).
  { unfold exactL, exactP. split; field. }
  destruct E as [-> ->]. repeat split. apply inside_true. lra.
Qed.

(* a target outside the hull of centres gets no value, from any carried-over state and with any kernel *)
Theorem C09_outside_no_position : forall x0 y0 a b c e, c * b - e * a <> 0 ->
  forall lmax pmax (A : Type) (kern : Z -> Z -> R -> R -> A) st tx ty,
    inside lmax pmax (exactL x0 y0 a b c e tx ty) (exactP x0 y0 a b c e tx ty) = false ->
    snd (pixel RO (affF x0 y0 a b c e) lmax pmax kern st (tx, ty)) = None.
Proof. intros. apply outside_none; assumption. Qed.
Print Assumptions C09_outside_no_position.

(* the whole zig-zag scan (one_step_gradient_indices), carrying the last position from pixel to pixel:
   every target pixel inside gets exactly (P, L), every other pixel nothing *)
Theorem C09_search_exact_positions : forall x0 y0 a b c e, c * b - e * a <> 0 ->
  forall lmax pmax, (0 <= lmax < 2 ^ 31)%Z -> (0 <= pmax < 2 ^ 31)%Z ->
  forall (dst : Z -> Z -> R * R) H W,
    search RO (affF x0 y0 a b c e) lmax pmax (idx_kern RO) dst H W
    = tab (fun i j =>
             let L := exactL x0 y0 a b c e (fst (dst i j)) (snd (dst i j)) in
             let P := exactP x0 y0 a b c e (fst (dst i j)) (snd (dst i j)) in
             if inside lmax pmax L P then Some (P, L) else None) 0 H 0 W.
Proof. intros. apply search_indices; assumption. Qed.
Print Assumptions C09_search_exact_positions.

(* 'nn' (Cython kernel, whole scan): a pixel inside gets the value of a source pixel whose cell contains the point *)
Theorem C09_nn_spec : forall x0 y0 a b c e, c * b - e * a <> 0 ->
  forall lmax pmax, (0 <= lmax < 2 ^ 31)%Z -> (0 <= pmax < 2 ^ 31)%Z ->
  forall (D : Z -> Z -> R) (dst : Z -> Z -> R * R) H W,
    Forall2 (fun i row => Forall2 (fun j o =>
        let L := exactL x0 y0 a b c e (fst (dst i j)) (snd (dst i j)) in
        let P := exactP x0 y0 a b c e (fst (dst i j)) (snd (dst i j)) in
        if inside lmax pmax L P
        then exists v, o = Some v /\ exists n m, v = D n m /\ contains lmax L n /\ contains pmax P m
        else o = None) (zrange 0 W) row)
      (zrange 0 H) (search RO (affF x0 y0 a b c e) lmax pmax (nn_kern RO D lmax pmax) dst H W).
Proof. intros. apply search_nn; assumption. Qed.
Print Assumptions C09_nn_spec.
(* 'nn' (block_nn_interpolator on a cropped block, block-relative index): the same, and off ties exactly the nearest pixel *)
Theorem C09_block_nn_spec : forall (D : Z -> Z -> R) oy ox ny nx L P,
  0 <= L - IZR oy <= IZR (ny - 1) -> 0 <= P - IZR ox <= IZR (nx - 1) ->
  (exists n m, block_nn RO (shift2 D oy ox) ny nx (P - IZR ox) (L - IZR oy) = D n m /\
     (oy <= n <= oy + ny - 1)%Z /\ (ox <= m <= ox + nx - 1)%Z /\ Rabs (IZR n - L) <= / 2 /\ Rabs (IZR m - P) <= / 2) /\
  (no_tie L -> no_tie P -> block_nn RO (shift2 D oy ox) ny nx (P - IZR ox) (L - IZR oy) = D (ZnearestE L) (ZnearestE P)).
Proof. intros. split; [apply block_nn_contains | apply block_nn_spec]; assumption. Qed.
Print Assumptions C09_block_nn_spec.

(* 'bilinear' (Cython kernel, whole scan): the standard bilinear interpolation of the four centres of ANY cell
   (kl, kl+1) x (kp, kp+1) enclosing the point *)
Theorem C09_bil_spec : forall x0 y0 a b c e, c * b - e * a <> 0 ->
  forall lmax pmax, (0 <= lmax < 2 ^ 31)%Z -> (0 <= pmax < 2 ^ 31)%Z ->
  forall (D : Z -> Z -> R) (dst : Z -> Z -> R * R) H W,
    search RO (affF x0 y0 a b c e) lmax pmax (bil_kern RO D lmax pmax) dst H W
    = tab (fun i j =>
             let L := exactL x0 y0 a b c e (fst (dst i j)) (snd (dst i j)) in
             let P := exactP x0 y0 a b c e (fst (dst i j)) (snd (dst i j)) in
             if inside lmax pmax L P then Some (bilin4 D (Zfloor L) (Zfloor P) L P) else None) 0 H 0 W.
Proof. intros. apply search_bil; assumption. Qed.
Print Assumptions C09_bil_spec.
Theorem C09_bilinear_any_enclosing_cell : forall (D : Z -> Z -> R) kl kp L P,
  IZR kl <= L <= IZR kl + 1 -> IZR kp <= P <= IZR kp + 1 ->
  bilin4 D (Zfloor L) (Zfloor P) L P = bilin4 D kl kp L P.
Proof. intros. apply bilin4_indep; try assumption; apply floor_encloses. Qed.
Print Assumptions C09_bilinear_any_enclosing_cell.
Example C09_bilin4_ex : forall D : Z -> Z -> R, bilin4 D 1 2 1.25 2.5
  = 0.75 * 0.5 * D 1%Z 2%Z + 0.75 * 0.5 * D 1%Z 3%Z + 0.25 * 0.5 * D 2%Z 2%Z + 0.25 * 0.5 * D 2%Z 3%Z.
Proof. intros. unfold bilin4. cbn -[Rmult Rplus Rminus]. replace (2 + 1)%Z with 3%Z by reflexivity. replace (1 + 1)%Z with 2%Z by reflexivity. lra. Qed.
(* 'bilinear' (block_bilinear_interpolator on a cropped block, block-relative index) *)
Theorem C09_block_bil_spec : forall (D : Z -> Z -> R) oy ox ny nx L P kl kp, (1 <= ny)%Z -> (1 <= nx)%Z ->
  0 <= L - IZR oy <= IZR (ny - 1) -> 0 <= P - IZR ox <= IZR (nx - 1) ->
  IZR kl <= L <= IZR kl + 1 -> IZR kp <= P <= IZR kp + 1 ->
  block_bil RO (shift2 D oy ox) ny nx (P - IZR ox) (L - IZR oy) = bilin4 D kl kp L P.
Proof. intros. apply block_bil_spec; assumption. Qed.
Print Assumptions C09_block_bil_spec.

(* gradient_resampler_indices on a cropped source (search on the crop, then += crop offset) = the index on the
   full source whenever the point is inside the crop's hull of centres, and nothing otherwise *)
Theorem C09_offset_commutes : forall x0 y0 a b c e, c * b - e * a <> 0 ->
  forall n_l n_p, (1 <= n_l <= 2 ^ 31)%Z -> (1 <= n_p <= 2 ^ 31)%Z ->
  forall (dst : Z -> Z -> R * R) ys xs rs cs, crop_ok n_l n_p ys xs ->
    gradient_resampler_indices RO (shift_fields (affF x0 y0 a b c e) (sstart ys) (sstart xs)) ys xs dst rs cs
    = tab (fun i j =>
             let L := exactL x0 y0 a b c e (fst (dst i j)) (snd (dst i j)) in
             let P := exactP x0 y0 a b c e (fst (dst i j)) (snd (dst i j)) in
             if in_crop ys xs L P then Some (P, L) else None) (sstart rs) (slen rs) (sstart cs) (slen cs)
    /\ forall L P, in_crop ys xs L P = true -> inside (n_l - 1) (n_p - 1) L P = true.
Proof.
  intros x0 y0 a b c e Hdet n_l n_p Hnl Hnp dst ys xs rs cs Ok. split.
  - apply (indices_on_crop x0 y0 a b c e Hdet n_l n_p Hnl Hnp dst ys xs rs cs Ok).
  - intros L P. apply in_crop_inside. exact Ok.
Qed.
Print Assumptions C09_offset_commutes.

(* chunk invariance.  [crop rs cs] = the source rectangle resample_blocks crops for the target block (rs, cs)
   (None: IncompatibleAreas, the block is filled with NaN).  H_crop (this is property C11): every crop is a proper
   sub-rectangle and contains, in its hull of centres, the position of every pixel of its block that lies inside the
   source.  GIVEN H_crop for the decompositions considered, the assembled result of ANY decomposition of the target
   is the pointwise specification, hence the same for all, and a pixel valued under one is valued under all. *)
Theorem C09_chunk_invariant_if : forall x0 y0 a b c e, c * b - e * a <> 0 ->
  forall n_l n_p, (1 <= n_l <= 2 ^ 31)%Z -> (1 <= n_p <= 2 ^ 31)%Z ->
  forall (D : Z -> Z -> R) (dst : Z -> Z -> R * R) (crop : pslice -> pslice -> option (pslice * pslice)) rows cols rows' cols',
    Forall (fun x => (0 <= x)%Z) rows -> Forall (fun x => (0 <= x)%Z) cols ->
    Forall (fun x => (0 <= x)%Z) rows' -> Forall (fun x => (0 <= x)%Z) cols' ->
    sumZ rows = sumZ rows' -> sumZ cols = sumZ cols' ->
    H_crop x0 y0 a b c e n_l n_p dst crop rows cols -> H_crop x0 y0 a b c e n_l n_p dst crop rows' cols' ->
    let Fc := fun ys xs : pslice => shift_fields (affF x0 y0 a b c e) (sstart ys) (sstart xs) in
    resample RO Fc crop dst D (block_bil RO) rows cols
    = tab (fun i j =>
             let L := exactL x0 y0 a b c e (fst (dst i j)) (snd (dst i j)) in
             let P := exactP x0 y0 a b c e (fst (dst i j)) (snd (dst i j)) in
             if inside (n_l - 1) (n_p - 1) L P then Some (bilin4 D (Zfloor L) (Zfloor P) L P) else None)
          0 (sumZ rows) 0 (sumZ cols)
    /\ resample RO Fc crop dst D (block_bil RO) rows cols = resample RO Fc crop dst D (block_bil RO) rows' cols'.
Proof.
  intros x0 y0 a b c e Hdet n_l n_p Hnl Hnp D dst crop rows cols rows' cols' Hr Hc Hr' Hc' Sr Sc HC HC' Fc.
  pose proof (bil_any_chunking x0 y0 a b c e Hdet n_l n_p Hnl Hnp D dst crop rows cols Hr Hc HC) as E1.
  pose proof (bil_any_chunking x0 y0 a b c e Hdet n_l n_p Hnl Hnp D dst crop rows' cols' Hr' Hc' HC') as E2.
  split; [exact E1|]. unfold Fc. rewrite E1, E2, Sr, Sc. reflexivity.
Qed.
Print Assumptions C09_chunk_invariant_if.

(* the same for 'nn', with one more named hypothesis: H_notie — no inside pixel lies exactly half way between two
   source centres (there np.rint of the block-relative index rounds to even, which depends on the crop offset) *)
Theorem C09_chunk_invariant_nn_if : forall x0 y0 a b c e, c * b - e * a <> 0 ->
  forall n_l n_p, (1 <= n_l <= 2 ^ 31)%Z -> (1 <= n_p <= 2 ^ 31)%Z ->
  forall (D : Z -> Z -> R) (dst : Z -> Z -> R * R) (crop : pslice -> pslice -> option (pslice * pslice)) rows cols rows' cols',
    Forall (fun x => (0 <= x)%Z) rows -> Forall (fun x => (0 <= x)%Z) cols ->
    Forall (fun x => (0 <= x)%Z) rows' -> Forall (fun x => (0 <= x)%Z) cols' ->
    sumZ rows = sumZ rows' -> sumZ cols = sumZ cols' ->
    H_crop x0 y0 a b c e n_l n_p dst crop rows cols -> H_crop x0 y0 a b c e n_l n_p dst crop rows' cols' ->
    H_notie x0 y0 a b c e n_l n_p dst rows cols -> H_notie x0 y0 a b c e n_l n_p dst rows' cols' ->
    let Fc := fun ys xs : pslice => shift_fields (affF x0 y0 a b c e) (sstart ys) (sstart xs) in
    resample RO Fc crop dst D (block_nn RO) rows cols
    = tab (fun i j =>
             let L := exactL x0 y0 a b c e (fst (dst i j)) (snd (dst i j)) in
             let P := exactP x0 y0 a b c e (fst (dst i j)) (snd (dst i j)) in
             if inside (n_l - 1) (n_p - 1) L P then Some (D (ZnearestE L) (ZnearestE P)) else None)
          0 (sumZ rows) 0 (sumZ cols)
    /\ resample RO Fc crop dst D (block_nn RO) rows cols = resample RO Fc crop dst D (block_nn RO) rows' cols'.
Proof.
  intros x0 y0 a b c e Hdet n_l n_p Hnl Hnp D dst crop rows cols rows' cols' Hr Hc Hr' Hc' Sr Sc HC HC' HT HT' Fc.
  pose proof (nn_any_chunking x0 y0 a b c e Hdet n_l n_p Hnl Hnp D dst crop rows cols Hr Hc HC HT) as E1.
  pose proof (nn_any_chunking x0 y0 a b c e Hdet n_l n_p Hnl Hnp D dst crop rows' cols' Hr' Hc' HC' HT') as E2.
  split; [exact E1|]. unfold Fc. rewrite E1, E2, Sr, Sc. reflexivity.
Qed.
Print Assumptions C09_chunk_invariant_nn_if.

(* ---------------- composition with property C11: no hypothesis of C09's own is left ----------------
   For an AREA source the coordinate field IS the affine grid map of the area and the exact position IS the area's own
   fractional array index (Model/Grid.v, the definitions C01/C11/C18 prove things about) ... *)
Theorem C09_area_source_is_affine : forall a : area R, wf_area a ->
  (forall l p, f_sx (area_fields a) l p = proj_x RO a p /\ f_sy (area_fields a) l p = proj_y RO a l) /\
  (forall tx ty, exactP (ax0 a) (ay0 a) 0 (dxR a) (- dyR a) 0 tx ty = arr_of_proj_x RO a tx /\
                 exactL (ax0 a) (ay0 a) 0 (dxR a) (- dyR a) 0 tx ty = arr_of_proj_y RO a ty) /\
  - dyR a * dxR a - 0 * 0 <> 0.
Proof.
  intros a H. split; [intros; apply area_fields_are_proj_coords | split; [intros; apply exact_is_array_index; exact H | apply area_det; exact H]].
Qed.
Print Assumptions C09_area_source_is_affine.

(* ... and the crop of a target block is AreaSlicer's arithmetic [crop_slices] (Model/Crop.v) applied to shapely's bounds of the
   block's buffered polygon.  From C11_bounds_to_slices_sound: if the bounds contain the source-CRS image of every pixel centre of
   the block (C11's named hypothesis H_poly, per block) and shapely's validity/intersection bits are true for a block that has a
   pixel on the grid (taken as true in C11 too), then H_crop holds for the block *)
Theorem C09_H_crop_from_C11 : forall (a : area R) valid inter bbox (dst : Z -> Z -> R * R) rs cs, wf_area a ->
  H_poly_block bbox dst rs cs -> H_bits_block a valid inter dst rs cs ->
  H_crop_block (ax0 a) (ay0 a) 0 (dxR a) (- dyR a) 0 (height a) (width a) dst (c11_crop a valid inter bbox) rs cs.
Proof. intros. apply H_crop_from_C11; assumption. Qed.
Print Assumptions C09_H_crop_from_C11.

(* chunk invariance for area sources under C11's hypothesis only (bilinear) *)
Theorem C09_chunk_invariant : forall (a : area R), wf_area a -> (height a <= 2 ^ 31)%Z -> (width a <= 2 ^ 31)%Z ->
  forall (D : Z -> Z -> R) (dst : Z -> Z -> R * R) valid inter bbox rows cols rows' cols',
    Forall (fun x => (0 <= x)%Z) rows -> Forall (fun x => (0 <= x)%Z) cols ->
    Forall (fun x => (0 <= x)%Z) rows' -> Forall (fun x => (0 <= x)%Z) cols' ->
    sumZ rows = sumZ rows' -> sumZ cols = sumZ cols' ->
    H_poly_blocks a valid inter bbox dst rows cols -> H_poly_blocks a valid inter bbox dst rows' cols' ->
    let Fc := fun ys xs : pslice => shift_fields (area_fields a) (sstart ys) (sstart xs) in
    let crop := c11_crop a valid inter bbox in
    resample RO Fc crop dst D (block_bil RO) rows cols
    = tab (fun i j =>
             let L := arr_of_proj_y RO a (snd (dst i j)) in let P := arr_of_proj_x RO a (fst (dst i j)) in
             if inside (height a - 1) (width a - 1) L P then Some (bilin4 D (Zfloor L) (Zfloor P) L P) else None)
          0 (sumZ rows) 0 (sumZ cols)
    /\ resample RO Fc crop dst D (block_bil RO) rows cols = resample RO Fc crop dst D (block_bil RO) rows' cols'.
Proof. exact chunk_invariant_from_C11. Qed.
Print Assumptions C09_chunk_invariant.

(* ... and for nn, off ties *)
Theorem C09_chunk_invariant_nn : forall (a : area R), wf_area a -> (height a <= 2 ^ 31)%Z -> (width a <= 2 ^ 31)%Z ->
  forall (D : Z -> Z -> R) (dst : Z -> Z -> R * R) valid inter bbox rows cols rows' cols',
    Forall (fun x => (0 <= x)%Z) rows -> Forall (fun x => (0 <= x)%Z) cols ->
    Forall (fun x => (0 <= x)%Z) rows' -> Forall (fun x => (0 <= x)%Z) cols' ->
    sumZ rows = sumZ rows' -> sumZ cols = sumZ cols' ->
    H_poly_blocks a valid inter bbox dst rows cols -> H_poly_blocks a valid inter bbox dst rows' cols' ->
    H_notie (ax0 a) (ay0 a) 0 (dxR a) (- dyR a) 0 (height a) (width a) dst rows cols ->
    H_notie (ax0 a) (ay0 a) 0 (dxR a) (- dyR a) 0 (height a) (width a) dst rows' cols' ->
    let Fc := fun ys xs : pslice => shift_fields (area_fields a) (sstart ys) (sstart xs) in
    let crop := c11_crop a valid inter bbox in
    resample RO Fc crop dst D (block_nn RO) rows cols = resample RO Fc crop dst D (block_nn RO) rows' cols'.
Proof. exact chunk_invariant_nn_from_C11. Qed.
Print Assumptions C09_chunk_invariant_nn.
(* H_poly_blocks is satisfiable: a bbox that is the whole plane region around a 4x4 unit-pixel source, target = the source grid *)
Example C09_H_poly_blocks_ex : forall rows cols,
  H_poly_blocks unit4 (fun _ _ => true) (fun _ _ => true) (fun _ _ => (0, 0, 4, 4))
                (fun i j => (IZR (Z.max 0 (Z.min 3 j)) + / 2, 4 - IZR (Z.max 0 (Z.min 3 i)) - / 2)) rows cols.
Proof. exact H_poly_blocks_example. Qed.

(* H_crop is satisfiable for every decomposition: the crop that always returns the whole source *)
Example C09_H_crop_ex : forall x0 y0 a b c e n_l n_p (dst : Z -> Z -> R * R) rows cols, (1 <= n_l)%Z -> (1 <= n_p)%Z ->
  H_crop x0 y0 a b c e n_l n_p dst (fun _ _ => Some (mk_slice 0 n_l, mk_slice 0 n_p)) rows cols.
Proof.
  intros x0 y0 a b c e n_l n_p dst rows cols Hl Hp rs cs _ _. split.
  - intros ys xs E. inversion E; subst. unfold crop_ok; cbn. lia.
  - intros i j _ _ I. do 2 eexists. split; [reflexivity|]. unfold in_crop, slen; cbn [sstart sstop].
    replace (Z.max 0 (n_l - 0) - 1)%Z with (n_l - 1)%Z by lia. replace (Z.max 0 (n_p - 0) - 1)%Z with (n_p - 1)%Z by lia.
    rewrite !Rminus_0_r. exact I.
Qed.

(* ... and it is needed: binary64 instance of the same model, identity coordinates on a 3x3 source and target;
   a crop that raises for one-pixel-thick target blocks (the slicer before its repair) makes rows [2;1] lose row 2 *)
Definition ex_F : fields float := mk_fields (fun _ p => Z2F p) (fun l _ => Z2F l) (fun _ _ => 0%float) (fun _ _ => 1%float)
                                            (fun _ _ => 1%float) (fun _ _ => 0%float).
Definition ex_crop (rs cs : pslice) : option (pslice * pslice) :=
  if (slen rs =? 1)%Z || (slen cs =? 1)%Z then None else Some (mk_slice 0 3, mk_slice 0 3).
Definition ex_resample (rows cols : list Z) : list (list (option float)) :=
  resample F64 (fun ys xs => shift_fields ex_F (sstart ys) (sstart xs)) ex_crop (fun i j => (Z2F j, Z2F i))
           (fun l p => Z2F (10 * l + p)) (block_bil F64) rows cols.
Definition ex_valued (a : list (list (option float))) : list (list bool) :=
  map (map (fun o => match o with Some _ => true | None => false end)) a.
Theorem C09_chunk_dependence_without_H_crop_refuted :
  ex_valued (ex_resample [3%Z] [3%Z]) = [[true; true; true]; [true; true; true]; [true; true; true]] /\
  ex_valued (ex_resample [2%Z; 1%Z] [3%Z]) = [[true; true; true]; [true; true; true]; [false; false; false]].
Proof. split; vm_compute; reflexivity. Qed.
Print Assumptions C09_chunk_dependence_without_H_crop_refuted.

(* why H_notie is there: the same point (2.5, 2.5), seen from a crop starting at 0 and from a crop starting at 1,
   is given two different source pixels by block_nn_interpolator (np.rint rounds the block-relative index to even) *)
Example C09_nn_tie_depends_on_crop_offset :
  let D := fun l p : Z => Z2F (10 * l + p) in
  block_nn F64 (shift2 D 0 0) 5 5 (PrimFloat.sub 2.5 (Z2F 0)) (PrimFloat.sub 2.5 (Z2F 0)) = 22%float /\
  block_nn F64 (shift2 D 1 1) 4 4 (PrimFloat.sub 2.5 (Z2F 1)) (PrimFloat.sub 2.5 (Z2F 1)) = 33%float.
Proof. split; vm_compute; reflexivity. Qed.

(* ---------------- the legacy stacking path (parallel_gradient_search + _concatenate_chunks; its resampler class is gone from the
   package, the functions remain): one Cython search per co-located source chunk, reduced with nanmax.  The stack is valued
   exactly where SOME chunk's hull of centres contains the point, with the full-source bilinear value ... *)
Theorem C09_legacy_stack_spec : forall x0 y0 a b c e, c * b - e * a <> 0 ->
  forall n_l n_p, (1 <= n_l <= 2 ^ 31)%Z -> (1 <= n_p <= 2 ^ 31)%Z ->
  forall (D : Z -> Z -> R) (dst : Z -> Z -> R * R) rs cs crops, Forall (fun cr => crop_ok n_l n_p (fst cr) (snd cr)) crops ->
    legacy_stack RO (affF x0 y0 a b c e) D dst rs cs crops
    = tab (fun i j =>
             let L := exactL x0 y0 a b c e (fst (dst i j)) (snd (dst i j)) in
             let P := exactP x0 y0 a b c e (fst (dst i j)) (snd (dst i j)) in
             if existsb (fun cr => in_crop (fst cr) (snd cr) L P) crops then Some (bilin4 D (Zfloor L) (Zfloor P) L P) else None)
          (sstart rs) (slen rs) (sstart cs) (slen cs).
Proof. intros x0 y0 a b c e Hdet n_l n_p Hl Hp D dst rs cs crops Hok. exact (legacy_stack_spec x0 y0 a b c e Hdet n_l n_p Hl Hp D dst rs cs crops Hok). Qed.
Print Assumptions C09_legacy_stack_spec.
(* ... hence the pointwise specification GIVEN H_cover (the chunks' hulls together cover every inside position of the block) *)
Theorem C09_legacy_stack_if : forall x0 y0 a b c e, c * b - e * a <> 0 ->
  forall n_l n_p, (1 <= n_l <= 2 ^ 31)%Z -> (1 <= n_p <= 2 ^ 31)%Z ->
  forall (D : Z -> Z -> R) (dst : Z -> Z -> R * R) rs cs crops, Forall (fun cr => crop_ok n_l n_p (fst cr) (snd cr)) crops ->
    H_cover x0 y0 a b c e n_l n_p dst rs cs crops ->
    legacy_stack RO (affF x0 y0 a b c e) D dst rs cs crops
    = tab (fun i j =>
             let L := exactL x0 y0 a b c e (fst (dst i j)) (snd (dst i j)) in
             let P := exactP x0 y0 a b c e (fst (dst i j)) (snd (dst i j)) in
             if inside (n_l - 1) (n_p - 1) L P then Some (bilin4 D (Zfloor L) (Zfloor P) L P) else None)
          (sstart rs) (slen rs) (sstart cs) (slen cs).
Proof. intros x0 y0 a b c e Hdet n_l n_p Hl Hp D dst rs cs crops Hok Hc. exact (legacy_stack_if x0 y0 a b c e Hdet n_l n_p Hl Hp D dst rs cs crops Hok Hc). Qed.
Print Assumptions C09_legacy_stack_if.
(* H_cover fails for a plain partition of the source into chunks (binary64 instance, identity coordinates, 4x2 source cut into rows
   0..1 and 2..3): the target pixel at source row 1.5 lies between the two hulls and is lost, while one chunk values it *)
Definition ex_stack (crops : list (pslice * pslice)) : list (list bool) :=
  ex_valued (legacy_stack F64 ex_F (fun l p => Z2F (10 * l + p)) (fun i j => (0.5%float, PrimFloat.add (Z2F i) 0.5%float))
                          (mk_slice 0 3) (mk_slice 0 1) crops).
Theorem C09_legacy_partition_loses_seam_refuted :
  ex_stack [(mk_slice 0 4, mk_slice 0 2)] = [[true]; [true]; [true]] /\
  ex_stack [(mk_slice 0 2, mk_slice 0 2); (mk_slice 2 4, mk_slice 0 2)] = [[true]; [false]; [true]] /\
  ex_stack [(mk_slice 0 3, mk_slice 0 2); (mk_slice 2 4, mk_slice 0 2)] = [[true]; [true]; [true]].
Proof. repeat split; vm_compute; reflexivity. Qed.
Print Assumptions C09_legacy_partition_loses_seam_refuted.

(* ---------------- lazy results are pure: several decompositions in ONE dask computation ----------------
   resample_blocks gives every task the key (name, block position); computing several lazy arrays together merges their
   graphs.  With pairwise different names every array reads back exactly the blocks it reads alone (any number of arrays,
   induction over the list of graphs); the harness checks on every run that the real names of different decompositions
   differ and that joint evaluation equals stand-alone evaluation *)
Theorem C09_joint_computation_pure : forall (V : Type) (gs : list (Z * list ((Z * Z) * V))), NoDup (map fst gs) ->
  forall n b ps, In (n, b) gs -> read_array (merge_graphs gs) n ps = read_array (graph_of n b) n ps.
Proof. intros V. exact (@merged_graph_pure V). Qed.
Print Assumptions C09_joint_computation_pure.
(* ... and the names must differ: two decompositions (one block / two blocks) under the SAME name, computed together:
   the second array reads the first one's block at position (0,0) *)
Theorem C09_joint_same_name_refuted :
  (read_array (graph_of 7 [((0, 0), 100)] ++ graph_of 7 [((0, 0), 1); ((1, 0), 2)]) 7 [(0, 0); (1, 0)] = [Some 100; Some 2] /\
   read_array (graph_of 7 [((0, 0), 1); ((1, 0), 2)]) 7 [(0, 0); (1, 0)] = [Some 1; Some 2])%Z.
Proof. split; reflexivity. Qed.
Print Assumptions C09_joint_same_name_refuted.

(* ---------------- a source area that is itself a slice of a bigger area (big[r0:, c0:][r1:, c1:]..., any number of steps) ----------------
   the search on its coordinate arrays returns positions relative to the slice: the big area's position minus the ACCUMULATED
   start of the steps — nothing else of the slicing history enters (induction over the list of steps) *)
Theorem C09_sliced_source_positions : forall x0 y0 a b c e, c * b - e * a <> 0 ->
  forall steps lmax pmax, (0 <= lmax < 2 ^ 31)%Z -> (0 <= pmax < 2 ^ 31)%Z ->
  forall (dst : Z -> Z -> R * R) H W,
    search RO (slice_steps (affF x0 y0 a b c e) steps) lmax pmax (idx_kern RO) dst H W
    = tab (fun i j =>
             let L := exactL x0 y0 a b c e (fst (dst i j)) (snd (dst i j)) - IZR (fst (steps_start steps)) in
             let P := exactP x0 y0 a b c e (fst (dst i j)) (snd (dst i j)) - IZR (snd (steps_start steps)) in
             if inside lmax pmax L P then Some (P, L) else None) 0 H 0 W.
Proof. exact sliced_source_positions. Qed.
Print Assumptions C09_sliced_source_positions.
Example C09_steps_start_ex : steps_start [(5, 8); (9, 6)]%Z = (14, 14)%Z.
Proof. reflexivity. Qed.
