(* C08 — EWA maps swath pixels exactly and averages them without inventing values.
   Only statements here; proofs live in Proofs/C08_*.v; the model is Model/EWA.v.

   Conventions.  [ll2cr OP a fill pts] mirrors ewa.ll2cr + _ll2cr.ll2cr_static on the projected points [pts]
   (PROJ is an oracle: [proj] below is an arbitrary function); [arr_of_proj_x/_y] (Model/Grid.v) is the area's own
   get_array_coordinates_from_projection_coordinates.  A swath pixel is [mk_pixel v fp]: its value ([None] = NaN or
   equal to the input fill) and its FOOTPRINT [fp] = the grid cells it touches with their table weights.  The
   footprint (compute_ewa_parameters, the ellipse scan, the q recurrence, the weight table) is an ORACLE table; the
   theorems hold for every table with positive weights.  [fornav_cell_s RO mwm smin 0 pixels c] is what one-shot fornav
   writes to cell c ([None] = the fill value) with effective threshold smin; [fornav_cell] takes the user
   parameters weight_sum_min / weight_min; [dask_at] is the DaskEWAResampler result (placeholders, per-output-chunk
   offsets, tree reduction by _combine_fornav, _average_fornav).  Theorems with [RO] are over the reals: float32
   accumulation (accum_type / weight_type = float) is NOT covered by them; the correspondence bounds it. *)
From Coq Require Import Reals ZArith List Lia Lra Bool QArith.
From PR Require Import Base.Num Base.RNum Base.Slice Base.Imp Model.Grid Model.EWA Gen.GenC08 Gen.GenC08imp Model.C08_run Model.C08_rungen
     Proofs.Grid_real Proofs.C08_ll2cr Proofs.C08_acc Proofs.C08_dask Proofs.C08_gen Proofs.C08_hist Proofs.C08_imp Proofs.C08_imp_tasks.
Import ListNotations.
Open Scope R_scope.

(* ------------------------------------------------------------------ ll2cr *)
(* every swath pixel gets the column/row the area itself assigns to its projected position, the fill where the
   projection failed (x >= 1e30); holds for any sign of the pixel sizes (flipped extents included) *)
Theorem C08_ll2cr_is_area_map : forall (proj : R * R -> R * R) (a : area R) (fill : R) (lonlats : list (R * R)),
  wf_area a ->
  snd (ll2cr_lonlat RO proj a fill lonlats) =
  map (fun ll => if Rleb (big30 RO) (fst (proj ll)) then (fill, fill)
                 else (arr_of_proj_x RO a (fst (proj ll)), arr_of_proj_y RO a (snd (proj ll)))) lonlats.
Proof. exact ll2cr_is_area_map. Qed.
Print Assumptions C08_ll2cr_is_area_map.

(* ... which is column (x - xmin)/dx - 1/2 and row (ymax - y)/dy - 1/2 with the signed pixel sizes dx, dy *)
Theorem C08_ll2cr_canonical : forall (a : area R) (fill x y : R),
  wf_area a -> x < big30 RO ->
  area_cr a fill (x, y) = ((x - xmin a) / dxR a - /2, (ymax a - y) / dyR a - /2).
Proof. exact area_cr_canonical. Qed.
Print Assumptions C08_ll2cr_canonical.

(* the returned count = number of pixels whose projection succeeded and whose column/row lie within one cell
   of the grid: -1 <= col <= width + 1 and -1 <= row <= height + 1 *)
Theorem C08_points_in_grid_spec : forall (proj : R * R -> R * R) (a : area R) (fill : R) (lonlats : list (R * R)),
  wf_area a ->
  fst (ll2cr_lonlat RO proj a fill lonlats) = Z.of_nat (length (filter (fun ll => counted_b a (proj ll)) lonlats)).
Proof. exact points_in_grid_spec. Qed.
Print Assumptions C08_points_in_grid_spec.
Theorem C08_counted_iff : forall (a : area R) (xy : R * R),
  counted_b a xy = true <->
  fst xy < big30 RO /\
  (-1 <= arr_of_proj_x RO a (fst xy) <= IZR (width a) + 1 /\ -1 <= arr_of_proj_y RO a (snd xy) <= IZR (height a) + 1).
Proof. exact counted_b_spec. Qed.
Print Assumptions C08_counted_iff.

(* the tie to the source: [gen_ll2cr_params] (coq/Gen/GenC08.v) is regenerated on every run from the current text of
   pyresample/ewa/ewa.py:ll2cr (backward slice of the arguments handed to _ll2cr.ll2cr_static); it IS the model's
   parameter computation, so the theorems above are statements about what the source computes *)
Theorem C08_source_params_are_model : forall (a : area R),
  params_of_tuple (gen_ll2cr_params RO a) = ll2cr_params RO a.
Proof. exact gen_params_R. Qed.
Print Assumptions C08_source_params_are_model.
(* ... and [gen_ll2cr_body], regenerated from the TEXT of the element loop of _ll2cr.pyx:ll2cr_static (Cython is not
   installed: the .pyx cannot be rebuilt, but its source is read on every run), is the model's loop body for EVERY
   arithmetic instance -- reals, binary64 and rationals alike *)
Theorem C08_pyx_loop_body_is_model : forall {T} (OP : ops T) x y fill cw ch w h ox oy,
  gen_ll2cr_body OP x y fill cw ch w h ox oy = ll2cr_pixel OP (mk_crp cw ch ox oy w h) fill (x, y).
Proof. intros T OP. exact (gen_body_is_pixel OP). Qed.
Print Assumptions C08_pyx_loop_body_is_model.
Theorem C08_pyx_loop_is_model : forall {T} (OP : ops T) p fill pts,
  ll2cr_static_src OP p fill pts = ll2cr_static OP p fill pts.
Proof. intros T OP. exact (ll2cr_static_src_eq OP). Qed.
Print Assumptions C08_pyx_loop_is_model.
(* [ll2cr_static_src ... (params_of_tuple (gen_ll2cr_params ...))] below consists of generated code only *)
Theorem C08_ll2cr_source_is_area_map : forall (proj : R * R -> R * R) (a : area R) (fill : R) (lonlats : list (R * R)),
  wf_area a ->
  snd (ll2cr_static_src RO (params_of_tuple (gen_ll2cr_params RO a)) fill (map proj lonlats)) =
  map (fun ll => if Rleb (big30 RO) (fst (proj ll)) then (fill, fill)
                 else (arr_of_proj_x RO a (fst (proj ll)), arr_of_proj_y RO a (snd (proj ll)))) lonlats.
Proof. exact ll2cr_src_is_area_map. Qed.
Print Assumptions C08_ll2cr_source_is_area_map.
Theorem C08_ll2cr_source_count : forall (proj : R * R -> R * R) (a : area R) (fill : R) (lonlats : list (R * R)),
  wf_area a ->
  fst (ll2cr_static_src RO (params_of_tuple (gen_ll2cr_params RO a)) fill (map proj lonlats)) =
  Z.of_nat (length (filter (fun ll => counted_b a (proj ll)) lonlats)).
Proof. exact ll2cr_src_count. Qed.
Print Assumptions C08_ll2cr_source_count.

(* hypotheses satisfiable, non-trivially: a FLIPPED 4x4 area (ymin > ymax); the point (1, -3) has column 1/2, row 1/2 *)
Definition ex_flipped : area R := mk_area 0 0 4 (-4) 4 4.
Example C08_ex_flipped_wf : wf_area ex_flipped.
Proof. unfold wf_area, ex_flipped; cbn. repeat split; try lia; lra. Qed.
Example C08_ex_flipped_point : area_cr ex_flipped 0 (1, -3) = (/2, /2).
Proof.
  rewrite area_cr_canonical; [| exact C08_ex_flipped_wf | pose proof big30_pos; unfold big30 in *; cbn [lit RO] in *].
  - unfold dxR, dyR, ex_flipped. cbn [xmin xmax ymin ymax width height]. f_equal; field.
  - replace (Flocq.Core.Raux.bpow Flocq.Core.Zaux.radix2 0) with 1 by reflexivity. rewrite Rmult_1_r. apply Rlt_trans with 2; [lra|]. apply (IZR_lt 2). lia.
Qed.

(* ------------------------------------------------------------------ fornav *)
(* generic in the arithmetic (reals, binary64, rationals): after the scan the state of a cell is the fold of
   the contributions (value, weight) of the valid pixels whose footprint contains the cell, in scan order *)
Theorem C08_accumulate_is_contribution_fold : forall {T} (OP : ops T) mwm (pixels : list (pixel T)) g c,
  accumulate OP mwm pixels g c = fold_cell OP mwm (contribs pixels c) (g c).
Proof. intros T OP. exact (accumulate_cell OP). Qed.
Print Assumptions C08_accumulate_is_contribution_fold.

Theorem C08_contribution_iff : forall {T} (pixels : list (pixel T)) (c : cell) (v w : T),
  In (v, w) (contribs pixels c) <-> exists p, In p pixels /\ px_val p = Some v /\ In (c, w) (px_fp p).
Proof. intros T. exact (@In_contribs T). Qed.
Print Assumptions C08_contribution_iff.

(* NaN / fill pixels never contribute: removing one changes no cell *)
Theorem C08_invalid_never_contributes : forall {T} (OP : ops T) mwm (l1 l2 : list (pixel T)) p g c,
  px_val p = None -> accumulate OP mwm (l1 ++ p :: l2) g c = accumulate OP mwm (l1 ++ l2) g c.
Proof. intros T OP. exact (invalid_pixel_ignored OP). Qed.
Print Assumptions C08_invalid_never_contributes.

(* average mode: fill, or THE weighted mean of the valid contributing inputs *)
Theorem C08_fornav_is_weighted_mean : forall (pixels : list (pixel R)) c smin,
  fornav_cell_s RO false smin 0 pixels c =
  let l := contribs pixels c in if Rltb (sumw l) smin then None else Some (sumvw l / sumw l).
Proof. exact fornav_avg_mean. Qed.
Print Assumptions C08_fornav_is_weighted_mean.

(* ... hence within the range of the valid contributing inputs (lo, hi arbitrary bounds of them: take min / max) *)
Theorem C08_fornav_bounded : forall (pixels : list (pixel R)) c smin lo hi,
  0 < smin ->
  (forall p v w, In p pixels -> px_val p = Some v -> In (c, w) (px_fp p) -> 0 < w /\ lo <= v <= hi) ->
  match fornav_cell_s RO false smin 0 pixels c with None => True | Some r => lo <= r <= hi end.
Proof. exact fornav_bounded. Qed.
Print Assumptions C08_fornav_bounded.

(* ... and a value IS written once the weights reach the threshold *)
Theorem C08_fornav_written : forall (pixels : list (pixel R)) c smin,
  smin <= sumw (contribs pixels c) -> fornav_cell_s RO false smin 0 pixels c <> None.
Proof. exact fornav_written. Qed.
Print Assumptions C08_fornav_written.

Theorem C08_constant_exact : forall (pixels : list (pixel R)) c smin k,
  0 < smin ->
  (forall p v w, In p pixels -> px_val p = Some v -> In (c, w) (px_fp p) -> 0 < w /\ v = k) ->
  fornav_cell_s RO false smin 0 pixels c = None \/ fornav_cell_s RO false smin 0 pixels c = Some k.
Proof. exact fornav_constant. Qed.
Print Assumptions C08_constant_exact.

(* maximum weight mode: fill, or the value of a valid input whose footprint contains the cell with maximal weight *)
Theorem C08_maxweight_is_input : forall (pixels : list (pixel R)) c smin,
  0 < smin ->
  match fornav_cell_s RO true smin 0 pixels c with
  | None => True
  | Some r => exists p w, In p pixels /\ px_val p = Some r /\ In (c, w) (px_fp p) /\
                          (forall p' v' w', In p' pixels -> px_val p' = Some v' -> In (c, w') (px_fp p') -> w' <= w)
  end.
Proof. exact fornav_maxweight. Qed.
Print Assumptions C08_maxweight_is_input.

(* the user-level thresholds are positive whatever weight_sum_min is *)
Theorem C08_threshold_positive : forall s, 0 < sum_min_write RO s.
Proof. exact sum_min_write_pos. Qed.
Print Assumptions C08_threshold_positive.

(* concrete, non-trivial instance (exact rationals, the same generic definitions): two valid pixels and a NaN
   pixel over cell (0,0): the mean (10*1/2 + 20*1/4)/(3/4) = 40/3; maximum weight mode gives 10; the cell (5,5)
   nobody touches gets the fill *)
Definition ex_pixels : list (pixel Q) :=
  [ mk_pixel (Some 10%Q) [((0, 0)%Z, (1 # 2)%Q); ((0, 1)%Z, (1 # 4)%Q)];
    mk_pixel None [((0, 0)%Z, 1%Q)];
    mk_pixel (Some 20%Q) [((0, 0)%Z, (1 # 4)%Q)] ].
Example C08_ex_mean : fornav_cell QO false (-1)%Q (1 # 100)%Q 0%Q ex_pixels (0, 0)%Z = Some (40 # 3)%Q.
Proof. vm_compute. reflexivity. Qed.
Example C08_ex_max : fornav_cell QO true (-1)%Q (1 # 100)%Q 0%Q ex_pixels (0, 0)%Z = Some 10%Q.
Proof. vm_compute. reflexivity. Qed.
Example C08_ex_fill : fornav_cell QO false (-1)%Q (1 # 100)%Q 0%Q ex_pixels (5, 5)%Z = None.
Proof. vm_compute. reflexivity. Qed.
(* the hypotheses of C08_fornav_bounded hold for a real-valued instance of the same shape *)
Definition ex_pixels_R : list (pixel R) :=
  [ mk_pixel (Some 10) [((0, 0)%Z, /2)]; mk_pixel None [((0, 0)%Z, 1)]; mk_pixel (Some 20) [((0, 0)%Z, /4)] ].
Example C08_ex_bounded_hyp :
  forall p v w, In p ex_pixels_R -> px_val p = Some v -> In ((0, 0)%Z, w) (px_fp p) -> 0 < w /\ 10 <= v <= 20.
Proof.
  intros p v w [<-|[<-|[<-|[]]]] Hv Hf; cbn in Hv, Hf; try discriminate;
    inversion Hv; subst; destruct Hf as [E|[]]; inversion E; subst; lra.
Qed.
Example C08_ex_written : fornav_cell_s RO false (/100) 0 ex_pixels_R (0, 0)%Z <> None.
Proof. apply fornav_written. unfold ex_pixels_R, contribs, sumw; cbn. lra. Qed.

(* ------------------------------------------------------------------ dask = one shot *)
(* For ALL groupings of ALL splits of the scan list into input chunks (the reduction tree), ALL output chunks
   (y0, x0, nr, nc) and every cell c of the chunk, the dask result equals one-shot fornav on the concatenated scan
   list, exactly over the reals.  `_if`: H_empty is NOT guaranteed by the code for chunks dropped by the ll2cr count
   (C08_dropped_chunk_refuted below; known finding C08.dask.dropped_chunk.footprint_beyond_margin).  H_cov (the
   kernel's footprint on a shifted sub-grid = the full-grid footprint restricted and renumbered) is built into
   [dask_at] through [sub_pixel]; the real kernel satisfies it up to the float32 weight-table quantisation. *)
Theorem C08_combine_is_oneshot_if :
  forall mwm wsm wmin y0 x0 nr nc (groups : list (list (bool * list (pixel R)))) c,
  in_sub y0 x0 nr nc c = true ->
  (* H_pos *)
  (forall g ic p c' w, In g groups -> In ic g -> In p (snd ic) -> In (c', w) (px_fp p) -> 0 < w) ->
  (* H_thresh: both paths use the same effective threshold (explicit weight_sum_min > 0: C08_thresholds_explicit),
     or every table weight reaches both (default -1: one-shot thresholds at weight_min, dask at EPSILON) *)
  (sum_min_write RO (sum_min_fornav RO wsm wmin) = sum_min_write RO wsm \/
   forall g ic p c' w, In g groups -> In ic g -> In p (snd ic) -> In (c', w) (px_fp p) ->
     sum_min_write RO (sum_min_fornav RO wsm wmin) <= w /\ sum_min_write RO wsm <= w) ->
  (* H_empty *)
  (forall g ic p c' w, In g groups -> In ic g -> fst ic = true -> In p (snd ic) -> px_val p <> None ->
     In (c', w) (px_fp p) -> in_sub y0 x0 nr nc c' = false) ->
  dask_at RO mwm (sum_min_write RO wsm) 0 y0 x0 nr nc groups c
  = fornav_cell RO mwm wsm wmin 0 (concat (map (fun g => concat (map snd g)) groups)) c.
Proof. exact combine_is_oneshot. Qed.
Print Assumptions C08_combine_is_oneshot_if.

(* the reduction itself, at a cell of a sub-grid, for every tree shape; no hypothesis on thresholds *)
Theorem C08_tree_reduction_is_fold : forall mwm smin (groups : list (list (bool * list (pixel R)))) c,
  0 < smin ->
  (forall g ic, In g groups -> In ic g -> pos_weights (contribs (snd ic) c)) ->
  (forall g ic, In g groups -> In ic g -> fst ic = true -> contribs (snd ic) c = []) ->
  dask_cell_tree RO mwm smin 0 groups c
  = fornav_cell_s RO mwm smin 0 (concat (map (fun g => concat (map snd g)) groups)) c.
Proof. exact dask_tree_is_oneshot. Qed.
Print Assumptions C08_tree_reduction_is_fold.

Theorem C08_flat_reduction_is_tree : forall mwm smin (chunks : list (bool * list (pixel R))) c,
  dask_cell RO mwm smin 0 chunks c = dask_cell_tree RO mwm smin 0 (map (fun ic => [ic]) chunks) c.
Proof. exact dask_cell_as_tree. Qed.
Print Assumptions C08_flat_reduction_is_tree.

(* H_thresh is vacuous for an explicit positive weight_sum_min; with the default (-1) one-shot thresholds at
   weight_min and the dask path at EPSILON, so the table weights must reach weight_min (they do: the last table
   entry is weight_min) *)
Theorem C08_thresholds_explicit : forall wsm wmin,
  0 < wsm -> sum_min_write RO (sum_min_fornav RO wsm wmin) = wsm /\ sum_min_write RO wsm = wsm.
Proof. exact thresholds_agree. Qed.
Print Assumptions C08_thresholds_explicit.
Theorem C08_thresholds_default : forall wmin,
  0 < wmin -> sum_min_write RO (sum_min_fornav RO (-1) wmin) = wmin /\ sum_min_write RO (-1) = eps32 RO.
Proof. exact thresholds_default. Qed.
Print Assumptions C08_thresholds_default.

(* the hypotheses of C08_combine_is_oneshot_if are satisfiable by a non-trivial instance: two chunks in two
   groups, one pixel each on cell (2,3) of the output chunk (2,2,2,2), explicit threshold 1/100 *)
Definition ex_groups_R : list (list (bool * list (pixel R))) :=
  [ [ (false, [mk_pixel (Some 10) [((2, 3)%Z, /2)]]) ]; [ (false, [mk_pixel (Some 20) [((2, 3)%Z, /4); ((0, 0)%Z, /2)]]) ] ].
Example C08_ex_combine_hyp :
  in_sub 2 2 2 2 (2, 3)%Z = true /\
  sum_min_write RO (sum_min_fornav RO (/100) (/100)) = sum_min_write RO (/100) /\
  (forall g ic p c' w, In g ex_groups_R -> In ic g -> In p (snd ic) -> In (c', w) (px_fp p) ->
     0 < w /\ sum_min_write RO (sum_min_fornav RO (/100) (/100)) <= w /\ sum_min_write RO (/100) <= w) /\
  (forall g ic, In g ex_groups_R -> In ic g -> fst ic = false).
Proof.
  split; [reflexivity|]. destruct (thresholds_agree (/100) (/100)) as [E1 E2]; [lra|]. rewrite E1, E2.
  split; [reflexivity|]. split.
  - intros g ic p c' w [<-|[<-|[]]] [<-|[]] [<-|[]] Hf; cbn in Hf.
    + destruct Hf as [E|[]]; inversion E; subst; lra.
    + destruct Hf as [E|[E|[]]]; inversion E; subst; lra.
  - intros g ic [<-|[<-|[]]] [<-|[]]; reflexivity.
Qed.
(* the same instance over the rationals: both sides evaluate to 40/3 *)
Definition ex_groups_Q : list (list (bool * list (pixel Q))) :=
  [ [ (false, [mk_pixel (Some 10%Q) [((2, 3)%Z, (1 # 2)%Q)]]) ];
    [ (false, [mk_pixel (Some 20%Q) [((2, 3)%Z, (1 # 4)%Q); ((0, 0)%Z, (1 # 2)%Q)]]) ] ].
Example C08_ex_combine_value :
  dask_at QO false (sum_min_write QO (1 # 100)%Q) 0%Q 2 2 2 2 ex_groups_Q (2, 3)%Z = Some (40 # 3)%Q /\
  fornav_cell QO false (1 # 100)%Q (1 # 100)%Q 0%Q (concat (map (fun g => concat (map snd g)) ex_groups_Q)) (2, 3)%Z
  = Some (40 # 3)%Q.
Proof. split; vm_compute; reflexivity. Qed.

(* an explicit fill_value -- including the falsy 0 / 0.0 -- is the value written to empty cells and the value that marks
   invalid input, for every arithmetic instance; only None selects the default (NaN / dtype maximum) *)
Theorem C08_explicit_fill_is_used : forall {T} (OP : ops T) (f dflt v : T),
  grid_value (effective_fill (Some f) dflt) None = f /\
  classify OP (effective_fill (Some f) dflt) v = classify OP f v /\
  grid_value (effective_fill None dflt) None = dflt.
Proof. intros. repeat split. Qed.
Print Assumptions C08_explicit_fill_is_used.
Example C08_ex_fill_zero : grid_value (effective_fill (Some 0%Q) 127%Q) None = 0%Q /\ classify QO (effective_fill (Some 0%Q) 7%Q) 0%Q = None.
Proof. split; reflexivity. Qed.

(* an explicitly passed rows_per_scan is the scan size used, whatever the geolocation attrs say; 0 means the whole
   swath; the attrs are used only when the keyword is None; nothing given is an error (None) *)
Theorem C08_explicit_rows_per_scan_wins : forall (k : Z) (attr : option Z) (nrows : Z),
  get_rows_per_scan (Some k) attr nrows = Some (if (k =? 0)%Z then nrows else k) /\
  get_rows_per_scan None attr nrows = get_rows_per_scan attr None nrows /\
  get_rows_per_scan None None nrows = None.
Proof. intros. repeat split. destruct attr; reflexivity. Qed.
Print Assumptions C08_explicit_rows_per_scan_wins.
(* code is model: [imp_get_rows_per_scan] is DaskEWAResampler._get_rows_per_scan translated by tools/py2coq_imp.py from the
   current source (xr / da: xarray importable, lons is a DataArray; attr = lons.attrs.get('rows_per_scan')); it returns
   exactly what [get_rows_per_scan] says and raises exactly where that is None.  Hence an explicit keyword wins in the
   generated method too. *)
Theorem C08_get_rows_per_scan_code_is_model : forall kw xr da attr nrows,
  value_of (imp_get_rows_per_scan kw xr da attr nrows) =
  match get_rows_per_scan kw (if xr && da then attr else None) nrows with Some v => COk v | None => CRaised end.
Proof. exact get_rows_per_scan_code_is_model. Qed.
Print Assumptions C08_get_rows_per_scan_code_is_model.
Theorem C08_generated_explicit_rows_per_scan_wins : forall k xr da attr nrows,
  value_of (imp_get_rows_per_scan (Some k) xr da attr nrows) = COk (if (k =? 0)%Z then nrows else k).
Proof. intros. rewrite get_rows_per_scan_code_is_model. reflexivity. Qed.
Print Assumptions C08_generated_explicit_rows_per_scan_wins.

(* code is model: [imp_fornav_tasks] is DaskEWAResampler._generate_fornav_dask_tasks translated by tools/py2coq_imp.py from the
   current source (three nested loops, running y_start / x_start, enumerate over the ll2cr blocks, dict assignment).  For
   ALL output chunkings and ALL block lists (also lists with blocks left out, as persist=True produces) it returns the
   dictionary obtained by assigning, in order, the model's tasks: for every block of [out_blocks], one task per ll2cr
   block, keyed (task name, position z in the list, out_row_idx, out_col_idx) and carrying that block's token, the
   block's y/x slices and the block's OWN (in_row_idx, in_col_idx).  [dput] = Python dict assignment in order. *)
Theorem C08_fornav_tasks_code_is_model : forall ych xch blocks tn inp tgt fv kw,
  value_of (imp_fornav_tasks (ych, xch) blocks tn inp tgt fv kw) = COk (dput [] (tasks_model tn ych xch blocks)).
Proof. exact fornav_tasks_code_is_model. Qed.
Print Assumptions C08_fornav_tasks_code_is_model.
(* non-trivial instance: chunks ((2,3),(4)), two blocks of which the second is input chunk 5 *)
Example C08_ex_tasks :
  dput [] (tasks_model 7 [2; 3] [4] [((0, 1, 0), 101); ((0, 5, 0), 105)])%Z =
  [ ((7, 0, 0, 0), (101, mk_slice 0 2, mk_slice 0 4, (1, 0))); ((7, 1, 0, 0), (105, mk_slice 0 2, mk_slice 0 4, (5, 0)));
    ((7, 0, 1, 0), (101, mk_slice 2 5, mk_slice 0 4, (1, 0))); ((7, 1, 1, 0), (105, mk_slice 2 5, mk_slice 0 4, (5, 0))) ]%Z.
Proof. vm_compute. reflexivity. Qed.

Example C08_ex_rows_per_scan : get_rows_per_scan (Some 4%Z) (Some 2%Z) 8%Z = Some 4%Z /\ get_rows_per_scan (Some 0%Z) (Some 2%Z) 8%Z = Some 8%Z.
Proof. split; reflexivity. Qed.

(* masked-array entry point of fornav: the result is masked where _mask_helper (regenerated from ewa.py) says so, which
   is exactly where a value would be classified as invalid input (NaN equals nothing: first hypothesis; a written
   cell is the fill or a number: second) *)
Theorem C08_mask_helper_is_invalid : forall {T} (OP : ops T) d fill,
  (isnan OP fill = true -> eqb OP d fill = false) -> (isnan OP fill = false -> isnan OP d = false) ->
  gen_mask_helper OP d fill = match classify OP fill d with None => true | Some _ => false end.
Proof. intros T OP d fill H1 H2. rewrite gen_mask_helper_eq. exact (mask_helper_classify OP d fill H1 H2). Qed.
Print Assumptions C08_mask_helper_is_invalid.

(* ------------------------------------------------------------------ the resampler object: persist, histories, legacy *)
(* [dr] = per input chunk, did ll2cr count no pixel near the grid (geometry only).  A call's chunks are CONSISTENT
   with it when a dropped chunk is a placeholder (always true in the code: _delayed_fornav returns the placeholder
   for a placeholder ll2cr result).  persist=True leaves the dropped chunks out of the block cache, persist=False
   keeps them as placeholders: same cell values.  Generic in the arithmetic. *)
Theorem C08_persist_is_transparent : forall {T} (OP : ops T) dr mwm smin rounding c chunks,
  consistent dr chunks ->
  snd (resample_call OP dr mwm smin rounding c None (true, chunks)) =
  snd (resample_call OP dr mwm smin rounding c None (false, chunks)).
Proof. intros T OP. exact (persist_is_transparent OP). Qed.
Print Assumptions C08_persist_is_transparent.

(* ANY history of resample() calls on one resampler object (each with its own persist flag and data; the cache is
   filled by the first call only): every call returns what a fresh object returns for that data *)
Theorem C08_history_is_stateless : forall {T} (OP : ops T) dr mwm smin rounding c calls cache,
  match cache with Some m => valid_mask dr m | None => True end ->
  Forall (fun call => consistent dr (snd call)) calls ->
  run_history OP dr mwm smin rounding c cache calls = map (fun call => dask_cell OP mwm smin rounding (snd call) c) calls.
Proof. intros T OP. exact (history_is_stateless OP). Qed.
Print Assumptions C08_history_is_stateless.

(* ll2cr chunk by chunk (dask map_blocks over _call_ll2cr; LegacyDaskEWAResampler._call_ll2cr) = ll2cr of the whole
   swath: same columns/rows, counts add up.  The legacy resampler then runs ONE fornav on the concatenation, i.e. it is
   the one-shot path. *)
Theorem C08_ll2cr_chunked : forall {T} (OP : ops T) (a : area T) fill (chunks : list (list (T * T))),
  snd (ll2cr OP a fill (concat chunks)) = concat (map (fun ch => snd (ll2cr OP a fill ch)) chunks) /\
  fst (ll2cr OP a fill (concat chunks)) = fold_right Z.add 0%Z (map (fun ch => fst (ll2cr OP a fill ch)) chunks).
Proof. intros T OP. exact (ll2cr_chunked OP). Qed.
Print Assumptions C08_ll2cr_chunked.

(* DaskEWAResampler._new_chunks: the input row chunk is a positive multiple of rows_per_scan *)
Theorem C08_input_chunks_scan_aligned : forall auto_rows rps,
  (0 < rps)%Z -> exists k, (1 <= k)%Z /\ scan_aligned_rows auto_rows rps = (k * rps)%Z.
Proof. exact scan_aligned_spec. Qed.
Print Assumptions C08_input_chunks_scan_aligned.

(* non-trivial instance: 3 input chunks, the first dropped by ll2cr; three calls persist=True, False, True with
   different data; every call gives the fresh-object value (40/3, 10, 20) *)
Definition ex_dr : list bool := [true; false; false].
Definition ex_call (v1 v2 : Q) : list (bool * list (pixel Q)) :=
  [ (true, [mk_pixel (Some 99%Q) [((0, 0)%Z, 1%Q)]]);
    (false, [mk_pixel (Some v1) [((0, 0)%Z, (1 # 2)%Q)]]);
    (false, [mk_pixel (Some v2) [((0, 0)%Z, (1 # 4)%Q)]]) ].
Example C08_ex_history_hyp : Forall (fun call => consistent ex_dr (snd call))
                                    [(true, ex_call 10%Q 20%Q); (false, ex_call 10%Q 10%Q); (true, ex_call 20%Q 20%Q)].
Proof.
  repeat constructor; cbn; intros [|[|[|i]]] H; try discriminate; try reflexivity; destruct i; discriminate.
Qed.
Example C08_ex_history_value :
  run_history QO ex_dr false (1 # 100)%Q 0%Q (0, 0)%Z None
              [(true, ex_call 10%Q 20%Q); (false, ex_call 10%Q 10%Q); (true, ex_call 20%Q 20%Q)]
  = [Some (40 # 3)%Q; Some 10%Q; Some 20%Q].
Proof. vm_compute. reflexivity. Qed.

(* ------------------------------------------------------------------ the dropped chunk (finding) *)
(* dask_ewa._call_ll2cr replaces an input chunk by a placeholder when ll2cr counts no pixel within ONE cell of the
   grid; a footprint reaches further.  Witness over the rationals (same generic model): 4x4 area with unit cells;
   chunk 1 = one pixel projected to (1/2, 6), i.e. column 0, row -5/2 (not counted) whose footprint reaches cell
   (0,0); chunk 2 = one pixel at row 0.  The flag is COMPUTED by the ll2cr model. *)
Definition ex_area_Q : area Q := mk_area 0%Q 0%Q 4%Q 4%Q 4 4.
Definition ex_chunk1_pts : list (Q * Q) := [((1 # 2)%Q, 6%Q)].
Definition ex_chunk2_pts : list (Q * Q) := [((1 # 2)%Q, (7 # 2)%Q)].
Definition ex_dropped_groups : list (list (bool * list (pixel Q))) :=
  [ [ (chunk_dropped QO ex_area_Q 0%Q ex_chunk1_pts, [mk_pixel (Some 10%Q) [((0, 0)%Z, (1 # 2)%Q)]]) ];
    [ (chunk_dropped QO ex_area_Q 0%Q ex_chunk2_pts, [mk_pixel (Some 20%Q) [((0, 0)%Z, (1 # 2)%Q)]]) ] ].
Theorem C08_dropped_chunk_refuted :
  snd (ll2cr QO ex_area_Q 0%Q ex_chunk1_pts) = [(0%Q, (-5 # 2)%Q)] /\
  chunk_dropped QO ex_area_Q 0%Q ex_chunk1_pts = true /\ chunk_dropped QO ex_area_Q 0%Q ex_chunk2_pts = false /\
  dask_at QO false (sum_min_write QO (-1)%Q) 0%Q 0 0 4 4 ex_dropped_groups (0, 0)%Z = Some 20%Q /\
  fornav_cell QO false (-1)%Q (1 # 100)%Q 0%Q (concat (map (fun g => concat (map snd g)) ex_dropped_groups)) (0, 0)%Z
  = Some 15%Q.
Proof. repeat split; vm_compute; reflexivity. Qed.
Print Assumptions C08_dropped_chunk_refuted.

(* ------------------------------------------------------------------ output chunk layout *)
(* _generate_fornav_dask_tasks: blocks in row-major order with running-sum offsets, e.g. chunks ((2,3),(4,1)) *)
Example C08_ex_blocks :
  out_blocks [2; 3]%Z [4; 1]%Z =
  [ (0, 0, (0, 2), (0, 4)); (0, 1, (0, 2), (4, 5)); (1, 0, (2, 5), (0, 4)); (1, 1, (2, 5), (4, 5)) ]%Z.
Proof. reflexivity. Qed.
