(* C19 — partition helpers and overlap merging are exact for every size and order.
   Only statements here; proofs live in Proofs/C19_*.v. *)
From Coq Require Import ZArith List Lia Bool.
From PR Require Import Base.ZX Base.Slice Model.Partition Gen.GenSubset
     Model.Unions Proofs.C19_partition Proofs.C19_raa Proofs.C19_divisible Proofs.C19_unions_spec Proofs.C19_unions.
Import ListNotations.
Open Scope Z_scope.

(* row segments: for every size >= 0 and segment count >= 1 the slices are consecutive,
   non-empty, tile [0,size) exactly and there are at most [segments] of them *)
Theorem C19_get_slice_partition : forall segments size, 0 <= size -> 1 <= segments ->
  tiles 0 (get_slice segments size) size /\ Z.of_nat (length (get_slice segments size)) <= segments.
Proof. exact get_slice_partition. Qed.
Print Assumptions C19_get_slice_partition.
Example C19_get_slice_ex : get_slice 3 10 = [mk_slice 0 4; mk_slice 4 8; mk_slice 8 10].
Proof. reflexivity. Qed.

(* chunk-slice enumeration: per axis the offsets are the prefix sums (slices tile [0, sum) in order,
   positions are 0..n-1); the blocks are exactly the cartesian product, each exactly once *)
Theorem C19_chunk_axis_tiles : forall c, Forall (fun x => 0 <= x) c ->
  wtiles 0 (map snd (offsets 0 0 c)) (sumZ c) /\ map fst (offsets 0 0 c) = seq 0 (length c).
Proof. intros c H. exact (offsets_wtiles c 0%nat 0 H). Qed.
Print Assumptions C19_chunk_axis_tiles.
Theorem C19_chunk_slices_product : forall chunks blk,
  In blk (enumerate_chunk_slices chunks) <-> Forall2 (fun a c => In a (offsets 0 0 c)) blk chunks.
Proof. exact chunk_slices_product. Qed.
Print Assumptions C19_chunk_slices_product.
Theorem C19_chunk_slices_count : forall chunks,
  length (enumerate_chunk_slices chunks) = fold_right (fun c n => (length c * n)%nat) 1%nat chunks.
Proof. exact chunk_slices_count. Qed.
(* no block is listed twice (positions along each axis are distinct) *)
Theorem C19_chunk_slices_nodup : forall chunks, NoDup (enumerate_chunk_slices chunks).
Proof. exact chunk_slices_nodup. Qed.
Print Assumptions C19_chunk_slices_nodup.
Print Assumptions C19_chunk_slices_count.
Example C19_chunks_ex : enumerate_chunk_slices [[2; 1]; [3]] =
  [[(0%nat, mk_slice 0 2); (0%nat, mk_slice 0 3)]; [(1%nat, mk_slice 2 3); (0%nat, mk_slice 0 3)]].
Proof. reflexivity. Qed.

(* RowAppendableArray: after any sequence of appends, within or beyond the reserved capacity,
   the array equals the concatenation of the appended rows *)
Theorem C19_row_appendable_refines_concat : forall (A : Type) cap (appends : list (list A)),
  raa_to_array (fold_left raa_append appends (raa_init cap)) = map Some (concat appends).
Proof. intros A. exact (@raa_refines_concat A). Qed.
Print Assumptions C19_row_appendable_refines_concat.
Example C19_raa_ex : raa_to_array (fold_left raa_append [[1; 2]; [3; 4; 5]; [6]] (raa_init 3))
  = map Some [1; 2; 3; 4; 5; 6].
Proof. reflexivity. Qed.

(* slice made divisible (definition regenerated from /repo on every run) *)
Theorem C19_make_divisible_spec : forall s max_size factor,
  0 <= sstart s -> sstart s < sstop s -> sstop s <= max_size -> 0 < factor ->
  divisible_good s (gen_make_slice_divisible s max_size factor) max_size factor.
Proof. exact make_divisible_spec. Qed.
Print Assumptions C19_make_divisible_spec.
Example C19_divisible_ex : gen_make_slice_divisible (mk_slice 1 3) 4 4 = mk_slice 0 4.
Proof. reflexivity. Qed.

(* overlap merging: for every family of geometries whose overlap relation is symmetric and distributes
   over union (true of sets; the named hypothesis for spherical polygons), the result has every input in
   exactly one union, unions pairwise non-overlapping, and two inputs share a union iff they are connected
   in the overlap graph: the unions are exactly the connected components *)
Theorem C19_merge_is_components : forall (G : Type) (overlaps : G -> G -> bool) (union : G -> G -> G) (gs : list G),
  geom_ok overlaps union ->
  merge_correct overlaps gs (merge_loop overlaps union (length gs) (init_entries gs)).
Proof. exact @merge_is_components. Qed.
Print Assumptions C19_merge_is_components.

(* ... independent of the order in which the inputs are given *)
Theorem C19_merge_order_independent : forall (G : Type) (overlaps : G -> G -> bool) (union : G -> G -> G)
    (gs gs' : list G) (sigma : nat -> nat),
  length gs' = length gs ->
  (forall i, (i < length gs)%nat -> nth_error gs' i = nth_error gs (sigma i)) ->
  (forall i, (i < length gs)%nat -> (sigma i < length gs)%nat) ->
  (forall i j, (i < length gs)%nat -> (j < length gs)%nat -> sigma i = sigma j -> i = j) ->
  (forall k, (k < length gs)%nat -> exists i, (i < length gs)%nat /\ sigma i = k) ->
  geom_ok overlaps union ->
  forall i j, (i < length gs)%nat -> (j < length gs)%nat ->
    same_union (merge_loop overlaps union (length gs') (init_entries gs')) i j <->
    same_union (merge_loop overlaps union (length gs) (init_entries gs)) (sigma i) (sigma j).
Proof. exact @merge_order_independent. Qed.
Print Assumptions C19_merge_order_independent.
(* the hypothesis is satisfiable: finite sets as lists *)
Example C19_geom_ok_sets : geom_ok lov lun.
Proof. exact geom_ok_lists. Qed.
Example C19_merge_ex : merge lov lun [[1;2];[3];[2;3];[7]]%nat = [([3], [7]); ([1;0;2], [3;1;2;2;3])]%nat.
Proof. vm_compute. reflexivity. Qed.

(* histories with observations: to_array() is a pure read, so after EVERY prefix of the append history
   the observed array is the concatenation of the rows appended so far *)
Theorem C19_row_appendable_every_prefix : forall (A : Type) cap (appends : list (list A)) (k : nat),
  raa_to_array (fold_left raa_append (firstn k appends) (raa_init cap)) = map Some (concat (firstn k appends)).
Proof. intros A cap appends k. exact (@raa_refines_concat A cap (firstn k appends)). Qed.
Print Assumptions C19_row_appendable_every_prefix.
