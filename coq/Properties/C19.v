(* C19 — partition helpers and overlap merging are exact for every size and order.
   Only statements here; proofs live in Proofs/C19_*.v. *)
From Coq Require Import ZArith List Lia Bool.
From PR Require Import Base.ZX Base.Slice Model.Partition Gen.GenSubset
     Proofs.C19_partition Proofs.C19_raa Proofs.C19_divisible.
Import ListNotations.
Open Scope Z_scope.

(* row segments: for every size >= 0 and segment count >= 1 the slices are consecutive,
   non-empty, tile [0,size) exactly and there are at most [segments] of them *)
Theorem C19_get_slice_partition : forall segments size, 0 <= size -> 1 <= segments ->
  tiles 0 (get_slice segments size) size /\ Z.of_nat (length (get_slice segments size)) <= segments.
Proof. exact get_slice_partition. Qed.
Print Assumptions C19_get_slice_partition.
Example C19_get_slice_ex : get_slice 3 10 = [mk_slice 0 4; mk_slice 4 8; mk_slice 8 10].
Proof. reflexivity. Qed.

(* chunk-slice enumeration: per axis the offsets are the prefix sums (slices tile [0, sum) in order,
   positions are 0..n-1); the blocks are exactly the cartesian product, each exactly once *)
Theorem C19_chunk_axis_tiles : forall c, Forall (fun x => 0 <= x) c ->
  wtiles 0 (map snd (offsets 0 0 c)) (sumZ c) /\ map fst (offsets 0 0 c) = seq 0 (length c).
Proof. intros c H. exact (offsets_wtiles c 0%nat 0 H). Qed.
Print Assumptions C19_chunk_axis_tiles.
Theorem C19_chunk_slices_product : forall chunks blk,
  In blk (enumerate_chunk_slices chunks) <-> Forall2 (fun a c => In a (offsets 0 0 c)) blk chunks.
Proof.
  intros chunks blk. unfold enumerate_chunk_slices. rewrite in_product.
  split; intros H.
  - remember (map (offsets 0 0) chunks) as ls eqn:E. revert chunks E.
    induction H as [|a l x ls Ha Hr IH]; intros [|c chunks] E; try discriminate; constructor;
      inversion E; subst; auto.
  - induction H as [|a c x cs Ha Hr IH]; constructor; auto.
Qed.
Print Assumptions C19_chunk_slices_product.
Theorem C19_chunk_slices_count : forall chunks,
  length (enumerate_chunk_slices chunks) = fold_right (fun c n => (length c * n)%nat) 1%nat chunks.
Proof.
  intros chunks. unfold enumerate_chunk_slices. rewrite length_product.
  induction chunks as [|c r IH]; cbn; [reflexivity|]. rewrite IH. f_equal.
  clear. generalize 0%nat, 0. induction c as [|x c IHc]; cbn; intros; [reflexivity|]. f_equal. apply IHc.
Qed.
Print Assumptions C19_chunk_slices_count.
Example C19_chunks_ex : enumerate_chunk_slices [[2; 1]; [3]] =
  [[(0%nat, mk_slice 0 2); (0%nat, mk_slice 0 3)]; [(1%nat, mk_slice 2 3); (0%nat, mk_slice 0 3)]].
Proof. reflexivity. Qed.

(* RowAppendableArray: after any sequence of appends, within or beyond the reserved capacity,
   the array equals the concatenation of the appended rows *)
Theorem C19_row_appendable_refines_concat : forall (A : Type) cap (appends : list (list A)),
  raa_to_array (fold_left raa_append appends (raa_init cap)) = map Some (concat appends).
Proof. intros A. exact (@raa_refines_concat A). Qed.
Print Assumptions C19_row_appendable_refines_concat.
Example C19_raa_ex : raa_to_array (fold_left raa_append [[1; 2]; [3; 4; 5]; [6]] (raa_init 3))
  = map Some [1; 2; 3; 4; 5; 6].
Proof. reflexivity. Qed.

(* slice made divisible (definition regenerated from /repo on every run) *)
Theorem C19_make_divisible_spec : forall s max_size factor,
  0 <= sstart s -> sstart s < sstop s -> sstop s <= max_size -> 0 < factor ->
  divisible_good s (gen_make_slice_divisible s max_size factor) max_size factor.
Proof. exact make_divisible_spec. Qed.
Print Assumptions C19_make_divisible_spec.
Example C19_divisible_ex : gen_make_slice_divisible (mk_slice 1 3) 4 4 = mk_slice 0 4.
Proof. reflexivity. Qed.
