(* C19 — partition helpers and overlap merging are exact for every size and order.
   Only statements here; proofs live in Proofs/C19_*.v. *)
From Coq Require Import ZArith List Lia Bool.
From PR Require Import Base.ZX Base.Slice Base.Imp Model.Partition Gen.GenSubset Gen.GenC19
     Model.Unions Proofs.C19_partition Proofs.C19_raa Proofs.C19_divisible Proofs.C19_unions_spec Proofs.C19_unions
     Proofs.C19_imp_slice Proofs.C19_imp_chunks Proofs.C19_imp_raa Proofs.C19_imp_unions.
Import ListNotations.
Open Scope Z_scope.

(* row segments: for every size >= 0 and segment count >= 1 the slices are consecutive,
   non-empty, tile [0,size) exactly and there are at most [segments] of them *)
Theorem C19_get_slice_partition : forall segments size, 0 <= size -> 1 <= segments ->
  tiles 0 (get_slice segments size) size /\ Z.of_nat (length (get_slice segments size)) <= segments.
Proof. exact get_slice_partition. Qed.
Print Assumptions C19_get_slice_partition.
Example C19_get_slice_ex : get_slice 3 10 = [mk_slice 0 4; mk_slice 4 8; mk_slice 8 10].
Proof. reflexivity. Qed.

(* chunk-slice enumeration: per axis the offsets are the prefix sums (slices tile [0, sum) in order,
   positions are 0..n-1); the blocks are exactly the cartesian product, each exactly once *)
Theorem C19_chunk_axis_tiles : forall c, Forall (fun x => 0 <= x) c ->
  wtiles 0 (map snd (offsets 0 0 c)) (sumZ c) /\ map fst (offsets 0 0 c) = seq 0 (length c).
Proof. intros c H. exact (offsets_wtiles c 0%nat 0 H). Qed.
Print Assumptions C19_chunk_axis_tiles.
Theorem C19_chunk_slices_product : forall chunks blk,
  In blk (enumerate_chunk_slices chunks) <-> Forall2 (fun a c => In a (offsets 0 0 c)) blk chunks.
Proof. exact chunk_slices_product. Qed.
Print Assumptions C19_chunk_slices_product.
Theorem C19_chunk_slices_count : forall chunks,
  length (enumerate_chunk_slices chunks) = fold_right (fun c n => (length c * n)%nat) 1%nat chunks.
Proof. exact chunk_slices_count. Qed.
(* no block is listed twice (positions along each axis are distinct) *)
Theorem C19_chunk_slices_nodup : forall chunks, NoDup (enumerate_chunk_slices chunks).
Proof. exact chunk_slices_nodup. Qed.
Print Assumptions C19_chunk_slices_nodup.
Print Assumptions C19_chunk_slices_count.
Example C19_chunks_ex : enumerate_chunk_slices [[2; 1]; [3]] =
  [[(0%nat, mk_slice 0 2); (0%nat, mk_slice 0 3)]; [(1%nat, mk_slice 2 3); (0%nat, mk_slice 0 3)]].
Proof. reflexivity. Qed.

(* RowAppendableArray: after any sequence of appends, within or beyond the reserved capacity,
   the array equals the concatenation of the appended rows *)
Theorem C19_row_appendable_refines_concat : forall (A : Type) cap (appends : list (list A)),
  raa_to_array (fold_left raa_append appends (raa_init cap)) = map Some (concat appends).
Proof. intros A. exact (@raa_refines_concat A). Qed.
Print Assumptions C19_row_appendable_refines_concat.
Example C19_raa_ex : raa_to_array (fold_left raa_append [[1; 2]; [3; 4; 5]; [6]] (raa_init 3))
  = map Some [1; 2; 3; 4; 5; 6].
Proof. reflexivity. Qed.

(* slice made divisible (definition regenerated from /repo on every run) *)
Theorem C19_make_divisible_spec : forall s max_size factor,
  0 <= sstart s -> sstart s < sstop s -> sstop s <= max_size -> 0 < factor ->
  divisible_good s (gen_make_slice_divisible s max_size factor) max_size factor.
Proof. exact make_divisible_spec. Qed.
Print Assumptions C19_make_divisible_spec.
Example C19_divisible_ex : gen_make_slice_divisible (mk_slice 1 3) 4 4 = mk_slice 0 4.
Proof. reflexivity. Qed.

(* overlap merging: for every family of geometries whose overlap relation is symmetric and distributes
   over union (true of sets; the named hypothesis for spherical polygons), the result has every input in
   exactly one union, unions pairwise non-overlapping, and two inputs share a union iff they are connected
   in the overlap graph: the unions are exactly the connected components *)
Theorem C19_merge_is_components : forall (G : Type) (overlaps : G -> G -> bool) (union : G -> G -> G) (gs : list G),
  geom_ok overlaps union ->
  merge_correct overlaps gs (merge_loop overlaps union (length gs) (init_entries gs)).
Proof. exact @merge_is_components. Qed.
Print Assumptions C19_merge_is_components.

(* ... independent of the order in which the inputs are given *)
Theorem C19_merge_order_independent : forall (G : Type) (overlaps : G -> G -> bool) (union : G -> G -> G)
    (gs gs' : list G) (sigma : nat -> nat),
  length gs' = length gs ->
  (forall i, (i < length gs)%nat -> nth_error gs' i = nth_error gs (sigma i)) ->
  (forall i, (i < length gs)%nat -> (sigma i < length gs)%nat) ->
  (forall i j, (i < length gs)%nat -> (j < length gs)%nat -> sigma i = sigma j -> i = j) ->
  (forall k, (k < length gs)%nat -> exists i, (i < length gs)%nat /\ sigma i = k) ->
  geom_ok overlaps union ->
  forall i j, (i < length gs)%nat -> (j < length gs)%nat ->
    same_union (merge_loop overlaps union (length gs') (init_entries gs')) i j <->
    same_union (merge_loop overlaps union (length gs) (init_entries gs)) (sigma i) (sigma j).
Proof. exact @merge_order_independent. Qed.
Print Assumptions C19_merge_order_independent.
(* the hypothesis is satisfiable: finite sets as lists *)
Example C19_geom_ok_sets : geom_ok lov lun.
Proof. exact geom_ok_lists. Qed.
Example C19_merge_ex : merge lov lun [[1;2];[3];[2;3];[7]]%nat = [([3], [7]); ([1;0;2], [3;1;2;2;3])]%nat.
Proof. vm_compute. reflexivity. Qed.

(* histories with observations: to_array() is a pure read, so after EVERY prefix of the append history
   the observed array is the concatenation of the rows appended so far *)
Theorem C19_row_appendable_every_prefix : forall (A : Type) cap (appends : list (list A)) (k : nat),
  raa_to_array (fold_left raa_append (firstn k appends) (raa_init cap)) = map Some (concat (firstn k appends)).
Proof. intros A cap appends k. exact (@raa_refines_concat A cap (firstn k appends)). Qed.
Print Assumptions C19_row_appendable_every_prefix.

(* ------------------------------------------------------------------------------------------------------------
   THE CODE IS THE MODEL.  The imp_* definitions are regenerated on every run from the current /repo sources of
   _get_slice, _enumerate_chunk_slices, RowAppendableArray.append_row / to_array, _find_union_pair and
   _merge_unions by tools/py2coq_imp.py (loops, generators, mutation of locals, recursion, over Base/Imp.v);
   the theorems below say that, on the inputs the property speaks about, they compute what the hand models above
   compute -- so the theorems above are theorems about what the code says now.  Fuel: any amount beyond the stated
   bound gives the same finished run; [Fuel] (out of fuel) is never the answer.
   ------------------------------------------------------------------------------------------------------------ *)

(* _get_slice on a 1-D (rest = []) or 2-D (rest = [w]) shape yields exactly the model's slices, in order
   (2-D: each paired with slice(None)) *)
Theorem C19_get_slice_code_is_model : forall segments size rest fuel,
  1 <= segments -> 0 <= size -> (length rest <= 1)%nat -> (Z.to_nat segments < fuel)%nat ->
  yields_of (imp_get_slice fuel segments (size :: rest))
  = Some (map (fun x => match rest with [] => inl x | _ => inr (x, mk_oslice None None) end) (get_slice segments size)).
Proof. exact imp_get_slice_yields. Qed.
Print Assumptions C19_get_slice_code_is_model.
(* ... and outside that domain it raises, as Python does (0-D or >2-D shape: ValueError; zero segments: ZeroDivisionError) *)
Theorem C19_get_slice_code_rejects : forall segments shape fuel,
  (length shape = 0 \/ 2 < length shape)%nat -> imp_get_slice fuel segments shape = Raised.
Proof. exact imp_get_slice_bad_shape. Qed.
Print Assumptions C19_get_slice_code_rejects.
Example C19_get_slice_code_ex : yields_of (imp_get_slice 5 3 [10]) = Some [inl (mk_slice 0 4); inl (mk_slice 4 8); inl (mk_slice 8 10)].
Proof. vm_compute. reflexivity. Qed.

(* _enumerate_chunk_slices yields, in order, exactly the model's blocks (position tuple, slice list), for every chunk tuple *)
Theorem C19_chunk_slices_code_is_model : forall chunks,
  yields_of (imp_enumerate_chunk_slices chunks) = Some (map blk_view (enumerate_chunk_slices chunks)).
Proof. exact imp_enumerate_chunk_slices_yields. Qed.
Print Assumptions C19_chunk_slices_code_is_model.
Example C19_chunk_slices_code_ex : yields_of (imp_enumerate_chunk_slices [[2; 1]; [3]])
  = Some [([0; 0], [mk_slice 0 2; mk_slice 0 3]); ([1; 0], [mk_slice 2 3; mk_slice 0 3])].
Proof. vm_compute. reflexivity. Qed.

(* RowAppendableArray.append_row, from any state the class can be in, leaves the object in the model's next state
   (for 1-D and n-D rows alike: ndim is arbitrary) *)
Theorem C19_append_row_code_is_model : forall (A : Type) (s : @raa A) (rows : list A) (ndim : Z),
  raa_wf s ->
  exists st', imp_append_row s (map Some rows) ndim = Fall [] st' /\ imp_append_row_self st' = raa_append s rows.
Proof. intros A. exact (@imp_append_row_model A). Qed.
Print Assumptions C19_append_row_code_is_model.
(* a whole history through the generated code: any non-empty sequence of appends on a fresh object of any
   capacity >= 0, then to_array(), returns the concatenation of the appended rows *)
Theorem C19_row_appendable_code_history : forall (A : Type) cap (appends : list (list A)) ndim,
  0 <= cap -> appends <> [] ->
  exists s', imp_appends (raa_init cap) appends ndim = Some s' /\
             value_of (imp_to_array s') = COk (map Some (concat appends)).
Proof.
  intros A cap appends ndim Hc Hne.
  destruct (@imp_history_model A cap appends ndim Hc Hne) as (s' & H1 & H2 & H3).
  exists s'. split; [exact H1|]. rewrite H2, H3. f_equal. exact (@raa_refines_concat A cap appends).
Qed.
Print Assumptions C19_row_appendable_code_history.
(* to_array() before the first append raises (as np.concatenate of nothing does): the model's [] there is never observed *)
Theorem C19_to_array_code_unallocated : forall (A : Type) (s : @raa A), r_data s = None -> imp_to_array s = Raised.
Proof. intros A. exact (@imp_to_array_unallocated A). Qed.
Print Assumptions C19_to_array_code_unallocated.

(* _find_union_pair returns the first overlapping pair in itertools.combinations order: its two keys and the union *)
Theorem C19_find_union_pair_code_is_model : forall (G : Type) (overlaps : G -> G -> bool) (union : G -> G -> G) (g0 : G)
    (l : list (key * G)),
  value_of (imp_find_union_pair overlaps union g0 l) = COk (option_map (pair_result union) (find_pair overlaps l)).
Proof. exact @imp_find_union_pair_model. Qed.
Print Assumptions C19_find_union_pair_code_is_model.
(* _merge_unions on the dict the class builds from its inputs returns the model's merge_loop result: the recursion
   (del, del, insert under the pair key, recurse) reaches its fixpoint within len(gs) rounds *)
Theorem C19_merge_unions_code_is_model : forall (G : Type) (overlaps : G -> G -> bool) (union : G -> G -> G) (g0 : G)
    (gs : list G) fuel,
  geom_ok overlaps union -> (length gs < fuel)%nat ->
  value_of (imp_merge_unions overlaps union g0 fuel (init_entries gs))
  = COk (merge_loop overlaps union (length gs) (init_entries gs)).
Proof. exact @imp_merge_unions_init. Qed.
Print Assumptions C19_merge_unions_code_is_model.
Example C19_merge_unions_code_ex :
  value_of (imp_merge_unions lov lun [] 5 (init_entries [[1;2];[3];[2;3];[7]]%nat))
  = COk (merge_loop lov lun 4 (init_entries [[1;2];[3];[2;3];[7]]%nat)).
Proof. vm_compute. reflexivity. Qed.
