(* C04 — weighted resampling (resample_gauss / resample_custom) is the normalised weighted mean of the
   neighbours in range; count, unbiased weighted stddev and masks.  Only statements here; proofs live in
   Proofs/C04_weights.v and Proofs/C04_generic.v.  Model: Model/Weights.v (one generic definition; theorems
   about its real instance RO, binary64 instance F64 executed by the correspondence).

   Notation of the statements.  For one target location and one column (data channel or mask channel) of the
   reduced input, with the k neighbour slots (ix, ds) delivered by the kd-tree query (index = n marks a missing
   neighbour):
     nbrs n col ix ds        the neighbours in range as (distance, value) pairs, in slot order
     weigh wf nb             the same as (weight, value) with weight = wf distance
     Wsum / WXsum / W2sum    sum w, sum w*x, sum w^2;   Dev m = sum w*(x-m)^2
   All statements are by induction over the slot list, hence for every k >= 2; k = 1 has its own statement. *)
From Coq Require Import Reals ZArith Bool List Lra Lia PrimFloat.
From PR Require Import Base.Num Base.RNum Base.F64 Model.Weights Gen.GenC04 Proofs.C04_weights Proofs.C04_generic
     Proofs.C04_gen Proofs.C04_knn.
Import ListNotations.
Open Scope R_scope.

(* the value: sum(w(d_i) x_i) / sum(w(d_i)) over the neighbours in range when the normaliser is positive, else the fill value *)
Theorem C04_weighted_mean_spec : forall (wf : R -> R) n col ix ds f,
  let NB := weigh wf (nbrs n col ix ds) in
  let C := weighted_col RO wf n col ix ds f in
  (0 < Wsum NB -> c_res C = WXsum NB / Wsum NB) /\ (Wsum NB <= 0 -> c_res C = f).
Proof. exact weighted_mean_spec. Qed.
Print Assumptions C04_weighted_mean_spec.
Example C04_weighted_mean_ex :
  c_res (weighted_col RO (fun d => 3 - d) 3 [10; 20; 40] [0%Z; 2%Z; 3%Z] [1; 2; 7] (-1)) = 20.
Proof.
  destruct (weighted_mean_spec (fun d => 3 - d) 3 [10; 20; 40] [0%Z; 2%Z; 3%Z] [1; 2; 7] (-1)) as [H _].
  rewrite H; unfold Wsum, WXsum; c04_eval; [field|lra].
Qed.

(* no neighbour in range: filled, nothing counted, stddev undefined *)
Theorem C04_no_neighbour_filled : forall (wf : R -> R) n col ix ds f,
  Forall (fun i => i = n) ix ->
  let C := weighted_col RO wf n col ix ds f in c_res C = f /\ c_cnt C = 0%Z /\ c_sd_undef C = true.
Proof. exact no_neighbour_filled. Qed.
Print Assumptions C04_no_neighbour_filled.
Example C04_no_neighbour_ex : Forall (fun i => i = 3%Z) [3%Z; 3%Z].
Proof. repeat constructor. Qed.

(* a location that is not a valid output keeps the fill value, count 0, stddev undefined (any arithmetic) *)
Theorem C04_invalid_output_filled : forall (T : Type) (OP : ops T) (c : cfg T) t j,
  valid_out t = false ->
  let d := col_of OP c t j in c_res d = fill c /\ c_cnt d = 0%Z /\ c_sd_undef d = true.
Proof. intros T OP c t j H. rewrite (col_of_invalid OP c t j H). cbn. repeat split. Qed.
Print Assumptions C04_invalid_output_filled.

(* count = number of neighbours in range (whatever their weight) *)
Theorem C04_count_spec : forall (wf : R -> R) n col ix ds f,
  c_cnt (weighted_col RO wf n col ix ds f) = Z.of_nat (length (nbrs n col ix ds)).
Proof. exact count_spec. Qed.
Print Assumptions C04_count_spec.
(* the count does not look at the weight: a neighbour in range whose weight is 0 is counted (binary64 run of the model) *)
Example C04_count_includes_zero_weight :
  c_cnt (weighted_col F64 (fun d => if PrimFloat.ltb d 1%float then 1%float else 0%float) 3
                      [10%float; 20%float; 40%float] [0%Z; 2%Z; 3%Z] [0.5%float; 2%float; infinity] 0%float) = 2%Z.
Proof. vm_compute. reflexivity. Qed.

(* stddev: the documented unbiased weighted estimator sqrt(V1/(V1^2-V2) * sum w_i (x_i - mean)^2) where more than one
   neighbour is in range; undefined (masked) where count <= 1.  [mean] is the value actually returned (c_res). *)
Theorem C04_stddev_spec : forall (wf : R -> R) n col ix ds f,
  let NB := weigh wf (nbrs n col ix ds) in
  let C := weighted_col RO wf n col ix ds f in
  ((1 < c_cnt C)%Z -> c_sd_undef C = false /\
      c_sd C = R_sqrt.sqrt (Wsum NB / (Wsum NB * Wsum NB - W2sum NB) * Dev (c_res C) NB)) /\
  ((c_cnt C <= 1)%Z -> c_sd_undef C = true).
Proof. exact stddev_spec. Qed.
Print Assumptions C04_stddev_spec.
(* with positive weights the estimator is well defined as soon as two neighbours are in range *)
Theorem C04_stddev_welldefined : forall (wf : R -> R) n col ix ds f,
  let NB := weigh wf (nbrs n col ix ds) in
  (forall p, In p NB -> 0 < fst p) -> (1 < c_cnt (weighted_col RO wf n col ix ds f))%Z ->
  0 < Wsum NB * Wsum NB - W2sum NB /\ 0 <= Dev (c_res (weighted_col RO wf n col ix ds f)) NB.
Proof. exact stddev_welldefined. Qed.
Print Assumptions C04_stddev_welldefined.
Example C04_stddev_ex :
  let C := weighted_col RO (fun d => 3 - d) 3 [10; 20; 40] [0%Z; 2%Z; 3%Z] [1; 2; 7] (-1) in
  (1 < c_cnt C)%Z /\ forall p, In p (weigh (fun d => 3 - d) (nbrs 3 [10; 20; 40] [0%Z; 2%Z; 3%Z] [1; 2; 7])) -> 0 < fst p.
Proof.
  split; [rewrite count_spec; cbn; lia|].
  c04_eval. intros p [<-|[<-|[]]]; cbn; lra.
Qed.

(* masks.  Column level: the mask channel (values 0/1) resampled with non-negative weights is non-zero exactly when
   a neighbour in range with POSITIVE weight is masked *)
Theorem C04_mask_column_spec : forall (l : list (R * R)),
  (forall p, In p l -> 0 <= fst p /\ (snd p = 0 \/ snd p = 1)) -> 0 < Wsum l ->
  (WXsum l / Wsum l <> 0 <-> exists p, In p l /\ 0 < fst p /\ snd p = 1).
Proof. exact mask_mean_nonzero_iff. Qed.
Print Assumptions C04_mask_column_spec.
(* Call level (masked input of C channels = 2C columns, k >= 2, valid output location): the result of channel j is
   masked iff some neighbour in range with positive weight is masked in channel j (or, with fill_value=None, the value
   equals the fill marker); where nothing carries weight it is masked whenever the fill value is non-zero
   (in particular for fill_value=None); with fill_value=0 such a location is an unmasked 0. *)
Theorem C04_mask_spec : forall (c : cfg R) t j i1 i2 rest,
  let wf := nth j (wfs c) (fun _ => 0) in
  let mcol := nth (length (wfs c) + j) (cols c) [] in
  let NBm := weigh wf (nbrs (n_valid c) mcol (idxs t) (dists t)) in
  masked_data c = true -> valid_out t = true -> idxs t = i1 :: i2 :: rest ->
  length (cols c) = (2 * length (wfs c))%nat -> (j < length (wfs c))%nat ->
  (forall p, In p NBm -> 0 <= fst p /\ (snd p = 0 \/ snd p = 1)) ->
  (0 < Wsum NBm ->
     (o_mask (observe RO c t j) = true <->
        (exists p, In p NBm /\ 0 < fst p /\ snd p = 1) \/
        (use_masked_fill c = true /\ c_res (col_of RO c t j) = fill c))) /\
  (Wsum NBm <= 0 -> fill c <> 0 -> o_mask (observe RO c t j) = true).
Proof. exact masked_result_spec. Qed.
Print Assumptions C04_mask_spec.
(* the property text says "a masked neighbour masks the result"; the code (and the theorem) need the neighbour to
   carry positive weight: a masked neighbour in range with weight 0 does not mask (binary64 run of the model) *)
Example C04_mask_zero_weight_not_masking :
  let c := mk_cfg 2 [[10%float; 20%float]; [0%float; 1%float]]
                  [fun d => if PrimFloat.ltb d 1%float then 1%float else 0%float] true 0%float false in
  let t := mk_trow true [0%Z; 1%Z] [0.5%float; 2%float] in
  o_mask (observe F64 c t 0) = false /\ o_cnt (observe F64 c t 0) = 2%Z.
Proof. vm_compute. split; reflexivity. Qed.
Example C04_mask_positive_weight_masking :
  let c := mk_cfg 2 [[10%float; 20%float]; [0%float; 1%float]] [fun d => 1%float] true 0%float false in
  let t := mk_trow true [0%Z; 1%Z] [0.5%float; 2%float] in
  o_mask (observe F64 c t 0) = true.
Proof. vm_compute. reflexivity. Qed.
(* the mask channel of data channel j is weighted with the weight function of channel j (weight_funcs * 2) *)
Theorem C04_mask_channel_weight : forall (T : Type) (c : cfg T) j dflt,
  masked_data c = true -> (j < length (wfs c))%nat ->
  nth j (all_wfs c) dflt = nth j (wfs c) dflt /\ nth (length (wfs c) + j) (all_wfs c) dflt = nth j (wfs c) dflt.
Proof. exact (@mask_channel_wf). Qed.
Print Assumptions C04_mask_channel_weight.

(* convexity: with non-negative weights and a positive normaliser the result lies between the smallest and the largest
   value of the neighbours in range *)
Theorem C04_convex : forall (wf : R -> R) n col ix ds f lo hi,
  let NB := weigh wf (nbrs n col ix ds) in
  (forall p, In p NB -> 0 <= fst p /\ lo <= snd p <= hi) -> 0 < Wsum NB ->
  lo <= c_res (weighted_col RO wf n col ix ds f) <= hi.
Proof. exact convex_spec. Qed.
Print Assumptions C04_convex.
Example C04_convex_ex :
  let NB := weigh (fun d => 3 - d) (nbrs 3 [10; 20; 40] [0%Z; 2%Z; 3%Z] [1; 2; 7]) in
  (forall p, In p NB -> 0 <= fst p /\ 10 <= snd p <= 40) /\ 0 < Wsum NB.
Proof. c04_eval. split; [intros p [<-|[<-|[]]]; cbn; lra|unfold Wsum; cbn; lra]. Qed.

(* resample_gauss: w(d) = exp(-d^2/sigma^2) > 0, so wherever at least one neighbour is in range the result is the
   normalised weighted mean, lies within the neighbours' value range, and every counted neighbour contributes *)
Theorem C04_gauss_spec : forall sigma n col ix ds f lo hi,
  let NB := weigh (gaussw sigma) (nbrs n col ix ds) in
  let C := weighted_col RO (gaussw sigma) n col ix ds f in
  nbrs n col ix ds <> [] -> (forall p, In p (nbrs n col ix ds) -> lo <= snd p <= hi) ->
  0 < Wsum NB /\ c_res C = WXsum NB / Wsum NB /\ lo <= c_res C <= hi /\
  (forall p, In p NB -> 0 < fst p) /\ c_cnt C = Z.of_nat (length NB).
Proof. exact gauss_spec. Qed.
Print Assumptions C04_gauss_spec.
Example C04_gauss_ex : nbrs 3 [10; 20; 40] [0%Z; 2%Z; 3%Z] [1; 2; 7] <> [] /\
  forall p, In p (nbrs 3 [10; 20; 40] [0%Z; 2%Z; 3%Z] [1; 2; 7]) -> 10 <= snd p <= 40.
Proof. c04_eval. split; [discriminate|intros p [<-|[<-|[]]]; cbn; lra]. Qed.

(* k = 1: the nearest neighbour's value, which is the weighted mean whenever its weight is non-zero;
   count 1 where found, stddev undefined *)
Theorem C04_single_neighbour : forall n col i f (w : R),
  let C := nn_col RO n col i f in
  ((i =? n)%Z = true -> c_res C = f /\ c_cnt C = 0%Z) /\
  ((i =? n)%Z = false -> w <> 0 -> c_res C = (w * nth (Z.to_nat i) col 0) / w /\ c_cnt C = 1%Z) /\
  c_sd_undef C = true.
Proof. exact nn_col_spec. Qed.
Print Assumptions C04_single_neighbour.

(* locality, for EVERY arithmetic instance (so also for binary64 data containing NaN/inf): the result of a location
   depends on the data only through its neighbours in range *)
Theorem C04_locality : forall (T : Type) (OP : ops T) wf n col col' ix ds f,
  (forall i, In i ix -> i <> n -> nth (Z.to_nat i) col (nan OP) = nth (Z.to_nat i) col' (nan OP)) ->
  weighted_col OP wf n col ix ds f = weighted_col OP wf n col' ix ds f.
Proof. exact (@weighted_col_local). Qed.
Print Assumptions C04_locality.
(* the gather as it was before the fix (missing slots point at valid input 0) is refuted on binary64:
   a NaN at valid input 0, not a neighbour, makes the result NaN; the fixed gather returns 3 *)
Theorem C04_legacy_gather_refuted :
  (forall i, In i leak_ix -> i <> 2%Z -> nth (Z.to_nat i) leak_col (nan F64) = nth (Z.to_nat i) leak_col' (nan F64)) /\
  same_bits (c_res (weighted_col_legacy F64 leak_wf 2 leak_col leak_ix leak_ds 0%float))
            (c_res (weighted_col_legacy F64 leak_wf 2 leak_col' leak_ix leak_ds 0%float)) = false /\
  f_isnan (c_res (weighted_col_legacy F64 leak_wf 2 leak_col leak_ix leak_ds 0%float)) = true /\
  same_bits (c_res (weighted_col F64 leak_wf 2 leak_col leak_ix leak_ds 0%float)) 3%float = true.
Proof. exact legacy_not_local. Qed.
Print Assumptions C04_legacy_gather_refuted.

(* for EVERY arithmetic instance: the value the weight function takes at the placeholder distance of a missing slot
   (the code calls it on the whole distance array, missing = 1) never reaches the result *)
Theorem C04_placeholder_weight_irrelevant : forall (T : Type) (OP : ops T) (wf wf' : T -> T) n col ix ds f,
  (forall i d, In (i, d) (combine ix ds) -> i <> n -> wf d = wf' d) ->
  weighted_col OP wf n col ix ds f = weighted_col OP wf' n col ix ds f.
Proof. exact (@weighted_col_placeholder). Qed.
Print Assumptions C04_placeholder_weight_irrelevant.
(* the weighting as it was before the second fix (0/1 factor times wf(1)) is refuted on binary64 by w(d) = 1/|d-1|:
   one neighbour in range (value 3, counted), one missing slot -> norm is NaN and the location is filled with -7;
   with weight 0 for the missing slot the result is 3 *)
Theorem C04_legacy_weight_refuted :
  same_bits (c_res (weighted_col_legacy_w F64 sing_wf 2 sing_col sing_ix sing_ds (-7)%float)) (-7)%float = true /\
  c_cnt (weighted_col_legacy_w F64 sing_wf 2 sing_col sing_ix sing_ds (-7)%float) = 1%Z /\
  same_bits (c_res (weighted_col F64 sing_wf 2 sing_col sing_ix sing_ds (-7)%float)) 3%float = true.
Proof. exact legacy_weight_not_placeholder_free. Qed.
Print Assumptions C04_legacy_weight_refuted.

(* call level: which column model a (location, channel) uses, and what is observed *)
Theorem C04_call_structure : forall (T : Type) (OP : ops T) (c : cfg T) t j,
  (forall i1 i2 rest, valid_out t = true -> idxs t = i1 :: i2 :: rest ->
     col_of OP c t j = weighted_col OP (nth j (all_wfs c) (fun _ => nan OP)) (n_valid c) (nth j (cols c) [])
                                    (idxs t) (dists t) (fill c)) /\
  (forall i, valid_out t = true -> idxs t = [i] ->
     col_of OP c t j = nn_col OP (n_valid c) (nth j (cols c) []) i (fill c)) /\
  (let d := col_of OP c t j in let o := observe OP c t j in
   o_val o = c_res d /\ o_sd o = c_sd d /\ o_cnt o = c_cnt d /\ o_cnt_mask o = o_mask o /\
   o_sd_mask o = o_mask o || c_sd_undef d) /\
  (masked_data c = false -> use_masked_fill c = false -> o_mask (observe OP c t j) = false).
Proof.
  intros T OP c t j. split; [|split; [|split]].
  - intros. eapply col_of_weighted; eassumption.
  - intros. apply col_of_nn; assumption.
  - apply observe_fields.
  - apply observe_plain.
Qed.
Print Assumptions C04_call_structure.

(* ---- tie to the source by the translator: Gen/GenC04.v is regenerated from /repo's kd_tree.py on every run.
   The loop bodies of _resample_with_weights / _calculate_uncertainty (single- and multi-channel branch), the
   normalisation block, the final estimator block and the closure of resample_gauss, read for one location /
   column / neighbour slot, are the steps of the model.  [lit OP 0 0 = ofZ OP 0] (the literal 0.0 is the carrier's
   zero) holds in both instances (C04_literal_zero). *)
Theorem C04_literal_zero : lit RO 0 0 = ofZ RO 0 /\ lit F64 0 0 = ofZ F64 0.
Proof. exact (conj lit_zero_RO lit_zero_F64). Qed.
Print Assumptions C04_literal_zero.
Theorem C04_generated_steps : forall (T : Type) (OP : ops T), lit OP 0 0 = ofZ OP 0 ->
  (forall miss w x r nm,
     gen_acc_body OP miss w x r nm = acc_step OP (wtmp OP) (r, nm) (mk_slot (negb miss) w x) /\
     gen_acc_body_multi OP miss w x r nm = acc_step OP (wtmp OP) (r, nm) (mk_slot (negb miss) w x)) /\
  (forall miss w x res c v2 sd,
     let s := mk_slot (negb miss) w x in
     let u := unc_step OP (wtmp OP) res (v2, sd) s in
     gen_unc_body OP miss w x res c v2 sd = ((c + (if present s then 1 else 0))%Z, fst u, snd u) /\
     gen_unc_body_multi OP miss w x res c v2 sd = ((c + (if present s then 1 else 0))%Z, fst u, snd u)) /\
  (forall wt ss f, mean_of OP wt ss f = gen_normalise OP (fst (acc OP wt ss)) (snd (acc OP wt ss)) f) /\
  (forall wt cnt ss res,
     stddev_of OP wt cnt ss res =
       let v := gen_stddev_final OP cnt (snd (acc OP wt ss)) (fst (unc OP wt res ss)) (snd (unc OP wt res ss)) in
       (v, if (1 <? cnt)%Z then isnan OP v else true)) /\
  (forall (valid : bool) v1 v2 sd,
     gen_stddev_final_multi OP valid v1 v2 sd =
       if valid then sqrtf OP (mul OP (div OP v1 (sub OP (sq OP v1) v2)) sd) else nan OP).
Proof.
  intros T OP H. repeat split.
  - apply (gen_acc_body_char OP H).
  - apply (gen_acc_body_multi_char OP H).
  - apply (gen_unc_body_char OP H).
  - apply (gen_unc_body_multi_char OP H).
  - intros. apply mean_of_gen.
  - intros. apply stddev_of_gen.
  - intros. apply gen_stddev_final_multi_char.
Qed.
Print Assumptions C04_generated_steps.
(* the accumulators of the model are the iteration of the generated loop bodies over the slot list *)
Theorem C04_model_iterates_generated_code : forall (T : Type) (OP : ops T), lit OP 0 0 = ofZ OP 0 -> forall res ss,
  acc OP (wtmp OP) ss =
    fold_left (fun a s => gen_acc_body OP (negb (present s)) (wgt s) (val s) (fst a) (snd a)) ss (tzero OP, tzero OP) /\
  (count_of ss, fst (unc OP (wtmp OP) res ss), snd (unc OP (wtmp OP) res ss)) =
    fold_left (fun a s => gen_unc_body OP (negb (present s)) (wgt s) (val s) res (fst (fst a)) (snd (fst a)) (snd a))
              ss (0%Z, tzero OP, tzero OP).
Proof. intros T OP H res ss. split; [apply (acc_is_generated OP H)|apply (unc_count_is_generated OP H)]. Qed.
Print Assumptions C04_model_iterates_generated_code.
(* resample_gauss: the closure computes exp of the generated exponent, which is the Gaussian exp(-d^2/sigma^2) *)
Theorem C04_gauss_closure : forall sigma d, gaussw sigma d = exp (gen_gauss_exponent RO sigma d).
Proof. exact gauss_closure_char. Qed.
Print Assumptions C04_gauss_closure.

(* the count is the same for every channel / weight function / data column of a location *)
Theorem C04_count_channel_independent : forall (T : Type) (OP : ops T) wf wf' n col col' ix ds f f',
  c_cnt (weighted_col OP wf n col ix ds f) = c_cnt (weighted_col OP wf' n col' ix ds f').
Proof. exact (@count_channel_independent). Qed.
Print Assumptions C04_count_channel_independent.

(* ---- composition with the k-nearest-neighbour contract of the query (knn_slots, Proofs/C04_knn.v; D = distance of
   valid source j from the location): "over the (at most k) nearest valid source locations within the radius" *)
Theorem C04_knn_fewer_than_k : forall (D : Z -> R) (wf : R -> R) n radius col ix ds f,
  knn_slots D n radius ix ds -> In n ix ->
  (0 < Nsum D wf (in_range D n radius) ->
     c_res (weighted_col RO wf n col ix ds f) = Ssum D wf col (in_range D n radius) / Nsum D wf (in_range D n radius)) /\
  (Nsum D wf (in_range D n radius) <= 0 -> c_res (weighted_col RO wf n col ix ds f) = f) /\
  c_cnt (weighted_col RO wf n col ix ds f) = Z.of_nat (length (in_range D n radius)).
Proof. exact result_over_in_range. Qed.
Print Assumptions C04_knn_fewer_than_k.
Theorem C04_knn_nearest : forall (D : Z -> R) (wf : R -> R) n radius col ix ds f,
  knn_slots D n radius ix ds ->
  ((0 < Nsum D wf (used n ix) -> c_res (weighted_col RO wf n col ix ds f) = Ssum D wf col (used n ix) / Nsum D wf (used n ix)) /\
   (Nsum D wf (used n ix) <= 0 -> c_res (weighted_col RO wf n col ix ds f) = f)) /\
  (forall i, In i (used n ix) -> (0 <= i < n)%Z /\ D i < radius) /\ NoDup (used n ix) /\
  (forall j, (0 <= j < n)%Z -> D j < radius -> ~ In j (used n ix) ->
     length (used n ix) = length ix /\ forall i, In i (used n ix) -> D i <= D j).
Proof.
  intros D wf n radius col ix ds f K. split; [apply (result_over_used D wf n radius col ix ds f K)|].
  apply (used_are_nearest D n radius ix ds K).
Qed.
Print Assumptions C04_knn_nearest.
Example C04_knn_ex : knn_slots (fun j => IZR j + 1) 3 (5 / 2) [0%Z; 1%Z; 3%Z] [1; 2; 7] /\ In 3%Z [0%Z; 1%Z; 3%Z].
Proof.
  split; [|right; right; left; reflexivity]. constructor.
  - reflexivity.
  - intros i d [H|[H|[H|[]]]] Hne; inversion H; subst; try congruence; cbn; repeat split; try lia; lra.
  - cbn. repeat constructor; cbn; intuition lia.
  - intros j Hj Hd Hn. assert (E : j = 0%Z \/ j = 1%Z \/ j = 2%Z) by lia.
    destruct E as [ -> | [ -> | -> ] ]; [exfalso; apply Hn; cbn; auto|exfalso; apply Hn; cbn; auto|cbn in Hd; lra].
Qed.

(* ---- layout independence: the data are paired with the source coordinates by logical C-order flattening (row after row)
   of both; the memory layout (Fortran order, transposed or strided views) is not an input.  Every value stays with the
   coordinate of its own (row, column).  Tied to the code by running each non-C-contiguous case also on C-contiguous
   copies (harness key C04.layout_independence) and by the correspondence, whose model columns are the C-order flattening. *)
Theorem C04_ravel_keeps_locations : forall (A B : Type) (coords : list (list A)) (data : list (list B)),
  Forall2 (fun x y => length x = length y) coords data ->
  combine (concat coords) (concat data) = concat (map2 (@combine A B) coords data).
Proof. exact (@ravel_keeps_locations). Qed.
Print Assumptions C04_ravel_keeps_locations.
Example C04_ravel_ex : combine (concat [[1%Z; 2%Z]; [3%Z; 4%Z]]) (concat [[true; false]; [false; true]]) =
  [(1%Z, true); (2%Z, false); (3%Z, false); (4%Z, true)].
Proof. reflexivity. Qed.
