(* C05 — the dask/xarray nearest-neighbour resamplers agree with the numpy reference, for every chunking.
   Only statements here; proofs live in Proofs/C05_*.v.  The kd-tree is an oracle [q]: the answer for one target
   pixel (an index into the compacted valid sources, or n) does not depend on the block it is queried in. *)
From Coq Require Import ZArith List Lia Bool Reals Lra.
From PR Require Import Base.Num Base.RNum Base.ZX Base.Slice Model.Partition Model.Blockwise Model.BlockwiseSpec
     Model.BlockwiseValid Model.BlockwiseBF Gen.GenC05
     Proofs.C05_assemble Proofs.C05_pipeline Proofs.C05_mask Proofs.C05_dims Proofs.C05_flatten
     Proofs.C05_gen Proofs.C05_cache Proofs.C05_bruteforce Proofs.C05_dimsok Proofs.C05_imp_dims.
From PR Require Base.Imp Gen.GenC05imp.
Import ListNotations.
Open Scope Z_scope.

(* reusable: assembling the blocks of ANY tiling (two chunk lists, zero-size chunks allowed) of an array that is
   pointwise [f] on each block gives [f] on the whole rectangle *)
Theorem C05_assemble_any_tiling : forall (A : Type) (f : Z -> Z -> A) rows cols (blk : pslice -> pslice -> list (list A)),
  Forall (fun x => 0 <= x) rows -> Forall (fun x => 0 <= x) cols ->
  (forall rs cs, In rs (axis_slices rows) -> In cs (axis_slices cols) ->
                 blk rs cs = tab f (sstart rs) (slen rs) (sstart cs) (slen cs)) ->
  assemble rows cols blk = tab f 0 (sumZ rows) 0 (sumZ cols).
Proof. intros A. exact (@assemble_blocks_eq A). Qed.
Print Assumptions C05_assemble_any_tiling.

(* query_no_distance on one block (compaction of the valid outputs, kd-tree batch, index < n => index else -1,
   scatter back to the block shape) is the pointwise map *)
Theorem C05_query_block_pointwise : forall n voi q r0 nr c0 nc,
  qnd_block n voi q r0 nr c0 nc = tab (index_pointwise n voi q) r0 nr c0 nc.
Proof. exact qnd_block_char. Qed.
Print Assumptions C05_query_block_pointwise.

(* for all pairs of chunk lists covering the target shape the assembled index array is the same array ... *)
Theorem C05_chunk_invariant : forall n voi q rows cols rows' cols',
  Forall (fun x => 0 <= x) rows -> Forall (fun x => 0 <= x) cols ->
  Forall (fun x => 0 <= x) rows' -> Forall (fun x => 0 <= x) cols' ->
  sumZ rows = sumZ rows' -> sumZ cols = sumZ cols' ->
  index_array_chunked n voi q rows cols = index_array_chunked n voi q rows' cols'.
Proof. exact chunk_invariant. Qed.
Print Assumptions C05_chunk_invariant.
(* ... namely the unchunked one (query_no_distance called once on the whole target) *)
Theorem C05_chunked_equals_unchunked : forall n voi q rows cols,
  Forall (fun x => 0 <= x) rows -> Forall (fun x => 0 <= x) cols ->
  index_array_chunked n voi q rows cols = qnd_block n voi q 0 (sumZ rows) 0 (sumZ cols).
Proof. intros. rewrite qnd_block_char. apply index_array_chunked_char; assumption. Qed.
Print Assumptions C05_chunked_equals_unchunked.
(* purity (what the history / joint-evaluation correspondence checks on the implementation): the index array is a
   function of target validity and of the kd-tree answers for the target's own pixels only; two queries (different
   masks or sources) evaluated as a pair are the pair of the stand-alone results, whatever ran before *)
Theorem C05_depends_only_on_inputs : forall n voi voi' q q' rows cols,
  Forall (fun x => 0 <= x) rows -> Forall (fun x => 0 <= x) cols ->
  (forall i j, 0 <= i < sumZ rows -> 0 <= j < sumZ cols -> voi i j = voi' i j /\ q i j = q' i j) ->
  index_array_chunked n voi q rows cols = index_array_chunked n voi' q' rows cols.
Proof. exact depends_only_on_inputs. Qed.
Print Assumptions C05_depends_only_on_inputs.
Example C05_chunk_invariant_ex :
  let voi := fun i j => negb ((i =? 1) && (j =? 2)) in
  let q := fun i j => if j =? 0 then 5 else i + j in      (* n = 5: column 0 finds nothing *)
  index_array_chunked 5 voi q [2; 0; 1] [1; 3] = [[-1; 1; 2; 3]; [-1; 2; -1; 4]; [-1; 3; 4; -1]]
  /\ index_array_chunked 5 voi q [1; 1; 1] [2; 1; 1] = index_array_chunked 5 voi q [3] [4].
Proof. split; reflexivity. Qed.

(* the gathered result (blockwise _my_index over the blockwise index array, any chunking) is exactly what the
   numpy pipeline (one kd-tree batch over the valid targets, same valid-input compaction, index n <-> -1, fill,
   scatter over valid_output_index; all fill when no source pixel is valid) returns, plane by plane *)
Theorem C05_equals_numpy_model : forall (V : Type) (fill : V) voi q rows cols vii plane,
  let n := count_true vii in
  let H := sumZ rows in
  let W := sumZ cols in
  let pix := concat (tab pair 0 H 0 W) in
  let voil := map (fun p => voi (fst p) (snd p)) pix in
  Forall (fun x => 0 <= x) rows -> Forall (fun x => 0 <= x) cols ->
  (forall i j, 0 <= i < H -> 0 <= j < W -> 0 <= q i j <= n) ->
  gather_chunked fill rows cols (fun rs cs => qnd_block n voi q (sstart rs) (slen rs) (sstart cs) (slen cs)) vii plane
  = unravel (Z.to_nat H) (Z.to_nat W) (np_sample fill vii voil (np_index_array q voil pix) plane).
Proof. intros V. exact (@equals_numpy V). Qed.
Print Assumptions C05_equals_numpy_model.
(* numpy treats the non-geo dims as channels; its pipeline commutes with projecting out one channel/plane *)
Theorem C05_numpy_channelwise : forall (V V' : Type) (g : V -> V') (fill : V) vii voi ia data,
  map g (np_sample fill vii voi ia data) = np_sample (g fill) vii voi ia (map g data).
Proof. intros V V'. exact (@np_sample_channelwise V V'). Qed.
Print Assumptions C05_numpy_channelwise.
Example C05_equals_numpy_ex :
  let vii := [true; false; true; true] in                 (* n = 3 *)
  let voi := fun i j => negb ((i =? 0) && (j =? 1)) in
  let q := fun i j => (i + 2 * j) mod 4 in                (* answers in [0,3]; 3 = nothing in range *)
  let plane := [10; 11; 12; 13] in
  0 < count_true vii /\ (forall i j, 0 <= i < 2 -> 0 <= j < 3 -> 0 <= q i j <= count_true vii) /\
  gather_chunked (-9) [1; 1] [2; 1] (fun rs cs => qnd_block 3 voi q (sstart rs) (slen rs) (sstart cs) (slen cs)) vii plane
  = [[10; -9; 10]; [12; -9; 12]].
Proof.
  intros vii voi q plane. split; [reflexivity|]. split; [|reflexivity].
  intros i j Hi Hj. change (count_true vii) with 3. unfold q.
  pose proof (Z.mod_pos_bound (i + 2 * j) 4 ltac:(lia)). lia.
Qed.

(* with a source mask: a selected pixel is never masked (nor invalid) and lies strictly within the radius;
   hypothesis Hknn = the kd-tree's masked query meets its spec on the valid target pixels *)
Theorem C05_mask_never_selected : forall (vii mask : list bool) (dist : Z -> Z -> nat -> R) (r : R) voi q,
  length mask = length vii ->
  (forall i j, voi i j = true -> knn_masked_spec vii mask dist r i j (q i j)) ->
  forall rows cols i j,
  Forall (fun x => 0 <= x) rows -> Forall (fun x => 0 <= x) cols ->
  0 <= i < sumZ rows -> 0 <= j < sumZ cols ->
  let k := nth (Z.to_nat j) (nth (Z.to_nat i) (index_array_chunked (nvalid vii) voi q rows cols) []) (-1) in
  k <> -1 ->
  0 <= k < nvalid vii /\ nth (src_of vii k) vii false = true /\ nth (src_of vii k) mask true = false
  /\ (dist i j (src_of vii k) < r)%R.
Proof. exact mask_never_selected. Qed.
Print Assumptions C05_mask_never_selected.

(* ... and a valid unmasked source pixel strictly within the radius is still found: the target gets a value
   (not fill), from a pixel at least as near *)
Theorem C05_unmasked_still_found : forall (vii mask : list bool) (dist : Z -> Z -> nat -> R) (r : R) voi q,
  length mask = length vii ->
  (forall i j, voi i j = true -> knn_masked_spec vii mask dist r i j (q i j)) ->
  forall rows cols i j s,
  Forall (fun x => 0 <= x) rows -> Forall (fun x => 0 <= x) cols ->
  0 <= i < sumZ rows -> 0 <= j < sumZ cols ->
  voi i j = true ->
  (s < length vii)%nat -> nth s vii false = true -> nth s mask true = false -> (dist i j s < r)%R ->
  let k := nth (Z.to_nat j) (nth (Z.to_nat i) (index_array_chunked (nvalid vii) voi q rows cols) []) (-1) in
  k <> -1 /\ (dist i j (src_of vii k) <= dist i j s)%R.
Proof. exact unmasked_source_still_found. Qed.
Print Assumptions C05_unmasked_still_found.
(* the oracle hypothesis is satisfiable by a non-trivial instance: 3 sources, #1 invalid, #0 masked, #2 in range *)
Example C05_mask_ex :
  let vii := [true; false; true] in
  let mask := [true; false; false] in
  let dist := fun (_ _ : Z) (s : nat) => INR s in
  forall i j, knn_masked_spec vii mask dist 3%R i j 1.
Proof.
  intros vii mask dist i j. right.
  assert (Hc : forall k, candidate vii mask k -> k = 1).
  { intros k [[H0 H1] Hm]. change (nvalid vii) with 2 in H1.
    assert (k = 0 \/ k = 1) as [->| ->] by lia; [cbn in Hm; discriminate|reflexivity]. }
  split; [split; [change (nvalid vii) with 2; lia|reflexivity]|].
  split; [unfold dist; change (src_of vii 1) with 2%nat; simpl INR; lra|]. intros k Hk. rewrite (Hc k Hk). apply Rle_refl.
Qed.

(* non-geo dims keep their order and sizes, the consecutive source geo dims become (y, x) with the target's
   sizes, dtype tag and attrs are those of the input *)
Theorem C05_dims_dtype_preserved : forall y x geo lead sl g grest sg sgrest trail st dtype attrs H W,
  length sl = length lead -> length sgrest = length grest -> length st = length trail ->
  Forall (fun d => memb d geo = false) lead -> Forall (fun d => memb d geo = true) (g :: grest) ->
  Forall (fun d => memb d geo = false) trail ->
  Forall (fun v => 0 <= v) sl -> Forall (fun v => 0 <= v) st ->
  result_meta y x (mk_meta (lead ++ (g :: grest) ++ trail) (sl ++ (sg :: sgrest) ++ st) dtype attrs) geo H W
  = mk_meta (lead ++ y :: x :: trail) (sl ++ H :: W :: st) dtype attrs.
Proof. exact result_meta_spec. Qed.
Print Assumptions C05_dims_dtype_preserved.
Example C05_dims_ex :      (* dims (time=7, rows=8, cols=9, bands=3), swath dims (rows, cols) -> (time, y, x, bands) *)
  result_meta 1 0 (mk_meta [5; 2; 3; 4] [7; 8; 9; 3] 11 [(1, 2)]) [2; 3] 20 30
  = mk_meta [5; 1; 0; 4] [7; 20; 30; 3] 11 [(1, 2)].
Proof. reflexivity. Qed.

(* geo-dim flattening with leading / trailing extra dims: with the source data a flat C-order buffer of shape
   (L, S, T) (L, T = products of the leading / trailing non-geo sizes, S = flattened geo dims), element [l][i][j][t]
   of the result (leading dims, y, x, trailing dims) is buffer element ((l*S + s)*T + t) of the selected source
   pixel s, or the fill value -- for every chunking of the target *)
Theorem C05_flatten_index : forall (L Sn T : nat) fill voi q rows cols vii data l i j t d,
  let n := count_true vii in
  let k := index_pointwise n voi q i j in
  Forall (fun x => 0 <= x) rows -> Forall (fun x => 0 <= x) cols ->
  length data = (L * Sn * T)%nat -> length vii = Sn ->
  (l < L)%nat -> 0 <= i < sumZ rows -> 0 <= j < sumZ cols -> (t < T)%nat ->
  0 <= q i j <= n ->
  nth t (nth (Z.to_nat j) (nth (Z.to_nat i) (nth l
      (resample_nested L Sn T fill rows cols
         (fun rs cs => qnd_block n voi q (sstart rs) (slen rs) (sstart cs) (slen cs)) vii data) []) []) []) d
  = if k =? -1 then fill else nth ((l * Sn + src_of vii k) * T + t) data d.
Proof. exact flatten_index. Qed.
Print Assumptions C05_flatten_index.
Example C05_flatten_ex :     (* 2 leading planes x 3 source pixels (pixel 1 invalid) x 2 trailing values; target 1 x 3 *)
  resample_nested 2 3 2 (-9) [1] [2; 1]
    (fun rs cs => qnd_block 2 (fun _ _ => true) (fun _ j => j) (sstart rs) (slen rs) (sstart cs) (slen cs))
    [true; false; true] [100; 101; 110; 111; 120; 121; 200; 201; 210; 211; 220; 221]
  = [[[[100; 101]; [120; 121]; [-9; -9]]]; [[[200; 201]; [220; 221]; [-9; -9]]]].
Proof. reflexivity. Qed.

(* ---------------------------------------------------------------------------------------------------------------
   definitions regenerated from /repo on every run (tools/gen_specs/GenC05.json -> Gen/GenC05.v) *)

(* "same valid-input compaction": the lon/lat validity expressions of the numpy reference (_get_valid_input_index,
   _get_valid_output_index), of XArrayResamplerNN (_create_resample_kdtree, get_neighbour_info) and of
   KDTreeNearestXarrayResampler (_create_resample_kdtree, _get_neighbor_info) are one and the same predicate, in any
   arithmetic (binary64 included: same comparisons in the same order) ... *)
Theorem C05_same_validity_test : forall (T : Type) (OP : ops T) lon lat,
  gen_valid_input_legacy OP lon lat = gen_valid_input_numpy OP lon lat /\
  gen_valid_input_future OP lon lat = gen_valid_input_numpy OP lon lat /\
  gen_valid_output_legacy OP lon lat = gen_valid_output_numpy OP lon lat /\
  gen_valid_output_future OP lon lat = gen_valid_output_numpy OP lon lat /\
  gen_valid_input_numpy OP lon lat = valid_lonlat OP lon lat /\
  gen_valid_output_numpy OP lon lat = valid_lonlat OP lon lat.
Proof. intros T. exact (@same_validity_test T). Qed.
Print Assumptions C05_same_validity_test.
(* ... which over the reals holds exactly for the in-range coordinates *)
Theorem C05_valid_iff_in_range : forall lon lat : R,
  gen_valid_input_legacy RO lon lat = true <-> (-180 <= lon <= 180 /\ -90 <= lat <= 90)%R.
Proof. exact valid_lonlat_R. Qed.
Print Assumptions C05_valid_iff_in_range.
Example C05_valid_ex : gen_valid_input_future RO 180%R (-90)%R = true /\ gen_valid_output_legacy RO 181%R 0%R = false.
Proof.
  split; [apply valid_lonlat_R; lra|].
  destruct (gen_valid_output_legacy RO 181%R 0%R) eqn:E; [|reflexivity]. apply valid_lonlat_R in E. lra.
Qed.

(* the index tests of query_no_distance (good_pixels) and of the numpy _extract_resample_result (index_mask,
   new_index_array) are the ones inside the models: the models ARE the pipelines with the regenerated tests plugged in *)
Theorem C05_query_model_uses_generated_test : forall n voi q pix,
  qnd_flat n voi q pix =
  let voir := map (fun p => voi (fst p) (snd p)) pix in
  let index_array := map (fun p => q (fst p) (snd p)) (compress voir pix) in
  let good_pixels := map (fun i => gen_good_pixels i n) index_array in
  scatter (scatter voir good_pixels false) (compress good_pixels index_array) (-1).
Proof. exact qnd_flat_uses_gen. Qed.
Print Assumptions C05_query_model_uses_generated_test.
Theorem C05_numpy_model_uses_generated_tests : forall (V : Type) (fill : V) vii voi ia data,
  np_sample fill vii voi ia data =
  let n := count_true vii in
  if (n =? 0) || (count_true voi =? 0) then map (fun _ => fill) voi
  else
    let new_data := compress vii data in
    let index_mask := map (fun i => gen_np_index_mask i n) ia in
    let new_index_array := map2 gen_np_new_index index_mask ia in
    let result := map (fun i => nth (Z.to_nat i) new_data fill) new_index_array in
    scatter voi (map2 (fun (m : bool) v => if m then fill else v) index_mask result) fill.
Proof. intros V. exact (@np_sample_uses_gen V). Qed.
Print Assumptions C05_numpy_model_uses_generated_tests.

(* ---------------------------------------------------------------------------------------------------------------
   composition with C02: the brute-force reference of C02 (Model/KDTree.v nearest, proved there to meet the kd-tree
   contract, strict bound, lowest index on ties) run over the unmasked compacted candidates meets C05's masked-query
   spec; so with it the two mask clauses hold with NO hypothesis on the oracle, for every chunking *)
Theorem C05_brute_force_meets_masked_spec : forall vii mask (d2 : Z -> Z -> nat -> Z) r2 i j,
  knn_masked_spec vii mask (fun i j s => IZR (d2 i j s)) (IZR r2) i j (bf_query vii mask d2 r2 i j).
Proof. exact bf_meets_spec. Qed.
Print Assumptions C05_brute_force_meets_masked_spec.
Theorem C05_mask_clauses_for_brute_force : forall vii mask (d2 : Z -> Z -> nat -> Z) r2 voi rows cols i j,
  length mask = length vii ->
  Forall (fun x => 0 <= x) rows -> Forall (fun x => 0 <= x) cols ->
  0 <= i < sumZ rows -> 0 <= j < sumZ cols ->
  let k := nth (Z.to_nat j) (nth (Z.to_nat i)
             (index_array_chunked (nvalid vii) voi (bf_query vii mask d2 r2) rows cols) []) (-1) in
  (k <> -1 -> 0 <= k < nvalid vii /\ nth (src_of vii k) vii false = true /\ nth (src_of vii k) mask true = false
              /\ d2 i j (src_of vii k) < r2) /\
  (forall s, voi i j = true -> (s < length vii)%nat -> nth s vii false = true -> nth s mask true = false ->
             d2 i j s < r2 -> k <> -1 /\ d2 i j (src_of vii k) <= d2 i j s).
Proof.
  intros vii mask d2 r2 voi rows cols i j Hlen Hr Hc Hi Hj k. split.
  - intros Hk.
    destruct (mask_never_selected vii mask (fun i j s => IZR (d2 i j s)) (IZR r2) voi (bf_query vii mask d2 r2) Hlen
                (fun i j _ => bf_meets_spec vii mask d2 r2 i j) rows cols i j Hr Hc Hi Hj Hk) as (H1 & H2 & H3 & H4).
    repeat split; try assumption; try apply H1. apply lt_IZR. exact H4.
  - intros s Hv Hs Hvi Hm Hd.
    destruct (unmasked_source_still_found vii mask (fun i j s => IZR (d2 i j s)) (IZR r2) voi (bf_query vii mask d2 r2) Hlen
                (fun i j _ => bf_meets_spec vii mask d2 r2 i j) rows cols i j s Hr Hc Hi Hj Hv Hs Hvi Hm (IZR_lt _ _ Hd))
      as [H1 H2].
    split; [exact H1|apply le_IZR; exact H2].
Qed.
Print Assumptions C05_mask_clauses_for_brute_force.
Example C05_brute_force_ex :      (* sources 0 (masked, nearest), 1 (invalid), 2 and 3 (valid); distances 1, 0, 9, 4; r2 = 10 *)
  let d2 := fun (_ _ : Z) (s : nat) => nth s [1; 0; 9; 4] 100 in
  bf_query [true; false; true; true] [true; false; false; false] d2 10 0 0 = 2        (* compacted index of source 3 *)
  /\ bf_query [true; false; true; true] [true; false; true; true] d2 10 0 0 = 3      (* everything masked: n *)
  /\ bf_query [true; false; true; true] [false; false; false; false] d2 1 0 0 = 3.   (* bound is strict *)
Proof. repeat split; reflexivity. Qed.

(* ---------------------------------------------------------------------------------------------------------------
   histories of calls on one resampler object *)

(* KDTreeNearestXarrayResampler: for every history of resample() calls on one instance, each call uses the neighbour
   info of ITS OWN arguments, provided the cache key separates calls needing different info
   (key = (mask.data.name, neighbors, radius, epsilon); dask names are content tokens) *)
Theorem C05_cache_history : forall (Arg Key Info : Type) (key : Arg -> Key) key_eqb (compute : Arg -> Info),
  (forall k k', key_eqb k k' = true <-> k = k') ->
  (forall a a', key a = key a' -> compute a = compute a') ->
  forall h, run key key_eqb compute [] h = map (fun a => Some (compute a)) h.
Proof.
  intros Arg Key Info key key_eqb compute H1 H2 h.
  apply (cache_history key key_eqb compute H1 H2). apply empty_cache_ok.
Qed.
Print Assumptions C05_cache_history.
(* the hypothesis is needed (and satisfiable): with a key that ignores the mask the second call reuses the first
   call's info -- the failure mode the history correspondence looks for on the implementation *)
Example C05_cache_key_ex :
  run (fun m : Z => m) Z.eqb (fun m => 10 * m) [] [1; 2; 1] = [Some 10; Some 20; Some 10]
  /\ run (fun _ : Z => 0) Z.eqb (fun m => 10 * m) [] [1; 2; 1] = [Some 10; Some 10; Some 10]
  /\ run_sizes (fun m : Z => m) Z.eqb (fun m => 10 * m) [] [1; 2; 1] = [1; 2; 2].
Proof. repeat split; reflexivity. Qed.
(* XArrayResamplerNN: get_sample_from_neighbour_info right after get_neighbour_info(a) uses a's info, whatever the
   earlier calls on the object were *)
Theorem C05_legacy_history : forall (Arg Info : Type) (compute : Arg -> Info) h st a,
  last (run_legacy compute st (h ++ [GetInfo a; Sample])) None = Some (compute a).
Proof. intros Arg Info compute. exact (legacy_history compute). Qed.
Print Assumptions C05_legacy_history.

(* ---------------------------------------------------------------------------------------------------------------
   dimension ORDER: data is accepted (no ValueError from _get_valid_dims / _verify_data_geo_dims) only when the
   geometry's dims occur in the data consecutively and in the geometry's own order, all other dims being non-geo --
   exactly the hypotheses of C05_dims_dtype_preserved; data stored with the geo dims swapped, renamed or split by
   another dim is refused (and the flattening of C05_flatten_index is never applied to it) *)
Theorem C05_accepted_dims_in_geometry_order : forall dims geo, geo_dims_ok dims geo = true ->
  exists lead trail, dims = lead ++ geo ++ trail /\
    Forall (fun d => memb d geo = false) lead /\ Forall (fun d => memb d geo = false) trail.
Proof. exact geo_dims_ok_spec. Qed.
Print Assumptions C05_accepted_dims_in_geometry_order.
Example C05_dim_order_ex :       (* names: 0 = y, 1 = x, 2 = bands *)
  geo_dims_ok [2; 0; 1] [0; 1] = true /\ geo_dims_ok [0; 1; 2] [0; 1] = true
  /\ geo_dims_ok [1; 0] [0; 1] = false /\ geo_dims_ok [2; 1; 0] [0; 1] = false      (* swapped *)
  /\ geo_dims_ok [0; 2; 1] [0; 1] = false                                           (* not adjacent *)
  /\ geo_dims_ok [3; 4] [0; 1] = false.                                             (* other names *)
Proof. repeat split; reflexivity. Qed.

(* ---------------------------------------------------------------------------------------------------------------
   code is model: the dimension checks themselves, translated from /repo on every run by tools/py2coq_imp.py
   (Gen/GenC05imp.v; extra parameters is_swath / swath_dims / [y; x] / src_shape stand for
   isinstance(source_geo_def, SwathDefinition), source_geo_def.lons.dims, the literal ('y', 'x'), source_geo_def.shape) *)

(* XArrayResamplerNN._get_valid_dims returns (source geo dims, ('y','x')) exactly when geo_dims_ok holds and raises
   otherwise (never runs out of fuel: it has no loop) *)
Theorem C05_get_valid_dims_code_is_model : forall (data : darr) (is_swath : bool) (swath_dims : list Z) (y x : Z),
  let geo := if is_swath then swath_dims else [y; x] in
  geo <> [] ->
  Imp.value_of (GenC05imp.imp_get_valid_dims data is_swath swath_dims y x)
  = if geo_dims_ok (dd_dims data) geo then Imp.COk (geo, [y; x]) else Imp.CRaised.
Proof. exact get_valid_dims_code_is_model. Qed.
Print Assumptions C05_get_valid_dims_code_is_model.

(* KDTreeNearestXarrayResampler._verify_data_geo_dims (including its loop over the geometry dims comparing sizes)
   completes exactly when geo_dims_ok and geo_sizes_ok hold and raises otherwise *)
Theorem C05_verify_data_geo_dims_code_is_model : forall (data : darr) (geo src_shape : list Z),
  geo <> [] ->
  let first := Z.of_nat (zindex (hd 0 geo) (dd_dims data)) in
  let accepted := geo_dims_ok (dd_dims data) geo && geo_sizes_ok (dd_shape data) src_shape first (Imp.zlen geo) in
  if accepted then exists s, Imp.state_of (GenC05imp.imp_verify_data_geo_dims data geo src_shape) = Imp.COk s
  else Imp.state_of (GenC05imp.imp_verify_data_geo_dims data geo src_shape) = Imp.CRaised.
Proof. exact verify_data_geo_dims_code_is_model. Qed.
Print Assumptions C05_verify_data_geo_dims_code_is_model.

(* hence, about the GENERATED function: whenever the translated _get_valid_dims returns, the data dims carry the
   geometry's dims consecutively and in the geometry's own order (the hypotheses of C05_dims_dtype_preserved);
   data with swapped / renamed / split geo dims makes it raise *)
Theorem C05_generated_check_accepts_only_geometry_order :
  forall (data : darr) (is_swath : bool) (swath_dims : list Z) (y x : Z) r,
  let geo := if is_swath then swath_dims else [y; x] in
  geo <> [] ->
  Imp.value_of (GenC05imp.imp_get_valid_dims data is_swath swath_dims y x) = Imp.COk r ->
  r = (geo, [y; x]) /\
  exists lead trail, dd_dims data = lead ++ geo ++ trail /\
    Forall (fun d => memb d geo = false) lead /\ Forall (fun d => memb d geo = false) trail.
Proof.
  intros data is_swath swath_dims y x r geo Hne H.
  rewrite (get_valid_dims_code_is_model data is_swath swath_dims y x Hne) in H. fold geo in H.
  destruct (geo_dims_ok (dd_dims data) geo) eqn:E; [|discriminate].
  inversion H. split; [reflexivity|]. apply geo_dims_ok_spec. exact E.
Qed.
Print Assumptions C05_generated_check_accepts_only_geometry_order.
Example C05_imp_dims_ex :      (* names: 0 = y, 1 = x, 2 = bands *)
  Imp.value_of (GenC05imp.imp_get_valid_dims (mk_darr [2; 0; 1] [3; 4; 5]) false [] 0 1) = Imp.COk ([0; 1], [0; 1])
  /\ Imp.value_of (GenC05imp.imp_get_valid_dims (mk_darr [2; 1; 0] [3; 5; 4]) false [] 0 1) = Imp.CRaised
  /\ Imp.state_of (GenC05imp.imp_verify_data_geo_dims (mk_darr [0; 1; 2] [4; 5; 3]) [0; 1] [4; 6]) = Imp.CRaised.
Proof. repeat split; reflexivity. Qed.
