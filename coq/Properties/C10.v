(* C10 -- slicing, stacking and concatenating areas commute with their coordinates.
   Only statements here; proofs live in Proofs/C10_*.v.  [gen_area_getitem] is regenerated from
   /repo's AreaDefinition.__getitem__ on every run (Gen/GenC10.v). *)
From Coq Require Import Reals ZArith List Lia Lra Bool.
From PR Require Import Base.Num Base.RNum Base.Slice Base.Imp Model.Grid Model.SliceArea Model.Stack Gen.GenC10
     Model.LonlatPaths Model.StackDask Base.ZX Proofs.C10_list Proofs.C10_slice Proofs.C10_stack Proofs.C10_paths Model.ImpStack Gen.GenC10imp Model.C10_imp_run Proofs.C10_imp Proofs.C10_main.
Import ListNotations.
Open Scope Z_scope.

(* a concrete 3-row x 4-column area used by the non-vacuity examples *)
Definition ex_area : garea R := mk_garea (mk_area 0%R 0%R 40%R 30%R 4 3) (0, 0) 1 2 3 4.
Definition ex_key : oslice * oslice := (mk_oslice (Some (-2)) None, mk_oslice (Some 1) (Some 10)).
Example C10_ex_wf : wf_g ex_area. Proof. unfold wf_g; cbn; lia. Qed.
Example C10_ex_sel : sel_ok ex_area ex_key. Proof. unfold sel_ok; cbn; lia. Qed.

(* the regenerated __getitem__ is the hand-written model, for every area and key (over the reals) *)
Theorem C10_getitem_translation : forall g key, gen_area_getitem RO g key = area_getitem RO g key.
Proof. exact main_getitem_translation. Qed.
Print Assumptions C10_getitem_translation.

(* coords(area[key]) = coords(area)[key]: for every area with >= 1 row and column and every key of two
   step-None/1 slices (None, negative, out-of-range bounds) selecting >= 1 row and column, the 1-D projection
   vectors of the sliced area are the numpy slices of the parent's, and so is every 2-D coordinate array
   obtained through a pointwise map [inv] of (x, y) (PROJ's inverse: lon/lat) *)
Theorem C10_slice_coords_commute : forall (C : Type) (inv : R -> R -> C) g key, wf_g g -> sel_ok g key ->
  gvec_x RO (gen_area_getitem RO g key) = np_slice (snd key) (gvec_x RO g) /\
  gvec_y RO (gen_area_getitem RO g key) = np_slice (fst key) (gvec_y RO g) /\
  grid_of inv (gvec_x RO (gen_area_getitem RO g key)) (gvec_y RO (gen_area_getitem RO g key)) =
    np_slice2 key (grid_of inv (gvec_x RO g) (gvec_y RO g)).
Proof. exact main_slice_coords_commute. Qed.
Print Assumptions C10_slice_coords_commute.
(* pointwise form: pixel (r, c) of the slice has the projection coordinates of pixel (ystart + r, xstart + c) *)
Theorem C10_slice_coords_pointwise : forall g ys xs r c, wf_g g -> sel_ok g (ys, xs) ->
  proj_x RO (g_area (gen_area_getitem RO g (ys, xs))) c = proj_x RO (g_area g) (sstart (indices xs (gwidth g)) + c) /\
  proj_y RO (g_area (gen_area_getitem RO g (ys, xs))) r = proj_y RO (g_area g) (sstart (indices ys (gheight g)) + r).
Proof. exact main_slice_coords_pointwise. Qed.
Print Assumptions C10_slice_coords_pointwise.
Example C10_slice_coords_ex :
  gvec_y RO (gen_area_getitem RO ex_area ex_key) = np_slice (fst ex_key) (gvec_y RO ex_area) /\
  gwidth (gen_area_getitem RO ex_area ex_key) = 3 /\ gheight (gen_area_getitem RO ex_area ex_key) = 2.
Proof.
  split; [apply (C10_slice_coords_commute R (fun x _ => x) ex_area ex_key C10_ex_wf C10_ex_sel)|].
  rewrite gen_getitem_eq. split; reflexivity.
Qed.

(* shape = numpy's result shape: slen (indices s n), which is the length of the sliced array *)
Theorem C10_slice_shape : forall g key, wf_g g -> sel_ok g key ->
  gheight (gen_area_getitem RO g key) = slen (indices (fst key) (gheight g)) /\
  gwidth (gen_area_getitem RO g key) = slen (indices (snd key) (gwidth g)) /\
  forall (A : Type) (m : list (list A)), zlen m = gheight g -> rect m (gwidth g) ->
    zlen (np_slice2 key m) = gheight (gen_area_getitem RO g key) /\
    rect (np_slice2 key m) (gwidth (gen_area_getitem RO g key)).
Proof. exact main_slice_shape. Qed.
Print Assumptions C10_slice_shape.

(* crop_offset records the offset of the slice inside its parent, added to the parent's own *)
Theorem C10_crop_offset_acc : forall g ys xs,
  g_off (gen_area_getitem RO g (ys, xs)) =
  (fst (g_off g) + sstart (indices ys (gheight g)), snd (g_off g) + sstart (indices xs (gwidth g))).
Proof. exact main_crop_offset_acc. Qed.
Print Assumptions C10_crop_offset_acc.

(* slicing composes like array slicing: for EVERY chain of successive keys (each selecting >= 1 row and
   column of the area it is applied to) the result is -- as a whole record: extent, shape, crop_offset --
   the single slice with the composed windows; the crop_offset is the parent's plus the sum of the
   starts; and [compose_all] is exactly how successive numpy slices of an array compose *)
Theorem C10_slice_compose : forall keys g, wf_g g -> chain_ok (gheight g) (gwidth g) keys ->
  let ky := compose_all (gheight g) (map fst keys) in
  let kx := compose_all (gwidth g) (map snd keys) in
  fold_left (gen_area_getitem RO) keys g = gen_area_getitem RO g (okey ky, okey kx) /\
  g_off (fold_left (gen_area_getitem RO) keys g) = (fst (g_off g) + sstart ky, snd (g_off g) + sstart kx) /\
  1 <= slen ky /\ 1 <= slen kx /\
  forall (A : Type) (m : list (list A)), zlen m = gheight g -> rect m (gwidth g) ->
    fold_left (fun acc k => np_slice2 k acc) keys m = map (take_slice kx) (take_slice ky m).
Proof. exact main_slice_compose. Qed.
Print Assumptions C10_slice_compose.
Example C10_chain_ex : chain_ok (gheight ex_area) (gwidth ex_area)
  [ex_key; (mk_oslice None (Some (-1)), mk_oslice (Some (-2)) (Some 7))].
Proof. cbn. lia. Qed.

(* split at any row 1..h-1 and concatenate the two parts: the original extent and shape *)
Theorem C10_split_concat_id : forall g k, wf_g g -> 1 <= k <= gheight g - 1 ->
  exists m, gen_concatenate_area_defs RO (gen_area_getitem RO g (rows_key 0 k))
                                         (gen_area_getitem RO g (rows_key k (gheight g))) 0 = Some m /\
            g_area m = g_area g /\ g_crs m = g_crs g.
Proof. exact main_split_concat_id. Qed.
Print Assumptions C10_split_concat_id.
(* the other member order (lower part first); hypothesis H_first_test_fails: the code's first test
   "area1 is above area2" (numpy.isclose(area1.ymin, area2.ymax)) fails, i.e. the y-extent of the
   original area is not within isclose's tolerance of zero *)
Theorem C10_split_concat_id_rev_if : forall g k, wf_g g -> 1 <= k <= gheight g - 1 ->
  isclose RO (ymin (g_area (gen_area_getitem RO g (rows_key k (gheight g)))))
             (ymax (g_area (gen_area_getitem RO g (rows_key 0 k)))) = false ->
  exists m, gen_concatenate_area_defs RO (gen_area_getitem RO g (rows_key k (gheight g)))
                                         (gen_area_getitem RO g (rows_key 0 k)) 0 = Some m /\
            g_area m = g_area g /\ g_crs m = g_crs g.
Proof. exact main_split_concat_id_rev_if. Qed.
Print Assumptions C10_split_concat_id_rev_if.
Example C10_split_ex : wf_g ex_area /\ 1 <= 1 <= gheight ex_area - 1 /\
  isclose RO (ymin (g_area (gen_area_getitem RO ex_area (rows_key 1 (gheight ex_area)))))
             (ymax (g_area (gen_area_getitem RO ex_area (rows_key 0 1)))) = false.
Proof.
  split; [exact C10_ex_wf|]. split; [cbn; lia|]. rewrite !gen_getitem_eq. cbn.
  apply isclose_far. replace (0 - 30)%R with (- (30))%R by lra.
  rewrite Rabs_Ropp. rewrite !Rabs_pos_eq by lra. lra.
Qed.
(* any number of vertically adjacent parts (cut rows 0 < k1 < k2 < ... < h), appended to a
   StackedAreaDefinition one after the other: they merge into ONE member equal to the original, which
   squeeze() returns (induction over the list of cuts) *)
Theorem C10_stack_split_id : forall g cuts, wf_g g -> cuts_ok 0 cuts (gheight g) ->
  exists s m, stack_append_all RO stack_empty (parts RO g 0 cuts) = Some s /\ stack_squeeze s = Some m /\
              g_area m = g_area g /\ g_crs m = g_crs g /\ stack_height s = gheight g.
Proof. exact main_stack_split_id. Qed.
Print Assumptions C10_stack_split_id.
Example C10_cuts_ex : cuts_ok 0 [1; 2] (gheight ex_area). Proof. cbn. lia. Qed.

(* StackedAreaDefinition.get_lonlats = row-wise concatenation of the members' coordinate arrays
   (any inverse projection [inv]); with data_slice=(rows, cols), rows having non-negative int bounds as
   produced by geometry._get_slice: numpy slicing of that concatenation.  Members = any list of areas. *)
Theorem C10_stacked_lonlats_concat : forall (C : Type) (inv : R -> R -> C) (defs : list (garea R)) w,
  Forall (fun d => 1 <= gheight d /\ gwidth d = w) defs -> 0 <= w ->
  stacked_lonlats RO inv None defs = concat (map (member_grid inv) defs) /\
  forall rs cs, 0 <= sstart rs -> 0 <= sstop rs ->
    stacked_lonlats RO inv (Some (rs, cs)) defs = np_slice2 (okey rs, cs) (concat (map (member_grid inv) defs)).
Proof. exact main_stacked_lonlats_concat. Qed.
Print Assumptions C10_stacked_lonlats_concat.
(* the same at list level, for members given by arbitrary 2-D arrays *)
Theorem C10_stacked_rows_concat : forall (A : Type) (ms : list (list (list A))),
  (rect (concat ms) (first_width ms) -> stack_lonlats None ms = concat ms) /\
  forall rs cs, 0 <= sstart rs -> 0 <= sstop rs ->
    stack_lonlats (Some (rs, cs)) ms = np_slice2 (okey rs, cs) (concat ms).
Proof. exact main_stacked_rows_concat. Qed.
Print Assumptions C10_stacked_rows_concat.
Example C10_stacked_members_ex :
  Forall (fun d => 1 <= gheight d /\ gwidth d = 4) [ex_area; gen_area_getitem RO ex_area (rows_key 1 3)].
Proof. rewrite gen_getitem_eq. repeat constructor; cbn; lia. Qed.
Example C10_stacked_ex :
  stack_lonlats (Some (mk_slice 2 5, mk_oslice None None)) [[[1]; [2]; [3]]; [[4]; [5]; [6]]] = [[3]; [4]; [5]].
Proof. reflexivity. Qed.

(* swaths: lons/lats arrays sliced with arr[ys, xs] and concatenated along rows *)
Theorem C10_swath_slice_concat : forall (A : Type) (s : swath A) w,
  rect (fst s) w -> rect (snd s) w -> zlen (snd s) = zlen (fst s) ->
  (* shape and elements of a slice *)
  (forall key, zlen (fst (swath_getitem key s)) = slen (indices (fst key) (zlen (fst s))) /\
               rect (fst (swath_getitem key s)) (slen (indices (snd key) w)) /\
               forall (i j : nat) d, Z.of_nat i < slen (indices (fst key) (zlen (fst s))) ->
                                     Z.of_nat j < slen (indices (snd key) w) ->
                 nth j (nth i (fst (swath_getitem key s)) []) d =
                 nth (Z.to_nat (sstart (indices (snd key) w)) + j)
                     (nth (Z.to_nat (sstart (indices (fst key) (zlen (fst s)))) + i) (fst s) []) d) /\
  (* chains of slices compose *)
  (forall keys, fst (fold_left (fun acc k => swath_getitem k acc) keys s) =
                map (take_slice (compose_all w (map snd keys))) (take_slice (compose_all (zlen (fst s)) (map fst keys)) (fst s))) /\
  (* split at any row and concatenate: identity *)
  (forall k, 0 <= k <= zlen (fst s) ->
     swath_concat (swath_getitem (mk_oslice (Some 0) (Some k), mk_oslice None None) s)
                  (swath_getitem (mk_oslice (Some k) (Some (zlen (fst s))), mk_oslice None None) s) = s) /\
  (* slicing a concatenation = concatenating the members' local slices *)
  (forall (t : swath A) rs cs, 0 <= sstart rs -> 0 <= sstop rs ->
     fst (swath_getitem (okey rs, cs) (swath_concat s t)) = stack_rows rs cs 0 [fst s; fst t]).
Proof. exact main_swath_slice_concat. Qed.
Print Assumptions C10_swath_slice_concat.
Example C10_swath_ex :
  swath_getitem (mk_oslice (Some (-2)) None, mk_oslice None (Some 1)) ([[1; 2]; [3; 4]; [5; 6]], [[7; 8]; [9; 10]; [11; 12]])
  = ([[3]; [5]], [[9]; [11]]).
Proof. reflexivity. Qed.

(* ================= wave 2: more of the code under the translator, other code paths, histories ================= *)

(* combine_area_extents_vertical, concatenate_area_defs (axis=0), the local_row_slice expression and the offset
   update of StackedAreaDefinition.get_lonlats are regenerated from /repo on every run and equal the hand models used
   above, for EVERY arithmetic instance (reals and binary64 alike) *)
Theorem C10_kernels_translation : forall (T : Type) (OP : ops T),
  (forall a1 a2 : garea T, gen_combine_area_extents_vertical OP a1 a2 = combine_area_extents_vertical OP (g_area a1) (g_area a2)) /\
  (forall g1 g2 : garea T, gen_concatenate_area_defs OP g1 g2 0 = concatenate_area_defs OP g1 g2) /\
  (forall rs off (d : garea T), okey (gen_local_row_slice rs off d) = local_row_slice rs off (gheight d)) /\
  (forall off (d : garea T), gen_stack_offset_step off d = off + gheight d).
Proof. exact main_kernels_translation. Qed.
Print Assumptions C10_kernels_translation.

(* dask path (chunks=...): for EVERY chunking of rows and columns into blocks of sizes >= 0 that sum to the shape
   (block offsets = C19's prefix-sum [offsets]) the coordinate array assembled from the per-block
   _generate_1d_proj_vectors / meshgrid / pointwise inverse projection is the array of the unchunked path --
   in every arithmetic instance, hence bit for bit -- and so is every data_slice of it *)
Theorem C10_dask_chunks_independent : forall (T C : Type) (OP : ops T) (f : T -> T -> C) (a : area T) cy cx,
  Forall (fun x => 0 <= x) cy -> Forall (fun x => 0 <= x) cx -> sumZ cy = height a -> sumZ cx = width a ->
  dask_grid OP f a cy cx = grid_of f (proj_vector_x OP a) (proj_vector_y OP a) /\
  forall key, np_slice2 key (dask_grid OP f a cy cx) =
              grid_of f (np_slice (snd key) (proj_vector_x OP a)) (np_slice (fst key) (proj_vector_y OP a)).
Proof. exact main_dask_chunks_independent. Qed.
Print Assumptions C10_dask_chunks_independent.
Example C10_dask_ex : Forall (fun x => 0 <= x) [2; 0; 1] /\ Forall (fun x => 0 <= x) [3; 1] /\
  sumZ [2; 0; 1] = height (g_area ex_area) /\ sumZ [3; 1] = width (g_area ex_area).
Proof. repeat split; repeat constructor; lia. Qed.

(* cache=: for EVERY history of get_lonlats(data_slice, cache) calls on one AreaDefinition (memo initially unset),
   every call returns lonlats()[data_slice] exactly as a fresh object would *)
Theorem C10_area_cache_history : forall (T C : Type) (OP : ops T) (inv : T -> T -> C) (g : garea T)
    (calls : list (option (oslice * oslice) * bool)),
  area_history OP inv g None calls = map (fun o => apply_ds (fst o) (area_lonlats OP inv g None)) calls.
Proof. exact main_area_cache_history. Qed.
Print Assumptions C10_area_cache_history.

(* the same for a StackedAreaDefinition whose members are shared objects with their own memos: for EVERY history of
   stack.get_lonlats(...) calls interleaved with direct member.get_lonlats(...) calls, starting from any state in which
   each member's memo is unset or holds that member's full arrays, every operation returns what it returns on fresh
   objects; and after a stack call the stack's own lons/lats attribute holds that call's result *)
Theorem C10_stack_cache_history : forall (T C : Type) (OP : ops T) (inv : T -> T -> C) (defs : list (garea T)) st os,
  state_ok OP inv defs st ->
  fst (shistory OP inv defs st os) = map (sop_spec OP inv defs) os /\
  forall ds flag, st_last (fst (sstep OP inv defs (snd (shistory OP inv defs st os)) (StackCall ds flag)))
                  = Some (stacked_lonlats OP inv ds defs).
Proof. exact main_stack_cache_history. Qed.
Print Assumptions C10_stack_cache_history.
Example C10_stack_state_ex : state_ok RO (fun x y => (x, y)) [ex_area; ex_area] (mk_sstate [None; None] None).
Proof. repeat constructor. Qed.

(* CoordinateDefinition.append (in place): after any sequence of appends the arrays are the row-wise concatenation,
   in order *)
Theorem C10_swath_append_history : forall (A : Type) (s : swath A) (ts : list (swath A)),
  swath_append_all s ts = (fst s ++ concat (map fst ts), snd s ++ concat (map snd ts)).
Proof. exact main_swath_append_history. Qed.
Print Assumptions C10_swath_append_history.

(* the dask path of StackedAreaDefinition.get_lonlats: whatever chunking each member ends up with (any tiling of its
   shape), the vstacked, locally sliced dask arrays are the rows of the numpy path *)
Theorem C10_stacked_dask_chunks_independent : forall (T C : Type) (OP : ops T) (inv : T -> T -> C) rs cs
    (defs : list (garea T)) (chs : list (list Z * list Z)),
  Forall2 tiling defs chs ->
  stacked_rows_dask OP inv rs cs 0 defs chs = stacked_rows OP inv rs cs 0 defs.
Proof. exact main_stacked_dask_chunks_independent. Qed.
Print Assumptions C10_stacked_dask_chunks_independent.
Example C10_stacked_dask_ex : Forall2 (@tiling R) [ex_area; ex_area] [([3], [2; 2]); ([1; 2], [4])].
Proof. repeat constructor; cbn; lia. Qed.

(* round 2: the two parts reach their common edge along DIFFERENT slicing routes -- one is cut from the parent, the other
   from the already cropped window parent[a:b] (a chain of two slices), either way round.  Over the reals the routes give
   the same areas, so for every window and every split row the parts concatenate back to the window.  (In binary64 the
   shared edge then agrees only up to rounding; that the code's isclose test absorbs this is checked bit-exactly by the
   correspondence on such inputs and by the oracle key C10.split_concat.chain_parts.) *)
Theorem C10_split_concat_routes : forall g a b k, wf_g g -> 0 <= a -> a < k -> k < b -> b <= gheight g ->
  let win := gen_area_getitem RO g (rows_key a b) in
  (exists m, gen_concatenate_area_defs RO (gen_area_getitem RO g (rows_key a k))
                                          (gen_area_getitem RO win (rows_key (k - a) (b - a))) 0 = Some m /\
             g_area m = g_area win /\ g_crs m = g_crs g) /\
  (exists m, gen_concatenate_area_defs RO (gen_area_getitem RO win (rows_key 0 (k - a)))
                                          (gen_area_getitem RO g (rows_key k b)) 0 = Some m /\
             g_area m = g_area win /\ g_crs m = g_crs g).
Proof. exact main_split_concat_routes. Qed.
Print Assumptions C10_split_concat_routes.
Example C10_routes_ex : wf_g ex_area /\ 0 <= 0 /\ 0 < 1 /\ 1 < 3 /\ 3 <= gheight ex_area.
Proof. split; [exact C10_ex_wf|cbn; lia]. Qed.

(* ================= wave 3: code is model for the stateful methods of StackedAreaDefinition ================= *)
(* imp_stack_append / imp_stack_squeeze / imp_stack_width / imp_stack_height are regenerated on every run from
   StackedAreaDefinition.append (AreaDefinition argument) / squeeze / width / height by tools/py2coq_imp.py (Gen/GenC10imp.v);
   concatenate_area_defs inside append is the definition regenerated by the first front end. *)

(* one append: the regenerated method mutates self exactly as Model.Stack.stack_append says (member skipped when its height
   is 0, CRS recorded on the first member, NotImplementedError on a CRS mismatch, merge with the last member or a new
   member when concatenation raises); whenever a member is taken the memoised hash / lons / lats are reset *)
Theorem C10_append_code_is_model : forall (T : Type) (OP : ops T) (p : pstack T) (d : garea T),
  match stack_append OP (to_stack p) d with
  | None => imp_stack_append OP p d = Raised
  | Some s' => exists st', state_of (imp_stack_append OP p d) = COk st' /\ to_stack (imp_stack_append_self st') = s' /\
                           (gheight d <> 0 -> memo_reset (imp_stack_append_self st')) /\
                           (gheight d = 0 -> imp_stack_append_self st' = p)
  end.
Proof. exact main_append_code_is_model. Qed.
Print Assumptions C10_append_code_is_model.

(* every sequence of appends on one object (induction over the sequence) *)
Theorem C10_append_sequence_code_is_model : forall (T : Type) (OP : ops T) (ds : list (garea T)) (p : pstack T),
  match stack_append_all OP (to_stack p) ds with
  | None => imp_append_all OP p ds = CRaised
  | Some s' => exists p', imp_append_all OP p ds = COk p' /\ to_stack p' = s'
  end.
Proof. exact main_append_sequence_code_is_model. Qed.
Print Assumptions C10_append_sequence_code_is_model.

(* squeeze(), width, height *)
Theorem C10_stack_observers_code_is_model : forall (T : Type) (OP : ops T) (p : pstack T),
  value_of (imp_stack_squeeze OP p) = COk (match stack_squeeze (to_stack p) with Some d => inl d | None => inr p end) /\
  value_of (imp_stack_width OP p) = match ps_defs p with [] => CRaised | d :: _ => COk (gwidth d) end /\
  (ps_defs p <> [] -> value_of (imp_stack_width OP p) = COk (stack_width (to_stack p))) /\
  value_of (imp_stack_height p) = COk (stack_height (to_stack p)).
Proof. exact main_stack_observers_code_is_model. Qed.
Print Assumptions C10_stack_observers_code_is_model.

(* hence C10_stack_split_id holds of the code: the parts of any split, appended one after the other to an empty
   StackedAreaDefinition by the regenerated append, leave ONE member equal to the original, which the regenerated
   squeeze() returns, with the regenerated height equal to the original's *)
Theorem C10_stack_split_id_code : forall g cuts, wf_g g -> cuts_ok 0 cuts (gheight g) ->
  exists p' m, imp_append_all RO pstack_empty (parts RO g 0 cuts) = COk p' /\ ps_defs p' = [m] /\
               value_of (imp_stack_squeeze RO p') = COk (inl m) /\ g_area m = g_area g /\ g_crs m = g_crs g /\
               value_of (imp_stack_height p') = COk (gheight g).
Proof. exact main_stack_split_id_code. Qed.
Print Assumptions C10_stack_split_id_code.
Example C10_imp_append_ex :
  exists p', imp_append_all RO pstack_empty [ex_area; ex_area] = COk p' /\ Imp.zlen (ps_defs p') = 2.
Proof.
  pose proof (main_append_sequence_code_is_model R RO [ex_area; ex_area] pstack_empty) as H.
  destruct (stack_append_all RO (to_stack pstack_empty) [ex_area; ex_area]) as [s'|] eqn:E.
  - destruct H as (p' & Ep & Es). exists p'. split; [exact Ep|].
    assert (L : length (s_rdefs s') = 2%nat).
    { revert E. unfold to_stack, pstack_empty. cbn [ps_crs ps_defs rev stack_append_all stack_append gheight height g_area ex_area Z.eqb s_rdefs s_crs g_crs negb].
      unfold concatenate_area_defs, combine_area_extents_vertical. cbn [g_crs ex_area Z.eqb gwidth width g_area andb xmin xmax ymin ymax eqb RO].
      rewrite !Reqb_refl. cbn [andb].
      rewrite (isclose_far 0 30) by (replace (0 - 30)%R with (- (30))%R by lra; rewrite Rabs_Ropp, !Rabs_pos_eq by lra; lra).
      rewrite (isclose_far 30 0) by (replace (30 - 0)%R with 30%R by lra; rewrite Rabs_R0, Rabs_pos_eq by lra; lra).
      intros E. inversion E. reflexivity. }
    rewrite <- Es in L. unfold to_stack in L. cbn [s_rdefs] in L. rewrite rev_length in L. unfold Imp.zlen. rewrite L. reflexivity.
  - exfalso. revert E. unfold to_stack, pstack_empty. cbn [ps_crs ps_defs rev stack_append_all stack_append gheight height g_area ex_area Z.eqb s_rdefs s_crs g_crs negb].
    destruct (concatenate_area_defs RO ex_area ex_area); discriminate.
Qed.
