#!/usr/bin/env python3
"""Run the property's check against each seeded change (worktree with the patch applied, via VERIF_REPO) and record the verdict.
usage: seed_run.py <pid> [tier]"""
import json, os, subprocess, sys, time
pid = sys.argv[1]
tier = sys.argv[2] if len(sys.argv) > 2 else "quick"
min_n = int(sys.argv[3]) if len(sys.argv) > 3 else 0
root = "/verif/seeded"
for d in sorted(os.listdir(root)):
    if not d.startswith(pid + "-"):
        continue
    n = d.split("-")[1]
    if int(n) < min_n:
        continue
    wt = "/tmp/seedwt_%s_%s" % (pid, n)
    # always a fresh worktree of the CURRENT /repo HEAD (fix commits may have landed since the seed was stored)
    subprocess.run(["git", "-C", "/repo", "worktree", "remove", "--force", wt], capture_output=True)
    subprocess.run(["/verif/tools/mk_worktree.sh", wt], check=True, capture_output=True)
    ap = subprocess.run(["git", "apply", os.path.join(root, d, "patch.diff")], cwd=wt, capture_output=True, text=True)
    if ap.returncode != 0:
        json.dump({"applies": False, "error": ap.stderr[-400:]}, open(os.path.join(root, d, "result_%s.json" % tier), "w"), indent=1)
        print(d, "PATCH DOES NOT APPLY to current HEAD")
        subprocess.run(["git", "-C", "/repo", "worktree", "remove", "--force", wt], capture_output=True)
        continue
    dm = subprocess.run(["/venv/bin/python", os.path.join(root, d, "demo.py")], cwd=wt, capture_output=True, text=True,
                        env=dict(os.environ, PYTHONPATH=wt, REPO_UNDER_TEST=wt), timeout=900)
    t0 = time.time()
    # private copy of the Coq tree + build/evidence dirs: Gen/ is regenerated for the patched tree without touching /verif/coq
    priv = "/tmp/seedrun_%s_%s" % (pid, n)
    subprocess.run(["rm", "-rf", priv]); os.makedirs(priv)
    subprocess.run(["cp", "-a", "/verif/coq", priv + "/coq"], check=True)
    p = subprocess.run(["./check", pid, "--tier", tier], cwd="/verif",
                       env=dict(os.environ, VERIF_REPO=wt, VERIF_COQ_DIR=priv + "/coq", VERIF_BUILD_DIR=priv + "/build",
                                VERIF_EVIDENCE_DIR=priv + "/evidence"), capture_output=True, text=True)
    subprocess.run(["rm", "-rf", priv])
    lines = [l for l in p.stdout.splitlines() if l.startswith(("VIOLATION", "KNOWN-FINDING", "OK"))]
    detail = [l.strip() for l in p.stderr.splitlines() if l.strip()][:6]
    res = {"check": "./check %s --tier %s (VERIF_REPO=worktree with patch applied)" % (pid, tier), "exit": p.returncode,
           "caught": p.returncode == 1 and any(l.startswith("VIOLATION") for l in lines),
           "no_failing_input_found": any("no-failing-input-found" in l for l in lines),
           "verdict_lines": lines, "detail": detail, "wall_s": round(time.time() - t0, 1),
           "repo_head": os.popen("git -C /repo rev-parse --short HEAD").read().strip(), "demo_rc_with_patch_on_head": dm.returncode}
    json.dump(res, open(os.path.join(root, d, "result_%s.json" % tier), "w"), indent=1)
    subprocess.run(["git", "-C", "/repo", "worktree", "remove", "--force", wt], capture_output=True)
    print(d, "CAUGHT" if res["caught"] else "MISSED", "demo_rc=%d" % dm.returncode, "(no-failing-input)" if res["no_failing_input_found"] else "", res["wall_s"], "s", detail[:1])
