#!/usr/bin/env python3
"""Run the property's check against each seeded change (worktree with the patch applied, via VERIF_REPO) and record the verdict.
usage: seed_run.py <pid> [tier]"""
import json, os, subprocess, sys, time
pid = sys.argv[1]
tier = sys.argv[2] if len(sys.argv) > 2 else "quick"
root = "/verif/seeded"
for d in sorted(os.listdir(root)):
    if not d.startswith(pid + "-"):
        continue
    n = d.split("-")[1]
    wt = "/tmp/seedwt_%s_%s" % (pid, n)
    if not os.path.isdir(wt):
        subprocess.run(["/verif/tools/mk_worktree.sh", wt], check=True, capture_output=True)
        subprocess.run(["git", "apply", os.path.join(root, d, "patch.diff")], cwd=wt, check=True)
    t0 = time.time()
    p = subprocess.run(["./check", pid, "--tier", tier], cwd="/verif", env=dict(os.environ, VERIF_REPO=wt), capture_output=True, text=True)
    lines = [l for l in p.stdout.splitlines() if l.startswith(("VIOLATION", "KNOWN-FINDING", "OK"))]
    detail = [l.strip() for l in p.stderr.splitlines() if l.strip()][:6]
    res = {"check": "./check %s --tier %s (VERIF_REPO=worktree with patch applied)" % (pid, tier), "exit": p.returncode,
           "caught": p.returncode == 1 and any(l.startswith("VIOLATION") for l in lines),
           "no_failing_input_found": any("no-failing-input-found" in l for l in lines),
           "verdict_lines": lines, "detail": detail, "wall_s": round(time.time() - t0, 1)}
    json.dump(res, open(os.path.join(root, d, "result_%s.json" % tier), "w"), indent=1)
    print(d, "CAUGHT" if res["caught"] else "MISSED", "(no-failing-input)" if res["no_failing_input_found"] else "", res["wall_s"], "s", detail[:1])
# restore Gen/.vo state for the real repo
subprocess.run(["./check", pid, "--tier", "quick"], cwd="/verif", capture_output=True, text=True)
