#!/bin/bash
# usage: seed_intake.sh <pid>  -- verify every /tmp/mut_<pid>_out/<n> in parallel, copy verified ones to /verif/seeded/<pid>-<n>/
pid="$1"
pre="${2:-mut}"; for d in /tmp/${pre}_${pid}_out/*/; do
  n=$(basename "$d")
  [ -f "$d/patch.diff" ] || continue
  ( r=$(/verif/tools/seed_verify.sh "$pid" "${d%/}"); echo "$r"; echo "$r" > /tmp/seed_${pid}_${n}_verify.json ) &
done
wait
