#!/usr/bin/env python3
"""Second front end of the translator: imperative Python (loops, generators, mutation of locals, recursion) -> Gallina
over the combinators of coq/Base/Imp.v.

Selected by `"frontend": "imp"` in a tools/gen_specs/Gen*.json module spec (tools/py2coq.py dispatches here).
Fail-closed like py2coq.py: anything outside the subset below raises Untranslatable, and the check that owns the module
reports `translator:<module>`.

Shape of the output, per function f with parameters p.. and spec-declared locals v..:

    Record f_st := { f_p : tp; ...; f_v : tv; ... }.          (* one field per parameter and per local *)
    Definition f_set_v (x : tv) (s : f_st) : f_st := ...        (* functional setters *)
    Definition f [fuel] p.. : res f_st Y R := BODY {| f_p := p; ...; f_v := <default> |}.

BODY is built from skip / andthen / assign / yield_ / ite / ret / raise_ / check / while_ / for_ / call_.
 * every local is read only after a definite assignment (checked here, flow-sensitively), so the defaults are never observed;
 * every partial expression (l[i], d[k], del d[k], x // y, x % y, None used as a value, numpy slice assignment, spec
   patterns with an "ok" clause) contributes a side condition that is `check`ed immediately before the statement that
   evaluates it (short-circuit operators guard the conditions of their right operand); where Python raises, the
   definition answers Raised;
 * `while` and recursion consume the explicit fuel (answer Fuel when it runs out, never a normal-looking value).

Types (JSON): "Z" "B" "S" (slice, int bounds, unit step) "OS" (slice with optional bounds) "N" (None); ["L", t] list/tuple
of t / 1-D array; ["T", t1, .., tn] fixed tuple; ["O", t] t or None; ["U", t1, t2] either; ["D", k, v] insertion-ordered
dict; a name declared under the module's "types" ({"coq", "eqb"?, "default"}); ["R", name] a record declared under
"records" ({"coq", "ctor", "fields": [[python attribute, coq projection, type], ..]}).
"""
import ast
import hashlib


class Untranslatable(Exception):
    pass


def _fail(node, msg):
    raise Untranslatable("line %s: %s" % (getattr(node, "lineno", "?"), msg))


def _tt(t):
    return tuple(_tt(x) for x in t) if isinstance(t, list) else t


class Mod:
    def __init__(self, mod):
        self.types = mod.get("types", {})
        self.records = {n: dict(r, fields=[(a, p, _tt(t)) for a, p, t in r["fields"]]) for n, r in mod.get("records", {}).items()}
        self.coercions = [(_tt(a), _tt(b), f) for a, b, f in mod.get("coercions", [])]
        self.list_ops = bool(mod.get("list_ops"))     # [C05] off by default
        self.option_eqb = mod.get("option_eqb")   # [C08] module option: coq function lifting an equality test to `option` (x == y on Optional values)
        self.translated = {}     # python call name -> (coq name, [param types], ret type, fuelled, generator)
        self.selfmeths = {}      # [C07] "self_method" callees: python method name -> dict(coq, params, rtype, fuelled, mutates, defaults)

    def coq(self, t):
        if t == 'Z':
            return 'Z'
        if t == 'B':
            return 'bool'
        if t == 'S':
            return 'pslice'
        if t == 'OS':
            return 'oslice'
        if t == 'N':
            return 'unit'
        if isinstance(t, str):
            if t in self.types:
                return self.types[t]["coq"]
            raise Untranslatable("unknown type %s" % t)
        k = t[0]
        if k == 'L':
            return "(list %s)" % self.coq(t[1])
        if k == 'T':
            return "(" + " * ".join(self.coq(x) for x in t[1:]) + ")"
        if k == 'O':
            return "(option %s)" % self.coq(t[1])
        if k == 'U':
            return "(%s + %s)" % (self.coq(t[1]), self.coq(t[2]))
        if k == 'D':
            return "(list (%s * %s))" % (self.coq(t[1]), self.coq(t[2]))
        if k == 'R':
            return self.records[t[1]]["coq"]
        raise Untranslatable("unknown type %s" % (t,))

    def default(self, t):
        if t == 'Z':
            return '0'
        if t == 'B':
            return 'false'
        if t == 'S':
            return '(mk_slice 0 0)'
        if t == 'OS':
            return '(mk_oslice None None)'
        if t == 'N':
            return 'tt'
        if isinstance(t, str):
            return self.types[t]["default"]
        k = t[0]
        if k in ('L', 'D'):
            return '[]'
        if k == 'T':
            return "(" + ", ".join(self.default(x) for x in t[1:]) + ")"
        if k == 'O':
            return 'None'
        if k == 'U':
            return "(inl %s)" % self.default(t[1])
        if k == 'R':
            r = self.records[t[1]]
            return "(%s %s)" % (r["ctor"], " ".join(self.default(ft) for _, _, ft in r["fields"]))
        raise Untranslatable("no default for %s" % (t,))

    def eqb(self, t, node=None):
        if t == 'Z':
            return 'Z.eqb'
        if t == 'B':
            return 'Bool.eqb'
        if isinstance(t, str) and t in self.types and self.types[t].get("eqb"):
            return self.types[t]["eqb"]
        if self.list_ops and isinstance(t, tuple) and t[0] == 'L':
            # [C05] module option "list_ops": == / != on tuples / lists is element-wise (Base.ListX.list_eqb)
            return "(list_eqb %s)" % self.eqb(t[1], node)
        if self.option_eqb and isinstance(t, tuple) and t[0] == 'O':      # [C08] off unless the module declares "option_eqb"
            return "(%s %s)" % (self.option_eqb, self.eqb(t[1], node))
        _fail(node, "no decidable equality declared for %s" % (t,))


def proj(n, k, txt):
    """component k of an n-tuple (Coq tuples nest to the left)."""
    if n == 1:
        return txt
    if k == n - 1:
        return "(snd %s)" % txt
    return proj(n - 1, k, "(fst %s)" % txt)


class Fn:
    def __init__(self, mod: Mod, spec, fdef):
        self.m = mod
        self.spec = spec
        self.fdef = fdef
        self.name = spec["coq_name"]
        self.params = [(p, _tt(t)) for p, t in spec["params"]]
        self.locals = {k: _tt(v) for k, v in spec.get("locals", {}).items()}
        self.vars = dict(self.params)
        for k, v in self.locals.items():
            if k in self.vars:
                raise Untranslatable("%s is both a parameter and a local" % k)
            self.vars[k] = v
        self.ytype = _tt(spec["yields"]) if spec.get("yields") else None
        self.rtype = _tt(spec["ret"]) if spec.get("ret") else None
        self.calls = spec.get("calls", {})
        self.patterns = []
        for p in spec.get("patterns", []):
            self.patterns.append((ast.dump(ast.parse(p["py"], mode="eval").body), p))
        self.uses_fuel = False
        self.hidden = 0
        if self.rtype is not None:
            self.vars["_ret"] = self.rtype     # hidden local for `return f(...)` of a translated function
        if spec.get("call_tmp"):               # [C10] hidden local for `obj.attr[i] = f(..)` of a translated function: declared type
            self.vars["_call"] = _tt(spec["call_tmp"])
        # sanity: python parameters (except those the spec adds) must be the function's own
        pyargs = [a.arg for a in fdef.args.args]
        if spec.get("ignore_self"):     # a method whose `self` is only used to reach other methods (spec "calls" / translated)
            if not pyargs or pyargs[0] != "self":
                _fail(fdef, "ignore_self on a function without self")
            pyargs = pyargs[1:]
        extra = spec.get("extra_params", [])
        declared = [p for p, _ in self.params if p not in extra]
        if declared != pyargs:
            _fail(fdef, "parameters %s differ from the spec's %s" % (pyargs, declared))
        # [C17] spec option "allow_defaults": default values are ignored, the definition takes every parameter explicitly
        # (callers in the model pass all of them).  Off by default.
        if fdef.args.vararg or fdef.args.kwarg or fdef.args.kwonlyargs or (fdef.args.defaults and not spec.get("allow_defaults")):
            _fail(fdef, "varargs / keyword-only / default arguments")

    # ------------------------------------------------------------------ state access
    def get(self, v):
        return "(%s_%s s)" % (self.name, v)

    def setter(self, v, val):
        return "(%s_set_%s %s s)" % (self.name, v, val)

    # ------------------------------------------------------------------ coercion to an expected type
    def coerce(self, node, tx, want):
        txt, t, conds = tx
        if want is None or t == want:
            return tx
        if isinstance(want, tuple) and want[0] == 'O':
            if t == 'N':
                return ("None", want, conds)
            inner = self.coerce(node, tx, want[1])
            return ("(Some %s)" % inner[0], want, inner[2])
        if isinstance(t, tuple) and t[0] == 'O':
            # None used where a value is needed: Python raises (TypeError / AttributeError)
            d = self.m.default(t[1])
            inner = ("(match %s with Some x_ => x_ | None => %s end)" % (txt, d), t[1],
                     conds + ["(match %s with Some _ => true | None => false end)" % txt])
            return self.coerce(node, inner, want)
        if isinstance(want, tuple) and want[0] == 'U':
            if t == want[1]:
                return ("(inl %s)" % txt, want, conds)
            if t == want[2]:
                return ("(inr %s)" % txt, want, conds)
        for a, b, f in self.m.coercions:
            if t == a and want == b:
                return ("(%s %s)" % (f, txt), want, conds)
        if isinstance(t, tuple) and isinstance(want, tuple) and t[0] == 'T' and want[0] == 'T' and len(t) == len(want):
            # component-wise (evaluated once: bound by let)
            n = len(t) - 1
            parts = [self.coerce(node, (proj(n, k, "p_"), t[1 + k], []), want[1 + k]) for k in range(n)]
            if any(p[2] for p in parts):
                _fail(node, "conditional coercion inside a tuple")
            return ("(let p_ := %s in (%s))" % (txt, ", ".join(p[0] for p in parts)), want, conds)
        _fail(node, "expression of type %s where %s is needed" % (t, want))

    # ------------------------------------------------------------------ expressions: (text over state s, type, side conditions)
    def ex(self, n, da, want=None):
        return self.coerce(n, self.ex0(n, da, want), want)

    def subst(self, template, da, node):
        out = template
        import re
        for v in re.findall(r"\{(\w+)\}", template):
            if v not in self.vars:
                _fail(node, "pattern names unknown variable %s" % v)
            if v not in da:
                _fail(node, "pattern reads %s before assignment" % v)
            out = out.replace("{%s}" % v, self.get(v))
        return out

    def callname(self, f):
        if isinstance(f, ast.Name):
            return f.id
        if isinstance(f, ast.Attribute):
            base = self.callname(f.value)
            return None if base is None else base + "." + f.attr
        return None

    def ex0(self, n, da, want):
        d = ast.dump(n)
        for pd, p in self.patterns:
            if pd == d:
                conds = [self.subst(p["ok"], da, n)] if p.get("ok") else []
                return (self.subst(p["coq"], da, n), _tt(p["type"]), conds)
        if isinstance(n, ast.Constant):
            if n.value is None:
                return ("tt", 'N', [])
            if isinstance(n.value, bool):
                return ("true" if n.value else "false", 'B', [])
            if isinstance(n.value, int):
                return ("(%d)" % n.value, 'Z', [])
            _fail(n, "constant %r" % (n.value,))
        if isinstance(n, ast.Name) and n.id in getattr(self, "bound", {}):      # [C11] comprehension variable
            return (self.bound[n.id][0], self.bound[n.id][1], [])
        if isinstance(n, ast.Name):
            if n.id not in self.vars:
                _fail(n, "unknown name %s" % n.id)
            if n.id not in da:
                _fail(n, "%s may be read before assignment" % n.id)
            return (self.get(n.id), self.vars[n.id], [])
        if isinstance(n, ast.Tuple) or isinstance(n, ast.List):
            if isinstance(want, tuple) and want[0] == 'O':
                want = want[1]
            if isinstance(want, tuple) and want[0] == 'U':
                alts = [w for w in want[1:] if isinstance(w, tuple) and w[0] == 'T' and len(w) - 1 == len(n.elts)]
                if len(alts) == 1:
                    want = alts[0]
            for a, b, f in self.m.coercions:     # a tuple literal used where a coercible type is expected
                if want == b and isinstance(a, tuple) and a[0] == 'T' and len(a) - 1 == len(n.elts):
                    want = a
            if isinstance(want, tuple) and want[0] == 'T' and len(want) - 1 == len(n.elts) and isinstance(n, ast.Tuple):
                parts = [self.ex(e, da, want[1 + i]) for i, e in enumerate(n.elts)]
                return ("(" + ", ".join(p[0] for p in parts) + ")", want, sum((p[2] for p in parts), []))
            if isinstance(want, tuple) and want[0] == 'L':
                parts = [self.ex(e, da, want[1]) for e in n.elts]
                return ("[" + "; ".join(p[0] for p in parts) + "]", want, sum((p[2] for p in parts), []))
            if want is None and n.elts:
                parts = [self.ex(e, da) for e in n.elts]
                if isinstance(n, ast.List):
                    if len({p[1] for p in parts}) != 1:
                        _fail(n, "heterogeneous list literal")
                    return ("[" + "; ".join(p[0] for p in parts) + "]", ('L', parts[0][1]), sum((p[2] for p in parts), []))
                return ("(" + ", ".join(p[0] for p in parts) + ")", ('T',) + tuple(p[1] for p in parts), sum((p[2] for p in parts), []))
            _fail(n, "tuple/list literal where %s is needed" % (want,))
        if isinstance(n, ast.UnaryOp):
            if isinstance(n.op, ast.Not) and self.spec.get("comprehensions"):
                # [C11] spec option "comprehensions": `not lst` on a list is "lst is empty"
                a0 = self.ex(n.operand, da)
                if isinstance(a0[1], tuple) and a0[1][0] == 'L':
                    return ("(zlen %s =? 0)" % a0[0], 'B', a0[2])
            if isinstance(n.op, ast.Not):
                a = self.ex(n.operand, da, 'B')
                return ("(negb %s)" % a[0], 'B', a[2])
            if isinstance(n.op, ast.USub):
                a = self.ex(n.operand, da, 'Z')
                return ("(- %s)" % a[0], 'Z', a[2])
            _fail(n, "unary operator")
        if isinstance(n, ast.BinOp):
            a = self.ex(n.left, da)
            if a[1] == 'Z':
                b = self.ex(n.right, da, 'Z')
                ops = {ast.Add: "+", ast.Sub: "-", ast.Mult: "*", ast.FloorDiv: "/", ast.Mod: "mod"}
                if type(n.op) not in ops:
                    _fail(n, "integer operator %s" % type(n.op).__name__)
                conds = a[2] + b[2]
                if isinstance(n.op, (ast.FloorDiv, ast.Mod)):
                    conds = conds + ["(negb (%s =? 0))" % b[0]]
                return ("(%s %s %s)" % (a[0], ops[type(n.op)], b[0]), 'Z', conds)
            if isinstance(a[1], tuple) and a[1][0] == 'L' and isinstance(n.op, ast.Add):
                b = self.ex(n.right, da, a[1])
                return ("(%s ++ %s)" % (a[0], b[0]), a[1], a[2] + b[2])
            _fail(n, "operator on %s" % (a[1],))
        if isinstance(n, ast.BoolOp):
            vals = [self.ex(v, da, 'B') for v in n.values]
            txt, conds = vals[0][0], list(vals[0][2])
            for v in vals[1:]:
                if isinstance(n.op, ast.And):
                    conds += ["(implb %s %s)" % (txt, c) for c in v[2]]
                    txt = "(%s && %s)" % (txt, v[0])
                else:
                    conds += ["(%s || %s)" % (txt, c) for c in v[2]]
                    txt = "(%s || %s)" % (txt, v[0])
            return (txt, 'B', conds)
        if isinstance(n, ast.IfExp):
            c = self.ex(n.test, da, 'B')
            a = self.ex(n.body, da, want)
            b = self.ex(n.orelse, da, a[1])
            conds = c[2] + ["(implb %s %s)" % (c[0], x) for x in a[2]] + ["(%s || %s)" % (c[0], x) for x in b[2]]
            return ("(if %s then %s else %s)" % (c[0], a[0], b[0]), a[1], conds)
        if isinstance(n, ast.Compare):
            operands = [n.left] + list(n.comparators)
            txts, conds = [], []
            first = None
            for l, op, r in zip(operands, n.ops, operands[1:]):
                if isinstance(op, (ast.Is, ast.IsNot)):
                    if not (isinstance(r, ast.Constant) and r.value is None):
                        _fail(n, "`is` with something other than None")
                    a = self.ex0(l, da, None)
                    if not (isinstance(a[1], tuple) and a[1][0] == 'O'):
                        _fail(n, "`is None` on a value of type %s" % (a[1],))
                    t = "(match %s with None => true | Some _ => false end)" % a[0]
                    txts.append(t if isinstance(op, ast.Is) else "(negb %s)" % t)
                    conds += a[2]
                    continue
                if self.m.list_ops and isinstance(op, (ast.In, ast.NotIn)):
                    # [C05] module option "list_ops": `x in seq` / `x not in seq` on a tuple / list of a type with equality
                    b = self.as_list(n, self.ex(r, da))
                    if b[1][0] != 'L':
                        _fail(n, "membership in %s" % (b[1],))
                    a = self.ex(l, da, b[1][1])
                    t = "(existsb (%s %s) %s)" % (self.m.eqb(b[1][1], n), a[0], b[0])
                    guard = " && ".join(txts) if txts else None
                    conds += [(c if guard is None else "(implb (%s) %s)" % (guard, c)) for c in (a[2] if first is None else []) + b[2]]
                    first = False
                    txts.append(t if isinstance(op, ast.In) else "(negb %s)" % t)
                    continue
                a = self.ex(l, da)
                if self.spec.get("optional_compare") and a[1] == ('O', 'Z') and isinstance(op, (ast.Lt, ast.LtE, ast.Gt, ast.GtE)):
                    # [C03] spec option "optional_compare": an ordering comparison on an Optional[int] uses the value; on None
                    # Python raises TypeError (side condition)
                    a = self.coerce(l, a, 'Z')
                b = self.ex(r, da, a[1])
                if a[1] == 'Z':
                    sym = {ast.Lt: "<?", ast.LtE: "<=?", ast.Gt: ">?", ast.GtE: ">=?", ast.Eq: "=?"}
                    if isinstance(op, ast.NotEq):
                        t = "(negb (%s =? %s))" % (a[0], b[0])
                    elif type(op) in sym:
                        t = "(%s %s %s)" % (a[0], sym[type(op)], b[0])
                    else:
                        _fail(n, "comparison %s" % type(op).__name__)
                elif isinstance(op, (ast.Eq, ast.NotEq)):
                    t = "(%s %s %s)" % (self.m.eqb(a[1], n), a[0], b[0])
                    if isinstance(op, ast.NotEq):
                        t = "(negb %s)" % t
                else:
                    _fail(n, "comparison on %s" % (a[1],))
                # Python evaluates a chained comparison left to right and stops at the first false link
                guard = " && ".join(txts) if txts else None
                conds += [(c if guard is None else "(implb (%s) %s)" % (guard, c)) for c in (a[2] if first is None else []) + b[2]]
                first = False
                txts.append(t)
            return (txts[0] if len(txts) == 1 else "(" + " && ".join(txts) + ")", 'B', conds)
        if isinstance(n, ast.Attribute):
            # record field / .shape handled at the subscript; dict views at the call
            base = self.ex(n.value, da)
            bt = base[1]
            if isinstance(bt, tuple) and bt[0] == 'O' and isinstance(bt[1], tuple) and bt[1][0] == 'R':
                base = self.coerce(n, base, bt[1])
                bt = base[1]
            if isinstance(bt, tuple) and bt[0] == 'R':
                for a, p, t in self.m.records[bt[1]]["fields"]:
                    if a == n.attr:
                        return ("(%s %s)" % (p, base[0]), t, base[2])
            if bt == 'S' and n.attr in ("start", "stop"):      # [C11] bounds of an int-bounded slice (previously rejected)
                return ("(s%s %s)" % (n.attr, base[0]), 'Z', base[2])
            _fail(n, "attribute .%s of %s" % (n.attr, bt))
        if isinstance(n, ast.Subscript):
            return self.subscript(n, da, want)
        if isinstance(n, ast.Call):
            return self.call(n, da, want)
        _fail(n, "expression %s" % type(n).__name__)

    def as_list(self, node, tx):
        """a list-typed view of tx (None -> raises)."""
        t = tx[1]
        if isinstance(t, tuple) and t[0] == 'O':
            tx = self.coerce(node, tx, t[1])
            t = tx[1]
        if not (isinstance(t, tuple) and t[0] in ('L', 'D')):
            _fail(node, "sequence operation on %s" % (t,))
        return tx

    def subscript(self, n, da, want):
        v, sl = n.value, n.slice
        # X.shape[0]
        if isinstance(v, ast.Attribute) and v.attr == "shape" and isinstance(sl, ast.Constant) and sl.value == 0:
            a = self.as_list(n, self.ex(v.value, da))
            return ("(zlen %s)" % a[0], 'Z', a[2])
        a = self.ex(v, da)
        if isinstance(a[1], tuple) and a[1][0] == 'O':
            a = self.coerce(n, a, a[1][1])
        t = a[1]
        if isinstance(sl, ast.Slice):
            if sl.step is not None:
                _fail(n, "slice step")
            if not (isinstance(t, tuple) and t[0] == 'L'):
                _fail(n, "slicing a %s" % (t,))
            lo = self.ex(sl.lower, da, 'Z') if sl.lower is not None else None
            hi = self.ex(sl.upper, da, 'Z') if sl.upper is not None else None
            o = "(mk_oslice %s %s)" % ("(Some %s)" % lo[0] if lo else "None", "(Some %s)" % hi[0] if hi else "None")
            conds = a[2] + (lo[2] if lo else []) + (hi[2] if hi else [])
            return ("(let l_ := %s in take_slice (indices %s (zlen l_)) l_)" % (a[0], o), t, conds)
        if isinstance(t, tuple) and t[0] == 'L':
            i = self.ex(sl, da, 'Z')
            return ("(idx %s %s %s)" % (self.m.default(t[1]), a[0], i[0]), t[1], a[2] + i[2] + ["(idx_ok %s %s)" % (a[0], i[0])])
        if isinstance(t, tuple) and t[0] == 'T':
            nn = len(t) - 1
            if isinstance(sl, ast.Constant) and isinstance(sl.value, int) and not isinstance(sl.value, bool):
                k = sl.value if sl.value >= 0 else sl.value + nn
                if not 0 <= k < nn:
                    _fail(n, "tuple index out of range")
                return (proj(nn, k, a[0]), t[1 + k], a[2])
            if nn == 2 and t[1] == t[2]:
                i = self.ex(sl, da, 'Z')
                return ("(let i_ := %s in if (i_ =? 0) || (i_ =? -2) then fst %s else snd %s)" % (i[0], a[0], a[0]), t[1],
                        a[2] + i[2] + ["((-2 <=? %s) && (%s <? 2))" % (i[0], i[0])])
            _fail(n, "variable index into a heterogeneous tuple")
        if isinstance(t, tuple) and t[0] == 'D':
            k = self.ex(sl, da, t[1])
            e = self.m.eqb(t[1], n)
            return ("(match find (fun e_ => %s (fst e_) %s) %s with Some e_ => snd e_ | None => %s end)"
                    % (e, k[0], a[0], self.m.default(t[2])), t[2], a[2] + k[2] + ["(d_has %s %s %s)" % (e, a[0], k[0])])
        _fail(n, "subscript on %s" % (t,))

    def call(self, n, da, want):
        name = self.callname(n.func)
        if n.keywords:
            _fail(n, "keyword arguments in a call")
        args = n.args
        if name in self.m.translated or (name and name.startswith("self.") and name[5:] in self.m.translated):
            _fail(n, "call of the translated function %s inside an expression (only `v = f(..)` / `return f(..)`)" % name)
        if name in self.calls:
            c = self.calls[name]
            if len(args) != len(c["args"]):
                _fail(n, "arity of %s" % name)
            parts = [self.ex(a, da, _tt(t)) for a, t in zip(args, c["args"])]
            conds = sum((p[2] for p in parts), [])
            txt = "(%s %s)" % (c["coq"], " ".join(p[0] for p in parts)) if parts else c["coq"]
            return (txt, _tt(c["ret"]), conds)
        if isinstance(n.func, ast.Attribute) and ("." + n.func.attr) in self.calls:
            c = self.calls["." + n.func.attr]       # method of an abstract object: receiver is the first argument
            if len(args) + 1 != len(c["args"]):
                _fail(n, "arity of .%s" % n.func.attr)
            parts = [self.ex(a, da, _tt(t)) for a, t in zip([n.func.value] + list(args), c["args"])]
            return ("(%s %s)" % (c["coq"], " ".join(p[0] for p in parts)), _tt(c["ret"]), sum((p[2] for p in parts), []))
        if name == "len" and len(args) == 1:
            a = self.as_list(n, self.ex(args[0], da))
            return ("(zlen %s)" % a[0], 'Z', a[2])
        if self.spec.get("comprehensions") and name in ("min", "max") and len(args) == 1 and isinstance(args[0], ast.GeneratorExp) \
                and len(args[0].generators) == 1 and not args[0].generators[0].ifs and not args[0].generators[0].is_async \
                and isinstance(args[0].generators[0].target, ast.Name):
            # [C11] spec option "comprehensions": min / max of `E for v in L` is the fold over (map (fun v => E) L); Python
            # raises on an empty sequence.  v is bound inside E only (it shadows nothing: it must not be a declared local)
            g = args[0].generators[0]
            v = g.target.id
            if v in self.vars or v in getattr(self, "bound", {}):
                _fail(n, "comprehension variable %s shadows a local" % v)
            lst = self.as_list(n, self.ex(g.iter, da))
            if lst[1][0] != 'L':
                _fail(n, "comprehension over %s" % (lst[1],))
            self.bound = dict(getattr(self, "bound", {}))
            self.bound[v] = ("%s_" % v, lst[1][1])
            try:
                e = self.ex(args[0].elt, da, 'Z')
            finally:
                del self.bound[v]
            if e[2]:
                _fail(n, "partial expression inside a comprehension")
            return ("(l%s (map (fun %s_ => %s) %s))" % (name, v, e[0], lst[0]), 'Z', lst[2] + ["(negb (zlen %s =? 0))" % lst[0]])
        if self.m.list_ops and name in ("tuple", "list") and len(args) == 1 and isinstance(args[0], ast.GeneratorExp) \
                and len(args[0].generators) == 1 and not args[0].generators[0].is_async \
                and isinstance(args[0].generators[0].target, ast.Name):
            # [C05] module option "list_ops": tuple(E for v in L if C ...) = map (fun v => E) (filter (fun v => C && ...) L);
            # v is bound inside E and C only; E and C must be total (no side conditions)
            g = args[0].generators[0]
            v = g.target.id
            if v in self.vars or v in getattr(self, "bound", {}):
                _fail(n, "comprehension variable %s shadows a local" % v)
            lst = self.as_list(n, self.ex(g.iter, da))
            if lst[1][0] != 'L':
                _fail(n, "comprehension over %s" % (lst[1],))
            self.bound = dict(getattr(self, "bound", {}))
            self.bound[v] = ("%s_" % v, lst[1][1])
            try:
                e = self.ex(args[0].elt, da)
                cs = [self.ex(c, da, 'B') for c in g.ifs]
            finally:
                del self.bound[v]
            if e[2] or any(c[2] for c in cs):
                _fail(n, "partial expression inside a comprehension")
            src = lst[0] if not cs else "(filter (fun %s_ => %s) %s)" % (v, " && ".join(c[0] for c in cs), lst[0])
            txt = src if e[0] == "%s_" % v else "(map (fun %s_ => %s) %s)" % (v, e[0], src)
            return (txt, ('L', e[1]), lst[2])
        if self.spec.get("comprehensions") and name == "sum" and len(args) == 1 and isinstance(args[0], ast.GeneratorExp) \
                and len(args[0].generators) == 1 and not args[0].generators[0].ifs and not args[0].generators[0].is_async \
                and isinstance(args[0].generators[0].target, ast.Name):
            # [C10] sum of `E for v in L` (integers): zsum (map (fun v => E) L); 0 on an empty sequence, as in Python
            g = args[0].generators[0]
            v = g.target.id
            if v in self.vars or v in getattr(self, "bound", {}):
                _fail(n, "comprehension variable %s shadows a local" % v)
            lst = self.as_list(n, self.ex(g.iter, da))
            if lst[1][0] != 'L':
                _fail(n, "comprehension over %s" % (lst[1],))
            self.bound = dict(getattr(self, "bound", {}))
            self.bound[v] = ("%s_" % v, lst[1][1])
            try:
                e = self.ex(args[0].elt, da, 'Z')
            finally:
                del self.bound[v]
            if e[2]:
                _fail(n, "partial expression inside a comprehension")
            return ("(zsum (map (fun %s_ => %s) %s))" % (v, e[0], lst[0]), 'Z', lst[2])
        if self.spec.get("comprehensions") and name == "zip" and len(args) == 1 and isinstance(args[0], ast.Starred):
            # [C11] zip(*pairs) on a list of 2-tuples, unpacked into two names: the two component sequences (Python raises on
            # the unpacking when the list is empty)
            a = self.as_list(n, self.ex(args[0].value, da))
            t = a[1][1] if a[1][0] == 'L' else None
            if not (isinstance(t, tuple) and t[0] == 'T' and len(t) == 3):
                _fail(n, "zip(*x) on %s" % (a[1],))
            return ("(map fst %s, map snd %s)" % (a[0], a[0]), ('T', ('L', t[1]), ('L', t[2])), a[2] + ["(negb (zlen %s =? 0))" % a[0]])
        if name in ("min", "max") and len(args) == 2:
            a, b = self.ex(args[0], da, 'Z'), self.ex(args[1], da, 'Z')
            return ("(Z.%s %s %s)" % (name, a[0], b[0]), 'Z', a[2] + b[2])
        if name == "sum" and len(args) == 1:
            a = self.ex(args[0], da, ('L', 'Z'))
            return ("(zsum %s)" % a[0], 'Z', a[2])
        if name == "slice" and len(args) == 2:
            a, b = self.ex(args[0], da, 'Z'), self.ex(args[1], da, 'Z')
            return ("(mk_slice %s %s)" % (a[0], b[0]), 'S', a[2] + b[2])
        if name == "slice" and len(args) == 1 and isinstance(args[0], ast.Constant) and args[0].value is None:
            return ("(mk_oslice None None)", 'OS', [])
        if name == "range" and len(args) == 1:
            a = self.ex(args[0], da, 'Z')
            return ("(zrange %s)" % a[0], ('L', 'Z'), a[2])
        if name in ("tuple", "list") and len(args) == 1:
            a = self.as_list(n, self.ex(args[0], da))
            if a[1][0] != 'L':
                _fail(n, "%s() of %s" % (name, a[1]))
            return a
        if self.spec.get("enumerate") and name == "enumerate" and len(args) == 1:
            # [C08] enumerate(seq) evaluated once: the list of (index, element)
            a = self.as_list(n, self.ex(args[0], da))
            return ("(List.combine (zrange (zlen %s)) %s)" % (a[0], a[0]), ('L', ('T', 'Z', a[1][1])), a[2])
        if name == "zip" and len(args) == 2:
            a, b = self.as_list(n, self.ex(args[0], da)), self.as_list(n, self.ex(args[1], da))
            return ("(combine %s %s)" % (a[0], b[0]), ('L', ('T', a[1][1], b[1][1])), a[2] + b[2])
        if name == "itertools.combinations" and len(args) == 2 and isinstance(args[1], ast.Constant) and args[1].value == 2:
            a = self.as_list(n, self.ex(args[0], da))
            return ("(combs2 %s)" % a[0], ('L', ('T', a[1][1], a[1][1])), a[2])
        if isinstance(n.func, ast.Attribute) and not args and n.func.attr in ("keys", "values", "items", "copy"):
            a = self.ex(n.func.value, da)
            if isinstance(a[1], tuple) and a[1][0] == 'D':
                if n.func.attr == "keys":
                    return ("(map fst %s)" % a[0], ('L', a[1][1]), a[2])
                if n.func.attr == "values":
                    return ("(map snd %s)" % a[0], ('L', a[1][2]), a[2])
                if n.func.attr == "items":
                    return (a[0], ('L', ('T', a[1][1], a[1][2])), a[2])
                return a      # copy(): values are immutable here
        _fail(n, "call of %s" % (name or ast.dump(n.func)[:60]))

    # ------------------------------------------------------------------ statements
    def guarded(self, conds, stmt):
        if not conds:
            return stmt
        return "(andthen (check (fun s => %s)) %s)" % (" && ".join(conds), stmt)

    def seq(self, parts):
        parts = [p for p in parts if p != "skip"]
        if not parts:
            return "skip"
        out = parts[-1]
        for p in reversed(parts[:-1]):
            out = "(andthen %s\n %s)" % (p, out)
        return out

    def assign_to(self, target, tx, da, node):
        """statement text that stores tx (already coerced unless target typed) and the new definitely-assigned set."""
        if isinstance(target, ast.Name):
            if target.id not in self.vars:
                _fail(node, "assignment to undeclared local %s" % target.id)
            return "(assign (fun s => %s))" % self.setter(target.id, tx[0]), da | {target.id}
        _fail(node, "assignment target %s" % type(target).__name__)

    def target_type(self, target, node):
        if isinstance(target, ast.Name):
            if target.id not in self.vars:
                _fail(node, "undeclared local %s" % target.id)
            return self.vars[target.id]
        if isinstance(target, ast.Tuple):
            return ('T',) + tuple(self.target_type(e, node) for e in target.elts)
        _fail(node, "target %s" % type(target).__name__)

    def bind_fun(self, target, node):
        """(fun x_ s => s with target := x_) for loop / call results; returns (coq fun text, names bound)."""
        if isinstance(target, ast.Name):
            return "(fun x_ s => %s)" % self.setter(target.id, "x_"), {target.id}
        if isinstance(target, ast.Tuple) and all(isinstance(e, ast.Name) for e in target.elts):
            n = len(target.elts)
            body = "s"
            for k, e in enumerate(target.elts):
                body = "(%s_set_%s %s %s)" % (self.name, e.id, proj(n, k, "x_"), body)
            return "(fun x_ s => %s)" % body, {e.id for e in target.elts}
        if isinstance(target, ast.Tuple):
            # [C11] nested tuple targets `for a, (b, c) in ...` (previously rejected): component projections, innermost names
            def walk(t, path):
                if isinstance(t, ast.Name):
                    return [(t.id, path)]
                if isinstance(t, ast.Tuple):
                    n_ = len(t.elts)
                    return sum((walk(e, proj(n_, k, path)) for k, e in enumerate(t.elts)), [])
                _fail(node, "destructuring target %s" % type(t).__name__)
            pairs = walk(target, "x_")
            if len({v for v, _ in pairs}) != len(pairs):
                _fail(node, "a name bound twice in one target")
            body = "s"
            for v, path in pairs:
                if v not in self.vars:
                    _fail(node, "undeclared local %s" % v)
                body = "(%s_set_%s %s %s)" % (self.name, v, path, body)
            return "(fun x_ s => %s)" % body, {v for v, _ in pairs}
        _fail(node, "nested destructuring")

    def translated_call(self, call, da, node):
        """(text of `fun s => cres V`, V type) for a call of a translated function, or None."""
        if not isinstance(call, ast.Call):
            return None
        name = self.callname(call.func)
        self.call_stateful = False
        if self.spec.get("self_calls") and name and name.startswith("self.") and name[5:] in self.m.selfmeths \
                and name[5:] != self.fdef.name:
            # [C07] spec option "self_calls": `v = self.m(a, k=b)` of a method translated earlier WITH its self record
            # ("self_method": true on the callee).  The caller's self is passed; omitted arguments take the callee's declared
            # "defaults" (checked against the source when the callee was translated); if the callee mutates self, the caller's
            # self becomes the callee's final self (the value bound is the pair (result, final self)).  Off by default.
            info = self.m.selfmeths[name[5:]]
            if "self" not in dict(self.params) or "self" not in da:
                _fail(node, "self_calls without a self record")
            given = {}
            if len(call.args) > len(info["params"]):
                _fail(node, "arity of %s" % name)
            for (pn, _), a in zip(info["params"], call.args):
                given[pn] = a
            for k in call.keywords:
                if k.arg is None or k.arg in given or k.arg not in dict(info["params"]):
                    _fail(node, "keyword %s in call of %s" % (k.arg, name))
                given[k.arg] = k.value
            texts, conds = [], []
            self.moved = set()
            for pn, pt in info["params"]:
                if pn in given:
                    if pn in info.get("consumes", []):
                        # [C14] callee spec option "consumes": [parameters it updates in place]: the argument must be a bare
                        # local, and the caller may not read it again (it leaves the definitely-assigned set after the call),
                        # so the update is invisible to the caller except through what the callee returns.  Off by default.
                        if not (isinstance(given[pn], ast.Name) and given[pn].id in self.locals):
                            _fail(node, "argument %s of %s is consumed by the callee: pass a local" % (pn, name))
                        self.moved.add(given[pn].id)
                    tx = self.ex(given[pn], da, pt)
                    texts.append(tx[0])
                    conds += tx[2]
                elif pn in info["defaults"]:
                    texts.append(info["defaults"][pn])
                else:
                    _fail(node, "argument %s of %s is missing and has no declared default" % (pn, name))
            if info["fuelled"]:
                self.uses_fuel = True
            app = "(%s %s%s %s)" % (info["coq"], "fuel " if info["fuelled"] else "", self.get("self"), " ".join(texts))
            if info["mutates"]:
                self.call_stateful = True
                txt = "(fun s => match %s with Ret _ s_ v_ => COk (v_, %s_self s_) | Fuel => CFuel | _ => CRaised end)" % (app, info["coq"])
            else:
                txt = "(fun s => value_of %s)" % app
            return txt, info["rtype"], conds
        if name and name.startswith("self."):
            name = name[5:]
        if name == self.fdef.name:
            cname, ptypes, rt, fuelled = self.name, [t for p, t in self.params if p != "self"], self.rtype, True
            self.recursive = True
        elif name in self.m.translated:
            cname, ptypes, rt, fuelled, gen = self.m.translated[name]
            if gen:
                _fail(node, "call of a generator")
        else:
            return None
        if call.keywords or len(call.args) != len(ptypes):
            _fail(node, "arity of %s" % name)
        parts = [self.ex(a, da, t) for a, t in zip(call.args, ptypes)]
        conds = sum((p[2] for p in parts), [])
        if fuelled:
            self.uses_fuel = True
        txt = "(fun s => value_of (%s %s%s))" % (cname, "fuel " if fuelled else "", " ".join(p[0] for p in parts))
        return txt, rt, conds

    def block(self, stmts, da):
        """-> (text : M, definitely-assigned set after, or None if the block never falls through)."""
        parts = []
        for i, s in enumerate(stmts):
            if da is None:
                _fail(s, "unreachable statement")
            txt, da = self.stmt(s, da)
            parts.append(txt)
        return self.seq(parts), da

    def stmt(self, s, da):
        if isinstance(s, ast.Expr) and isinstance(s.value, ast.Constant) and isinstance(s.value.value, str):
            return "skip", da
        if isinstance(s, ast.Pass):
            return "skip", da
        if isinstance(s, ast.Expr) and isinstance(s.value, ast.Yield):
            if self.ytype is None or s.value.value is None:
                _fail(s, "yield in a function without a declared yield type")
            tx = self.ex(s.value.value, da, self.ytype)
            return self.guarded(tx[2], "(yield_ (fun s => %s))" % tx[0]), da
        if isinstance(s, ast.Expr) and isinstance(s.value, ast.Call) and isinstance(s.value.func, ast.Attribute) \
                and s.value.func.attr == "append" and isinstance(s.value.func.value, ast.Name) and len(s.value.args) == 1:
            v = s.value.func.value.id
            t = self.vars.get(v)
            if not (isinstance(t, tuple) and t[0] == 'L') or v not in da:
                _fail(s, ".append on %s" % v)
            if v in [p for p, _ in self.params]:
                # [C02] spec option "fresh_params": [names]: `.append` on a parameter is accepted when the function has, on an
                # earlier line, the statement `<name> = list(<name>)` (the name then denotes a fresh list, the caller's is
                # untouched).  Off by default.
                fresh = v in self.spec.get("fresh_params", []) and any(
                    isinstance(a, ast.Assign) and ast.unparse(a) == "%s = list(%s)" % (v, v) and a.lineno < s.lineno
                    for a in ast.walk(self.fdef))
                if not fresh:
                    _fail(s, ".append on a parameter (the caller's list would change)")
            tx = self.ex(s.value.args[0], da, t[1])
            return self.guarded(tx[2], "(assign (fun s => %s))" % self.setter(v, "(%s ++ [%s])" % (self.get(v), tx[0]))), da
        if self.spec.get("stmt_patterns") and ast.unparse(s) in self.spec["stmt_patterns"]:
            # [C14] spec option "stmt_patterns": {"<exact ast.unparse text of a statement>": {"assign": local, "coq": "<new value,
            # {var} = current value of a variable>", "ok": "<bool>"?}}: a trusted reading of ONE statement as an assignment to one
            # local (a numpy boolean-mask store on a local array, a `with suppress(..)` block that only rebinds one name).  Any
            # edit of the statement changes its text: the translation then fails closed.  Off by default.
            sp = self.spec["stmt_patterns"][ast.unparse(s)]
            v = sp["assign"]
            if v not in self.locals:
                _fail(s, "stmt_patterns assigns %s, which is not a local" % v)
            conds = [self.subst(sp["ok"], da, s)] if sp.get("ok") else []
            return self.guarded(conds, "(assign (fun s => %s))" % self.setter(v, self.subst(sp["coq"], da, s))), da | {v}
        if isinstance(s, ast.With) and self.spec.get("transparent_with") and len(s.items) == 1 and s.items[0].optional_vars is None \
                and ast.unparse(s.items[0].context_expr) in self.spec["transparent_with"]:
            # [C14] spec option "transparent_with": [exact text of context expressions] that neither bind a name nor change
            # control flow or the translated state (a warnings filter): the body is translated in place.  Off by default.
            return self.block(s.body, da)
        if self.spec.get("skip_statements") and ast.unparse(s) in self.spec["skip_statements"]:
            # [C01] spec option "skip_statements": [exact ast.unparse text]: statements that only set up opaque helper objects
            # (a pyproj Transformer, its keyword dict) read by nothing but spec patterns; they have no effect on the translated
            # state and are skipped WITHOUT being evaluated; the names they bind stay unassigned for the definite-assignment
            # check (the spec's note must name them).  Off by default.
            return "skip", da
        if isinstance(s, ast.Expr) and isinstance(s.value, ast.Call) and self.callname(s.value.func) in self.spec.get("skip_calls", []):
            # [C03] spec option "skip_calls": an expression statement calling one of these (warnings.warn, logger.debug) has no
            # effect on the translated state and is skipped WITHOUT evaluating its arguments (the spec's note must say so)
            return "skip", da
        if isinstance(s, ast.Expr) and isinstance(s.value, ast.Call) and isinstance(s.value.func, ast.Attribute) \
                and isinstance(s.value.func.value, ast.Name) and not s.value.keywords \
                and s.value.func.attr in self.spec.get("method_updates", {}) and (s.value.func.value.id in self.locals or (
                    self.spec.get("method_updates_on_params") and s.value.func.value.id in dict(self.params))):
            # [C12] spec option "method_updates_on_params": the updated object may be a PARAMETER (a hashlib object handed in and
            # handed back: the caller sees the update, which is the documented protocol of update_hash); off by default
            # [C03] spec option "method_updates": {"<method>": {"coq": "<new value of the object; {self}, {0}, {1}..>", "ok": "<bool>",
            # "args": [types]}}: the statement `v.method(a..)` on a LOCAL v updates v in place (a mutating method translated
            # elsewhere); where "ok" fails the method raises
            mu = self.spec["method_updates"][s.value.func.attr]
            v = s.value.func.value.id
            if v not in da:
                _fail(s, "%s may be used before assignment" % v)
            if len(mu["args"]) != len(s.value.args):
                _fail(s, "arity of .%s" % s.value.func.attr)
            parts = [self.ex(a, da, _tt(t)) for a, t in zip(s.value.args, mu["args"])]
            conds = sum((p_[2] for p_ in parts), [])

            def fill(txt):
                txt = txt.replace("{self}", self.get(v))
                for i_, p_ in enumerate(parts):
                    txt = txt.replace("{%d}" % i_, p_[0])
                return txt
            return self.guarded(conds + [fill(mu["ok"])], "(assign (fun s => %s))" % self.setter(v, fill(mu["coq"]))), da
        if isinstance(s, ast.FunctionDef) and s.name in self.spec.get("skip_defs", []) and s.name not in self.vars:
            # [C17] spec option "skip_defs": a nested helper that is only reachable through a spec pattern (e.g. the key
            # function of a `sorted(.., key=helper)` pattern); its name is not a variable, so any other use fails closed.
            return "skip", da
        if isinstance(s, ast.Expr) and isinstance(s.value, ast.Call) and isinstance(s.value.func, ast.Attribute) \
                and s.value.func.attr == "append" and isinstance(s.value.func.value, ast.Attribute) \
                and isinstance(s.value.func.value.value, ast.Name) and len(s.value.args) == 1 and not s.value.keywords \
                and s.value.func.value.value.id in self.spec.get("mutates", []):
            # [C10] `obj.attr.append(x)` on a record parameter declared under "mutates": the field becomes field ++ [x]
            cur = self.ex(s.value.func.value, da)
            if not (isinstance(cur[1], tuple) and cur[1][0] == 'L'):
                _fail(s, ".append on a field of type %s" % (cur[1],))
            tx = self.ex(s.value.args[0], da, cur[1][1])
            return self.store(s, s.value.func.value, ("(%s ++ [%s])" % (cur[0], tx[0]), cur[1], cur[2] + tx[2]), da)
        if isinstance(s, ast.Try) and self.spec.get("try_except"):
            # [C10] spec option "try_except": `try: <ONE statement> except (E, ..): HANDLER` (no else/finally, one handler).  The
            # model has a single `Raised` outcome, so the handler runs whenever the statement raises; the spec's note must
            # argue that the statement can only raise the listed exceptions.  A single statement stores only after its
            # expressions were evaluated, so the handler starts from the state at the `try`.
            if s.orelse or s.finalbody or len(s.handlers) != 1 or len(s.body) != 1 or s.handlers[0].name is not None:
                _fail(s, "try statement outside the try_except subset")
            simple = (ast.Assign, ast.AugAssign, ast.Expr)
            ok_body = isinstance(s.body[0], simple)
            if not ok_body and self.spec.get("try_single_any"):
                # [C12] spec option "try_single_any": the one statement of the try body may also be a `return <expr>` or an `if`
                # whose branches are each ONE simple statement: such a statement still stores (or returns) only after all of its
                # expressions were evaluated, so the handler starts from the state at the `try`.  Off by default.
                b0 = s.body[0]
                ok_body = isinstance(b0, ast.Return) or (
                    isinstance(b0, ast.If) and len(b0.body) == 1 and isinstance(b0.body[0], simple)
                    and (not b0.orelse or (len(b0.orelse) == 1 and isinstance(b0.orelse[0], simple))))
            if not ok_body:
                _fail(s, "try body is not a single simple statement")
            a, da_a = self.block(s.body, set(da))
            b, da_b = self.block(s.handlers[0].body, set(da))
            out = da_b if da_a is None else da_a if da_b is None else (da_a & da_b)
            return "(try_ %s\n %s)" % (a, b), out
        if isinstance(s, ast.Raise):
            return "raise_", None
        if isinstance(s, ast.Return):
            if s.value is None or (isinstance(s.value, ast.Constant) and s.value.value is None and self.rtype is None):
                if self.rtype is not None and not (isinstance(self.rtype, tuple) and self.rtype[0] == 'O'):
                    _fail(s, "bare return in a function with a return type")
                return ("(ret (fun s => %s))" % ("None" if self.rtype is not None else "tt")), None
            if self.rtype is None:
                _fail(s, "return with a value in a function without a declared return type")
            tc = self.translated_call(s.value, da, s)
            if tc is not None:
                txt, rt, conds = tc
                if rt != self.rtype:
                    _fail(s, "returned call has type %s, not %s" % (rt, self.rtype))
                if getattr(self, "call_stateful", False):      # [C07] self_calls: the callee's final self comes back with the value
                    st = "(andthen (call_ %s (fun x_ s => %s_set__ret (fst x_) (%s_set_self (snd x_) s))) (ret (fun s => %s)))" % (
                        txt, self.name, self.name, self.get("_ret"))
                    return self.guarded(conds, st), None
                st = "(andthen (call_ %s (fun x_ s => %s)) (ret (fun s => %s)))" % (txt, self.setter("_ret", "x_"), self.get("_ret"))
                return self.guarded(conds, st), None
            tx = self.ex(s.value, da, self.rtype)
            return self.guarded(tx[2], "(ret (fun s => %s))" % tx[0]), None
        if isinstance(s, ast.Assign) and len(s.targets) == 1 and ast.unparse(s.targets[0]) in self.spec.get("skip_stores", []):
            # [C07] spec option "skip_stores": an assignment to one of these targets (LOG.disabled) has no effect on the translated
            # state and is skipped WITHOUT evaluating its right-hand side (the spec's note must say so)
            return "skip", da
        if isinstance(s, ast.Assign):
            if len(s.targets) != 1:
                _fail(s, "chained assignment")
            t0 = s.targets[0]
            tc = self.translated_call(s.value, da, s)
            if tc is not None:
                txt, rt, conds = tc
                if isinstance(t0, ast.Subscript) and "_call" in self.vars:
                    # [C10] `obj.attr[i] = f(..)`: the result goes through the hidden local _call, then an ordinary item store
                    if self.vars["_call"] != rt:
                        _fail(s, "call result of type %s, call_tmp declares %s" % (rt, self.vars["_call"]))
                    first = self.guarded(conds, "(call_ %s (fun x_ s => %s))" % (txt, self.setter("_call", "x_")))
                    fake = ast.copy_location(ast.Assign(targets=[t0], value=ast.Name(id="_call", ctx=ast.Load())), s)
                    ast.fix_missing_locations(fake)
                    second, da2 = self.store_subscript(fake, t0, da | {"_call"})
                    return "(andthen %s\n %s)" % (first, second), (da2 - {"_call"}) | da
                if self.target_type(t0, s) != rt:
                    _fail(s, "call result of type %s stored in %s" % (rt, self.target_type(t0, s)))
                bf, names = self.bind_fun(t0, s)
                if getattr(self, "call_stateful", False):      # [C07] self_calls: bind the value, then take over the callee's final self
                    bf = "(fun x_ s => %s (fst x_) (%s_set_self (snd x_) s))" % (bf, self.name)
                moved = getattr(self, "moved", set())          # [C14] locals given away to a "consumes" parameter
                self.moved = set()
                return self.guarded(conds, "(call_ %s %s)" % (txt, bf)), ((da - moved) | names)
            if isinstance(t0, ast.Name):
                if t0.id not in self.vars:
                    _fail(s, "assignment to undeclared local %s" % t0.id)
                tx = self.ex(s.value, da, self.vars[t0.id])
                return self.guarded(tx[2], "(assign (fun s => %s))" % self.setter(t0.id, tx[0])), da | {t0.id}
            if isinstance(t0, ast.Tuple):
                tt = self.target_type(t0, s)
                tx = self.ex(s.value, da, tt)
                bf, names = self.bind_fun(t0, s)
                return self.guarded(tx[2], "(assign (fun s => %s %s s))" % (bf, tx[0])), da | names
            if isinstance(t0, ast.Attribute) and isinstance(t0.value, ast.Name):
                o = t0.value.id
                ot = self.vars.get(o)
                if not (isinstance(ot, tuple) and ot[0] == 'R') or o not in da:
                    _fail(s, "attribute write on %s" % o)
                rec = self.m.records[ot[1]]
                for a, p, ft in rec["fields"]:
                    if a == t0.attr:
                        tx = self.ex(s.value, da, ft)
                        new = "(%s %s)" % (rec["ctor"], " ".join(tx[0] if a2 == a else "(%s %s)" % (p2, self.get(o))
                                                                  for a2, p2, _ in rec["fields"]))
                        return self.guarded(tx[2], "(assign (fun s => %s))" % self.setter(o, new)), da
                _fail(s, "unknown field %s" % t0.attr)
            if isinstance(t0, ast.Subscript):
                return self.store_subscript(s, t0, da)
            _fail(s, "assignment target")
        if isinstance(s, ast.AugAssign) and isinstance(s.target, ast.Name):
            fake = ast.BinOp(left=ast.Name(id=s.target.id, ctx=ast.Load()), op=s.op, right=s.value)
            ast.copy_location(fake, s)
            ast.fix_missing_locations(fake)
            tx = self.ex(fake, da, self.vars.get(s.target.id))
            return self.guarded(tx[2], "(assign (fun s => %s))" % self.setter(s.target.id, tx[0])), da
        if isinstance(s, ast.Delete) and len(s.targets) == 1 and isinstance(s.targets[0], ast.Subscript) \
                and isinstance(s.targets[0].value, ast.Name):
            v = s.targets[0].value.id
            t = self.vars.get(v)
            if not (isinstance(t, tuple) and t[0] == 'D') or v not in da:
                _fail(s, "del on %s" % v)
            if v in [p for p, _ in self.params]:
                _fail(s, "del on a parameter (the caller's dict would change)")
            k = self.ex(s.targets[0].slice, da, t[1])
            e = self.m.eqb(t[1], s)
            return self.guarded(k[2] + ["(d_has %s %s %s)" % (e, self.get(v), k[0])],
                                "(assign (fun s => %s))" % self.setter(v, "(d_del %s %s %s)" % (e, self.get(v), k[0]))), da
        if isinstance(s, ast.If) and ast.unparse(s.test) in self.spec.get("static_tests", {}):
            # [C10] spec option "static_tests": {"<test text>": bool}: the function is specialised to arguments for which the
            # test has this value (named in the spec's note); only the live branch is translated
            live = s.body if self.spec["static_tests"][ast.unparse(s.test)] else s.orelse
            return self.block(live, da) if live else ("skip", da)
        if isinstance(s, ast.If):
            c = self.ex(s.test, da, 'B')
            a, da_a = self.block(s.body, da)
            b, da_b = self.block(s.orelse, da) if s.orelse else ("skip", da)
            out = da_b if da_a is None else da_a if da_b is None else (da_a & da_b)
            return self.guarded(c[2], "(ite (fun s => %s)\n %s\n %s)" % (c[0], a, b)), out
        if isinstance(s, ast.While):
            if s.orelse:
                _fail(s, "while/else")
            c = ("true", 'B', []) if isinstance(s.test, ast.Constant) and s.test.value is True else self.ex(s.test, da, 'B')
            if c[2]:
                _fail(s, "partial expression in a loop test")
            self.no_break(s.body)
            body, _ = self.block(s.body, da)
            self.uses_fuel = True
            return "(while_ fuel (fun s => %s)\n %s)" % (c[0], body), da
        if isinstance(s, ast.For):
            if s.orelse:
                _fail(s, "for/else")
            it = self.ex(s.iter, da)
            if not (isinstance(it[1], tuple) and it[1][0] in ('L', 'D')):
                _fail(s, "iteration over %s" % (it[1],))
            et = it[1][1] if it[1][0] == 'L' else it[1][1]
            if it[1][0] == 'D':
                it = ("(map fst %s)" % it[0], ('L', et), it[2])
            tt = self.target_type(s.target, s)
            conv = None
            if tt != et and self.spec.get("loop_coerce"):
                # [C17] spec option "loop_coerce": the loop variable was declared with a wider type (e.g. Optional, because
                # the same name holds an Optional elsewhere in the function): each element is coerced on binding.
                cv = self.coerce(s, ("y_", et, []), tt)
                if cv[2]:
                    _fail(s, "conditional coercion of a loop element")
                conv = cv[0]
            elif tt != et:
                _fail(s, "loop variable of type %s over elements of type %s" % (tt, et))
            bf, names = self.bind_fun(s.target, s)
            if conv is not None:
                bf = "(fun y_ s => %s %s s)" % (bf, conv)
            self.no_break(s.body)
            # the iterable is evaluated once; the body must not rebind what it was computed from in a way that a
            # Python iterator over the live object would notice (in-place append / del on the iterated variable)
            for sub in ast.walk(ast.Module(body=s.body, type_ignores=[])):
                if isinstance(sub, (ast.Delete, ast.Call)) and any(isinstance(x, ast.Name) and x.id in self.names(s.iter)
                                                                   for x in ast.walk(sub)) and \
                        (isinstance(sub, ast.Delete) or (isinstance(sub.func, ast.Attribute) and sub.func.attr == "append")):
                    _fail(s, "loop body mutates the iterated object")
            body, _ = self.block(s.body, da | names)
            return self.guarded(it[2], "(for_ (fun s => %s) %s\n %s)" % (it[0], bf, body)), da
        _fail(s, "statement %s" % type(s).__name__)

    @staticmethod
    def names(e):
        return {x.id for x in ast.walk(e) if isinstance(x, ast.Name)}

    def no_break(self, body):
        for sub in ast.walk(ast.Module(body=body, type_ignores=[])):
            if isinstance(sub, (ast.Break, ast.Continue)):
                _fail(sub, "break/continue")

    def store_subscript(self, s, t0, da):
        # d[k] = v on a local dict; obj.attr[lo:hi] = arr / v[lo:hi] = arr (numpy slice assignment)
        base = t0.value
        if isinstance(t0.slice, ast.Slice):
            cur = self.ex(base, da)
            cur = self.as_list(s, cur)
            if t0.slice.step is not None:
                _fail(s, "slice step")
            lo = self.ex(t0.slice.lower, da, 'Z') if t0.slice.lower is not None else None
            hi = self.ex(t0.slice.upper, da, 'Z') if t0.slice.upper is not None else None
            o = "(mk_oslice %s %s)" % ("(Some %s)" % lo[0] if lo else "None", "(Some %s)" % hi[0] if hi else "None")
            rhs = self.ex(s.value, da, cur[1])
            sl = "(indices %s (zlen %s))" % (o, cur[0])
            new = ("(np_set_slice %s %s %s)" % (cur[0], sl, rhs[0]), cur[1],
                   cur[2] + (lo[2] if lo else []) + (hi[2] if hi else []) + rhs[2] + ["(np_set_slice_ok %s %s)" % (sl, rhs[0])])
            fake_target = base
            return self.store(s, fake_target, new, da)
        if self.spec.get("list_item_assign"):
            # [C10] spec option "list_item_assign": `l[i] = v` on a list (a local, or a field of a record declared under
            # "mutates"), Python's negative indices, IndexError when out of range
            cur = self.ex(base, da)
            if isinstance(cur[1], tuple) and cur[1][0] == 'L':
                i = self.ex(t0.slice, da, 'Z')
                val = self.ex(s.value, da, cur[1][1])
                new = ("(list_set %s %s %s)" % (cur[0], i[0], val[0]), cur[1],
                       cur[2] + i[2] + val[2] + ["(idx_ok %s %s)" % (cur[0], i[0])])
                return self.store(s, base, new, da)
        if isinstance(base, ast.Name):
            v = base.id
            t = self.vars.get(v)
            if isinstance(t, tuple) and t[0] == 'D' and v in da:
                if v in [p for p, _ in self.params]:
                    _fail(s, "item assignment on a parameter (the caller's dict would change)")
                k = self.ex(t0.slice, da, t[1])
                val = self.ex(s.value, da, t[2])
                e = self.m.eqb(t[1], s)
                return self.guarded(k[2] + val[2], "(assign (fun s => %s))"
                                    % self.setter(v, "(d_set %s %s %s %s)" % (e, self.get(v), k[0], val[0]))), da
        _fail(s, "item assignment")

    def store(self, s, target, tx, da):
        """store a whole new value (already computed, with conditions) into Name or record attribute."""
        if isinstance(target, ast.Name):
            if target.id in [p for p, _ in self.params] and not self.spec.get("mutates", []).count(target.id):
                _fail(s, "in-place change of parameter %s (declare it under \"mutates\" and expose the final state)" % target.id)
            tx = self.coerce(s, tx, self.vars[target.id])
            return self.guarded(tx[2], "(assign (fun s => %s))" % self.setter(target.id, tx[0])), da
        if isinstance(target, ast.Attribute) and isinstance(target.value, ast.Name):
            o = target.value.id
            ot = self.vars.get(o)
            if not (isinstance(ot, tuple) and ot[0] == 'R') or o not in da:
                _fail(s, "attribute write on %s" % o)
            rec = self.m.records[ot[1]]
            for a, p, ft in rec["fields"]:
                if a == target.attr:
                    tx = self.coerce(s, tx, ft)
                    new = "(%s %s)" % (rec["ctor"], " ".join(tx[0] if a2 == a else "(%s %s)" % (p2, self.get(o))
                                                              for a2, p2, _ in rec["fields"]))
                    return self.guarded(tx[2], "(assign (fun s => %s))" % self.setter(o, new)), da
        _fail(s, "store target")

    # ------------------------------------------------------------------ whole function
    def translate(self):
        self.recursive = False
        m = self.m
        body = [s for s in self.fdef.body]
        is_gen = any(isinstance(x, (ast.Yield, ast.YieldFrom)) for x in ast.walk(self.fdef))
        if is_gen != (self.ytype is not None):
            _fail(self.fdef, "generator-ness differs from the spec")
        da0 = frozenset(p for p, _ in self.params)
        txt, da = self.block(body, set(da0))
        names = list(self.vars)
        st = self.name + "_st"
        Y = m.coq(self.ytype) if self.ytype is not None else "Empty_set"
        R = m.coq(self.rtype) if self.rtype is not None else "unit"
        out = []
        out.append("Record %s := mk_%s { %s }." % (st, st, "; ".join("%s_%s : %s" % (self.name, v, m.coq(self.vars[v])) for v in names)))
        for v in names:
            out.append("Definition %s_set_%s (x_ : %s) (s : %s) : %s := mk_%s %s." % (
                self.name, v, m.coq(self.vars[v]), st, st, st,
                " ".join("x_" if w == v else "(%s_%s s)" % (self.name, w) for w in names)))
        init = "(mk_%s %s)" % (st, " ".join(v if v in da0 else m.default(self.vars[v]) for v in names))
        plist = " ".join("(%s : %s)" % (p, m.coq(t)) for p, t in self.params)
        fuelled = self.uses_fuel
        bodytxt = "(%s\n : M %s %s %s)" % (txt, st, Y, R)
        if self.recursive:
            out.append("Fixpoint %s (fuel : nat) %s {struct fuel} : res %s %s %s :=\n match fuel with O => Fuel | S fuel =>\n %s %s\n end."
                       % (self.name, plist, st, Y, R, bodytxt, init))
        elif fuelled:
            out.append("Definition %s (fuel : nat) %s : res %s %s %s :=\n %s %s." % (self.name, plist, st, Y, R, bodytxt, init))
        else:
            out.append("Definition %s %s : res %s %s %s :=\n %s %s." % (self.name, plist, st, Y, R, bodytxt, init))
        self.fuelled = fuelled or self.recursive
        self.is_gen = is_gen
        return "\n".join(out)


def find_function(tree, qualname):
    parts = qualname.split(".")
    body = tree.body
    node = None
    for p in parts:
        node = None
        for n in body:
            if isinstance(n, (ast.FunctionDef, ast.ClassDef)) and n.name == p:
                node = n
        if node is None:
            raise Untranslatable("%s not found" % qualname)
        body = node.body
    if not isinstance(node, ast.FunctionDef):
        raise Untranslatable("%s is not a function" % qualname)
    return node


# [C12] ----- spec option "hoist_calls": {"<call text>": "<local>"}.  A call of a translated function (or of this function itself)
# that occurs NESTED in a simple statement (`return g(f(x))`, `h.update(f(x))`) is moved in front of that statement as
# `<local> = <call>`; the statement then reads the local.  Exact `ast.unparse` text, every declared text must occur, each
# statement may contain at most one hoisted call and nothing else in it may have an effect (the spec's note says so), so the
# order of evaluation is unchanged.  Off by default.
def hoist_calls(fdef, table):
    used = set()

    class Rep(ast.NodeTransformer):
        def __init__(self):
            self.found = None

        def visit_Call(self, node):
            txt = ast.unparse(node)
            if txt in table:
                if self.found is not None:
                    raise Untranslatable("hoist_calls: two hoisted calls in one statement")
                self.found = (table[txt], node)
                used.add(txt)
                return ast.copy_location(ast.Name(id=table[txt], ctx=ast.Load()), node)
            return self.generic_visit(node)

    def do_block(stmts):
        out = []
        for st in stmts:
            if isinstance(st, (ast.If, ast.For, ast.While)):
                st.body = do_block(st.body)
                st.orelse = do_block(st.orelse)
                out.append(st)
            elif isinstance(st, (ast.Expr, ast.Assign, ast.Return)) and not (
                    isinstance(st, ast.Assign) and isinstance(st.value, ast.Call) and ast.unparse(st.value) in table):
                r = Rep()
                new = r.visit(st)
                if r.found is not None:
                    asg = ast.Assign(targets=[ast.Name(id=r.found[0], ctx=ast.Store())], value=r.found[1])
                    out.append(ast.copy_location(asg, st))
                out.append(new)
            else:
                out.append(st)
        return out

    fdef.body = do_block(fdef.body)
    for txt in table:
        if txt not in used:
            raise Untranslatable("hoist_calls: declared call %r does not occur nested in a simple statement" % txt)
    ast.fix_missing_locations(fdef)
    return fdef


def translate_module(repo, modname, mod):
    m = Mod(mod)
    out = ["(* GENERATED by tools/py2coq_imp.py from the current /repo working tree -- do not edit. *)",
           "From Coq Require Import ZArith Bool List.",
           "From PR Require Import Base.ZX Base.Slice Base.Imp%s." % "".join(" " + x for x in mod.get("imports", [])),
           "Import ListNotations.",
           "Open Scope Z_scope.", ""]
    if mod.get("context"):
        out.append("Section Gen.\nContext %s.\n" % " ".join(mod["context"]))
    for name, e in mod.get("externs", {}).items():
        # [C10] module option "externs": {python name: {"coq", "params": [types], "ret"}}: a function translated elsewhere (e.g. by
        # the first front end), given as a Coq term that returns a `res` (Raised = it raises); callable as `v = f(..)`
        m.translated[name] = (e["coq"], [_tt(t) for t in e["params"]], _tt(e["ret"]), False, False)
    for spec in mod["functions"]:
        src = open(repo.rstrip("/") + "/" + spec["source"]).read()
        fdef = find_function(ast.parse(src), spec["qualname"])
        # [C11] spec option "allow_decorators": decorators (exact ast.unparse text) that the spec declares transparent for the
        # translated body (staticmethod; a cache whose transparency is a theorem of the owning property)
        if fdef.decorator_list and not all(ast.unparse(d) in spec.get("allow_decorators", []) for d in fdef.decorator_list):
            raise Untranslatable("%s:%s: decorated function" % (spec["source"], spec["qualname"]))
        try:
            if spec.get("hoist_calls"):     # [C12] off by default
                fdef = hoist_calls(fdef, spec["hoist_calls"])
            fn = Fn(m, spec, fdef)
            text = fn.translate()
        except Untranslatable as e:
            raise Untranslatable("%s:%s: %s" % (spec["source"], spec["qualname"], e))
        m.translated[fdef.name] = (fn.name, [t for p, t in fn.params if p != "self"], fn.rtype, fn.fuelled, fn.is_gen)
        if spec.get("self_method"):
            # [C07] spec option "self_method": callable from later methods of the module as self.m(..) under their "self_calls";
            # "defaults": {param: {"py": <source text of the default>, "coq": <term>}} must agree with the source
            if not fn.params or fn.params[0][0] != "self" or fn.is_gen:
                raise Untranslatable("%s:%s: self_method needs a leading self parameter and no yield" % (spec["source"], spec["qualname"]))
            pyargs = [a.arg for a in fdef.args.args]
            src_def = dict(zip(pyargs[len(pyargs) - len(fdef.args.defaults):], [ast.unparse(d) for d in fdef.args.defaults]))
            defaults = {}
            for pn, dd in spec.get("defaults", {}).items():
                if src_def.get(pn) != dd["py"]:
                    raise Untranslatable("%s:%s: default of %s is %r in the source, the spec declares %r"
                                         % (spec["source"], spec["qualname"], pn, src_def.get(pn), dd["py"]))
                defaults[pn] = dd["coq"]
            m.selfmeths[fdef.name] = {"coq": fn.name, "params": [(p_, t_) for p_, t_ in fn.params if p_ != "self"], "rtype": fn.rtype,
                                      "fuelled": fn.fuelled, "mutates": "self" in spec.get("mutates", []), "defaults": defaults,
                                      "consumes": list(spec.get("consumes", []))}
        digest = hashlib.sha1(ast.dump(fdef).encode()).hexdigest()[:16]
        out.append("(* %s:%s lines %d-%d ast %s *)\n%s\n" % (spec["source"], spec["qualname"], fdef.lineno, fdef.end_lineno, digest, text))
    if mod.get("context"):
        out.append("End Gen.")
    return "\n".join(out) + "\n"
