#!/usr/bin/env python3
"""Markdown table of the seeded changes and which check verdicts they produced (from /verif/seeded/*/)."""
import json, os
root = "/verif/seeded"
print("| seeded change | property | what it breaks / what it needs | caught by ./check (quick) | how |")
print("|---|---|---|---|---|")
for d in sorted(os.listdir(root)):
    p = os.path.join(root, d)
    if not os.path.isdir(p):
        continue
    meta = json.load(open(os.path.join(p, "meta.json")))
    res = None
    for t in ("quick", "thorough"):
        f = os.path.join(p, "result_%s.json" % t)
        if os.path.exists(f):
            res = json.load(open(f))
            break
    verdict = "not run yet"
    how = ""
    if res:
        verdict = ("yes" + (" (no-failing-input-found)" if res["no_failing_input_found"] else " (concrete replay)")) if res["caught"] else "NO"
        how = "; ".join(x.split(":")[0] for x in res.get("detail", [])[:3])
    print("| %s | %s | %s — needs: %s | %s | %s |" % (d, meta.get("property"), str(meta.get("summary", "")).replace("|", "/")[:160],
                                                    str(meta.get("needs", "")).replace("|", "/")[:160], verdict, how.replace("|", "/")[:120]))
