#!/usr/bin/env python3
"""py2coq: fail-closed translator from a loop-free Python subset ("PyLite") to Gallina.

The translator reads the *current* source text of a function in /repo, and emits one
Gallina definition mirroring it statement by statement.  Anything outside the accepted
subset raises Untranslatable: the caller then reports the tie as broken, never guesses.

Types: Z (Python int), F (Python/numpy float, generic carrier T with ops record O),
B (bool), S (slice with int bounds, unit step), OZ (Optional[int]), tuples of those.

Accepted statements: docstring, Assign (name / tuple targets), AugAssign, If/elif/else,
Return, Raise (-> error value), Pass.  No loops, no comprehensions, no attribute writes.
Sequential assignments become nested lets; an `if` that falls through becomes a
tuple-valued `if` over the variables it assigns.
"""
from __future__ import annotations

import ast
import os
import hashlib
import re
import sys
import textwrap


class Untranslatable(Exception):
    pass


def _fail(node, msg):
    raise Untranslatable("line %s: %s" % (getattr(node, "lineno", "?"), msg))


# ---------------------------------------------------------------------------
# types are strings: 'Z', 'F', 'B', 'S', or ('T', t1, t2, ...)
def coq_type(t):
    if t == 'Z':
        return 'Z'
    if t == 'F':
        return 'T'
    if t == 'B':
        return 'bool'
    if t == 'S':
        return 'pslice'
    if t == 'OS':   # slice with optional (None) int bounds, unit step  [C10]
        return 'oslice'
    if t == 'N':    # the value None, known statically (spec option "static_kinds")  [C14]
        return 'unit'
    if t == 'A2':   # a 2-D float array read by index, data(l, p)  [C09]
        return '(Z -> Z -> T)'
    if isinstance(t, tuple) and t[0] == 'T':
        return '(' + ' * '.join(coq_type(x) for x in t[1:]) + ')'
    if isinstance(t, tuple) and t[0] == 'R':   # named record
        return t[1]
    raise ValueError(t)


def _tup(t):
    """JSON list -> (nested) tuple type."""
    return tuple(_tup(x) for x in t) if isinstance(t, list) else t


def float_lit(v: float) -> str:
    """Exact dyadic literal m * 2^e as (lit OP m e)."""
    if v != v or v in (float('inf'), float('-inf')):
        raise Untranslatable("non-finite literal")
    if v == 0:
        return "(lit OP 0 0)"
    m, e = v.as_integer_ratio()   # m / e with e a power of two
    k = e.bit_length() - 1
    return "(lit OP (%d) (%d))" % (m, -k)


class Fn:
    """Translation of one function body."""

    def __init__(self, spec, fdef: ast.FunctionDef):
        self.spec = spec
        self.fdef = fdef
        # types written as JSON lists are normalised to tuples (no effect on specs that use plain strings)
        self.records = {r: {a: (pt[0], _tup(pt[1])) for a, pt in fs.items()}
                        for r, fs in spec.get("records", {}).items()}   # record name -> {python attr -> (coq projection, type)}
        self.calls = {c: (v[0], [_tup(t) for t in v[1]], _tup(v[2]))
                      for c, v in spec.get("calls", {}).items()}        # python call name -> (coq name, [arg types], ret type)
        self.setters = spec.get("setters", {})      # [C10] python attr -> coq functional setter, for `local.attr = value`
        self.err = spec.get("error")                # coq term for raise, with its type = return type
        self.uses_T = False
        self.fresh = 0
        # [C14] spec option "static_kinds": parameters may be declared 'N' (the value None) and conditions that
        # only depend on the declared kinds (`x is None`, `if tuple_var:`, isinstance(x, (int, float)), `None in t`)
        # are decided at translation time; only the live branch is translated (specialisation of the function
        # to the declared argument kinds).  Off by default: no effect on other specs.
        self.static_kinds = bool(spec.get("static_kinds"))

    # [C14] ----- conditions decided by the declared kinds: True / False / None (= not static)
    def static_cond(self, n, env):
        if not self.static_kinds:
            return None

        def kind(e):
            try:
                return self.expr(e, env)[1]
            except Untranslatable:
                return None
        if isinstance(n, ast.Compare) and len(n.ops) == 1:
            op, right = n.ops[0], n.comparators[0]
            if isinstance(op, (ast.Is, ast.IsNot)) and isinstance(right, ast.Constant) and right.value is None:
                k = kind(n.left)
                if k is None:
                    return None
                return (k == 'N') == isinstance(op, ast.Is)
            if isinstance(op, (ast.In, ast.NotIn)) and isinstance(n.left, ast.Constant) and n.left.value is None:
                k = kind(right)
                if isinstance(k, tuple) and k[0] == 'T':
                    return ('N' in k[1:]) == isinstance(op, ast.In)
            return None
        if isinstance(n, ast.Name):
            k = kind(n)
            if k == 'N':
                return False
            if isinstance(k, tuple) and k[0] == 'T' and len(k) > 1:
                return True          # a non-empty tuple is truthy
            return None
        if isinstance(n, ast.Call) and isinstance(n.func, ast.Name) and n.func.id == "isinstance" and len(n.args) == 2 \
                and isinstance(n.args[1], ast.Tuple) and [getattr(e, "id", None) for e in n.args[1].elts] == ["int", "float"]:
            k = kind(n.args[0])
            if k is None:
                return None
            return k in ('Z', 'F')
        if isinstance(n, ast.UnaryOp) and isinstance(n.op, ast.Not):
            v = self.static_cond(n.operand, env)
            return None if v is None else (not v)
        if isinstance(n, ast.BoolOp):
            vs = [self.static_cond(v, env) for v in n.values]
            if isinstance(n.op, ast.And):
                if False in vs and vs.index(False) == min(i for i, v in enumerate(vs) if v is not True):
                    return False    # everything before the first False is statically True
                return True if all(v is True for v in vs) else None
            if True in vs and vs.index(True) == min(i for i, v in enumerate(vs) if v is not False):
                return True
            return False if all(v is False for v in vs) else None
        return None

    # ----- expressions: return (coq_text, type)
    def promote(self, node, tx, want):
        txt, t = tx
        if t == want:
            return txt
        if t == 'Z' and want == 'F':
            self.uses_T = True
            return "(ofZ OP %s)" % txt
        _fail(node, "type mismatch: have %s want %s in %s" % (t, want, ast.dump(node)[:80]))

    def expr(self, n, env):
        # [C09] spec option "expr_alias": a fixed sub-expression (compared as ast.unparse text) stands for a declared name
        if self.spec.get("expr_alias") and isinstance(n, (ast.Subscript, ast.Attribute)):
            al = self.spec["expr_alias"].get(ast.unparse(n))
            if al is not None:
                if al not in env:
                    _fail(n, "alias target %s unknown" % al)
                return (env[al][0], env[al][1])
        # [C09] spec option "np_methods": `a[..., i, j]` on a declared array record gathers one element
        if self.spec.get("np_methods") and isinstance(n, ast.Subscript) and isinstance(n.slice, ast.Tuple) \
                and len(n.slice.elts) == 3 and isinstance(n.slice.elts[0], ast.Constant) and n.slice.elts[0].value is Ellipsis:
            base, bt = self.expr(n.value, env)
            if isinstance(bt, tuple) and bt[0] == 'R' and "__getitem__" in self.records.get(bt[1], {}):
                i, j = self.expr(n.slice.elts[1], env), self.expr(n.slice.elts[2], env)
                if i[1] != 'Z' or j[1] != 'Z':
                    _fail(n, "array gather with non-int indices")
                proj, ft = self.records[bt[1]]["__getitem__"]
                self.uses_T = True
                return ("(%s %s %s %s)" % (proj, base, i[0], j[0]), ft)
            _fail(n, "ellipsis subscript on %s" % (bt,))
        if isinstance(n, ast.Constant):
            v = n.value
            if isinstance(v, bool):
                return ("true" if v else "false", 'B')
            if isinstance(v, int):
                return ("(%d)" % v, 'Z')
            if isinstance(v, float):
                self.uses_T = True
                return (float_lit(v), 'F')
            if v is None and self.static_kinds:   # [C14]
                return ("tt", 'N')
            _fail(n, "constant %r" % (v,))
        if isinstance(n, ast.Name):
            if n.id not in env:
                _fail(n, "unknown name %s" % n.id)
            return (env[n.id][0], env[n.id][1])
        if isinstance(n, ast.Attribute):
            # [C06] spec option "elementwise": numpy-vectorised scalar kernels read one element at a time; `np.nan` is
            # the carrier's NaN.  Off by default: no effect on other specs.
            if self.spec.get("elementwise") and n.attr == "nan" and isinstance(n.value, ast.Name) \
                    and n.value.id == "np" and "np" not in env:
                self.uses_T = True
                return ("(nan OP)", 'F')
            base, bt = self.expr(n.value, env)
            if bt == 'S' and n.attr in ('start', 'stop'):
                return ("(s%s %s)" % (n.attr, base), 'Z')
            if isinstance(bt, tuple) and bt[0] == 'R':
                fields = self.records[bt[1]]
                if n.attr in fields:
                    proj, ft = fields[n.attr]
                    if ft == 'F' or (isinstance(ft, tuple) and 'F' in ft):
                        self.uses_T = True
                    return ("(%s %s)" % (proj, base), ft)
            _fail(n, "attribute .%s on %s" % (n.attr, bt))
        if isinstance(n, ast.Subscript):
            base, bt = self.expr(n.value, env)
            # [C06] spec option "elementwise": `pts[:, k]` on an (n, m) array of points, seen for one row, is component k
            if self.spec.get("elementwise") and isinstance(n.slice, ast.Tuple) and len(n.slice.elts) == 2 \
                    and isinstance(n.slice.elts[0], ast.Slice) and n.slice.elts[0].lower is None \
                    and n.slice.elts[0].upper is None and n.slice.elts[0].step is None \
                    and isinstance(n.slice.elts[1], ast.Constant) and isinstance(n.slice.elts[1].value, int):
                n = ast.copy_location(ast.Subscript(value=n.value, slice=n.slice.elts[1], ctx=n.ctx), n)
            if isinstance(n.slice, ast.UnaryOp) and isinstance(n.slice.op, ast.USub) and isinstance(n.slice.operand, ast.Constant) \
                    and isinstance(n.slice.operand.value, int) and not isinstance(n.slice.operand.value, bool):
                # [C09] a negative literal index parses as -(k): same as the constant -k (previously rejected)
                n = ast.copy_location(ast.Subscript(value=n.value, slice=ast.Constant(value=-n.slice.operand.value), ctx=n.ctx), n)
            if isinstance(bt, tuple) and bt[0] == 'T' and isinstance(n.slice, ast.Constant) \
                    and isinstance(n.slice.value, int):
                i = n.slice.value
                k = len(bt) - 1
                if i < 0:
                    i += k
                if not 0 <= i < k:
                    _fail(n, "tuple index out of range")
                vs = ["_"] * k
                vs[i] = "x__"
                return ("(let '(%s) := %s in x__)" % (", ".join(vs), base), bt[1 + i])
            _fail(n, "subscript")
        if isinstance(n, ast.Tuple) or isinstance(n, ast.List):
            parts = [self.expr(e, env) for e in n.elts]
            return ("(" + ", ".join(p[0] for p in parts) + ")", ('T',) + tuple(p[1] for p in parts))
        if isinstance(n, ast.UnaryOp):
            a = self.expr(n.operand, env)
            if isinstance(n.op, ast.USub):
                if a[1] == 'Z':
                    return ("(- %s)" % a[0], 'Z')
                if a[1] == 'F':
                    self.uses_T = True
                    return ("(neg OP %s)" % a[0], 'F')
            if isinstance(n.op, ast.Not) and a[1] == 'B':
                return ("(negb %s)" % a[0], 'B')
            if isinstance(n.op, ast.Invert) and a[1] == 'B':
                return ("(negb %s)" % a[0], 'B')
            if isinstance(n.op, ast.UAdd):
                return a
            _fail(n, "unary op")
        if isinstance(n, ast.BinOp):
            a = self.expr(n.left, env)
            b = self.expr(n.right, env)
            op = n.op
            if a[1] == 'B' and b[1] == 'B':
                m = {ast.BitXor: "xorb", ast.BitAnd: "andb", ast.BitOr: "orb"}
                if type(op) in m:
                    return ("(%s %s %s)" % (m[type(op)], a[0], b[0]), 'B')
                _fail(n, "bool binop")
            if isinstance(op, ast.Pow):
                if isinstance(n.right, ast.Constant) and n.right.value == 2:
                    if a[1] == 'Z':
                        return ("(%s * %s)" % (a[0], a[0]), 'Z')
                    self.uses_T = True
                    return ("(mul OP %s %s)" % (a[0], a[0]), 'F')
                _fail(n, "power other than 2")
            if a[1] == 'Z' and b[1] == 'Z' and not isinstance(op, ast.Div):
                m = {ast.Add: "+", ast.Sub: "-", ast.Mult: "*", ast.FloorDiv: "/", ast.Mod: "mod"}
                if type(op) in m:
                    return ("(%s %s %s)" % (a[0], m[type(op)], b[0]), 'Z')
                _fail(n, "int binop")
            if a[1] in ('Z', 'F') and b[1] in ('Z', 'F'):
                m = {ast.Add: "add", ast.Sub: "sub", ast.Mult: "mul", ast.Div: "div"}
                if type(op) in m:
                    self.uses_T = True
                    return ("(%s OP %s %s)" % (m[type(op)], self.promote(n, a, 'F'), self.promote(n, b, 'F')), 'F')
            _fail(n, "binop %s on %s,%s" % (type(op).__name__, a[1], b[1]))
        if isinstance(n, ast.Compare):
            terms = []
            left = self.expr(n.left, env)
            for op, rn in zip(n.ops, n.comparators):
                right = self.expr(rn, env)
                terms.append(self.cmp(n, op, left, right))
                left = right
            out = terms[0]
            for t in terms[1:]:
                out = "(andb %s %s)" % (out, t)
            return (out, 'B')
        if isinstance(n, ast.BoolOp):
            vals = [self.expr(v, env) for v in n.values]
            for v in vals:
                if v[1] != 'B':
                    _fail(n, "and/or on non-bool")
            f = "andb" if isinstance(n.op, ast.And) else "orb"
            out = vals[0][0]
            for v in vals[1:]:
                out = "(%s %s %s)" % (f, out, v[0])
            return (out, 'B')
        if isinstance(n, ast.IfExp):
            c = self.expr(n.test, env)
            a = self.expr(n.body, env)
            b = self.expr(n.orelse, env)
            if c[1] != 'B':
                _fail(n, "non-bool condition")
            t = a[1]
            if a[1] != b[1]:
                t = 'F'
                a = (self.promote(n, a, 'F'), 'F')
                b = (self.promote(n, b, 'F'), 'F')
            return ("(if %s then %s else %s)" % (c[0], a[0], b[0]), t)
        if isinstance(n, ast.Call):
            return self.call(n, env)
        _fail(n, "expression %s" % type(n).__name__)

    def cmp(self, n, op, a, b):
        if a[1] == 'Z' and b[1] == 'Z':
            m = {ast.Lt: "(%s <? %s)", ast.LtE: "(%s <=? %s)", ast.Gt: "(%s >? %s)", ast.GtE: "(%s >=? %s)",
                 ast.Eq: "(%s =? %s)", ast.NotEq: "(negb (%s =? %s))"}
            if type(op) in m:
                return m[type(op)] % (a[0], b[0])
        elif a[1] in ('Z', 'F') and b[1] in ('Z', 'F'):
            self.uses_T = True
            x, y = self.promote(n, a, 'F'), self.promote(n, b, 'F')
            m = {ast.Lt: "(ltb OP %s %s)" % (x, y), ast.LtE: "(leb OP %s %s)" % (x, y),
                 ast.Gt: "(ltb OP %s %s)" % (y, x), ast.GtE: "(leb OP %s %s)" % (y, x),
                 ast.Eq: "(eqb OP %s %s)" % (x, y), ast.NotEq: "(negb (eqb OP %s %s))" % (x, y)}
            if type(op) in m:
                return m[type(op)]
        _fail(n, "comparison %s on %s,%s" % (type(op).__name__, a[1], b[1]))

    def callname(self, f):
        if isinstance(f, ast.Name):
            return f.id
        if isinstance(f, ast.Attribute):
            return self.callname(f.value) + "." + f.attr
        _fail(f, "call target")

    def call(self, n, env):
        # [C10] <optional-bounds slice>.indices(n) -> (start, stop, 1) of Base/Slice.v's [indices]
        if isinstance(n.func, ast.Attribute) and n.func.attr == "indices" and len(n.args) == 1 and not n.keywords:
            base = self.expr(n.func.value, env)
            if base[1] == 'OS':
                arg = self.expr(n.args[0], env)
                if arg[1] != 'Z':
                    _fail(n, "slice.indices of a non-int")
                return ("(let s__ := indices %s %s in (sstart s__, sstop s__, (1)))" % (base[0], arg[0]),
                        ('T', 'Z', 'Z', 'Z'))
        # [C09] spec option "np_methods": element-wise ndarray methods  x.astype(int) / x.astype(<float dtype>) / x.clip(lo, hi)
        if self.spec.get("np_methods") and isinstance(n.func, ast.Attribute) and n.func.attr in ("astype", "clip") and not n.keywords \
                and not (isinstance(n.func.value, ast.Name) and n.func.value.id not in env):
            base = self.expr(n.func.value, env)
            if n.func.attr == "astype" and len(n.args) == 1:
                if isinstance(n.args[0], ast.Name) and n.args[0].id == "int":
                    if base[1] == 'Z':
                        return base
                    if base[1] == 'F':
                        self.uses_T = True
                        return ("(truncZ OP %s)" % base[0], 'Z')
                elif ast.unparse(n.args[0]) in self.spec.get("float_dtypes", []) and base[1] == 'F':
                    return base          # cast to the (binary64) dtype of the data: identity
                _fail(n, "astype(%s) on %s" % (ast.unparse(n.args[0]), base[1]))
            if n.func.attr == "clip" and len(n.args) == 2 and base[1] == 'F':
                lo, hi = self.expr(n.args[0], env), self.expr(n.args[1], env)
                self.uses_T = True
                return ("(fmin OP (fmax OP %s %s) %s)" % (base[0], self.promote(n, lo, 'F'), self.promote(n, hi, 'F')), 'F')
            _fail(n, "method %s" % n.func.attr)
        name = self.callname(n.func)
        if n.keywords:
            _fail(n, "keyword arguments in call to %s" % name)
        if name == "slice" and len(n.args) == 3 and "slice3" in self.calls:
            name = "slice3"     # [C10] spec-provided model of slice(a, b, step) with an int step expression
        if name == "slice" and len(n.args) == 3:
            st = n.args[2]
            unit = (isinstance(st, ast.Constant) and st.value in (None, 1)) or \
                   (isinstance(st, ast.Attribute) and st.attr == "step" and self.expr(st.value, env)[1] == 'S')
            if not unit:
                _fail(n, "slice with a step that is not None/1/<slice>.step")
            n = ast.Call(func=n.func, args=n.args[:2], keywords=[])
        args = [self.expr(a, env) for a in n.args]
        if name == "list" and len(args) == 1 and self.static_kinds and isinstance(args[0][1], tuple) and args[0][1][0] == 'T':
            return args[0]      # [C14] list(<small tuple>): same components; item assignment is a functional update
        if name == "slice" and len(args) == 2:
            if args[0][1] == 'Z' and args[1][1] == 'Z':
                return ("(mk_slice %s %s)" % (args[0][0], args[1][0]), 'S')
        if name in ("max", "min") and len(args) == 2:
            if args[0][1] == 'Z' and args[1][1] == 'Z':
                return ("(Z.%s %s %s)" % (name, args[0][0], args[1][0]), 'Z')
            self.uses_T = True
            return ("(f%s OP %s %s)" % (name, self.promote(n, args[0], 'F'), self.promote(n, args[1], 'F')), 'F')
        if name == "abs" and len(args) == 1:
            if args[0][1] == 'Z':
                return ("(Z.abs %s)" % args[0][0], 'Z')
            self.uses_T = True
            return ("(absf OP %s)" % args[0][0], 'F')
        if name in ("math.floor", "np.floor") and len(args) == 1:
            if args[0][1] == 'Z':
                return args[0]
            self.uses_T = True
            return ("(floorZ OP %s)" % args[0][0], 'Z')
        if name in ("math.ceil", "np.ceil") and len(args) == 1:
            if args[0][1] == 'Z':
                return args[0]
            self.uses_T = True
            return ("(ceilZ OP %s)" % args[0][0], 'Z')
        if name == "round" and len(args) == 1:
            if args[0][1] == 'Z':
                return args[0]
            self.uses_T = True
            return ("(rintZ OP %s)" % args[0][0], 'Z')
        if name == "int" and len(args) == 1:
            if args[0][1] == 'Z':
                return args[0]
            self.uses_T = True
            return ("(truncZ OP %s)" % args[0][0], 'Z')
        if name == "float" and len(args) == 1:
            self.uses_T = True
            return (self.promote(n, args[0], 'F'), 'F')
        if name in self.calls:
            cname, atypes, rtype = self.calls[name]
            if len(atypes) != len(args):
                _fail(n, "arity of %s" % name)
            txt = " ".join(self.promote(n, a, t) for a, t in zip(args, atypes) if t != "_")   # "_": argument not passed on [C14]
            if 'F' in atypes or rtype == 'F':
                self.uses_T = True
            return ("(%s %s)" % (cname, txt), rtype)
        _fail(n, "call to %s not in whitelist" % name)

    # ----- statements
    @staticmethod
    def returns(stmts):
        """True iff the block definitely ends in return/raise on every path."""
        if not stmts:
            return False
        s = stmts[-1]
        if isinstance(s, (ast.Return, ast.Raise)):
            return True
        if isinstance(s, ast.If):
            return Fn.returns(s.body) and Fn.returns(s.orelse)
        return False

    @staticmethod
    def assigned(stmts):
        out = []

        def tgt(t):
            if isinstance(t, ast.Name):
                if t.id not in out:
                    out.append(t.id)
            elif isinstance(t, (ast.Tuple, ast.List)):
                for e in t.elts:
                    tgt(e)
            else:
                _fail(t, "assignment target %s" % type(t).__name__)
        for s in stmts:
            if isinstance(s, ast.Assign):
                for t in s.targets:
                    tgt(t)
            elif isinstance(s, ast.AugAssign):
                tgt(s.target)
            elif isinstance(s, ast.If):
                for v in Fn.assigned(s.body) + Fn.assigned(s.orelse):
                    if v not in out:
                        out.append(v)
        return out

    def live_assigned(self, s, env):
        """Variables an `if` may change that exist afterwards: defined before, or assigned on both paths.
        A name assigned on one path only and not defined before is branch-local; a later use of it is
        rejected as an unknown name (Python would raise NameError on the other path)."""
        a, b = self.assigned(s.body), self.assigned(s.orelse)
        return [v for v in self.assigned([s]) if v in env or (v in a and v in b)]

    def bind(self, target, tx, env, node):
        """Return (pattern text, new env) for binding value tx to target."""
        env = dict(env)
        if isinstance(target, ast.Name):
            v = self.var(target.id, env)
            env[target.id] = (v, tx[1])
            return v, env
        if isinstance(target, (ast.Tuple, ast.List)):
            t = tx[1]
            if not (isinstance(t, tuple) and t[0] == 'T' and len(t) - 1 == len(target.elts)):
                _fail(node, "tuple unpacking of %s" % (t,))
            pats = []
            for e, et in zip(target.elts, t[1:]):
                p, env = self.bind(e, (None, et), env, node)
                pats.append(p)
            return "'(" + ", ".join(pats) + ")", env
        _fail(node, "target")

    def var(self, name, env):
        # SSA-style renaming keeps the Gallina readable and shadowing explicit
        self.fresh += 1
        base = re.sub(r"[^A-Za-z0-9_]", "_", name)
        return base if name not in env else "%s_%d" % (base, self.fresh)

    def item_assign(self, s, env):
        """[C14] `name[i] = value` on a LOCAL small tuple/list with a constant index: rebind name to the updated tuple."""
        t0 = s.targets[0]
        if not (isinstance(t0.value, ast.Name) and isinstance(t0.slice, ast.Constant) and isinstance(t0.slice.value, int)):
            _fail(s, "item assignment target")
        oname = t0.value.id
        if oname not in env:
            _fail(s, "item assignment on unknown name")
        obj, ot = env[oname]
        if obj == oname and oname in [a.arg for a in self.fdef.args.args]:
            _fail(s, "item assignment on a parameter (visible side effect)")
        if not (isinstance(ot, tuple) and ot[0] == 'T'):
            _fail(s, "item assignment on %s" % (ot,))
        k = len(ot) - 1
        i = t0.slice.value
        if not 0 <= i < k:
            _fail(s, "item index out of range")
        val = self.expr(s.value, env)
        vs = ["a%d__" % j for j in range(k)]
        new = list(vs)
        new[i] = val[0]
        txt = "(let '(%s) := %s in (%s))" % (", ".join(vs), obj, ", ".join(new))
        nt = list(ot)
        nt[1 + i] = val[1]
        nv = self.var(oname, env)
        env2 = dict(env)
        env2[oname] = (nv, tuple(nt))
        return nv, txt, env2

    def block(self, stmts, env, rtype):
        if not stmts:
            _fail(self.fdef, "control reaches end of function without return")
        s, rest = stmts[0], stmts[1:]
        if isinstance(s, ast.Expr) and isinstance(s.value, ast.Constant) and isinstance(s.value.value, str):
            return self.block(rest, env, rtype)
        if isinstance(s, ast.Pass):
            return self.block(rest, env, rtype)
        if self.is_logging(s):      # [C13] spec option "ignore_logging"
            return self.block(rest, env, rtype)
        if isinstance(s, ast.Return):
            if s.value is None:
                _fail(s, "bare return")
            tx = self.expr(s.value, env)
            return self.coerce_ret(s, tx, rtype)
        if isinstance(s, ast.Raise):
            if self.err is None:
                _fail(s, "raise without an error value in the spec")
            return self.err
        if isinstance(s, ast.Assign):
            if len(s.targets) != 1:
                _fail(s, "chained assignment")
            t0 = s.targets[0]
            if isinstance(t0, ast.Attribute) and isinstance(t0.value, ast.Name) and t0.attr in self.setters:
                # [C10] `local.attr = value` on a record-typed LOCAL (never a parameter: no hidden side effect)
                oname = t0.value.id
                if oname in [a.arg for a in self.fdef.args.args] or oname not in env:
                    _fail(s, "attribute write on a parameter or unknown object")
                obj, ot = env[oname]
                if not (isinstance(ot, tuple) and ot[0] == 'R' and t0.attr in self.records.get(ot[1], {})):
                    _fail(s, "attribute write on %s" % (ot,))
                val = self.promote(s, self.expr(s.value, env), self.records[ot[1]][t0.attr][1])
                nv = self.var(oname, env)
                env2 = dict(env)
                env2[oname] = (nv, ot)
                return "let %s := (%s %s %s) in\n%s" % (nv, self.setters[t0.attr], obj, val,
                                                       self.block(rest, env2, rtype))
            if isinstance(t0, ast.Subscript) and self.static_kinds:
                nv, txt, env2 = self.item_assign(s, env)      # [C14]
                return "let %s := %s in\n%s" % (nv, txt, self.block(rest, env2, rtype))
            tx = self.expr(s.value, env)
            pat, env2 = self.bind(s.targets[0], tx, env, s)
            return "let %s := %s in\n%s" % (pat, tx[0], self.block(rest, env2, rtype))
        if isinstance(s, ast.AugAssign):
            fake = ast.BinOp(left=ast.Name(id=s.target.id, ctx=ast.Load()), op=s.op, right=s.value)
            ast.copy_location(fake, s)
            tx = self.expr(fake, env)
            pat, env2 = self.bind(s.target, tx, env, s)
            return "let %s := %s in\n%s" % (pat, tx[0], self.block(rest, env2, rtype))
        if isinstance(s, ast.If):
            sc = self.static_cond(s.test, env)
            if sc is not None:     # [C14] decided by the declared kinds: translate the live branch only
                return self.block(list(s.body if sc else s.orelse) + rest, env, rtype)
            c = self.expr(s.test, env)
            if c[1] != 'B':
                _fail(s, "condition of type %s" % (c[1],))
            if self.returns(s.body):
                return "if %s then (%s)\nelse (%s)" % (c[0], self.block(s.body, env, rtype),
                                                      self.block(list(s.orelse) + rest, env, rtype))
            if s.orelse and self.returns(s.orelse):
                return "if %s then (%s)\nelse (%s)" % (c[0], self.block(list(s.body) + rest, env, rtype),
                                                      self.block(s.orelse, env, rtype))
            vs = self.live_assigned(s, env)
            if not vs:
                if self.spec.get("ignore_logging") and self.no_exit(s):
                    # [C13] only logging / branch-local names inside: no effect on what follows (a later use of a
                    # branch-local name is still rejected as an unknown name)
                    return self.block(rest, env, rtype)
                _fail(s, "if without effect")
            a_txt, a_types = self.branch(s.body, env, vs, s)
            b_txt, b_types = self.branch(s.orelse, env, vs, s)
            if a_types != b_types and self.spec.get("join_int_float"):     # [C13] int on one path, float on the other
                want = self.join_types(s, a_types, b_types)
                a_txt, a_types = self.branch(s.body, env, vs, s, want)
                b_txt, b_types = self.branch(s.orelse, env, vs, s, want)
            if a_types != b_types:
                _fail(s, "branches give different types %s / %s" % (a_types, b_types))
            env2 = dict(env)
            pats = []
            for v, t in zip(vs, a_types):
                nv = self.var(v, env2)
                env2[v] = (nv, t)
                pats.append(nv)
            pat = pats[0] if len(pats) == 1 else "'(" + ", ".join(pats) + ")"
            return "let %s := (if %s then %s else %s) in\n%s" % (pat, c[0], a_txt, b_txt,
                                                                self.block(rest, env2, rtype))
        _fail(s, "statement %s" % type(s).__name__)

    # [C13] ----- spec options "ignore_logging" / "join_int_float" (both off by default)
    def is_logging(self, s):
        if not self.spec.get("ignore_logging"):
            return False
        return isinstance(s, ast.Expr) and isinstance(s.value, ast.Call) and isinstance(s.value.func, ast.Attribute) \
            and isinstance(s.value.func.value, ast.Name) and s.value.func.value.id in ("logging", "logger", "LOG") \
            and s.value.func.attr in ("debug", "info", "warning", "error")

    def no_exit(self, s):
        """No return / raise anywhere inside statement s."""
        return not any(isinstance(n, (ast.Return, ast.Raise)) for n in ast.walk(s))

    def join_types(self, node, a_types, b_types):
        if len(a_types) != len(b_types):
            _fail(node, "branches assign different variables")
        out = []
        for x, y in zip(a_types, b_types):
            if x == y:
                out.append(x)
            elif {x, y} == {'Z', 'F'}:
                out.append('F')
            else:
                _fail(node, "branches give different types %s / %s" % (a_types, b_types))
        return out

    def branch(self, stmts, env, vs, node, want=None):
        """A fall-through branch as a tuple-valued expression over variables vs."""
        env2 = dict(env)
        lets = []
        todo = list(stmts)
        while todo:
            s = todo.pop(0)
            if isinstance(s, ast.Pass) or (isinstance(s, ast.Expr) and isinstance(s.value, ast.Constant)):
                continue
            if self.is_logging(s):      # [C13]
                continue
            if isinstance(s, ast.If) and self.static_cond(s.test, env2) is not None:   # [C14] live branch only
                todo = list(s.body if self.static_cond(s.test, env2) else s.orelse) + todo
                continue
            if isinstance(s, ast.Assign) and len(s.targets) == 1:
                tx = self.expr(s.value, env2)
                pat, env2 = self.bind(s.targets[0], tx, env2, s)
                lets.append("let %s := %s in " % (pat, tx[0]))
            elif isinstance(s, ast.AugAssign):
                fake = ast.BinOp(left=ast.Name(id=s.target.id, ctx=ast.Load()), op=s.op, right=s.value)
                ast.copy_location(fake, s)
                tx = self.expr(fake, env2)
                pat, env2 = self.bind(s.target, tx, env2, s)
                lets.append("let %s := %s in " % (pat, tx[0]))
            elif isinstance(s, ast.If) and not self.returns(s.body) and not (s.orelse and self.returns(s.orelse)):
                c = self.expr(s.test, env2)
                ivs = self.live_assigned(s, env2)
                a_txt, a_t = self.branch(s.body, env2, ivs, s)
                b_txt, b_t = self.branch(s.orelse, env2, ivs, s)
                if a_t != b_t and self.spec.get("join_int_float"):     # [C13]
                    jt = self.join_types(s, a_t, b_t)
                    a_txt, a_t = self.branch(s.body, env2, ivs, s, jt)
                    b_txt, b_t = self.branch(s.orelse, env2, ivs, s, jt)
                if a_t != b_t:
                    _fail(s, "nested branches give different types")
                pats = []
                for v, t in zip(ivs, a_t):
                    nv = self.var(v, env2)
                    env2[v] = (nv, t)
                    pats.append(nv)
                pat = pats[0] if len(pats) == 1 else "'(" + ", ".join(pats) + ")"
                lets.append("let %s := (if %s then %s else %s) in " % (pat, c[0], a_txt, b_txt))
            else:
                _fail(s, "statement %s inside a fall-through branch" % type(s).__name__)
        vals, types = [], []
        for v in vs:
            if v not in env2:
                _fail(node, "variable %s not defined on every path" % v)
            if want is not None and env2[v][1] != want[len(vals)]:      # [C13] promote to the joined type
                vals.append(self.promote(node, env2[v], want[len(vals)]))
                types.append(want[len(types)])
                continue
            vals.append(env2[v][0])
            types.append(env2[v][1])
        tup = vals[0] if len(vals) == 1 else "(" + ", ".join(vals) + ")"
        return "(" + "".join(lets) + tup + ")", types

    def coerce_ret(self, node, tx, rtype):
        if rtype is None or tx[1] == rtype:
            return self.wrap_ok(tx[0])
        if isinstance(rtype, tuple) and isinstance(tx[1], tuple) and len(rtype) == len(tx[1]):
            # element-wise int->float promotion is not attempted for tuples
            pass
        if tx[1] == 'Z' and rtype == 'F':
            return self.wrap_ok(self.promote(node, tx, 'F'))
        _fail(node, "return type %s, expected %s" % (tx[1], rtype))

    def wrap_ok(self, txt):
        return ("(Some %s)" % txt) if self.spec.get("option_result") else txt

    def translate(self):
        spec = self.spec
        env = {}
        binders = []
        params = [a.arg for a in self.fdef.args.args]
        defaults = self.fdef.args.defaults
        for p in params:
            if p in spec.get("drop_params", []):
                continue
            if p not in spec["params"]:
                raise Untranslatable("parameter %s has no declared type" % p)
            t = spec["params"][p]
            if isinstance(t, list):
                t = _tup(t)      # [C06] nested tuple types (a tuple of points); identical to tuple(t) for flat lists
            env[p] = (p, t)
            if t == 'F' or (isinstance(t, tuple) and 'F' in t):
                self.uses_T = True
            binders.append("(%s : %s)" % (p, coq_type(t)))
        for extra, t in spec.get("extra_env", {}).items():
            env[extra] = (extra, t)
        rtype = spec.get("ret")
        if isinstance(rtype, list):
            rtype = _tup(rtype)
        body = self.block(list(self.fdef.body), env, rtype)
        rt = coq_type(rtype) if rtype else None
        if spec.get("option_result") and rt:
            rt = "option %s" % rt
        head = "Definition %s %s%s :=\n" % (spec["coq_name"], " ".join(binders), (" : " + rt) if rt else "")
        return head + textwrap.indent(body, "  ") + "."


# [C09] ----- Cython kernels: `cdef inline void f(typed params) noexcept nogil:` with a typed-declaration prologue and a
# final loop over the bands `for i in range(z_size): res[i] = EXPR(data[i, a, b])` (or plain `res[k] = EXPR` stores).
# Rewritten, fail-closed, to the Python function of ONE band: def f(params): ...; return EXPR(data(a, b)).
def cython_to_python(src, qualname):
    lines = src.split("\n")
    head = None
    for k, ln in enumerate(lines):
        if re.match(r"^c?p?def\s+(?:inline\s+)?(?:[\w\[\], :.]+?\s+)?%s\s*\(" % re.escape(qualname), ln):
            head = k
            break
    if head is None:
        raise Untranslatable("cython function %s not found" % qualname)
    sig = lines[head]
    k = head
    while sig.count("(") > sig.count(")") or not sig.rstrip().endswith(":"):
        k += 1
        sig += " " + lines[k].strip()
    m = re.match(r"^c?p?def\s+(?:inline\s+)?(?:[\w\[\], :.]+?\s+)?%s\s*\((.*)\)\s*(?:noexcept)?\s*(?:nogil)?\s*:\s*$" % re.escape(qualname), sig)
    if not m:
        raise Untranslatable("cython signature of %s" % qualname)
    params = []
    depth, cur = 0, ""
    for ch in m.group(1):
        if ch in "[(":
            depth += 1
        if ch in "])":
            depth -= 1
        if ch == "," and depth == 0:
            params.append(cur)
            cur = ""
        else:
            cur += ch
    params.append(cur)
    names = []
    for prm in params:
        mm = re.search(r"(\w+)\s*(?:=.*)?$", prm.strip())
        if not mm:
            raise Untranslatable("cython parameter %r" % prm)
        names.append(mm.group(1))
    body = []
    k += 1
    while k < len(lines) and (not lines[k].strip() or lines[k].startswith((" ", "\t"))):
        body.append(lines[k])
        k += 1
    # join physical lines of one statement (open brackets)
    stmts, cur = [], ""
    for ln in body:
        code = ln.split("#")[0].rstrip()
        if not code.strip():
            continue
        cur = (cur + " " + code.strip()) if cur else code
        if cur.count("(") + cur.count("[") == cur.count(")") + cur.count("]"):
            stmts.append(cur)
            cur = ""
    if cur:
        raise Untranslatable("unbalanced brackets in %s" % qualname)
    out, stores = [], {}
    k = 0
    while k < len(stmts):
        st = stmts[k]
        ind = len(st) - len(st.lstrip())
        t = st.strip()
        if t.startswith("cdef "):
            if "=" in t and not re.match(r"^cdef\s+size_t\s+z_size\s*=\s*res\.shape\[0\]$", t):
                raise Untranslatable("cdef with initialiser: %s" % t)
            k += 1
            continue
        t = re.sub(r"<\s*\w+\s*>", "", t)          # C casts
        mm = re.match(r"^for\s+(\w+)\s+in\s+range\(z_size\)\s*:$", t)
        if mm:
            if k + 2 != len(stmts):
                raise Untranslatable("band loop is not the last statement of %s" % qualname)
            i = mm.group(1)
            inner = re.sub(r"<\s*\w+\s*>", "", stmts[k + 1].strip())
            m2 = re.match(r"^res\[%s\]\s*=\s*(.*)$" % i, inner)
            if not m2:
                raise Untranslatable("band loop body: %s" % inner)
            expr = re.sub(r"data\[\s*%s\s*,([^\]]*)\]" % i, r"data(\1)", m2.group(1))
            if re.search(r"\b%s\b" % i, expr):
                raise Untranslatable("band index used outside data[i, ., .]")
            out.append(" " * ind + "return " + expr)
            k += 2
            continue
        mm = re.match(r"^res\[(\d+)\]\s*=\s*(.*)$", t)
        if mm:
            if ind != len(stmts[0]) - len(stmts[0].lstrip()):
                raise Untranslatable("conditional store into res")
            stores[int(mm.group(1))] = mm.group(2)
            k += 1
            continue
        out.append(" " * ind + t)
        k += 1
    if stores:
        if sorted(stores) != list(range(len(stores))):
            raise Untranslatable("stores into res are not res[0..n-1]")
        ind = len(stmts[0]) - len(stmts[0].lstrip())
        out.append(" " * ind + "return (" + ", ".join(stores[j] for j in range(len(stores))) + ")")
    return "def %s(%s):\n%s\n" % (qualname, ", ".join(names), "\n".join(out))


def find_function(tree, qualname):
    parts = qualname.split(".")
    body = tree.body
    node = None
    for p in parts:
        node = None
        for s in body:
            if isinstance(s, (ast.FunctionDef, ast.ClassDef)) and s.name == p:
                node = s
                break
        if node is None:
            raise Untranslatable("function %s not found" % qualname)
        body = node.body
    if not isinstance(node, ast.FunctionDef):
        raise Untranslatable("%s is not a function" % qualname)
    return node


# [C08] ----- spec option "slice_call": {"func": "<callee as written>", "args": [i, ...]}.  The function is reduced to the
# backward slice of the selected positional arguments of its ONE call of <callee>: the top-level single-name assignments
# (before the call) those arguments depend on, in source order, followed by `return (arg_i, ...)`.  Robust against
# renaming locals and reordering independent statements; fails closed when a needed name is bound anywhere else
# (tuple targets, augmented assignment, inside if/try/for/with, walrus, ...).
def slice_call(fdef, opt):
    calls = [n for n in ast.walk(fdef) if isinstance(n, ast.Call) and ast.unparse(n.func) == opt["func"]]
    if len(calls) != 1:
        raise Untranslatable("slice_call: expected exactly one call of %s, found %d" % (opt["func"], len(calls)))
    call = calls[0]
    if call.keywords or any(isinstance(a, ast.Starred) for a in call.args) or len(call.args) <= max(opt["args"]):
        raise Untranslatable("slice_call: unexpected argument list of %s" % opt["func"])
    rets = [call.args[i] for i in opt["args"]]
    params = {a.arg for a in fdef.args.args}
    top = {}
    for st in fdef.body:
        if isinstance(st, ast.Assign) and len(st.targets) == 1 and isinstance(st.targets[0], ast.Name) and st.end_lineno < call.lineno:
            top.setdefault(st.targets[0].id, []).append(st)
    bound = {}
    for n in ast.walk(fdef):
        if isinstance(n, ast.Name) and isinstance(n.ctx, (ast.Store, ast.Del)):
            bound[n.id] = bound.get(n.id, 0) + 1
        elif isinstance(n, (ast.ExceptHandler,)) and n.name:
            bound[n.name] = bound.get(n.name, 0) + 1

    def loads(e):
        return {n.id for n in ast.walk(e) if isinstance(n, ast.Name) and isinstance(n.ctx, ast.Load)}
    needed, keep, todo = set(), [], set().union(*[loads(e) for e in rets]) if rets else set()
    while todo:
        name = todo.pop()
        if name in needed or name in params:
            continue
        needed.add(name)
        if name not in top:
            continue        # a global / module name: the expression translator decides (fails closed on unknown names)
        if bound.get(name, 0) != 1 or len(top[name]) != 1:
            raise Untranslatable("slice_call: %s is bound more than once" % name)
        keep.append(top[name][0])
        todo |= loads(top[name][0].value)
    keep.sort(key=lambda st: st.lineno)
    ret = ast.Return(value=ast.Tuple(elts=rets, ctx=ast.Load()))
    new = ast.FunctionDef(name=fdef.name, args=fdef.args, body=keep + [ret], decorator_list=[], returns=None, type_comment=None)
    ast.copy_location(new, fdef)
    ast.copy_location(ret, call)
    new.end_lineno = fdef.end_lineno
    return ast.fix_missing_locations(new)


def translate_module(repo, modname, mod):
    """mod: {"functions": [spec...], "generic": bool}. Returns Coq text."""
    out = ["(* GENERATED by tools/py2coq.py from the current /repo working tree -- do not edit. *)",
           "From Coq Require Import ZArith Bool List.",
           "From PR Require Import Base.Slice Base.Num%s." % "".join(" " + m for m in mod.get("imports", [])),
           "Import ListNotations.",
           "Open Scope Z_scope.", ""]
    defs = []
    any_T = False
    for spec in mod["functions"]:
        path = repo.rstrip("/") + "/" + spec["source"]
        src = open(path).read()
        if spec.get("cython"):      # [C09] off by default: no effect on other specs
            src = cython_to_python(src, spec["qualname"])
        tree = ast.parse(src)
        fdef = find_function(tree, spec["qualname"])
        if spec.get("slice_call"):  # [C08] off by default: no effect on other specs
            fdef = slice_call(fdef, spec["slice_call"])
        fn = Fn(spec, fdef)
        try:
            text = fn.translate()
        except Untranslatable as e:
            raise Untranslatable("%s:%s: %s" % (spec["source"], spec["qualname"], e))
        digest = hashlib.sha1(ast.dump(fdef).encode()).hexdigest()[:16]
        defs.append("(* %s:%s lines %d-%d ast %s *)\n%s\n" % (spec["source"], spec["qualname"], fdef.lineno,
                                                             fdef.end_lineno, digest, text))
        any_T = any_T or fn.uses_T or spec.get("generic")
    if any_T:
        out.append("Section Gen.\nContext {T : Type} (OP : ops T).\n")
    out.extend(defs)
    if any_T:
        out.append("End Gen.")
    return "\n".join(out) + "\n"


if __name__ == "__main__":
    import json
    repo, specfile = sys.argv[1:3]
    name = os.path.basename(specfile)[:-5]
    try:
        sys.stdout.write(translate_module(repo, name, json.load(open(specfile))))
    except Untranslatable as e:
        sys.stderr.write("UNTRANSLATABLE %s\n" % e)
        sys.exit(3)
