#!/usr/bin/env python3
"""py2coq: fail-closed translator from a loop-free Python subset ("PyLite") to Gallina.

The translator reads the *current* source text of a function in /repo, and emits one
Gallina definition mirroring it statement by statement.  Anything outside the accepted
subset raises Untranslatable: the caller then reports the tie as broken, never guesses.

Types: Z (Python int), F (Python/numpy float, generic carrier T with ops record O),
B (bool), S (slice with int bounds, unit step), OZ (Optional[int]), tuples of those.

Accepted statements: docstring, Assign (name / tuple targets), AugAssign, If/elif/else,
Return, Raise (-> error value), Pass.  No loops, no comprehensions, no attribute writes.
Sequential assignments become nested lets; an `if` that falls through becomes a
tuple-valued `if` over the variables it assigns.
"""
from __future__ import annotations

import ast
import os
import hashlib
import re
import sys
import textwrap


class Untranslatable(Exception):
    pass


def _fail(node, msg):
    raise Untranslatable("line %s: %s" % (getattr(node, "lineno", "?"), msg))


# ---------------------------------------------------------------------------
# types are strings: 'Z', 'F', 'B', 'S', or ('T', t1, t2, ...)
def coq_type(t):
    if t == 'Z':
        return 'Z'
    if t == 'F':
        return 'T'
    if t == 'B':
        return 'bool'
    if t == 'S':
        return 'pslice'
    if t == 'OS':   # slice with optional (None) int bounds, unit step  [C10]
        return 'oslice'
    if t == 'N':    # the value None, known statically (spec option "static_kinds")  [C14]
        return 'unit'
    if t == 'LF':   # a 1-D float array seen as a list (only reduced / mapped by spec-declared functions)  [C14]
        return '(list T)'
    if isinstance(t, tuple) and t[0] == 'K':   # a string argument whose value is known statically ("static_kinds")  [C14]
        return 'unit'
    if t == 'A2':   # a 2-D float array read by index, data(l, p)  [C09]
        return '(Z -> Z -> T)'
    if t == 'LZ':   # a 1-D integer index array, only ever produced by a spec-declared call and passed on  [C16]
        return '(list Z)'
    if isinstance(t, tuple) and t[0] == 'T':
        return '(' + ' * '.join(coq_type(x) for x in t[1:]) + ')'
    if isinstance(t, tuple) and t[0] == 'R':   # named record
        return t[1]
    raise ValueError(t)


def _tup(t):
    """JSON list -> (nested) tuple type."""
    return tuple(_tup(x) for x in t) if isinstance(t, list) else t


def float_lit(v: float) -> str:
    """Exact dyadic literal m * 2^e as (lit OP m e)."""
    if v != v or v in (float('inf'), float('-inf')):
        raise Untranslatable("non-finite literal")
    if v == 0:
        return "(lit OP 0 0)"
    m, e = v.as_integer_ratio()   # m / e with e a power of two
    k = e.bit_length() - 1
    return "(lit OP (%d) (%d))" % (m, -k)


class Fn:
    """Translation of one function body."""

    def __init__(self, spec, fdef: ast.FunctionDef):
        self.spec = spec
        self.fdef = fdef
        # types written as JSON lists are normalised to tuples (no effect on specs that use plain strings)
        self.records = {r: {a: (pt[0], _tup(pt[1])) for a, pt in fs.items()}
                        for r, fs in spec.get("records", {}).items()}   # record name -> {python attr -> (coq projection, type)}
        self.calls = {c: (v[0], [_tup(t) for t in v[1]], _tup(v[2]))
                      for c, v in spec.get("calls", {}).items()}        # python call name -> (coq name, [arg types], ret type)
        self.setters = spec.get("setters", {})      # [C10] python attr -> coq functional setter, for `local.attr = value`
        self.err = spec.get("error")                # coq term for raise, with its type = return type
        self.uses_T = False
        self.fresh = 0
        # [C14] spec option "static_kinds": parameters may be declared 'N' (the value None) and conditions that
        # only depend on the declared kinds (`x is None`, `if tuple_var:`, isinstance(x, (int, float)), `None in t`)
        # are decided at translation time; only the live branch is translated (specialisation of the function
        # to the declared argument kinds).  Off by default: no effect on other specs.
        self.static_kinds = bool(spec.get("static_kinds"))

    # [C14] ----- conditions decided by the declared kinds: True / False / None (= not static)
    def static_cond(self, n, env):
        if not self.static_kinds:
            return None

        def kind(e):
            try:
                return self.expr(e, env)[1]
            except Untranslatable:
                return None
        if isinstance(n, ast.Compare) and len(n.ops) == 1 and isinstance(n.ops[0], (ast.Eq, ast.NotEq)) \
                and isinstance(n.comparators[0], ast.Constant) and isinstance(n.comparators[0].value, str):
            # [C14] `x == "literal"` for a parameter declared None ('N') or as a known string (["K", "value"])
            k = kind(n.left)
            if k == 'N':
                return isinstance(n.ops[0], ast.NotEq)
            if isinstance(k, tuple) and k[0] == 'K':
                return (k[1] == n.comparators[0].value) == isinstance(n.ops[0], ast.Eq)
            return None
        if isinstance(n, ast.Call) and isinstance(n.func, ast.Name) and n.func.id == "hasattr" and len(n.args) == 2 \
                and isinstance(n.args[1], ast.Constant) and n.args[1].value == "compute" and self.spec.get("no_dask"):
            # [C14] spec option "no_dask": the arrays are numpy arrays (the dask variant only adds da.compute(...))
            return False if kind(n.args[0]) == 'LF' else None
        if isinstance(n, ast.Compare) and len(n.ops) == 1:
            op, right = n.ops[0], n.comparators[0]
            if isinstance(op, (ast.Is, ast.IsNot)) and isinstance(right, ast.Constant) and right.value is None:
                k = kind(n.left)
                if k is None:
                    return None
                return (k == 'N') == isinstance(op, ast.Is)
            if isinstance(op, (ast.In, ast.NotIn)) and isinstance(n.left, ast.Constant) and n.left.value is None:
                k = kind(right)
                if isinstance(k, tuple) and k[0] == 'T':
                    return ('N' in k[1:]) == isinstance(op, ast.In)
            return None
        if isinstance(n, ast.Name):
            k = kind(n)
            if k == 'N':
                return False
            if isinstance(k, tuple) and k[0] == 'T' and len(k) > 1:
                return True          # a non-empty tuple is truthy
            return None
        if isinstance(n, ast.Call) and isinstance(n.func, ast.Name) and n.func.id == "isinstance" and len(n.args) == 2 \
                and isinstance(n.args[1], ast.Tuple) and [getattr(e, "id", None) for e in n.args[1].elts] == ["int", "float"]:
            k = kind(n.args[0])
            if k is None:
                return None
            return k in ('Z', 'F')
        if isinstance(n, ast.UnaryOp) and isinstance(n.op, ast.Not):
            v = self.static_cond(n.operand, env)
            return None if v is None else (not v)
        if isinstance(n, ast.BoolOp):
            vs = [self.static_cond(v, env) for v in n.values]
            if isinstance(n.op, ast.And):
                if False in vs and vs.index(False) == min(i for i, v in enumerate(vs) if v is not True):
                    return False    # everything before the first False is statically True
                return True if all(v is True for v in vs) else None
            if True in vs and vs.index(True) == min(i for i, v in enumerate(vs) if v is not False):
                return True
            return False if all(v is False for v in vs) else None
        return None

    # ----- expressions: return (coq_text, type)
    def promote(self, node, tx, want):
        txt, t = tx
        if t == want:
            return txt
        if t == 'Z' and want == 'F':
            self.uses_T = True
            return "(ofZ OP %s)" % txt
        _fail(node, "type mismatch: have %s want %s in %s" % (t, want, ast.dump(node)[:80]))

    def expr(self, n, env):
        # [C17] spec option "call_alias": a fixed call expression (compared as ast.unparse text) stands for a declared name,
        # e.g. an array gather `a.take(idx, mode='wrap')` or a reduction `sum(alpha)` seen from one element.  Off by default.
        if self.spec.get("call_alias") and isinstance(n, ast.Call):
            al = self.spec["call_alias"].get(ast.unparse(n))
            if al is not None:
                if al not in env:
                    _fail(n, "alias target %s unknown" % al)
                return (env[al][0], env[al][1])
        # [C09] spec option "expr_alias": a fixed sub-expression (compared as ast.unparse text) stands for a declared name
        if self.spec.get("expr_alias") and isinstance(n, (ast.Subscript, ast.Attribute)):
            al = self.spec["expr_alias"].get(ast.unparse(n))
            if al is not None:
                if al not in env:
                    _fail(n, "alias target %s unknown" % al)
                return (env[al][0], env[al][1])
        # [C01] spec option "call_alias": a fixed call expression (compared as ast.unparse text, e.g. `arange(*col_range, **x_kwargs)`
        # read element-wise) stands for a declared name.  Off by default: no effect on other specs.
        if self.spec.get("call_alias") and isinstance(n, ast.Call):
            al = self.spec["call_alias"].get(ast.unparse(n))
            if al is not None:
                if al not in env:
                    _fail(n, "alias target %s unknown" % al)
                return (env[al][0], env[al][1])
        # [C09] spec option "np_methods": `a[..., i, j]` on a declared array record gathers one element
        if self.spec.get("np_methods") and isinstance(n, ast.Subscript) and isinstance(n.slice, ast.Tuple) \
                and len(n.slice.elts) == 3 and isinstance(n.slice.elts[0], ast.Constant) and n.slice.elts[0].value is Ellipsis:
            base, bt = self.expr(n.value, env)
            if isinstance(bt, tuple) and bt[0] == 'R' and "__getitem__" in self.records.get(bt[1], {}):
                i, j = self.expr(n.slice.elts[1], env), self.expr(n.slice.elts[2], env)
                if i[1] != 'Z' or j[1] != 'Z':
                    _fail(n, "array gather with non-int indices")
                proj, ft = self.records[bt[1]]["__getitem__"]
                self.uses_T = True
                return ("(%s %s %s %s)" % (proj, base, i[0], j[0]), ft)
            _fail(n, "ellipsis subscript on %s" % (bt,))
        if isinstance(n, ast.Constant):
            v = n.value
            if isinstance(v, bool):
                return ("true" if v else "false", 'B')
            if isinstance(v, int):
                return ("(%d)" % v, 'Z')
            if isinstance(v, float):
                self.uses_T = True
                return (float_lit(v), 'F')
            if v is None and self.static_kinds:   # [C14]
                return ("tt", 'N')
            _fail(n, "constant %r" % (v,))
        if isinstance(n, ast.Name):
            if n.id not in env:
                _fail(n, "unknown name %s" % n.id)
            return (env[n.id][0], env[n.id][1])
        if isinstance(n, ast.Attribute):
            # [C06] spec option "elementwise": numpy-vectorised scalar kernels read one element at a time; `np.nan` is
            # the carrier's NaN.  Off by default: no effect on other specs.
            if self.spec.get("elementwise") and n.attr == "nan" and isinstance(n.value, ast.Name) \
                    and n.value.id == "np" and "np" not in env:
                self.uses_T = True
                return ("(nan OP)", 'F')
            base, bt = self.expr(n.value, env)
            if bt == 'S' and n.attr in ('start', 'stop'):
                return ("(s%s %s)" % (n.attr, base), 'Z')
            if isinstance(bt, tuple) and bt[0] == 'R':
                fields = self.records[bt[1]]
                if n.attr in fields:
                    proj, ft = fields[n.attr]
                    if ft == 'F' or (isinstance(ft, tuple) and 'F' in ft):
                        self.uses_T = True
                    return ("(%s %s)" % (proj, base), ft)
            _fail(n, "attribute .%s on %s" % (n.attr, bt))
        if isinstance(n, ast.Subscript):
            base, bt = self.expr(n.value, env)
            # [C06] spec option "elementwise": `pts[:, k]` on an (n, m) array of points, seen for one row, is component k
            if self.spec.get("elementwise") and isinstance(n.slice, ast.Tuple) and len(n.slice.elts) == 2 \
                    and isinstance(n.slice.elts[0], ast.Slice) and n.slice.elts[0].lower is None \
                    and n.slice.elts[0].upper is None and n.slice.elts[0].step is None \
                    and isinstance(n.slice.elts[1], ast.Constant) and isinstance(n.slice.elts[1].value, int):
                n = ast.copy_location(ast.Subscript(value=n.value, slice=n.slice.elts[1], ctx=n.ctx), n)
            if isinstance(n.slice, ast.UnaryOp) and isinstance(n.slice.op, ast.USub) and isinstance(n.slice.operand, ast.Constant) \
                    and isinstance(n.slice.operand.value, int) and not isinstance(n.slice.operand.value, bool):
                # [C09] a negative literal index parses as -(k): same as the constant -k (previously rejected)
                n = ast.copy_location(ast.Subscript(value=n.value, slice=ast.Constant(value=-n.slice.operand.value), ctx=n.ctx), n)
            if isinstance(bt, tuple) and bt[0] == 'T' and isinstance(n.slice, ast.Constant) \
                    and isinstance(n.slice.value, int):
                i = n.slice.value
                k = len(bt) - 1
                if i < 0:
                    i += k
                if not 0 <= i < k:
                    _fail(n, "tuple index out of range")
                vs = ["_"] * k
                vs[i] = "x__"
                return ("(let '(%s) := %s in x__)" % (", ".join(vs), base), bt[1 + i])
            _fail(n, "subscript")
        if isinstance(n, ast.Tuple) or isinstance(n, ast.List):
            parts = [self.expr(e, env) for e in n.elts]
            return ("(" + ", ".join(p[0] for p in parts) + ")", ('T',) + tuple(p[1] for p in parts))
        if isinstance(n, ast.UnaryOp):
            a = self.expr(n.operand, env)
            if isinstance(n.op, ast.USub):
                if a[1] == 'Z':
                    return ("(- %s)" % a[0], 'Z')
                if a[1] == 'F':
                    self.uses_T = True
                    return ("(neg OP %s)" % a[0], 'F')
            if isinstance(n.op, ast.Not) and a[1] == 'B':
                return ("(negb %s)" % a[0], 'B')
            if isinstance(n.op, ast.Invert) and a[1] == 'B':
                return ("(negb %s)" % a[0], 'B')
            if isinstance(n.op, ast.UAdd):
                return a
            _fail(n, "unary op")
        if isinstance(n, ast.BinOp):
            a = self.expr(n.left, env)
            b = self.expr(n.right, env)
            op = n.op
            if a[1] == 'B' and b[1] == 'B':
                m = {ast.BitXor: "xorb", ast.BitAnd: "andb", ast.BitOr: "orb"}
                if type(op) in m:
                    return ("(%s %s %s)" % (m[type(op)], a[0], b[0]), 'B')
                if isinstance(op, ast.Mult) and self.spec.get("int_casts"):   # [C18] product of two boolean masks = and
                    return ("(andb %s %s)" % (a[0], b[0]), 'B')
                # [C03] spec option "bool_mask_arith" (off by default): numpy boolean masks, m1 * m2 = and, m1 + m2 = or
                if self.spec.get("bool_mask_arith") and isinstance(op, (ast.Mult, ast.Add)):
                    return ("(%s %s %s)" % ("andb" if isinstance(op, ast.Mult) else "orb", a[0], b[0]), 'B')
                _fail(n, "bool binop")
            if a[1] == 'LF' and b[1] == 'Z' and isinstance(op, ast.Mod) and self.spec.get("list_mod"):
                # [C14] spec option "list_mod": <float array> % <int>, element-wise, by the declared function
                self.uses_T = True
                return ("(%s %s %s)" % (self.spec["list_mod"], a[0], b[0]), 'LF')
            if isinstance(op, ast.Pow):
                if isinstance(n.right, ast.Constant) and n.right.value == 2:
                    if a[1] == 'Z':
                        return ("(%s * %s)" % (a[0], a[0]), 'Z')
                    self.uses_T = True
                    return ("(mul OP %s %s)" % (a[0], a[0]), 'F')
                _fail(n, "power other than 2")
            if a[1] == 'Z' and b[1] == 'Z' and not isinstance(op, ast.Div):
                m = {ast.Add: "+", ast.Sub: "-", ast.Mult: "*", ast.FloorDiv: "/", ast.Mod: "mod"}
                if type(op) in m:
                    return ("(%s %s %s)" % (a[0], m[type(op)], b[0]), 'Z')
                _fail(n, "int binop")
            if a[1] in ('Z', 'F') and b[1] in ('Z', 'F'):
                m = {ast.Add: "add", ast.Sub: "sub", ast.Mult: "mul", ast.Div: "div"}
                if type(op) in m:
                    self.uses_T = True
                    return ("(%s OP %s %s)" % (m[type(op)], self.promote(n, a, 'F'), self.promote(n, b, 'F')), 'F')
            # [C03] spec option "float_floordiv" (off by default): `a // b` on floats as floor of the rounded quotient (equal to
            # Python's / numpy's floor division whenever a / b is exact, e.g. x // abs(x) = +-1)
            if self.spec.get("float_floordiv") and isinstance(op, ast.FloorDiv) and a[1] in ('Z', 'F') and b[1] in ('Z', 'F'):
                self.uses_T = True
                return ("(ofZ OP (floorZ OP (div OP %s %s)))" % (self.promote(n, a, 'F'), self.promote(n, b, 'F')), 'F')
            # [C04] spec option "bool_arith": a numpy bool operand of + or * is the number 0/1 (bool array * float array,
            # int count += bool array).  Off by default: no effect on other specs.
            if self.spec.get("bool_arith") and isinstance(op, (ast.Add, ast.Mult)) and (a[1] == 'B') != (b[1] == 'B') \
                    and (a[1] in ('Z', 'F') or b[1] in ('Z', 'F')):
                num = a if b[1] == 'B' else b
                bo = b if b[1] == 'B' else a
                if num[1] == 'Z':
                    conv = ("(if %s then 1 else 0)" % bo[0], 'Z')
                    x, y = (conv, num) if bo is a else (num, conv)
                    return ("(%s %s %s)" % (x[0], "+" if isinstance(op, ast.Add) else "*", y[0]), 'Z')
                self.uses_T = True
                conv = ("(if %s then ofZ OP 1 else ofZ OP 0)" % bo[0], 'F')
                x, y = (conv, num) if bo is a else (num, conv)
                return ("(%s OP %s %s)" % ("add" if isinstance(op, ast.Add) else "mul", x[0], y[0]), 'F')
            _fail(n, "binop %s on %s,%s" % (type(op).__name__, a[1], b[1]))
        if isinstance(n, ast.Compare) and self.spec.get("small_arrays") and len(n.ops) == 1:
            # [C11] spec option "small_arrays": `arr < c` on a two-element float array (a pair) is the pair of comparisons
            lt = self.expr(n.left, env)
            if lt[1] == ('T', 'F', 'F'):
                rt = self.expr(n.comparators[0], env)
                if rt[1] in ('Z', 'F'):
                    c0 = self.cmp(n, n.ops[0], ("a0__", 'F'), rt)
                    c1 = self.cmp(n, n.ops[0], ("a1__", 'F'), rt)
                    return ("(let '(a0__, a1__) := %s in (%s, %s))" % (lt[0], c0, c1), ('T', 'B', 'B'))
        if isinstance(n, ast.Compare):
            terms = []
            left = self.expr(n.left, env)
            for op, rn in zip(n.ops, n.comparators):
                right = self.expr(rn, env)
                terms.append(self.cmp(n, op, left, right))
                left = right
            out = terms[0]
            for t in terms[1:]:
                out = "(andb %s %s)" % (out, t)
            return (out, 'B')
        if isinstance(n, ast.BoolOp):
            vals = [self.expr(v, env) for v in n.values]
            for v in vals:
                if v[1] != 'B':
                    _fail(n, "and/or on non-bool")
            f = "andb" if isinstance(n.op, ast.And) else "orb"
            out = vals[0][0]
            for v in vals[1:]:
                out = "(%s %s %s)" % (f, out, v[0])
            return (out, 'B')
        if isinstance(n, ast.IfExp):
            c = self.expr(n.test, env)
            a = self.expr(n.body, env)
            b = self.expr(n.orelse, env)
            if c[1] != 'B':
                _fail(n, "non-bool condition")
            t = a[1]
            if a[1] != b[1]:
                t = 'F'
                a = (self.promote(n, a, 'F'), 'F')
                b = (self.promote(n, b, 'F'), 'F')
            return ("(if %s then %s else %s)" % (c[0], a[0], b[0]), t)
        if isinstance(n, ast.Call):
            return self.call(n, env)
        _fail(n, "expression %s" % type(n).__name__)

    def cmp(self, n, op, a, b):
        if a[1] == 'Z' and b[1] == 'Z':
            m = {ast.Lt: "(%s <? %s)", ast.LtE: "(%s <=? %s)", ast.Gt: "(%s >? %s)", ast.GtE: "(%s >=? %s)",
                 ast.Eq: "(%s =? %s)", ast.NotEq: "(negb (%s =? %s))"}
            if type(op) in m:
                return m[type(op)] % (a[0], b[0])
        elif a[1] in ('Z', 'F') and b[1] in ('Z', 'F'):
            self.uses_T = True
            x, y = self.promote(n, a, 'F'), self.promote(n, b, 'F')
            m = {ast.Lt: "(ltb OP %s %s)" % (x, y), ast.LtE: "(leb OP %s %s)" % (x, y),
                 ast.Gt: "(ltb OP %s %s)" % (y, x), ast.GtE: "(leb OP %s %s)" % (y, x),
                 ast.Eq: "(eqb OP %s %s)" % (x, y), ast.NotEq: "(negb (eqb OP %s %s))" % (x, y)}
            if type(op) in m:
                return m[type(op)]
        _fail(n, "comparison %s on %s,%s" % (type(op).__name__, a[1], b[1]))

    def callname(self, f):
        if isinstance(f, ast.Name):
            return f.id
        if isinstance(f, ast.Attribute):
            return self.callname(f.value) + "." + f.attr
        _fail(f, "call target")

    def call(self, n, env):
        # [C10] <optional-bounds slice>.indices(n) -> (start, stop, 1) of Base/Slice.v's [indices]
        if isinstance(n.func, ast.Attribute) and n.func.attr == "indices" and len(n.args) == 1 and not n.keywords:
            base = self.expr(n.func.value, env)
            if base[1] == 'OS':
                arg = self.expr(n.args[0], env)
                if arg[1] != 'Z':
                    _fail(n, "slice.indices of a non-int")
                return ("(let s__ := indices %s %s in (sstart s__, sstop s__, (1)))" % (base[0], arg[0]),
                        ('T', 'Z', 'Z', 'Z'))
        # [C18] spec option "int_casts": element-wise float -> fixed-width integer conversions as numpy does them,
        #   np.floor(x).astype(np.int32) / da.floor(x).astype(np.int64) / np.round(x).astype(int) / x.astype(np.int32)
        # -> (to_int OP bits (floorZ OP | rintZ OP | truncZ OP) x)  [the spec imports the module defining to_int / wrap_int];
        # on an integer: astype(np.uint16) -> mod 2^16, astype(np.int32 | np.int64 | int) -> wrap_int, astype(bool) on a bool: identity.
        # Off by default: no effect on other specs.
        if self.spec.get("int_casts") and isinstance(n.func, ast.Attribute) and n.func.attr == "astype" and not n.keywords \
                and len(n.args) == 1 and ast.unparse(n.args[0]) in ("int", "np.int32", "np.int64", "np.uint16", "bool"):
            dt = ast.unparse(n.args[0])
            bits = {"int": 64, "np.int64": 64, "np.int32": 32}.get(dt)
            inner = n.func.value
            rnd = None
            if isinstance(inner, ast.Call) and not inner.keywords and len(inner.args) == 1 \
                    and ast.unparse(inner.func) in ("np.floor", "da.floor", "np.round", "np.rint", "np.trunc"):
                rnd = {"np.floor": "floorZ", "da.floor": "floorZ", "np.round": "rintZ", "np.rint": "rintZ",
                       "np.trunc": "truncZ"}[ast.unparse(inner.func)]
                base = self.expr(inner.args[0], env)
                if base[1] != 'F':
                    _fail(n, "rounding call on a non-float before astype")
            else:
                base = self.expr(inner, env)
            if dt == "bool":
                if base[1] == 'B' and rnd is None:
                    return base
                _fail(n, "astype(bool) on %s" % (base[1],))
            if base[1] == 'F' and bits is not None:
                self.uses_T = True
                return ("(to_int OP %d (%s OP) %s)" % (bits, rnd or "truncZ", base[0]), 'Z')
            if base[1] == 'Z' and rnd is None:
                if dt == "np.uint16":
                    return ("(%s mod 65536)" % base[0], 'Z')
                return ("(wrap_int %d %s)" % (bits, base[0]), 'Z')
            _fail(n, "astype(%s) on %s" % (dt, base[1]))
        # [C09] spec option "np_methods": element-wise ndarray methods  x.astype(int) / x.astype(<float dtype>) / x.clip(lo, hi)
        if self.spec.get("np_methods") and isinstance(n.func, ast.Attribute) and n.func.attr in ("astype", "clip") and not n.keywords \
                and not (isinstance(n.func.value, ast.Name) and n.func.value.id not in env):
            base = self.expr(n.func.value, env)
            if n.func.attr == "astype" and len(n.args) == 1:
                if isinstance(n.args[0], ast.Name) and n.args[0].id == "int":
                    if base[1] == 'Z':
                        return base
                    if base[1] == 'F':
                        self.uses_T = True
                        return ("(truncZ OP %s)" % base[0], 'Z')
                elif ast.unparse(n.args[0]) in self.spec.get("float_dtypes", []) and base[1] == 'F':
                    return base          # cast to the (binary64) dtype of the data: identity
                _fail(n, "astype(%s) on %s" % (ast.unparse(n.args[0]), base[1]))
            if n.func.attr == "clip" and len(n.args) == 2 and base[1] == 'F':
                lo, hi = self.expr(n.args[0], env), self.expr(n.args[1], env)
                self.uses_T = True
                return ("(fmin OP (fmax OP %s %s) %s)" % (base[0], self.promote(n, lo, 'F'), self.promote(n, hi, 'F')), 'F')
            _fail(n, "method %s" % n.func.attr)
        name = self.callname(n.func)
        if n.keywords and self.spec.get("kw_calls"):
            # [C16] spec option "kw_calls": a call with FIXED keyword arguments is looked up in "calls" under the name
            # `f(k1=v1,k2=v2)` (keywords sorted, values as ast.unparse text); the positional arguments are passed on.
            # Any other keyword spelling is not in the whitelist and fails closed below.
            if any(k.arg is None for k in n.keywords):
                _fail(n, "**kwargs in call to %s" % name)
            kwname = "%s(%s)" % (name, ",".join("%s=%s" % (k.arg, ast.unparse(k.value)) for k in sorted(n.keywords, key=lambda k: k.arg)))
            if kwname not in self.calls:
                _fail(n, "call to %s not in whitelist" % kwname)
            name = kwname
            n = ast.copy_location(ast.Call(func=n.func, args=n.args, keywords=[]), n)
        if n.keywords:
            _fail(n, "keyword arguments in call to %s" % name)
        if name == "slice" and len(n.args) == 3 and "slice3" in self.calls:
            name = "slice3"     # [C10] spec-provided model of slice(a, b, step) with an int step expression
        if name == "slice" and len(n.args) == 3:
            st = n.args[2]
            unit = (isinstance(st, ast.Constant) and st.value in (None, 1)) or \
                   (isinstance(st, ast.Attribute) and st.attr == "step" and self.expr(st.value, env)[1] == 'S')
            if not unit:
                _fail(n, "slice with a step that is not None/1/<slice>.step")
            n = ast.Call(func=n.func, args=n.args[:2], keywords=[])
        # [C06] spec option "star_args": `f(*g(...), ...)` where g(...) has a tuple type: the components are bound by a
        # destructuring let around the call and passed on one by one.  Off by default: no effect on other specs.
        star_lets = []
        if self.spec.get("star_args") and any(isinstance(a, ast.Starred) for a in n.args):
            args = []
            for a in n.args:
                if isinstance(a, ast.Starred):
                    tx = self.expr(a.value, env)
                    if not (isinstance(tx[1], tuple) and tx[1][0] == 'T'):
                        _fail(n, "*argument that is not a tuple")
                    names = []
                    for ct in tx[1][1:]:
                        self.fresh += 1
                        names.append("star__%d" % self.fresh)
                        args.append((names[-1], ct))
                    star_lets.append("let '(%s) := %s in " % (", ".join(names), tx[0]))
                else:
                    args.append(self.expr(a, env))
            if name not in self.calls:
                _fail(n, "call with *arguments to %s not in whitelist" % name)
        else:
            args = [self.expr(a, env) for a in n.args]
        if name == "list" and len(args) == 1 and self.static_kinds and isinstance(args[0][1], tuple) and args[0][1][0] == 'T':
            return args[0]      # [C14] list(<small tuple>): same components; item assignment is a functional update
        if name == "slice" and len(args) == 2:
            if args[0][1] == 'Z' and args[1][1] == 'Z':
                return ("(mk_slice %s %s)" % (args[0][0], args[1][0]), 'S')
        if self.spec.get("small_arrays") and len(args) == 1:
            # [C11] spec option "small_arrays": reductions of a two-element array (a pair); np.array([a, b]) is the pair itself
            if name in ("np.min", "np.max") and args[0][1] == ('T', 'F', 'F'):
                self.uses_T = True
                return ("(let '(a0__, a1__) := %s in f%s OP a0__ a1__)" % (args[0][0], name[3:]), 'F')
            if name == "np.all" and args[0][1] == ('T', 'B', 'B'):
                return ("(let '(b0__, b1__) := %s in andb b0__ b1__)" % args[0][0], 'B')
            if name in ("np.array", "np.asarray") and args[0][1] == ('T', 'F', 'F'):
                return args[0]
        if name in ("max", "min") and len(args) == 2:
            if args[0][1] == 'Z' and args[1][1] == 'Z':
                return ("(Z.%s %s %s)" % (name, args[0][0], args[1][0]), 'Z')
            self.uses_T = True
            return ("(f%s OP %s %s)" % (name, self.promote(n, args[0], 'F'), self.promote(n, args[1], 'F')), 'F')
        if name == "abs" and len(args) == 1:
            if args[0][1] == 'Z':
                return ("(Z.abs %s)" % args[0][0], 'Z')
            self.uses_T = True
            return ("(absf OP %s)" % args[0][0], 'F')
        if name in ("math.floor", "np.floor") and len(args) == 1:
            if args[0][1] == 'Z':
                return args[0]
            self.uses_T = True
            return ("(floorZ OP %s)" % args[0][0], 'Z')
        if name in ("math.ceil", "np.ceil") and len(args) == 1:
            if args[0][1] == 'Z':
                return args[0]
            self.uses_T = True
            return ("(ceilZ OP %s)" % args[0][0], 'Z')
        if name == "round" and len(args) == 1:
            if args[0][1] == 'Z':
                return args[0]
            self.uses_T = True
            return ("(rintZ OP %s)" % args[0][0], 'Z')
        if name == "int" and len(args) == 1:
            if args[0][1] == 'Z':
                return args[0]
            self.uses_T = True
            return ("(truncZ OP %s)" % args[0][0], 'Z')
        if name == "float" and len(args) == 1:
            self.uses_T = True
            return (self.promote(n, args[0], 'F'), 'F')
        if name in self.calls:
            cname, atypes, rtype = self.calls[name]
            atypes, rtype = [_tup(t) for t in atypes], _tup(rtype)    # [C06] tuple-typed arguments/results (JSON lists); strings unchanged
            if len(atypes) != len(args):
                _fail(n, "arity of %s" % name)
            txt = " ".join(self.promote(n, a, t) for a, t in zip(args, atypes) if t != "_")   # "_": argument not passed on [C14]
            if 'F' in atypes or rtype == 'F':
                self.uses_T = True
            if star_lets:
                return ("(%s(%s %s))" % ("".join(star_lets), cname, txt), rtype)
            return ("(%s %s)" % (cname, txt), rtype)
        _fail(n, "call to %s not in whitelist" % name)

    # ----- statements
    @staticmethod
    def returns(stmts):
        """True iff the block definitely ends in return/raise on every path."""
        if not stmts:
            return False
        s = stmts[-1]
        if isinstance(s, (ast.Return, ast.Raise)):
            return True
        if isinstance(s, ast.If):
            return Fn.returns(s.body) and Fn.returns(s.orelse)
        return False

    @staticmethod
    def assigned(stmts):
        out = []

        def tgt(t):
            if isinstance(t, ast.Name):
                if t.id not in out:
                    out.append(t.id)
            elif isinstance(t, (ast.Tuple, ast.List)):
                for e in t.elts:
                    tgt(e)
            else:
                _fail(t, "assignment target %s" % type(t).__name__)
        for s in stmts:
            if isinstance(s, ast.Assign):
                for t in s.targets:
                    tgt(t)
            elif isinstance(s, ast.AugAssign):
                tgt(s.target)
            elif isinstance(s, ast.If):
                for v in Fn.assigned(s.body) + Fn.assigned(s.orelse):
                    if v not in out:
                        out.append(v)
        return out

    def live_assigned(self, s, env):
        """Variables an `if` may change that exist afterwards: defined before, or assigned on both paths.
        A name assigned on one path only and not defined before is branch-local; a later use of it is
        rejected as an unknown name (Python would raise NameError on the other path)."""
        a, b = self.assigned(s.body), self.assigned(s.orelse)
        return [v for v in self.assigned([s]) if v in env or (v in a and v in b)]

    def bind(self, target, tx, env, node):
        """Return (pattern text, new env) for binding value tx to target."""
        env = dict(env)
        if isinstance(target, ast.Name):
            v = self.var(target.id, env)
            env[target.id] = (v, tx[1])
            return v, env
        if isinstance(target, (ast.Tuple, ast.List)):
            t = tx[1]
            if not (isinstance(t, tuple) and t[0] == 'T' and len(t) - 1 == len(target.elts)):
                _fail(node, "tuple unpacking of %s" % (t,))
            pats = []
            for e, et in zip(target.elts, t[1:]):
                p, env = self.bind(e, (None, et), env, node)
                pats.append(p)
            return "'(" + ", ".join(pats) + ")", env
        _fail(node, "target")

    def var(self, name, env):
        # SSA-style renaming keeps the Gallina readable and shadowing explicit
        self.fresh += 1
        base = re.sub(r"[^A-Za-z0-9_]", "_", name)
        return base if name not in env else "%s_%d" % (base, self.fresh)

    def item_assign(self, s, env):
        """[C14] `name[i] = value` on a LOCAL small tuple/list with a constant index: rebind name to the updated tuple."""
        t0 = s.targets[0]
        if not (isinstance(t0.value, ast.Name) and isinstance(t0.slice, ast.Constant) and isinstance(t0.slice.value, int)):
            _fail(s, "item assignment target")
        oname = t0.value.id
        if oname not in env:
            _fail(s, "item assignment on unknown name")
        obj, ot = env[oname]
        if obj == oname and oname in [a.arg for a in self.fdef.args.args]:
            _fail(s, "item assignment on a parameter (visible side effect)")
        if not (isinstance(ot, tuple) and ot[0] == 'T'):
            _fail(s, "item assignment on %s" % (ot,))
        k = len(ot) - 1
        i = t0.slice.value
        if not 0 <= i < k:
            _fail(s, "item index out of range")
        val = self.expr(s.value, env)
        vs = ["a%d__" % j for j in range(k)]
        new = list(vs)
        new[i] = val[0]
        txt = "(let '(%s) := %s in (%s))" % (", ".join(vs), obj, ", ".join(new))
        nt = list(ot)
        nt[1 + i] = val[1]
        nv = self.var(oname, env)
        env2 = dict(env)
        env2[oname] = (nv, tuple(nt))
        return nv, txt, env2

    def block(self, stmts, env, rtype):
        if not stmts:
            _fail(self.fdef, "control reaches end of function without return")
        s, rest = stmts[0], stmts[1:]
        if isinstance(s, ast.Expr) and isinstance(s.value, ast.Constant) and isinstance(s.value.value, str):
            return self.block(rest, env, rtype)
        if isinstance(s, ast.Pass):
            return self.block(rest, env, rtype)
        if self.is_logging(s):      # [C13] spec option "ignore_logging"
            return self.block(rest, env, rtype)
        if isinstance(s, ast.Try) and self.spec.get("try_reraise"):
            # [C11] spec option "try_reraise": `try: BODY except E as err: raise X from err` (every handler only re-raises,
            # no else/finally) is BODY on the inputs for which BODY does not raise; the exceptional inputs are outside the
            # translated domain and must be named in the spec's note (the hand model / correspondence covers them)
            if s.orelse or s.finalbody or not s.handlers or \
                    not all(len(h.body) == 1 and isinstance(h.body[0], ast.Raise) for h in s.handlers):
                _fail(s, "try statement that does more than re-raise")
            return self.block(list(s.body) + rest, env, rtype)
        if isinstance(s, ast.Return):
            if s.value is None:
                _fail(s, "bare return")
            if self.spec.get("return_var"):
                # [C17] spec option "return_var": the per-element value of a local that the function goes on to reduce
                # (`return (sum(alpha) - ...)`): the definition returns that local as it stands at the return.  Off by default.
                rv = self.spec["return_var"]
                if rv not in env:
                    _fail(s, "return_var %s unknown" % rv)
                return self.coerce_ret(s, (env[rv][0], env[rv][1]), rtype)
            tx = self.expr(s.value, env)
            return self.coerce_ret(s, tx, rtype)
        if isinstance(s, ast.Raise):
            if self.err is None:
                _fail(s, "raise without an error value in the spec")
            return self.err
        if self.spec.get("monadic") and isinstance(s, ast.Assign) and len(s.targets) == 1 and isinstance(s.value, ast.Call):
            rc = self.res_call(s.value, env)      # [C13]
            if rc is not None:
                how, txt, rt = rc
                pat, env2 = self.bind(s.targets[0], (txt, rt), env, s)
                if how == "static":
                    return "let %s := %s in\n%s" % (pat, txt, self.block(rest, env2, rtype))
                return "bind %s (fun %s =>\n%s)" % (txt, pat, self.block(rest, env2, rtype))
        if isinstance(s, ast.Assign):
            if len(s.targets) != 1:
                _fail(s, "chained assignment")
            t0 = s.targets[0]
            if isinstance(t0, ast.Attribute) and isinstance(t0.value, ast.Name) and t0.attr in self.setters:
                # [C10] `local.attr = value` on a record-typed LOCAL (never a parameter: no hidden side effect)
                oname = t0.value.id
                if oname in [a.arg for a in self.fdef.args.args] or oname not in env:
                    _fail(s, "attribute write on a parameter or unknown object")
                obj, ot = env[oname]
                if not (isinstance(ot, tuple) and ot[0] == 'R' and t0.attr in self.records.get(ot[1], {})):
                    _fail(s, "attribute write on %s" % (ot,))
                val = self.promote(s, self.expr(s.value, env), self.records[ot[1]][t0.attr][1])
                nv = self.var(oname, env)
                env2 = dict(env)
                env2[oname] = (nv, ot)
                return "let %s := (%s %s %s) in\n%s" % (nv, self.setters[t0.attr], obj, val,
                                                       self.block(rest, env2, rtype))
            if isinstance(t0, ast.Name) and isinstance(s.value, ast.Call) and self.spec.get("raising_calls") \
                    and isinstance(s.value.func, (ast.Name, ast.Attribute)) and self.callname(s.value.func) in self.spec["raising_calls"]:
                # [C10] spec option "raising_calls": [callee, ...] (with "option_result"): the callee is itself translated with
                # "option_result" (None = it raised); `v = callee(...)` binds v on Some and propagates None (the exception)
                if not self.spec.get("option_result") or self.err is None:
                    _fail(s, "raising_calls needs option_result and an error value")
                tx = self.expr(s.value, env)
                pat, env2 = self.bind(t0, tx, env, s)
                return "match %s with\n| Some %s => (%s)\n| None => %s\nend" % (tx[0], pat, self.block(rest, env2, rtype), self.err)
            if isinstance(t0, ast.Subscript) and self.static_kinds:
                nv, txt, env2 = self.item_assign(s, env)      # [C14]
                return "let %s := %s in\n%s" % (nv, txt, self.block(rest, env2, rtype))
            tx = self.expr(s.value, env)
            pat, env2 = self.bind(s.targets[0], tx, env, s)
            return "let %s := %s in\n%s" % (pat, tx[0], self.block(rest, env2, rtype))
        if isinstance(s, ast.AugAssign) and self.spec.get("np_methods") and self.static_kinds and isinstance(s.target, ast.Subscript) \
                and isinstance(s.target.value, ast.Name) and isinstance(s.target.slice, ast.Tuple) and len(s.target.slice.elts) >= 2 \
                and isinstance(s.target.slice.elts[0], ast.Constant) and isinstance(s.target.slice.elts[0].value, int) \
                and all(isinstance(e, ast.Slice) and e.lower is None and e.upper is None and e.step is None for e in s.target.slice.elts[1:]):
            # [C09] `v[k, :, :] op= e` on a local stack of planes, seen for one pixel: v[k] = v[k] op e (functional update)
            comp = ast.Subscript(value=ast.Name(id=s.target.value.id, ctx=ast.Load()), slice=s.target.slice.elts[0], ctx=ast.Load())
            asg = ast.Assign(targets=[ast.Subscript(value=ast.Name(id=s.target.value.id, ctx=ast.Load()), slice=s.target.slice.elts[0],
                                                    ctx=ast.Store())], value=ast.BinOp(left=comp, op=s.op, right=s.value))
            ast.copy_location(asg, s)
            ast.fix_missing_locations(asg)
            nv, txt, env2 = self.item_assign(asg, env)
            return "let %s := %s in\n%s" % (nv, txt, self.block(rest, env2, rtype))
        if isinstance(s, ast.AugAssign) and self.spec.get("masked_update") and isinstance(s.target, ast.Subscript) \
                and isinstance(s.target.value, ast.Name) and s.target.value.id in env:
            # [C17] spec option "masked_update": `x[cond] op= v` on a numpy array, seen for one element, is
            # x := if cond then x op v else x.  Off by default.
            name = ast.Name(id=s.target.value.id, ctx=ast.Load())
            c = self.expr(s.target.slice, env)
            if c[1] != 'B':
                _fail(s, "masked update with a non-bool mask")
            fake = ast.BinOp(left=name, op=s.op, right=s.value)
            ast.copy_location(fake, s)
            tx = self.expr(fake, env)
            old = env[s.target.value.id]
            if tx[1] != old[1]:
                _fail(s, "masked update changes the type")
            tgt = ast.Name(id=s.target.value.id, ctx=ast.Store())
            pat, env2 = self.bind(tgt, tx, env, s)
            return "let %s := (if %s then %s else %s) in\n%s" % (pat, c[0], tx[0], old[0], self.block(rest, env2, rtype))
        if isinstance(s, ast.AugAssign):
            fake = ast.BinOp(left=ast.Name(id=s.target.id, ctx=ast.Load()), op=s.op, right=s.value)
            ast.copy_location(fake, s)
            tx = self.expr(fake, env)
            pat, env2 = self.bind(s.target, tx, env, s)
            return "let %s := %s in\n%s" % (pat, tx[0], self.block(rest, env2, rtype))
        if isinstance(s, ast.If):
            if self.spec.get("monadic"):      # [C13]
                s = ast.copy_location(ast.If(test=self.reduce_static(s.test, env), body=s.body, orelse=s.orelse), s)
            sc = self.static_cond(s.test, env)
            if sc is not None:     # [C14] decided by the declared kinds: translate the live branch only
                return self.block(list(s.body if sc else s.orelse) + rest, env, rtype)
            c = self.expr(s.test, env)
            if c[1] == 'F' and self.spec.get("float_truthiness"):
                # [C03] spec option "float_truthiness" (off by default): `if x:` on a float is `x != 0` (NaN is true)
                c = ("(negb (eqb OP %s (ofZ OP 0)))" % c[0], 'B')
            if c[1] == 'Z' and self.spec.get("int_truthiness"):
                # [C15] spec option "int_truthiness" (off by default): `if n:` on a Python int is `n != 0`
                c = ("(negb (%s =? 0))" % c[0], 'B')
            if c[1] != 'B':
                _fail(s, "condition of type %s" % (c[1],))
            if self.returns(s.body):
                return "if %s then (%s)\nelse (%s)" % (c[0], self.block(s.body, env, rtype),
                                                      self.block(list(s.orelse) + rest, env, rtype))
            if s.orelse and self.returns(s.orelse):
                return "if %s then (%s)\nelse (%s)" % (c[0], self.block(list(s.body) + rest, env, rtype),
                                                      self.block(s.orelse, env, rtype))
            if self.spec.get("inline_continuation") and not self.no_exit(s):
                # [C17] spec option "inline_continuation": an `if` that returns on some of its paths only (nested
                # `if ...: return` without else) is translated with the rest of the block copied into both branches:
                # if c then (body; rest) else (orelse; rest).  Same meaning, statements are pure lets.  Off by default.
                return "if %s then (%s)\nelse (%s)" % (c[0], self.block(list(s.body) + rest, env, rtype),
                                                      self.block(list(s.orelse) + rest, env, rtype))
            vs = self.live_assigned(s, env)
            if not vs:
                if self.spec.get("ignore_logging") and self.no_exit(s):
                    # [C13] only logging / branch-local names inside: no effect on what follows (a later use of a
                    # branch-local name is still rejected as an unknown name)
                    return self.block(rest, env, rtype)
                _fail(s, "if without effect")
            a_txt, a_types = self.branch(s.body, env, vs, s)
            b_txt, b_types = self.branch(s.orelse, env, vs, s)
            if a_types != b_types and self.spec.get("join_int_float"):     # [C13] int on one path, float on the other
                want = self.join_types(s, a_types, b_types)
                a_txt, a_types = self.branch(s.body, env, vs, s, want)
                b_txt, b_types = self.branch(s.orelse, env, vs, s, want)
            if a_types != b_types:
                _fail(s, "branches give different types %s / %s" % (a_types, b_types))
            env2 = dict(env)
            pats = []
            for v, t in zip(vs, a_types):
                nv = self.var(v, env2)
                env2[v] = (nv, t)
                pats.append(nv)
            pat = pats[0] if len(pats) == 1 else "'(" + ", ".join(pats) + ")"
            return "let %s := (if %s then %s else %s) in\n%s" % (pat, c[0], a_txt, b_txt,
                                                                self.block(rest, env2, rtype))
        _fail(s, "statement %s" % type(s).__name__)

    # [C13] ----- spec options "ignore_logging" / "join_int_float" (both off by default)
    def is_logging(self, s):
        if not self.spec.get("ignore_logging"):
            return False
        return isinstance(s, ast.Expr) and isinstance(s.value, ast.Call) and isinstance(s.value.func, ast.Attribute) \
            and isinstance(s.value.func.value, ast.Name) and s.value.func.value.id in ("logging", "logger", "LOG") \
            and s.value.func.attr in ("debug", "info", "warning", "error")

    def no_exit(self, s):
        """No return / raise anywhere inside statement s."""
        return not any(isinstance(n, (ast.Return, ast.Raise)) for n in ast.walk(s))

    def join_types(self, node, a_types, b_types):
        if len(a_types) != len(b_types):
            _fail(node, "branches assign different variables")
        out = []
        for x, y in zip(a_types, b_types):
            if x == y:
                out.append(x)
            elif {x, y} == {'Z', 'F'}:
                out.append('F')
            else:
                _fail(node, "branches give different types %s / %s" % (a_types, b_types))
        return out

    def branch(self, stmts, env, vs, node, want=None):
        """A fall-through branch as a tuple-valued expression over variables vs."""
        env2 = dict(env)
        lets = []
        todo = list(stmts)
        while todo:
            s = todo.pop(0)
            if isinstance(s, ast.Pass) or (isinstance(s, ast.Expr) and isinstance(s.value, ast.Constant)):
                continue
            if self.is_logging(s):      # [C13]
                continue
            if isinstance(s, ast.If) and self.static_cond(s.test, env2) is not None:   # [C14] live branch only
                todo = list(s.body if self.static_cond(s.test, env2) else s.orelse) + todo
                continue
            if isinstance(s, ast.Assign) and len(s.targets) == 1:
                tx = self.expr(s.value, env2)
                pat, env2 = self.bind(s.targets[0], tx, env2, s)
                lets.append("let %s := %s in " % (pat, tx[0]))
            elif isinstance(s, ast.AugAssign):
                fake = ast.BinOp(left=ast.Name(id=s.target.id, ctx=ast.Load()), op=s.op, right=s.value)
                ast.copy_location(fake, s)
                tx = self.expr(fake, env2)
                pat, env2 = self.bind(s.target, tx, env2, s)
                lets.append("let %s := %s in " % (pat, tx[0]))
            elif isinstance(s, ast.If) and not self.returns(s.body) and not (s.orelse and self.returns(s.orelse)):
                c = self.expr(s.test, env2)
                ivs = self.live_assigned(s, env2)
                a_txt, a_t = self.branch(s.body, env2, ivs, s)
                b_txt, b_t = self.branch(s.orelse, env2, ivs, s)
                if a_t != b_t and self.spec.get("join_int_float"):     # [C13]
                    jt = self.join_types(s, a_t, b_t)
                    a_txt, a_t = self.branch(s.body, env2, ivs, s, jt)
                    b_txt, b_t = self.branch(s.orelse, env2, ivs, s, jt)
                if a_t != b_t:
                    _fail(s, "nested branches give different types")
                pats = []
                for v, t in zip(ivs, a_t):
                    nv = self.var(v, env2)
                    env2[v] = (nv, t)
                    pats.append(nv)
                pat = pats[0] if len(pats) == 1 else "'(" + ", ".join(pats) + ")"
                lets.append("let %s := (if %s then %s else %s) in " % (pat, c[0], a_txt, b_txt))
            else:
                _fail(s, "statement %s inside a fall-through branch" % type(s).__name__)
        vals, types = [], []
        for v in vs:
            if v not in env2:
                _fail(node, "variable %s not defined on every path" % v)
            if want is not None and env2[v][1] != want[len(vals)]:      # [C13] promote to the joined type
                vals.append(self.promote(node, env2[v], want[len(vals)]))
                types.append(want[len(types)])
                continue
            vals.append(env2[v][0])
            types.append(env2[v][1])
        tup = vals[0] if len(vals) == 1 else "(" + ", ".join(vals) + ")"
        return "(" + "".join(lets) + tup + ")", types

    def coerce_ret(self, node, tx, rtype):
        if rtype is None or tx[1] == rtype:
            return self.wrap_ok(tx[0])
        if isinstance(rtype, tuple) and isinstance(tx[1], tuple) and len(rtype) == len(tx[1]):
            # element-wise int->float promotion is not attempted for tuples
            pass
        if tx[1] == 'Z' and rtype == 'F':
            return self.wrap_ok(self.promote(node, tx, 'F'))
        _fail(node, "return type %s, expected %s" % (tx[1], rtype))

    def wrap_ok(self, txt):
        if self.spec.get("monadic"):      # [C13] the function returns `res _`: a value is `Ok v`, a raise is the spec's "error"
            return "(Ok %s)" % txt
        return ("(Some %s)" % txt) if self.spec.get("option_result") else txt

    # [C13] ----- spec option "monadic" (off by default) with "res_calls": {python callee: [overload, ...]}.
    # A statement `target = callee(args, kw=...)` whose callee may raise is translated to
    #     bind (<coq> <args>) (fun target => <rest>)
    # An overload is {"args": [pattern, ...], "kw": [names], "coq": text, "ret": type} and is selected by the KINDS of the
    # actual arguments: pattern "_" = not looked at and not passed on; ["K", "text"] = that string literal; any other
    # pattern = the argument's type.  {"value": "tt"} / {"value": "arg<i>"} instead of "coq": the call is known to return
    # None / its i-th argument for these kinds (the callee's own specialisation is translated separately).
    def res_call(self, n, env):
        name = self.callname(n.func)
        overloads = self.spec.get("res_calls", {}).get(name)
        if overloads is None:
            return None
        if any(k.arg is None for k in n.keywords):
            _fail(n, "**kwargs in call to %s" % name)
        kws = sorted(n.keywords, key=lambda k: k.arg)
        actual = list(n.args) + [k.value for k in kws]
        for ov in overloads:
            pats = ov["args"]
            if sorted(ov.get("kw", [])) != [k.arg for k in kws] or len(pats) != len(actual):
                continue
            vals, ok = [], True
            for a, pt in zip(actual, pats):
                if pt == "_":
                    vals.append(None)
                elif isinstance(pt, list) and pt and pt[0] == "K":
                    if not (isinstance(a, ast.Constant) and a.value == pt[1]):
                        ok = False
                        break
                    vals.append(None)
                else:
                    try:
                        tx = self.expr(a, env)
                    except Untranslatable:
                        ok = False
                        break
                    if tx[1] != _tup(pt):
                        ok = False
                        break
                    vals.append(None if pt == "N" else tx)      # a None argument selects the overload, it is not passed on
            if not ok:
                continue
            if "value" in ov:
                if ov["value"] == "tt":
                    return ("static", "tt", 'N')
                tx = vals[int(ov["value"][3:])]
                if tx is None:
                    _fail(n, "res_calls: value refers to an argument that is not evaluated")
                return ("static", tx[0], tx[1])
            self.uses_T = True
            txt = "(%s%s)" % (ov["coq"], "".join(" " + v[0] for v in vals if v is not None))
            return ("bind", txt, _tup(ov["ret"]))
        _fail(n, "call to %s: no declared overload for these argument kinds" % name)

    def reduce_static(self, test, env):
        """[C13] `a and b`: operands decided True by the declared kinds are dropped (a False one decides the whole test)."""
        if isinstance(test, ast.BoolOp) and isinstance(test.op, ast.And):
            keep = [v for v in test.values if self.static_cond(v, env) is not True]
            if keep and len(keep) < len(test.values):
                return keep[0] if len(keep) == 1 else ast.copy_location(ast.BoolOp(op=ast.And(), values=keep), test)
        return test

    def translate(self):
        spec = self.spec
        env = {}
        binders = []
        params = [a.arg for a in self.fdef.args.args]
        defaults = self.fdef.args.defaults
        for p in params:
            if p in spec.get("drop_params", []):
                continue
            if p not in spec["params"]:
                raise Untranslatable("parameter %s has no declared type" % p)
            t = spec["params"][p]
            if isinstance(t, list):
                t = _tup(t)      # [C06] nested tuple types (a tuple of points); identical to tuple(t) for flat lists
            env[p] = (p, t)
            if t == 'F' or (isinstance(t, tuple) and 'F' in t):
                self.uses_T = True
            binders.append("(%s : %s)" % (p, coq_type(t)))
        for extra, t in spec.get("extra_env", {}).items():
            env[extra] = (extra, t)
        # [C17] spec option "oracles": extra binders in front of the parameters, written as Coq types; a binder of type "T"
        # (or "Z") is also a value name of the body (module constants, np.pi via expr_alias), function-typed ones are
        # reached through "calls" (np.sin, np.arctan2, ...).  Off by default.
        obinders = []
        for oname, ct in spec.get("oracles", {}).items():
            obinders.append("(%s : %s)" % (oname, ct))
            if ct in ("T", "Z"):
                env[oname] = (oname, 'F' if ct == "T" else 'Z')
            if "T" in ct.split():
                self.uses_T = True
        binders = obinders + binders
        # [C09] spec option "extra_params": locals of the function that are inputs of the translated tail (see "start_at")
        for extra, t in spec.get("extra_params", {}).items():
            t = _tup(t)
            env[extra] = (extra, t)
            if t == 'F' or (isinstance(t, tuple) and 'F' in t):
                self.uses_T = True
            binders.append("(%s : %s)" % (extra, coq_type(t)))
        rtype = spec.get("ret")
        if isinstance(rtype, list):
            rtype = _tup(rtype)
        stmts = list(self.fdef.body)
        # [C09] spec option "start_at": translate only the tail of the body that starts at the ONE top-level statement whose source
        # text begins with the given string (what the statements before it compute is declared in "extra_env"/"extra_binders");
        # fail-closed.  Off by default.
        if spec.get("start_at"):
            ks = [k for k, st in enumerate(stmts) if ast.unparse(st).startswith(spec["start_at"])]
            if len(ks) != 1:
                raise Untranslatable("start_at %r matches %d statements" % (spec["start_at"], len(ks)))
            for st in stmts[:ks[0]]:
                if any(isinstance(nd, (ast.Return, ast.Raise)) for nd in ast.walk(st)):
                    raise Untranslatable("return/raise before start_at")
            stmts = stmts[ks[0]:]
        body = self.block(stmts, env, rtype)
        rt = coq_type(rtype) if rtype else None
        if spec.get("option_result") and rt:
            rt = "option %s" % rt
        head = "Definition %s %s%s :=\n" % (spec["coq_name"], " ".join(binders), (" : " + rt) if rt else "")
        return head + textwrap.indent(body, "  ") + "."


# [C09] ----- Cython kernels: `cdef inline void f(typed params) noexcept nogil:` with a typed-declaration prologue and a
# final loop over the bands `for i in range(z_size): res[i] = EXPR(data[i, a, b])` (or plain `res[k] = EXPR` stores).
# Rewritten, fail-closed, to the Python function of ONE band: def f(params): ...; return EXPR(data(a, b)).
def cython_to_python(src, qualname):
    lines = src.split("\n")
    head = None
    for k, ln in enumerate(lines):
        if re.match(r"^c?p?def\s+(?:inline\s+)?(?:[\w\[\], :.]+?\s+)?%s\s*\(" % re.escape(qualname), ln):
            head = k
            break
    if head is None:
        raise Untranslatable("cython function %s not found" % qualname)
    sig = lines[head]
    k = head
    while sig.count("(") > sig.count(")") or not sig.rstrip().endswith(":"):
        k += 1
        sig += " " + lines[k].strip()
    m = re.match(r"^c?p?def\s+(?:inline\s+)?(?:[\w\[\], :.]+?\s+)?%s\s*\((.*)\)\s*(?:noexcept)?\s*(?:nogil)?\s*:\s*$" % re.escape(qualname), sig)
    if not m:
        raise Untranslatable("cython signature of %s" % qualname)
    params = []
    depth, cur = 0, ""
    for ch in m.group(1):
        if ch in "[(":
            depth += 1
        if ch in "])":
            depth -= 1
        if ch == "," and depth == 0:
            params.append(cur)
            cur = ""
        else:
            cur += ch
    params.append(cur)
    names = []
    for prm in params:
        mm = re.search(r"(\w+)\s*(?:=.*)?$", prm.strip())
        if not mm:
            raise Untranslatable("cython parameter %r" % prm)
        names.append(mm.group(1))
    body = []
    k += 1
    while k < len(lines) and (not lines[k].strip() or lines[k].startswith((" ", "\t"))):
        body.append(lines[k])
        k += 1
    # join physical lines of one statement (open brackets)
    stmts, cur = [], ""
    for ln in body:
        code = ln.split("#")[0].rstrip()
        if not code.strip():
            continue
        cur = (cur + " " + code.strip()) if cur else code
        if cur.count("(") + cur.count("[") == cur.count(")") + cur.count("]"):
            stmts.append(cur)
            cur = ""
    if cur:
        raise Untranslatable("unbalanced brackets in %s" % qualname)
    out, stores = [], {}
    k = 0
    while k < len(stmts):
        st = stmts[k]
        ind = len(st) - len(st.lstrip())
        t = st.strip()
        if t.startswith("cdef "):
            if "=" in t and not re.match(r"^cdef\s+size_t\s+z_size\s*=\s*res\.shape\[0\]$", t):
                raise Untranslatable("cdef with initialiser: %s" % t)
            k += 1
            continue
        t = re.sub(r"<\s*\w+\s*>", "", t)          # C casts
        mm = re.match(r"^for\s+(\w+)\s+in\s+range\(z_size\)\s*:$", t)
        if mm:
            if k + 2 != len(stmts):
                raise Untranslatable("band loop is not the last statement of %s" % qualname)
            i = mm.group(1)
            inner = re.sub(r"<\s*\w+\s*>", "", stmts[k + 1].strip())
            m2 = re.match(r"^res\[%s\]\s*=\s*(.*)$" % i, inner)
            if not m2:
                raise Untranslatable("band loop body: %s" % inner)
            expr = re.sub(r"data\[\s*%s\s*,([^\]]*)\]" % i, r"data(\1)", m2.group(1))
            if re.search(r"\b%s\b" % i, expr):
                raise Untranslatable("band index used outside data[i, ., .]")
            out.append(" " * ind + "return " + expr)
            k += 2
            continue
        mm = re.match(r"^res\[(\d+)\]\s*=\s*(.*)$", t)
        if mm:
            if ind != len(stmts[0]) - len(stmts[0].lstrip()):
                raise Untranslatable("conditional store into res")
            stores[int(mm.group(1))] = mm.group(2)
            k += 1
            continue
        out.append(" " * ind + t)
        k += 1
    if stores:
        if sorted(stores) != list(range(len(stores))):
            raise Untranslatable("stores into res are not res[0..n-1]")
        ind = len(stmts[0]) - len(stmts[0].lstrip())
        out.append(" " * ind + "return (" + ", ".join(stores[j] for j in range(len(stores))) + ")")
    return "def %s(%s):\n%s\n" % (qualname, ", ".join(names), "\n".join(out))


def find_function(tree, qualname):
    parts = qualname.split(".")
    body = tree.body
    node = None
    for p in parts:
        node = None
        for s in body:
            if isinstance(s, (ast.FunctionDef, ast.ClassDef)) and s.name == p:
                node = s
                break
        if node is None:
            raise Untranslatable("function %s not found" % qualname)
        body = node.body
    if not isinstance(node, ast.FunctionDef):
        raise Untranslatable("%s is not a function" % qualname)
    return node


# [C08] ----- spec option "slice_call": {"func": "<callee as written>", "args": [i, ...]}.  The function is reduced to the
# backward slice of the selected positional arguments of its ONE call of <callee>: the top-level single-name assignments
# (before the call) those arguments depend on, in source order, followed by `return (arg_i, ...)`.  Robust against
# renaming locals and reordering independent statements; fails closed when a needed name is bound anywhere else
# (tuple targets, augmented assignment, inside if/try/for/with, walrus, ...).
def slice_call(fdef, opt):
    calls = [n for n in ast.walk(fdef) if isinstance(n, ast.Call) and ast.unparse(n.func) == opt["func"]]
    if len(calls) != 1:
        raise Untranslatable("slice_call: expected exactly one call of %s, found %d" % (opt["func"], len(calls)))
    call = calls[0]
    if call.keywords or any(isinstance(a, ast.Starred) for a in call.args) or len(call.args) <= max(opt["args"]):
        raise Untranslatable("slice_call: unexpected argument list of %s" % opt["func"])
    rets = [call.args[i] for i in opt["args"]]
    params = {a.arg for a in fdef.args.args}
    top = {}
    for st in fdef.body:
        if isinstance(st, ast.Assign) and len(st.targets) == 1 and isinstance(st.targets[0], ast.Name) and st.end_lineno < call.lineno:
            top.setdefault(st.targets[0].id, []).append(st)
    bound = {}
    for n in ast.walk(fdef):
        if isinstance(n, ast.Name) and isinstance(n.ctx, (ast.Store, ast.Del)):
            bound[n.id] = bound.get(n.id, 0) + 1
        elif isinstance(n, (ast.ExceptHandler,)) and n.name:
            bound[n.name] = bound.get(n.name, 0) + 1

    def loads(e):
        return {n.id for n in ast.walk(e) if isinstance(n, ast.Name) and isinstance(n.ctx, ast.Load)}
    needed, keep, todo = set(), [], set().union(*[loads(e) for e in rets]) if rets else set()
    while todo:
        name = todo.pop()
        if name in needed or name in params:
            continue
        needed.add(name)
        if name not in top:
            continue        # a global / module name: the expression translator decides (fails closed on unknown names)
        if bound.get(name, 0) != 1 or len(top[name]) != 1:
            raise Untranslatable("slice_call: %s is bound more than once" % name)
        keep.append(top[name][0])
        todo |= loads(top[name][0].value)
    keep.sort(key=lambda st: st.lineno)
    ret = ast.Return(value=ast.Tuple(elts=rets, ctx=ast.Load()))
    new = ast.FunctionDef(name=fdef.name, args=fdef.args, body=keep + [ret], decorator_list=[], returns=None, type_comment=None)
    ast.copy_location(new, fdef)
    ast.copy_location(ret, call)
    new.end_lineno = fdef.end_lineno
    return ast.fix_missing_locations(new)


# [C08] ----- spec option "cython_loop": the body of the ONE innermost `for <row> ... for <col> ...` element loop of a Cython
# function, as a loop-free Python function of one element.  {"vars": [row, col], "loads": [arrays read at [row, col]],
# "stores": [arrays written at [row, col]], "counter": name, "params": [scalars of the signature used by the body]}.
#   `name = A[row, col]` (A in loads, leading statements)  -> `name` becomes a parameter
#   `A[row, col] = e`    (A in stores)                      -> `out_A = e`
#   `counter += 1`                                          -> `counted = True`  (initially False)
#   `continue` / end of body                                -> `return (out_A.., counted)`
# Anything else that mentions the loop variables fails closed.
def cython_loop_to_python(src, qualname, opt):
    lines = src.split("\n")
    heads = [k for k, ln in enumerate(lines) if re.match(r"^def\s+%s\s*\(" % re.escape(qualname), ln)]
    if len(heads) != 1:
        raise Untranslatable("cython_loop: def %s not found" % qualname)
    end = heads[0] + 1
    while end < len(lines) and (not lines[end].strip() or lines[end][0] in " \t" or lines[end].lstrip().startswith((")", "#"))):
        end += 1
    rv, cv = opt["vars"]
    nests = []
    for k in range(heads[0], end):
        m = re.match(r"^(\s*)for\s+%s\s+in\s+range\(\w+\)\s*:\s*$" % re.escape(cv), lines[k])
        if m:
            j = k - 1
            while j > heads[0] and not lines[j].strip():
                j -= 1
            mo = re.match(r"^(\s*)for\s+%s\s+in\s+range\(\w+\)\s*:\s*$" % re.escape(rv), lines[j])
            if not mo or len(mo.group(1)) >= len(m.group(1)):
                raise Untranslatable("cython_loop: the %s loop is not directly inside a %s loop" % (cv, rv))
            nests.append((k, len(m.group(1))))
    if len(nests) != 1:
        raise Untranslatable("cython_loop: expected one %s/%s loop nest in %s, found %d" % (rv, cv, qualname, len(nests)))
    k0, ind0 = nests[0]
    body = []
    k = k0 + 1
    while k < end and (not lines[k].strip() or len(lines[k]) - len(lines[k].lstrip()) > ind0):
        code = lines[k].split("#")[0].rstrip()
        if code.strip():
            body.append(code)
        k += 1
    if not body:
        raise Untranslatable("cython_loop: empty loop body")
    base = min(len(b) - len(b.lstrip()) for b in body)
    idx = r"\[\s*%s\s*,\s*%s\s*\]" % (re.escape(rv), re.escape(cv))
    outs = ["out_" + a for a in opt["stores"]]
    ret = "return (%s)" % ", ".join(outs + ["counted"])
    loaded, out, leading = [], [], True
    for b in body:
        ind, t = " " * (len(b) - len(b.lstrip()) - base + 4), b.strip()
        m = re.match(r"^(\w+)\s*=\s*(\w+)%s$" % idx, t)
        if m and m.group(2) in opt["loads"]:
            if not leading or len(ind) != 4 or m.group(1) in loaded:
                raise Untranslatable("cython_loop: element load is not a leading statement: %s" % t)
            loaded.append(m.group(1))
            continue
        leading = False
        m = re.match(r"^(\w+)%s\s*=\s*(.+)$" % idx, t)
        if m and m.group(1) in opt["stores"]:
            t = "out_%s = %s" % (m.group(1), m.group(2))
        elif re.match(r"^%s\s*\+=\s*1$" % re.escape(opt["counter"]), t):
            t = "counted = True"
        elif t == "continue":
            t = ret
        if re.search(r"\b(%s|%s|%s)\b" % (re.escape(rv), re.escape(cv), re.escape(opt["counter"])), t) or "[" in t:
            raise Untranslatable("cython_loop: statement outside the element-wise subset: %s" % b.strip())
        out.append(ind + t)
    if len(loaded) != len(opt["loads"]):
        raise Untranslatable("cython_loop: expected loads from %s" % opt["loads"])
    text = "def %s(%s):\n    counted = False\n%s\n    %s\n" % (qualname, ", ".join(loaded + list(opt["params"])), "\n".join(out), ret)
    try:
        ast.parse(text)
    except SyntaxError as e:
        raise Untranslatable("cython_loop: reduced body is not Python: %s" % e)
    return text


# [C05] ----- spec option "slice_assign": {"name": v}: the function is read as `def f(<declared params>): return <expr>` where
# <expr> is the right-hand side of the ONE plain assignment `v = <expr>` anywhere in the function body; the names the
# expression reads are the declared "params" (locals or arguments of the host function, seen for one array element when
# combined with "elementwise").  Robust against edits elsewhere in the host function; fails closed when `v` is assigned by
# zero or several plain assignments (augmented assignments `v &= ...` are other statements and do not count).
def slice_assign(fdef, opt, params):
    pool = fdef.body if opt.get("top_level") else ast.walk(fdef)     # "top_level": only statements of the body itself
    hits = [st for st in pool if isinstance(st, ast.Assign) and len(st.targets) == 1
            and isinstance(st.targets[0], ast.Name) and st.targets[0].id == opt["name"]]
    if len(hits) != 1:
        raise Untranslatable("slice_assign: expected exactly one plain assignment of %s, found %d" % (opt["name"], len(hits)))
    st = hits[0]
    value = st.value
    if opt.get("rename_free"):
        # "rename_free": [p1, p2, ...]: the free variables of the expression (names read, other than the base of an
        # attribute access such as `np.` / `kdtree.`), in order of first occurrence, are bound positionally to these
        # declared parameters -- renaming a local of the host function then leaves the generated definition unchanged
        class _Free(ast.NodeVisitor):
            def __init__(self):
                self.names = []

            def visit_Attribute(self, n):
                if not isinstance(n.value, ast.Name):
                    self.visit(n.value)

            def visit_Name(self, n):
                if isinstance(n.ctx, ast.Load) and n.id not in self.names:
                    self.names.append(n.id)
        fv = _Free()
        fv.visit(value)
        want = list(opt["rename_free"])
        if len(fv.names) != len(want):
            raise Untranslatable("slice_assign: %s reads %s, expected %d free variables" % (opt["name"], fv.names, len(want)))
        ren = dict(zip(fv.names, want))
        if sorted(ren.values()) != sorted(set(ren.values())):
            raise Untranslatable("slice_assign: duplicate parameter in rename_free")

        class _Ren(ast.NodeTransformer):
            def visit_Attribute(self, n):
                if not isinstance(n.value, ast.Name):
                    n.value = self.visit(n.value)
                return n

            def visit_Name(self, n):
                return ast.copy_location(ast.Name(id=ren[n.id], ctx=n.ctx), n) if isinstance(n.ctx, ast.Load) and n.id in ren else n
        import copy
        value = _Ren().visit(copy.deepcopy(value))
    ret = ast.Return(value=value)
    args = ast.arguments(posonlyargs=[], args=[ast.arg(arg=p) for p in params], kwonlyargs=[], kw_defaults=[], defaults=[])
    new = ast.FunctionDef(name=fdef.name, args=args, body=[ret], decorator_list=[], returns=None, type_comment=None)
    ast.copy_location(new, st)
    ast.copy_location(ret, st)
    new.end_lineno = st.end_lineno
    return ast.fix_missing_locations(new)


# [C04] ----- spec option "extract": translate a loop-free fragment of a function that as a whole is a loop over numpy arrays,
# read element-wise (one target location, one column, one neighbour slot):
#   {"kind": "for_body", "nth": k}            the body of the k-th `for` statement of the function, in source order
#   {"kind": "block", "first": "<text>", "n": N}   N consecutive statements starting at the one whose ast.unparse is <text>
#   {"kind": "lambda_return"}                 `def f(a): return lambda r: E`  ->  f(a, r) = E
#   "params": [names]      parameters of the fragment (free names and accumulators), in this order
#   "returns": [names]     names returned after the fragment (for_body / block)
#   "assume": {"<test text>": bool}   an `if` with exactly this test keeps only the live branch (specialisation, e.g. to ndim)
#   "identity_calls": [callee]        calls that are the identity element-wise (np.expand_dims(x, axis=1)): replaced by x
#   "masks": ["<mask text>"] or {"<subscript text>": "<mask expression>"}
#                                     boolean-mask stores `X[M] = E` / `X[M] op= E` with M one of these texts become
#                                     X = np.where(M, E', X) / X = np.where(M, X op E', X), E' = E with Y[M] read as Y;
#   "masked_loads": true              plain `v = Y[M]` is read as v = Y (v is only used under the same mask afterwards)
# Everything else goes through the unchanged fail-closed translator.  Off by default: no effect on other specs.
def extract_fragment(fdef, opt):
    kind = opt["kind"]
    if kind == "lambda_return":
        if len(fdef.body) < 1 or not isinstance(fdef.body[-1], ast.Return) or not isinstance(fdef.body[-1].value, ast.Lambda):
            raise Untranslatable("extract: %s does not end in `return lambda`" % fdef.name)
        rest = [st for st in fdef.body[:-1] if not (isinstance(st, ast.Expr) and isinstance(st.value, ast.Constant))]
        if rest:
            raise Untranslatable("extract: statements before `return lambda` in %s" % fdef.name)
        lam = fdef.body[-1].value
        args = ast.arguments(posonlyargs=[], args=list(fdef.args.args) + list(lam.args.args), vararg=None, kwonlyargs=[],
                             kw_defaults=[], kwarg=None, defaults=[])
        new = ast.FunctionDef(name=fdef.name, args=args, body=[ast.Return(value=lam.body)], decorator_list=[], returns=None,
                              type_comment=None)
        ast.copy_location(new, fdef)
        new.end_lineno = fdef.end_lineno
        return ast.fix_missing_locations(new)
    if kind == "for_body":
        loops = [st for st in ast.walk(fdef) if isinstance(st, ast.For)]
        loops.sort(key=lambda st: (st.lineno, st.col_offset))
        if not 0 <= opt["nth"] < len(loops):
            raise Untranslatable("extract: %s has %d for statements" % (fdef.name, len(loops)))
        loop = loops[opt["nth"]]
        if loop.orelse:
            raise Untranslatable("extract: for ... else")
        stmts, anchor = list(loop.body), loop
    elif kind == "block":
        found = None
        for parent in ast.walk(fdef):
            for field in ("body", "orelse"):
                seq = getattr(parent, field, None)
                if isinstance(seq, list):
                    for i, st in enumerate(seq):
                        if isinstance(st, ast.stmt) and ast.unparse(st) == opt["first"]:
                            if found is not None:
                                raise Untranslatable("extract: statement %r occurs twice" % opt["first"])
                            found = (seq, i)
        if found is None:
            raise Untranslatable("extract: statement %r not found in %s" % (opt["first"], fdef.name))
        seq, i = found
        if i + opt["n"] > len(seq):
            raise Untranslatable("extract: block runs past the end of its suite")
        stmts, anchor = seq[i:i + opt["n"]], seq[i]
    else:
        raise Untranslatable("extract: unknown kind %r" % kind)
    assume = opt.get("assume", {})
    masks = opt.get("masks", {})        # slice text -> mask expression text (a list means: the slice itself is the mask)
    if isinstance(masks, list):
        masks = {m: m for m in masks}
    ident = set(opt.get("identity_calls", []))

    class Rw(ast.NodeTransformer):
        def visit_Call(self, n):
            self.generic_visit(n)
            if ast.unparse(n.func) in ident:
                if not n.args:
                    raise Untranslatable("extract: identity call without argument")
                return n.args[0]
            return n

    def unmask(e, mtext):
        class U(ast.NodeTransformer):
            def visit_Subscript(self, n):
                self.generic_visit(n)
                if ast.unparse(n.slice) == mtext and isinstance(n.ctx, ast.Load):
                    return n.value
                return n
        return U().visit(e)

    def where(m, a, b):
        return ast.Call(func=ast.Attribute(value=ast.Name(id="np", ctx=ast.Load()), attr="where", ctx=ast.Load()),
                        args=[m, a, b], keywords=[])

    def rewrite(sts):
        out = []
        for st in sts:
            if isinstance(st, ast.If) and ast.unparse(st.test) in assume:
                out.extend(rewrite(st.body if assume[ast.unparse(st.test)] else st.orelse))
                continue
            if isinstance(st, ast.If):
                st = ast.If(test=st.test, body=rewrite(st.body), orelse=rewrite(st.orelse))
            tgt = st.targets[0] if isinstance(st, ast.Assign) and len(st.targets) == 1 else \
                (st.target if isinstance(st, ast.AugAssign) else None)
            if isinstance(tgt, ast.Subscript) and isinstance(tgt.value, ast.Name) and ast.unparse(tgt.slice) in masks:
                mtext = ast.unparse(tgt.slice)
                x = ast.Name(id=tgt.value.id, ctx=ast.Load())
                val = unmask(st.value, mtext)
                if isinstance(st, ast.AugAssign):
                    val = ast.BinOp(left=ast.Name(id=tgt.value.id, ctx=ast.Load()), op=st.op, right=val)
                mexpr = ast.parse(masks[mtext], mode="eval").body
                st = ast.Assign(targets=[ast.Name(id=tgt.value.id, ctx=ast.Store())], value=where(mexpr, val, x))
            elif isinstance(st, ast.Assign) and opt.get("masked_loads"):
                # `v = Y[M]` with M a declared mask: element-wise the value of Y (only used under the same mask afterwards)
                val = st.value
                for mtext in masks:
                    val = unmask(val, mtext)
                st = ast.Assign(targets=st.targets, value=val)
            out.append(Rw().visit(st))
        return out
    body = rewrite(stmts)
    ret = ast.Return(value=ast.Tuple(elts=[ast.Name(id=r, ctx=ast.Load()) for r in opt["returns"]], ctx=ast.Load())
                     if len(opt["returns"]) != 1 else ast.Name(id=opt["returns"][0], ctx=ast.Load()))
    args = ast.arguments(posonlyargs=[], args=[ast.arg(arg=a) for a in opt["params"]], vararg=None, kwonlyargs=[],
                         kw_defaults=[], kwarg=None, defaults=[])
    new = ast.FunctionDef(name=fdef.name, args=args, body=body + [ret], decorator_list=[], returns=None, type_comment=None)
    ast.copy_location(new, anchor)
    new.end_lineno = getattr(stmts[-1], "end_lineno", anchor.lineno)
    return ast.fix_missing_locations(new)


# [C18] ----- element-wise numpy recipes embedded in functions whose other statements are plumbing (Proj construction, dask
# map_blocks, masked-array wrapping).  Both transforms are fail-closed AST rewrites; off by default.
class _MaskedAssign(ast.NodeTransformer):
    """spec option "masked_assign":  X[M] = V  (X a plain name)  ->  X = np.where(M, V, X)   (element-wise meaning)."""

    def visit_Assign(self, node):
        self.generic_visit(node)
        if len(node.targets) == 1 and isinstance(node.targets[0], ast.Subscript) and isinstance(node.targets[0].value, ast.Name) \
                and not isinstance(node.targets[0].slice, (ast.Tuple, ast.Slice, ast.Constant)):
            t = node.targets[0]
            name = t.value.id
            call = ast.Call(func=ast.Attribute(value=ast.Name(id="np", ctx=ast.Load()), attr="where", ctx=ast.Load()),
                            args=[t.slice, node.value, ast.Name(id=name, ctx=ast.Load())], keywords=[])
            new = ast.Assign(targets=[ast.Name(id=name, ctx=ast.Store())], value=call)
            return ast.fix_missing_locations(ast.copy_location(new, node))
        return node


def slice_vars(fdef, opt):
    """spec option "slice_vars": {"inputs": [names], "outputs": [names], "self_attrs": [attrs]}.
    The function of the `inputs` (values produced by an oracle call: the first top-level statement binding them is cut)
    computing the `outputs`, made of the top-level assignments the outputs depend on, in source order.
    `self.<attr> = V` for attr in self_attrs counts as an assignment to the name self__<attr>.
    Fails if an output is never assigned or if a needed name is (re)bound inside a nested block."""
    inputs, outputs = list(opt["inputs"]), opt["outputs"]
    self_attrs = set(opt.get("self_attrs", []))
    if opt.get("inputs_from_call"):
        # the inputs are, by position, the targets of the first top-level `a, b = <call>(...)`; whatever the source calls
        # them, they are renamed to the declared input names (so renaming these locals in the source changes nothing)
        hit = None
        for st in fdef.body:
            if isinstance(st, ast.Assign) and len(st.targets) == 1 and isinstance(st.targets[0], ast.Tuple) \
                    and all(isinstance(e, ast.Name) for e in st.targets[0].elts) and isinstance(st.value, ast.Call) \
                    and len(st.targets[0].elts) == len(inputs):
                hit = st
                break
        if hit is None:
            raise Untranslatable("slice_vars: no top-level `a, b = call(...)` with %d targets" % len(inputs))
        ren = {e.id: new for e, new in zip(hit.targets[0].elts, inputs) if e.id != new}
        clash = set(ren.values()) & {n.id for n in ast.walk(fdef) if isinstance(n, ast.Name)} - set(ren)
        if ren and clash:
            raise Untranslatable("slice_vars: declared input names %s already used in the function" % sorted(clash))

        class _Ren(ast.NodeTransformer):
            def visit_Name(self, node):
                return ast.copy_location(ast.Name(id=ren.get(node.id, node.id), ctx=node.ctx), node)
        if ren:
            fdef = _Ren().visit(fdef)
    if outputs == "return":
        # the outputs are the names returned by the last top-level statement `return a, b`
        last = fdef.body[-1]
        if not isinstance(last, ast.Return) or last.value is None:
            raise Untranslatable("slice_vars: the function does not end in a return")
        elts = last.value.elts if isinstance(last.value, ast.Tuple) else [last.value]
        if not all(isinstance(e, ast.Name) for e in elts):
            raise Untranslatable("slice_vars: the returned expressions are not plain names")
        outputs = [e.id for e in elts]
    outputs = list(outputs)

    def targets(st):
        if not isinstance(st, ast.Assign) or len(st.targets) != 1:
            return None
        t = st.targets[0]
        if isinstance(t, ast.Name):
            return [t.id]
        if isinstance(t, ast.Tuple) and all(isinstance(e, ast.Name) for e in t.elts):
            return [e.id for e in t.elts]
        if isinstance(t, ast.Attribute) and isinstance(t.value, ast.Name) and t.value.id == "self" and t.attr in self_attrs:
            return ["self__" + t.attr]
        return None

    def loads(e):
        return {n.id for n in ast.walk(e) if isinstance(n, ast.Name) and isinstance(n.ctx, ast.Load)}
    body = list(fdef.body)
    cut = None
    first = {}
    for k, st in enumerate(body):
        ts = targets(st)
        if ts and set(ts) & set(inputs):
            if not set(ts) <= set(inputs):
                raise Untranslatable("slice_vars: the statement binding the inputs also binds %s" % sorted(set(ts) - set(inputs)))
            for t in ts:
                first.setdefault(t, k)
        if len(first) == len(set(inputs)):
            break
    if inputs and len(first) == len(set(inputs)):
        cut = max(first.values())     # everything up to the last first-binding of an input is the oracle side
    if cut is None and not inputs:
        cut = -1            # no oracle call to cut: the outputs are functions of the parameters
    if cut is None:
        raise Untranslatable("slice_vars: inputs %s are not assigned at top level" % inputs)
    tail = body[cut + 1:]
    nested = set()
    for st in tail:
        if targets(st) is None:
            for n in ast.walk(st):
                if isinstance(n, ast.Name) and isinstance(n.ctx, ast.Store):    # `del x` frees memory, it binds nothing
                    nested.add(n.id)
    needed, keep = set(outputs), []
    for st in reversed(tail):
        ts = targets(st)
        if ts and set(ts) & needed:
            keep.append(st)
            needed |= loads(st.value)
    keep.reverse()
    bad = (needed & nested) - set(inputs)
    if bad:
        raise Untranslatable("slice_vars: %s bound inside a nested block" % sorted(bad))
    bound = set(inputs)
    new_body = []
    for st in keep:
        ts = targets(st)
        if isinstance(st.targets[0], ast.Attribute):
            st = ast.copy_location(ast.Assign(targets=[ast.Name(id=ts[0], ctx=ast.Store())], value=st.value), st)
        new_body.append(st)
        bound |= set(ts)
    missing = [o for o in outputs if o not in bound]
    if missing:
        raise Untranslatable("slice_vars: outputs %s are never assigned" % missing)
    ret = ast.Return(value=ast.Tuple(elts=[ast.Name(id=o, ctx=ast.Load()) for o in outputs], ctx=ast.Load()))
    args = ast.arguments(posonlyargs=[], args=list(fdef.args.args) + [ast.arg(arg=i) for i in inputs], vararg=None,
                         kwonlyargs=[], kw_defaults=[], kwarg=None, defaults=[])
    new = ast.FunctionDef(name=fdef.name, args=args, body=new_body + [ret], decorator_list=[], returns=None, type_comment=None)
    ast.copy_location(new, fdef)
    ast.copy_location(ret, body[-1])
    new.end_lineno = fdef.end_lineno
    return ast.fix_missing_locations(new)


# [C02] ----- spec option "slice_mask": {"inputs": [type, ...]}.  The function is reduced to the ONE validity-mask expression
# it computes element-wise: top-level single-name assignments whose right-hand side is built only from comparisons, `& | ~`,
# names and numeric constants are "mask assignments"; names bound exactly once (in the whole function) to a mask assignment
# are inlined; the root is the unique mask assignment that (after inlining) contains a comparison and is not inlined into
# another one.  The result is `def f(<free names>): return <root expression>` (names compared with something first, then
# plain mask names, each group in order of first use); the spec declares the types of the free names positionally.  Robust against renaming locals, splitting the mask into named parts and reordering
# independent statements; fails closed otherwise.
def slice_mask(fdef, spec):
    opt = spec["slice_mask"]

    def is_mask(e):
        if isinstance(e, ast.Compare):
            return all(is_operand(x) for x in [e.left] + e.comparators)
        if isinstance(e, ast.BinOp) and isinstance(e.op, (ast.BitAnd, ast.BitOr)):
            return is_mask(e.left) and is_mask(e.right)
        if isinstance(e, ast.UnaryOp) and isinstance(e.op, ast.Invert):
            return is_mask(e.operand)
        return isinstance(e, ast.Name)

    def is_operand(e):
        if isinstance(e, ast.UnaryOp) and isinstance(e.op, (ast.USub, ast.UAdd)):
            return is_operand(e.operand)
        return isinstance(e, ast.Name) or (isinstance(e, ast.Constant) and isinstance(e.value, (int, float))
                                           and not isinstance(e.value, bool))

    bound = {}
    for n in ast.walk(fdef):
        if isinstance(n, ast.Name) and isinstance(n.ctx, (ast.Store, ast.Del)):
            bound[n.id] = bound.get(n.id, 0) + 1
    for a in fdef.args.args + fdef.args.kwonlyargs:
        bound[a.arg] = bound.get(a.arg, 0) + 1
    cands = [st for st in fdef.body if isinstance(st, ast.Assign) and len(st.targets) == 1
             and isinstance(st.targets[0], ast.Name) and is_mask(st.value) and not isinstance(st.value, ast.Name)]
    once = {st.targets[0].id: st for st in cands if bound.get(st.targets[0].id, 0) == 1}

    def inline(e, depth=0):
        if depth > 20:
            raise Untranslatable("slice_mask: cyclic mask definitions")
        if isinstance(e, ast.Name) and e.id in once:
            return inline(once[e.id].value, depth + 1)
        if isinstance(e, ast.BinOp):
            return ast.BinOp(left=inline(e.left, depth), op=e.op, right=inline(e.right, depth))
        if isinstance(e, ast.UnaryOp) and isinstance(e.op, ast.Invert):
            return ast.UnaryOp(op=e.op, operand=inline(e.operand, depth))
        return e

    def names(e):
        return [n.id for n in ast.walk(e) if isinstance(n, ast.Name)]
    used = set()
    for st in cands:
        used |= {x for x in names(st.value) if x in once and x != st.targets[0].id}
    roots = []
    for st in cands:
        if st.targets[0].id in used and st.targets[0].id in once:
            continue
        e = inline(st.value)
        if any(isinstance(n, ast.Compare) for n in ast.walk(e)):
            roots.append((st, e))
    if len(roots) != 1:
        raise Untranslatable("slice_mask: expected exactly one validity-mask expression, found %d" % len(roots))
    st, e = roots[0]
    # free names: first the operands of comparisons (element values), then the remaining ones (masks), each group in
    # order of first use -- so that `a & mask` / `mask & a` give the same parameter list
    in_cmp = {n.id for c in ast.walk(e) if isinstance(c, ast.Compare) for n in ast.walk(c) if isinstance(n, ast.Name)}
    free, rest = [], []
    for n in sorted((n for n in ast.walk(e) if isinstance(n, ast.Name)), key=lambda n: (n.lineno, n.col_offset)):
        grp = free if n.id in in_cmp else rest
        if n.id not in grp:
            grp.append(n.id)
    free += rest
    if len(free) != len(opt["inputs"]):
        raise Untranslatable("slice_mask: mask reads %s, spec declares %d inputs" % (free, len(opt["inputs"])))
    args = ast.arguments(posonlyargs=[], args=[ast.arg(arg=x) for x in free], vararg=None, kwonlyargs=[], kw_defaults=[],
                         kwarg=None, defaults=[])
    ret = ast.Return(value=e)
    new = ast.FunctionDef(name=fdef.name, args=args, body=[ret], decorator_list=[], returns=None, type_comment=None)
    ast.copy_location(new, st)
    ast.copy_location(ret, st)
    new.end_lineno = st.end_lineno
    spec2 = dict(spec)
    spec2["params"] = dict(zip(free, opt["inputs"]))
    return ast.fix_missing_locations(new), spec2



# [C14] ----- spec option "slice_test": {"func": "<callee as written>", "cut": [names]}.  The function is reduced to the
# test of the top-level `if` statement that guards its ONE call of <callee>, preceded by the backward slice of the
# top-level single-name assignments the test depends on (as in slice_call).  Names in "cut" are inputs of the generated
# definition (declared in "extra_env"/"extra_binders"): the values they hold when the test is evaluated.
def slice_test(fdef, opt):
    calls = [n for n in ast.walk(fdef) if isinstance(n, ast.Call) and ast.unparse(n.func) == opt["func"]]
    if len(calls) != 1:
        raise Untranslatable("slice_test: expected exactly one call of %s, found %d" % (opt["func"], len(calls)))
    guards = [st for st in fdef.body if isinstance(st, ast.If) and any(n is calls[0] for b in st.body for n in ast.walk(b))]
    if len(guards) != 1:
        raise Untranslatable("slice_test: the call of %s is not guarded by one top-level if" % opt["func"])
    guard = guards[0]
    cut = set(opt.get("cut", []))
    params = {a.arg for a in fdef.args.args}
    top, bound = {}, {}
    for st in fdef.body:
        if isinstance(st, ast.Assign) and len(st.targets) == 1 and isinstance(st.targets[0], ast.Name) and st.end_lineno < guard.lineno:
            top.setdefault(st.targets[0].id, []).append(st)
    for n in ast.walk(fdef):
        if isinstance(n, ast.Name) and isinstance(n.ctx, (ast.Store, ast.Del)):
            bound[n.id] = bound.get(n.id, 0) + 1

    def loads(e):
        return {n.id for n in ast.walk(e) if isinstance(n, ast.Name) and isinstance(n.ctx, ast.Load)}
    needed, keep, todo = set(), [], loads(guard.test)
    while todo:
        name = todo.pop()
        if name in needed or name in params or name in cut:
            continue
        needed.add(name)
        if name not in top:
            continue
        if bound.get(name, 0) != 1 or len(top[name]) != 1:
            raise Untranslatable("slice_test: %s is bound more than once" % name)
        keep.append(top[name][0])
        todo |= loads(top[name][0].value)
    keep.sort(key=lambda st: st.lineno)
    ret = ast.Return(value=guard.test)
    new = ast.FunctionDef(name=fdef.name, args=fdef.args, body=keep + [ret], decorator_list=[], returns=None, type_comment=None)
    ast.copy_location(new, fdef)
    ast.copy_location(ret, guard)
    new.end_lineno = fdef.end_lineno
    return ast.fix_missing_locations(new)


# [C12] ----- spec option "state_prepass": methods that read/write memoised state on `self` or feed a hashlib object.
# A fail-closed source-to-source rewrite into the loop-free functional subset, applied before translation:
#   "opaque":  {"<expr text>": ["fn", ["name", ...]]}   an expression matched by its exact `ast.unparse` text becomes the
#              call fn(name, ...) of a spec-declared function ("calls") on the listed local names.  Any edit of that
#              expression in the source makes the match fail, hence the translation (the tie is then reported broken).
#   "setters": {"<obj>": {"<attr>": "fn"}}              `obj.attr = e` becomes `obj = fn(obj, e)` (state passing)
#   "rebind":  {"<statement text>": "name"}             an expression statement that updates `name` in place and returns
#              it (hashlib's update protocol of update_hash / hash_dict) becomes `name = <that expression>`
#   "is_none": "fn"                                     `x is None` -> fn(x); `x is not None` -> not fn(x)
#   "none":    "fn"                                     the constant None as a value -> the call fn() of a declared constant
#   "return_state": "obj"                               `return e` -> `return (obj, e)`; a body that falls off its end
#              returns obj
class _StatePrepass(ast.NodeTransformer):
    def __init__(self, opt):
        self.opt = opt
        self.used = set()

    def _opaque(self, node):
        tab = self.opt.get("opaque", {})
        txt = ast.unparse(node)
        if txt in tab:
            fn, names = tab[txt]
            self.used.add(txt)
            return ast.Call(func=ast.Name(id=fn, ctx=ast.Load()), args=[ast.Name(id=x, ctx=ast.Load()) for x in names], keywords=[])
        return None

    def visit(self, node):
        if isinstance(node, ast.expr):
            rep = self._opaque(node)
            if rep is not None:
                return ast.copy_location(rep, node)
        return super().visit(node)

    def visit_Compare(self, node):
        fn = self.opt.get("is_none")
        if fn and len(node.ops) == 1 and isinstance(node.ops[0], (ast.Is, ast.IsNot)) \
                and isinstance(node.comparators[0], ast.Constant) and node.comparators[0].value is None:
            call = ast.Call(func=ast.Name(id=fn, ctx=ast.Load()), args=[self.visit(node.left)], keywords=[])
            out = call if isinstance(node.ops[0], ast.Is) else ast.UnaryOp(op=ast.Not(), operand=call)
            return ast.copy_location(out, node)
        return self.generic_visit(node)

    def visit_Constant(self, node):
        if node.value is None and self.opt.get("none"):
            return ast.copy_location(ast.Call(func=ast.Name(id=self.opt["none"], ctx=ast.Load()), args=[], keywords=[]), node)
        return node

    def visit_Assign(self, node):
        if len(node.targets) == 1 and isinstance(node.targets[0], ast.Attribute) and isinstance(node.targets[0].value, ast.Name):
            obj, attr = node.targets[0].value.id, node.targets[0].attr
            fn = self.opt.get("setters", {}).get(obj, {}).get(attr)
            if fn is None:
                raise Untranslatable("state_prepass: no setter declared for %s.%s" % (obj, attr))
            call = ast.Call(func=ast.Name(id=fn, ctx=ast.Load()), args=[ast.Name(id=obj, ctx=ast.Load()), self.visit(node.value)], keywords=[])
            return ast.copy_location(ast.Assign(targets=[ast.Name(id=obj, ctx=ast.Store())], value=call), node)
        node.value = self.visit(node.value)
        return node

    def visit_Expr(self, node):
        if isinstance(node.value, ast.Constant) and isinstance(node.value.value, str):
            return node
        txt = ast.unparse(node.value)
        tgt = self.opt.get("rebind", {}).get(txt)
        if tgt is None:
            raise Untranslatable("state_prepass: expression statement %r is not declared in rebind" % txt)
        self.used.add("rebind:" + txt)
        return ast.copy_location(ast.Assign(targets=[ast.Name(id=tgt, ctx=ast.Store())], value=self.visit(node.value)), node)

    def visit_Return(self, node):
        st = self.opt.get("return_state")
        if node.value is not None:
            node.value = self.visit(node.value)
        if st and node.value is not None:
            node.value = ast.Tuple(elts=[ast.Name(id=st, ctx=ast.Load()), node.value], ctx=ast.Load())
        return node


def state_prepass(fdef, opt):
    tr = _StatePrepass(opt)
    new_body = []
    for st in fdef.body:
        r = tr.visit(st)
        new_body.append(r)
    if opt.get("return_state") and not Fn.returns(new_body):
        new_body.append(ast.Return(value=ast.Name(id=opt["return_state"], ctx=ast.Load())))
    # fail closed: every declared opaque expression / rebind statement must occur (a source edit that removes one is noticed)
    for txt in opt.get("opaque", {}):
        if txt not in tr.used:
            raise Untranslatable("state_prepass: declared expression %r does not occur in the source" % txt)
    for txt in opt.get("rebind", {}):
        if "rebind:" + txt not in tr.used:
            raise Untranslatable("state_prepass: declared statement %r does not occur in the source" % txt)
    out = ast.FunctionDef(name=fdef.name, args=fdef.args, body=new_body, decorator_list=[], returns=None, type_comment=None)
    ast.copy_location(out, fdef)
    out.end_lineno = fdef.end_lineno
    ast.fix_missing_locations(out)
    return out



def translate_module(repo, modname, mod):
    """mod: {"functions": [spec...], "generic": bool}. Returns Coq text."""
    if mod.get("frontend") == "imp":    # [C19] second front end (loops, generators, mutation): tools/py2coq_imp.py
        import py2coq_imp
        try:
            return py2coq_imp.translate_module(repo, modname, mod)
        except py2coq_imp.Untranslatable as e:
            raise Untranslatable(str(e))
    out = ["(* GENERATED by tools/py2coq.py from the current /repo working tree -- do not edit. *)",
           "From Coq Require Import ZArith Bool List.",
           "From PR Require Import Base.Slice Base.Num%s." % "".join(" " + m for m in mod.get("imports", [])),
           "Import ListNotations.",
           "Open Scope Z_scope.", ""]
    defs = []
    any_T = False
    for spec in mod["functions"]:
        path = repo.rstrip("/") + "/" + spec["source"]
        src = open(path).read()
        if spec.get("cython_loop"):  # [C08] off by default: no effect on other specs
            src = cython_loop_to_python(src, spec["qualname"], spec["cython_loop"])
        if spec.get("cython"):      # [C09] off by default: no effect on other specs
            src = cython_to_python(src, spec["qualname"])
        tree = ast.parse(src)
        fdef = find_function(tree, spec["qualname"])
        if spec.get("slice_call"):  # [C08] off by default: no effect on other specs
            fdef = slice_call(fdef, spec["slice_call"])
        if spec.get("slice_test"):  # [C14] off by default: no effect on other specs
            fdef = slice_test(fdef, spec["slice_test"])
        if spec.get("extract"):     # [C04] off by default: no effect on other specs
            fdef = extract_fragment(fdef, spec["extract"])
        if spec.get("slice_assign"):  # [C05] off by default: no effect on other specs
            fdef = slice_assign(fdef, spec["slice_assign"], list(spec["params"]))
        if spec.get("masked_assign"):   # [C18] off by default: no effect on other specs
            fdef = _MaskedAssign().visit(fdef)
        if spec.get("slice_vars"):      # [C18] off by default: no effect on other specs
            fdef = slice_vars(fdef, spec["slice_vars"])
        if spec.get("slice_mask"):  # [C02] off by default: no effect on other specs
            fdef, spec = slice_mask(fdef, spec)
        if spec.get("shared_protocol"):  # [C15] off by default: no effect on other specs (tools/py2coq_c15.py)
            from py2coq_c15 import shared_protocol
            fdef = shared_protocol(fdef, spec["shared_protocol"], Untranslatable)
        if spec.get("state_prepass"):   # [C12] off by default: no effect on other specs
            fdef = state_prepass(fdef, spec["state_prepass"])
        fn = Fn(spec, fdef)
        try:
            text = fn.translate()
        except Untranslatable as e:
            raise Untranslatable("%s:%s: %s" % (spec["source"], spec["qualname"], e))
        digest = hashlib.sha1(ast.dump(fdef).encode()).hexdigest()[:16]
        defs.append("(* %s:%s lines %d-%d ast %s *)\n%s\n" % (spec["source"], spec["qualname"], fdef.lineno,
                                                             fdef.end_lineno, digest, text))
        any_T = any_T or fn.uses_T or spec.get("generic")
    if any_T:
        out.append("Section Gen.\nContext {T : Type} (OP : ops T).\n")
    out.extend(defs)
    if any_T:
        out.append("End Gen.")
    return "\n".join(out) + "\n"


if __name__ == "__main__":
    import json
    repo, specfile = sys.argv[1:3]
    name = os.path.basename(specfile)[:-5]
    try:
        sys.stdout.write(translate_module(repo, name, json.load(open(specfile))))
    except Untranslatable as e:
        sys.stderr.write("UNTRANSLATABLE %s\n" % e)
        sys.exit(3)
