#!/usr/bin/env python3
"""Print the prompt for a mutation sub-agent: property text + scratch worktree only (nothing from /verif)."""
import json, sys
pid = sys.argv[1]
wt = "/tmp/mut_%s" % pid
out = "/tmp/mut_%s_out" % pid
p = [json.loads(l) for l in open("/verif/properties.jsonl") if json.loads(l)["id"] == pid][0]
prop = {k: p[k] for k in ("id", "title", "statement", "quantifier", "why_tests_cant", "anchors")}
print(f"""You are testing how well a verification effort protects a semantic property of the Python library pytroll/pyresample. Your job: write realistic code changes ("seeded defects") that BREAK the property below while the library still imports and its existing test suite still passes, so that only a check aimed at the property itself could notice.

You work ONLY in your own scratch git worktree of the repository: {wt} (already created, compiled extension .so files copied in; Cython is NOT installed so do not edit .pyx files — .py, and for EWA .cpp/.h, only if you can rebuild, which you normally cannot; prefer .py). Do not read or touch /verif or /repo. Run code with: `cd {wt} && PYTHONPATH={wt} /venv/bin/python ...`. No network.

The property (JSON):
{json.dumps(prop, indent=1)}

Produce THREE different changes (different mechanisms / different anchored functions where possible), each of which:
 1. is a small, plausible edit a developer could make by mistake or as a "simplification/optimisation" (off-by-one, wrong rounding mode, stale cache, wrong branch order, swapped operands, lost edge case, wrong tolerance...), NOT something ordinary use would expose at once: it should need something specific to manifest — an unusual input (edge of the domain, a particular size/ratio, negative or out-of-range bound, a 1-pixel axis, a pole/antimeridian), a multi-step sequence of operations, a particular chunking/interleaving, or two cooperating sites that each look fine alone;
 2. keeps the package importable and the EXISTING test suite passing: run `/venv/bin/python /tmp/tools/baseline.py {wt}` (takes ~4-5 min; prints `missing=0` and exits 0 when every baseline-passing test still passes) with the change applied — this is mandatory for each change you keep;
 3. comes with a demonstration: a small standalone program `demo.py` (run as `PYTHONPATH=<repo> /venv/bin/python demo.py`, where <repo> is taken from the environment variable REPO_UNDER_TEST if you need the path; it must exit 1 / raise AssertionError WITH your change applied and exit 0 on the unmodified code) that shows the property violated through the library's public or module-level API named in the anchors.

For each kept change i in 1..3 write into {out}/<i>/ : `patch.diff` (output of `git -C {wt} diff` for that change alone, applying cleanly with `git apply` to the unmodified checkout), `demo.py`, and `meta.json` with keys: property (id), summary (one sentence), needs (what specific input/sequence/configuration is needed for it to manifest), files (list), baseline ("missing=0" confirmed: true/false), demo_fails_with_patch (true/false), demo_passes_without_patch (true/false). Always `git -C {wt} checkout -- .` between changes so each patch is independent. If a candidate fails the existing tests, discard it and try another. Finish with the worktree clean (`git -C {wt} status --short` empty apart from untracked .so files).

Final message: for each kept change one paragraph (what, where, why the suite misses it, what it needs to manifest) and the exact commands you ran to confirm points 2 and 3.""")
