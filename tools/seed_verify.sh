#!/bin/bash
# usage: seed_verify.sh <pid> <srcdir>   (srcdir holds patch.diff, demo.py, meta.json)
# Confirms, in a scratch worktree of /repo HEAD: patch applies; demo fails with it and passes without; baseline suite passes with it.
# Prints a JSON line with the outcome. Leaves the worktree (with the patch applied) at /tmp/seedwt_<pid>_<n> for running checks
# against it with VERIF_REPO; remove it with: git -C /repo worktree remove --force <dir>
pid="$1"; src="$2"; n=$(basename "$src")
wt=/tmp/seedwt_${pid}_${n}
git -C /repo worktree remove --force "$wt" 2>/dev/null
/verif/tools/mk_worktree.sh "$wt" >/dev/null || exit 2
cd "$wt"
REPO_UNDER_TEST="$wt" PYTHONPATH="$wt" timeout 600 /venv/bin/python "$src/demo.py" >/tmp/seed_${pid}_${n}_demo0.log 2>&1; d0=$?
if ! git apply "$src/patch.diff" 2>/tmp/seed_${pid}_${n}_apply.log; then echo "{\"pid\":\"$pid\",\"n\":\"$n\",\"applies\":false}"; exit 1; fi
REPO_UNDER_TEST="$wt" PYTHONPATH="$wt" timeout 600 /venv/bin/python "$src/demo.py" >/tmp/seed_${pid}_${n}_demo1.log 2>&1; d1=$?
if [ "$3" != "nobaseline" ]; then /venv/bin/python /verif/tools/baseline.py "$wt" > /tmp/seed_${pid}_${n}_base.log 2>&1; b=$?; else b=-1; fi
echo "{\"pid\":\"$pid\",\"n\":\"$n\",\"applies\":true,\"demo_rc_without\":$d0,\"demo_rc_with\":$d1,\"baseline_rc_with\":$b,\"worktree\":\"$wt\"}"
