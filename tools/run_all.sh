#!/bin/bash
# usage: run_all.sh <tier> <seed> [props...]  -- run every (or the given) property check once, sequentially; summary on stdout
tier="$1"; seed="$2"; shift 2
props="$@"; [ -z "$props" ] && props=$(python3 -c "import json;print(' '.join(c['property_id'] for c in json.load(open('/verif/MANIFEST.json'))['checks']))")
mkdir -p /verif/build/runall
for p in $props; do
  t0=$(date +%s)
  VERIF_SEED=$seed ./check $p --tier $tier > /verif/build/runall/${p}_${tier}_${seed}.out 2> /verif/build/runall/${p}_${tier}_${seed}.err; rc=$?
  t1=$(date +%s)
  echo "$p tier=$tier seed=$seed rc=$rc wall=$((t1-t0))s $(grep -c '^KNOWN-FINDING' /verif/build/runall/${p}_${tier}_${seed}.out) known $(grep '^VIOLATION' /verif/build/runall/${p}_${tier}_${seed}.out | head -2 | tr '\n' ' ')"
done
