#!/usr/bin/env python3
"""Assemble /verif/DESIGN.md from design/00_head.md, design/Cxx.md, known_findings.txt, seeded/*, design/90_tail.md."""
import os, re, subprocess
V = os.path.dirname(os.path.dirname(os.path.abspath(__file__)))
D = os.path.join(V, "design")
head = open(os.path.join(D, "00_head.md")).read()
tail = open(os.path.join(D, "90_tail.md")).read()
props = []
for i in range(1, 21):
    f = os.path.join(D, "C%02d.md" % i)
    w2 = os.path.join(D, "C%02d_w2.md" % i)
    extra = ("\n" + open(w2).read().rstrip() + "\n") if os.path.exists(w2) else ""
    props.append(open(f).read().rstrip() + "\n" + extra if os.path.exists(f) else "### C%02d — (check under construction; see MANIFEST.json not_applicable)\n" % i)
fixed, known = [], []
for line in open(os.path.join(V, "known_findings.txt")):
    m = re.match(r"^(fixed|known):\s+property=(\S+)\s+(.*)$", line.strip())
    if m:
        (fixed if m.group(1) == "fixed" else known).append((m.group(2), m.group(3)))
fx = "**Fixed (%d):**\n\n" % len(fixed) + "".join("* %s — `%s` %s\n" % (p, t.split()[0], " ".join(t.split()[1:])) for p, t in sorted(fixed))
kn = "\n**Known, not repaired (%d):**\n\n" % len(known) + "".join("* %s — %s\n" % (p, t) for p, t in sorted(known))
seed = subprocess.run(["python3", os.path.join(V, "tools", "seed_table.py")], capture_output=True, text=True).stdout
tail = tail.replace("@@FINDINGS@@", fx + kn).replace("@@SEEDED@@", seed)
body = head + "\n---------------------------------------------------------------------------\n\n## 3. Per-property notes (as built)\n\n" + "\n".join(props) + "\n" + tail
open(os.path.join(V, "DESIGN.md"), "w").write(body)
print("DESIGN.md", len(body.splitlines()), "lines")
