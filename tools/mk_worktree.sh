#!/bin/bash
# usage: mk_worktree.sh <dir>   -- scratch git worktree of /repo at HEAD, with the compiled extension modules copied in
set -e
d="$1"
git -C /repo worktree add -q --detach "$d" HEAD
(cd /repo && find pyresample -name '*.so' | while read f; do cp "$f" "$d/$f"; done)
[ -f /repo/pyresample/version.py ] && cp -n /repo/pyresample/version.py "$d/pyresample/version.py" 2>/dev/null || true
echo "worktree $d ready"
