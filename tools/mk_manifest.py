#!/usr/bin/env python3
"""Regenerate MANIFEST.json from the table below (one entry per claimed property)."""
import json, os
V = os.path.dirname(os.path.dirname(os.path.abspath(__file__)))
BASE_UNUSED = ("Trusted: Coq 8.16.1 kernel + vm_compute/PrimFloat; stdlib axioms only (see evidence.print_assumptions); translator py2coq "
        "and the correspondence harness; external engines (PROJ, kd-tree, shapely, libm, sha1, YAML, dask/xarray) are oracles; "
        "theorems are over R/Z/lists, the code runs binary64 (IEEE gap).")
CLAIMED = {f[:-5]: json.load(open(os.path.join(V, "tools", "claims", f))) for f in sorted(os.listdir(os.path.join(V, "tools", "claims"))) if f.endswith(".json")}
REASONS = {}
props = [json.loads(l) for l in open(os.path.join(V, "properties.jsonl"))]
checks, na = [], []
for p in props:
    pid = p["id"]
    if pid in CLAIMED:
        c = CLAIMED[pid]
        checks.append({
            "property_id": pid,
            "quick_cmd": "./check %s --tier quick" % pid,
            "thorough_cmd": "./check %s --tier thorough" % pid,
            "evidence_file": "/verif/evidence/%s.json" % pid,
            "replay_cmd_template": "./check %s --replay {path}" % pid,
            "engine": "coq-model",
            "level_claimed": {"category": "proof", "text": c["text"], "design_ref": "DESIGN.md §3/" + pid},
            "level_note": c["note"],
            "technique": c["technique"],
        })
    else:
        na.append({"property_id": pid, "reason": REASONS.get(pid, "check not built yet in this round; design in DESIGN.md §3/" + pid)})
m = {
 "version": 1,
 "setup_cmd": "./setup.sh",
 "hooks": {"guard": "PYRESAMPLE_VERIF", "enable": "no source hooks are needed; checks set PYRESAMPLE_VERIF=1 for the implementation drivers (unused by /repo)",
           "baseline_off_cmd": "cd /repo && /venv/bin/python -m pytest -ra -q -p no:cacheprovider --timeout=900 --continue-on-collection-errors",
           "source_commits": [], "add_only": True},
 "engines": [
  {"name": "coq-model", "path": "coq/", "serves_properties": sorted(CLAIMED), "kind_free_text": "Gallina models, proofs and property theorems (Coq 8.16.1)"},
  {"name": "py2coq", "path": "tools/py2coq.py", "serves_properties": sorted(CLAIMED), "kind_free_text": "fail-closed Python-ast -> Gallina translator; regenerates coq/Gen from /repo on every run"},
  {"name": "correspondence", "path": "harness/", "serves_properties": sorted(CLAIMED), "kind_free_text": "runs the implementation and the model (vm_compute) on the same cases; independent property oracle searches the implementation for a failing input"},
 ],
 "checks": checks,
 "not_applicable": na,
 "notes": "fix: commits in /repo and known findings are listed in known_findings.txt; DESIGN.md describes model, theorems, ties and trusted base.",
}
json.dump(m, open(os.path.join(V, "MANIFEST.json"), "w"), indent=1)
print("claimed", len(checks), "not_applicable", len(na))
