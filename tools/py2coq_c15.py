"""[C15] py2coq pre-pass, spec option "shared_protocol" (off by default: no effect on other specs).

Turns a METHOD that talks to shared-memory objects hanging off `self` into a pure PyLite function, fail-closed.

mode "init"  (Scheduler.__init__):
    `self.A = V`                      -> `self__A = V`   (A in "drop_attrs": statement removed)
    `mp.RawValue(ctypes.<T>, e)`      -> `rawvalue_<T>(e)`          (a spec-declared call: the C-integer store)
    `x not in [c1, c2, ..]` / `x in`  -> `not (x == c1 or x == c2 ..)` (decided by "static_kinds")
    appended: `return (self__A1, self__A2, ...)` for the attributes listed in "returns"
mode "iter"  (Scheduler.__iter__: `while True:` around one critical section):
    the function becomes ONE iteration of the loop as a function of the shared memory (mem_<V>) and of the trace
    of shared-memory actions so far (tr); every action is appended to the trace in program order:
    `self.<lock>.acquire()`           -> `tr = ev_acquire(tr)`
    `self.<lock>.release()`           -> `tr = ev_release(tr)`
    `x = self.<V>.value`              -> `tr = ev_read_<V>(tr, mem_<V>)`; `x = mem_<V>`
    `self.<V>.value = e`              -> `tr = ev_write_<V>(tr, e)`; `mem_<V> = store_<V>(e)`
    `yield slice(a, b)`               -> `tr = ev_yield(tr, a, b)`; `return (mem.., tr)`   (must end its path)
    `return`                          -> `tr = ev_return(tr)`; `return (mem.., tr)`
    `self.<attr>` (attr in "attrs")   -> the parameter `self__<attr>`
    any other use of `self`, a `.value` inside an expression, a path that does not end in yield/return,
    statements after a yield: Untranslatable.
"""
import ast


def shared_protocol(fdef, opt, Untranslatable):
    def fail(node, msg):
        raise Untranslatable("shared_protocol: line %s: %s" % (getattr(node, "lineno", "?"), msg))

    def is_self_attr(n, names=None):
        return isinstance(n, ast.Attribute) and isinstance(n.value, ast.Name) and n.value.id == "self" \
            and (names is None or n.attr in names)

    def name(i, ctx=None):
        return ast.Name(id=i, ctx=ctx or ast.Load())

    def assign(target, value):
        return ast.Assign(targets=[name(target, ast.Store())], value=value, lineno=0)

    def call(f, *args):
        return ast.Call(func=name(f), args=list(args), keywords=[])

    body = list(fdef.body)
    if body and isinstance(body[0], ast.Expr) and isinstance(body[0].value, ast.Constant) and isinstance(body[0].value.value, str):
        body = body[1:]
    mode = opt["mode"]

    class Membership(ast.NodeTransformer):
        def visit_Compare(self, n):
            self.generic_visit(n)
            if len(n.ops) == 1 and isinstance(n.ops[0], (ast.In, ast.NotIn)) and isinstance(n.comparators[0], (ast.List, ast.Tuple)) \
                    and n.comparators[0].elts and all(isinstance(e, ast.Constant) for e in n.comparators[0].elts):
                alts = [ast.Compare(left=n.left, ops=[ast.Eq()], comparators=[e]) for e in n.comparators[0].elts]
                e = alts[0] if len(alts) == 1 else ast.BoolOp(op=ast.Or(), values=alts)
                return e if isinstance(n.ops[0], ast.In) else ast.UnaryOp(op=ast.Not(), operand=e)
            return n

    if mode == "init":
        drop = set(opt.get("drop_attrs", []))

        class Init(ast.NodeTransformer):
            def visit_Call(self, n):
                self.generic_visit(n)
                if isinstance(n.func, ast.Attribute) and n.func.attr == "RawValue" and len(n.args) == 2 and not n.keywords \
                        and isinstance(n.args[0], ast.Attribute) and isinstance(n.args[0].value, ast.Name) and n.args[0].value.id == "ctypes":
                    return call("rawvalue_" + n.args[0].attr, n.args[1])
                return n

            def visit_Assign(self, n):
                if len(n.targets) == 1 and is_self_attr(n.targets[0]):
                    if n.targets[0].attr in drop:
                        return None
                    self.generic_visit(n)
                    return ast.copy_location(assign("self__" + n.targets[0].attr, n.value), n)
                self.generic_visit(n)
                return n
        new = []
        for st in body:
            st = Membership().visit(st)
            st = Init().visit(st)
            if st is not None:
                new.append(st)
        new.append(ast.Return(value=ast.Tuple(elts=[name("self__" + a) for a in opt["returns"]], ctx=ast.Load())))
        args = [a for a in fdef.args.args if a.arg != "self"]
    elif mode == "iter":
        values = list(opt["values"])          # shared RawValue attributes
        lock = opt["lock"]
        attrs = set(opt.get("attrs", []))     # plain (immutable) attributes of self
        if len(body) != 1 or not isinstance(body[0], ast.While) or not isinstance(body[0].test, ast.Constant) \
                or body[0].test.value is not True or body[0].orelse:
            fail(fdef, "the body is not `while True:` around the critical section")
        ret = ast.Tuple(elts=[name("mem_" + v) for v in values] + [name("tr")], ctx=ast.Load())

        def lock_call(st):
            if isinstance(st, ast.Expr) and isinstance(st.value, ast.Call) and isinstance(st.value.func, ast.Attribute) \
                    and is_self_attr(st.value.func.value, [lock]) and st.value.func.attr in ("acquire", "release") \
                    and not st.value.args and not st.value.keywords:
                return st.value.func.attr
            return None

        def shared_value(n):
            if isinstance(n, ast.Attribute) and n.attr == "value" and is_self_attr(n.value, values):
                return n.value.attr
            return None

        class Attrs(ast.NodeTransformer):
            def visit_Attribute(self, n):
                if is_self_attr(n, attrs):
                    return ast.copy_location(name("self__" + n.attr), n)
                if shared_value(n) or is_self_attr(n):
                    fail(n, "use of self.%s outside the recognised statement forms" % (n.value.attr if shared_value(n) else n.attr))
                self.generic_visit(n)
                return n

            def visit_Name(self, n):
                if n.id == "self":
                    fail(n, "bare use of self")
                return n

            def visit_Yield(self, n):
                fail(n, "yield inside an expression")

        def expr(e):
            return Attrs().visit(Membership().visit(e))

        def block(stmts):
            """returns (new statements, ends) where ends = every path through the block ends in yield/return"""
            out = []
            for k, st in enumerate(stmts):
                last = k == len(stmts) - 1
                lc = lock_call(st)
                if lc:
                    out.append(ast.copy_location(assign("tr", call("ev_" + lc, name("tr"))), st))
                    continue
                if isinstance(st, ast.Assign) and len(st.targets) == 1:
                    t = st.targets[0]
                    v = shared_value(st.value)
                    if isinstance(t, ast.Name) and v:
                        out.append(ast.copy_location(assign("tr", call("ev_read_" + v, name("tr"), name("mem_" + v))), st))
                        out.append(ast.copy_location(assign(t.id, name("mem_" + v)), st))
                        continue
                    w = shared_value(t)
                    if w:
                        e = expr(st.value)
                        out.append(ast.copy_location(assign("tr", call("ev_write_" + w, name("tr"), e)), st))
                        out.append(ast.copy_location(assign("mem_" + w, call("store_" + w, e)), st))
                        continue
                    if isinstance(t, ast.Name) or (isinstance(t, ast.Tuple) and all(isinstance(x, ast.Name) for x in t.elts)):
                        out.append(ast.copy_location(ast.Assign(targets=[t], value=expr(st.value), lineno=st.lineno), st))
                        continue
                    fail(st, "assignment target")
                if isinstance(st, ast.Expr) and isinstance(st.value, ast.Yield):
                    y = st.value.value
                    if not (isinstance(y, ast.Call) and isinstance(y.func, ast.Name) and y.func.id == "slice" and len(y.args) == 2
                            and not y.keywords):
                        fail(st, "yield of something else than slice(a, b)")
                    if not last:
                        fail(st, "statements after a yield")
                    out.append(ast.copy_location(assign("tr", call("ev_yield", name("tr"), expr(y.args[0]), expr(y.args[1]))), st))
                    out.append(ast.copy_location(ast.Return(value=ret), st))
                    return out, True
                if isinstance(st, ast.Return):
                    if st.value is not None:
                        fail(st, "return with a value in a generator")
                    if not last:
                        fail(st, "statements after a return")
                    out.append(ast.copy_location(assign("tr", call("ev_return", name("tr"))), st))
                    out.append(ast.copy_location(ast.Return(value=ret), st))
                    return out, True
                if isinstance(st, ast.If):
                    a, ea = block(st.body)
                    b, eb = block(st.orelse)
                    if (ea or eb) and not (ea and eb and last):
                        fail(st, "an `if` in which only some paths end the iteration")
                    out.append(ast.copy_location(ast.If(test=expr(st.test), body=a or [ast.Pass()], orelse=b), st))
                    if ea and eb:
                        return out, True
                    continue
                if isinstance(st, ast.Pass):
                    continue
                fail(st, "statement form %s" % type(st).__name__)
            return out, False
        new, ends = block(body[0].body)
        if not ends:
            fail(fdef, "a path through the loop body ends neither in yield nor in return")
        args = [ast.arg(arg="self__" + a) for a in opt.get("attr_order", sorted(attrs))] \
            + [ast.arg(arg="mem_" + v) for v in values] + [ast.arg(arg="tr")]
    else:
        fail(fdef, "unknown mode %r" % (mode,))
    arguments = ast.arguments(posonlyargs=[], args=args, vararg=None, kwonlyargs=[], kw_defaults=[], kwarg=None, defaults=[])
    out = ast.FunctionDef(name=fdef.name, args=arguments, body=new, decorator_list=[], returns=None, type_comment=None)
    ast.copy_location(out, fdef)
    out.end_lineno = fdef.end_lineno
    return ast.fix_missing_locations(out)
