import json,sys,subprocess,glob,os
pid=sys.argv[1]
base=subprocess.run(['python3','/verif/tools/mut_prompt.py',pid],capture_output=True,text=True).stdout
wt='/tmp/mut4_%s'%pid
base=base.replace('/tmp/mut_%s_out'%pid, wt+'_out').replace('/tmp/mut_%s'%pid, wt)
base=base.replace('Produce THREE different changes','Produce TWO different changes').replace('For each kept change i in 1..3 write into','For each kept change i in 8..9 (use directory names 8 and 9) write into')
prev=[]
for d in sorted(glob.glob('/verif/seeded/%s-*'%pid)):
    m=json.load(open(d+'/meta.json')); prev.append('- '+m.get('summary','').strip())
base+="""

This is a FOURTH round. Changes along the following lines were already produced in earlier rounds — do NOT repeat them or close variants; look for different mechanisms, different functions among the anchors (earlier rounds already covered: histories on one object, caller/library aliasing, joint dask.compute of several lazy results, Fortran/strided layouts, narrow/unsigned dtypes, falsy-vs-None arguments, CRS spellings — now go for what is left: error paths that return a plausible value instead of raising, configuration- and environment-dependent paths (pyresample.config options, PYTROLL_CHUNK_SIZE, cache directories), xarray dims/coords/attrs handling (dimension order y/x vs x/y, extra dims, dim names), masked arrays and NaN/inf placement, 1-pixel and empty axes, values sitting exactly on a tolerance or rounding boundary, integer overflow / float32 accumulation in index arithmetic for very large grids, Python semantics slips (is vs ==, truthiness of arrays, mutable default arguments, shadowed loop variables, integer vs true division), deprecated aliases and keyword synonyms, subclass overrides; also alternative / legacy / deprecated entry points, caches and other state that survives between calls, object mutation/aliasing between caller and library, dtype- or memory-layout-dependent paths (float32, Fortran order, non-contiguous views, masked arrays, xarray vs numpy vs dask inputs), dask-graph naming and joint computation of several lazy results, configuration/environment-dependent paths, error paths that silently return wrong values), and prefer defects that need a multi-step history, a particular configuration, or two cooperating sites:
"""+"\n".join(prev)+"""

Never use pkill/killall patterns (other jobs share this machine); stop only processes you started, by PID. Never use `git stash` (the stash is shared between all worktrees of the repository and other agents use it): keep your diffs in files under %s_out instead. If baseline.py crashes with FileNotFoundError on the junit xml, or reports only timing/performance tests missing, simply re-run it.
"""%wt
open('/tmp/mut4_%s_prompt.txt'%pid,'w').write(base)
