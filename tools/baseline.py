#!/usr/bin/env python3
"""Run the pinned baseline suite (guard off) and compare with /root/.vp/BASELINE.json stable_pass."""
import json, subprocess, sys, tempfile, os, xml.etree.ElementTree as ET
repo = sys.argv[1] if len(sys.argv) > 1 else "/repo"
b = json.load(open("/root/.vp/BASELINE.json"))
want = set(b["stable_pass"])
with tempfile.TemporaryDirectory() as d:
    x = os.path.join(d, "j.xml")
    env = dict(os.environ); env.pop("PYRESAMPLE_VERIF", None)
    subprocess.run(["/venv/bin/python", "-m", "pytest", "-q", "-p", "no:cacheprovider", "--timeout=900",
                    "--continue-on-collection-errors", "--junitxml=" + x], cwd=repo, env=env,
                   stdout=subprocess.DEVNULL, stderr=subprocess.DEVNULL)
    got = set()
    for tc in ET.parse(x).getroot().iter("testcase"):
        if not any(c.tag in ("failure", "error", "skipped") for c in tc):
            got.add(tc.get("classname") + "::" + tc.get("name"))
missing = sorted(want - got)
print("baseline stable_pass=%d passed_now=%d missing=%d" % (len(want), len(got), len(missing)))
for m in missing[:30]:
    print("  MISSING", m)
sys.exit(1 if missing else 0)
