#!/bin/bash
# usage: intake3.sh Cxx  -- verify, store, clean worktrees, run the check against the stored round-3 seeds
p=$1
cd /verif
tools/seed_intake.sh $p mut4
python3 tools/seed_store.py $p mut4
for n in 8 9; do git -C /repo worktree remove --force /tmp/seedwt_${p}_$n 2>/dev/null; done
git -C /repo worktree remove --force /tmp/mut4_$p 2>/dev/null
python3 tools/seed_run.py $p quick 8 2>&1 | cut -c1-260
