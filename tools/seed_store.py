#!/usr/bin/env python3
"""Copy a verified seeded change into /verif/seeded/<pid>-<n>/ (patch.diff, demo.py, meta.json + what was confirmed)."""
import json, os, shutil, sys
pid = sys.argv[1]
pre = sys.argv[2] if len(sys.argv) > 2 else "mut"
for n in sorted(os.listdir("/tmp/%s_%s_out" % (pre, pid))):
    src = "/tmp/%s_%s_out/%s" % (pre, pid, n)
    vf = "/tmp/seed_%s_%s_verify.json" % (pid, n)
    if not (os.path.isdir(src) and os.path.exists(src + "/patch.diff") and os.path.exists(vf)):
        continue
    v = json.load(open(vf))
    ok = v.get("applies") and v["demo_rc_without"] == 0 and v["demo_rc_with"] != 0 and v["baseline_rc_with"] == 0
    if not ok:
        print("NOT KEPT", pid, n, v)
        continue
    dst = "/verif/seeded/%s-%s" % (pid, n)
    os.makedirs(dst, exist_ok=True)
    shutil.copy(src + "/patch.diff", dst + "/patch.diff")
    shutil.copy(src + "/demo.py", dst + "/demo.py")
    meta = json.load(open(src + "/meta.json")) if os.path.exists(src + "/meta.json") else {}
    meta["property"] = pid
    meta["confirmed_by_lead"] = {
        "ran": ["tools/seed_verify.sh %s %s  (scratch worktree of /repo HEAD: demo without patch rc=%d, git apply, demo with patch rc=%d, "
                "tools/baseline.py with patch: all 1108 baseline-passing tests still pass rc=%d)" % (pid, src, v["demo_rc_without"], v["demo_rc_with"], v["baseline_rc_with"])],
        "repo_head": os.popen("git -C /repo rev-parse --short HEAD").read().strip(),
    }
    json.dump(meta, open(dst + "/meta.json", "w"), indent=1)
    print("kept", dst)
