#!/bin/bash
# Build the framework offline: regenerate coq/Gen from /repo, then a full .vo build of the Coq project.
set -e
cd "$(dirname "$0")"
mkdir -p build evidence replays coq/Gen
/venv/bin/python - <<'PY'
import sys, os, json
sys.path.insert(0, "tools"); sys.path.insert(0, ".")
from harness.common import Ctx, load_gen_specs
from harness import c20_gen
c20_gen.install()      # GenC20 goes through its own front end (as in ./check C20)
specs = load_gen_specs()
c = Ctx("C00")
c.regen(list(specs))
for b in c.broken:
    print("setup: translator:", b)
PY
cd coq
rm -f .files
/venv/bin/python -c "
import sys; sys.path.insert(0,'..')
from harness.common import ensure_makefile; ensure_makefile()"
timeout 3000 make -f Makefile.coq -j16 -k 2>&1 | tail -20
coqc --version | head -1
echo "setup done"
