"""C03 — kd-tree resampling results do not depend on how the work is organised."""
import base64
import math

import numpy as np

from .common import ints, fhex

PROP_FILE = "Properties/C03.v"
GEN = ["GenC03", "GenC03imp"]
RUN_FILES = ["Model/C03_run.v", "Model/C03_imp_run.v"]

R_EARTH = 6370997.0


# ---------------------------------------------------------------------------------------------
# decoding of the driver's arrays
def dec(o, dt):
    a = np.frombuffer(base64.b64decode(o["d"]), dtype=dt)
    return a.reshape(o["s"])


def dec_fl(o):
    """-> (data float64, mask bool or None, dtype str) or ('error', name)"""
    if o is None:
        return None
    if "error" in o:
        return ("error", o["error"], o.get("msg", ""))
    d = dec(o["data"], np.float64)
    m = dec(o["mask"], np.uint8).astype(bool) if "mask" in o else None
    return (d, m, o["dtype"])


def same_fl(a, b, ignore=None, ntargets=None):
    """exact equality of two decoded results (NaN == NaN, masked cells compared by mask only); target pixels listed in
    `ignore` (flat indices; the kd-tree was free to choose among equidistant sources there) are not compared"""
    if a is None or b is None:
        return a is b
    if isinstance(a[0], str) or isinstance(b[0], str):
        return isinstance(a[0], str) and isinstance(b[0], str) and a[1] == b[1]
    da, ma, ta = a
    db, mb, tb = b
    if da.shape != db.shape or ta != tb or (ma is None) != (mb is None):
        return False
    if ignore and ntargets and da.size % ntargets == 0:
        keep = np.ones(ntargets, dtype=bool)
        keep[sorted(ignore)] = False
        da, db = da.reshape(ntargets, -1)[keep], db.reshape(ntargets, -1)[keep]
        if ma is not None:
            ma, mb = ma.reshape(ntargets, -1)[keep], mb.reshape(ntargets, -1)[keep]
    if ma is not None:
        if not np.array_equal(ma, mb):
            return False
        keep = ~ma
        return bool(np.array_equal(da[keep], db[keep], equal_nan=True))
    return bool(np.array_equal(da, db, equal_nan=True))


# ---------------------------------------------------------------------------------------------
# geometry pool
def area(proj, w, h, extent, tag):
    return {"kind": "area", "proj": proj, "w": int(w), "h": int(h), "extent": [float(x) for x in extent], "tag": tag}


def ll(lon0, lat0, lon1, lat1, w, h, tag):
    return area({"proj": "longlat", "datum": "WGS84"}, w, h, (lon0, lat0, lon1, lat1), tag)


def stere(lat0, lon0, ext, w, h, tag):
    return area({"proj": "stere", "lat_0": lat0, "lon_0": lon0, "lat_ts": lat0 * 2 / 3.0, "ellps": "WGS84"}, w, h, ext, tag)


def fixed_targets():
    """The deterministic part of the pool: one representative per input class of the property text."""
    T = []
    T.append(ll(0, 45, 20, 60, 10, 8, "mid_lat"))
    T.append(dict(ll(10, 80, 20, 85, 20, 10, "high_lat"), force={"radius": 50000.0, "points": [(9.0, 84.75)]}))   # design-round witness
    # the two witnesses of Theorem C03_snapshot_reduce_refuted (2 x 2 grid, pixel centres 12.5/17.5E, 83.75/81.25N)
    T.append(dict(ll(10, 80, 20, 85, 2, 2, "high_lat"), force={"radius": 50000.0, "points": [(11.0, 83.75)]}))
    T.append(dict(ll(10, 80, 20, 85, 2, 2, "high_lat"), force={"radius": 2500000.0, "points": [(12.5, 58.7)], "only": True}))
    # one deterministic witness per known cause (a single decisive source; the other sources are on the far side of the globe)
    T.append(dict(ll(0, 45, 20, 60, 10, 8, "mid_lat"), force={"radius": 100000.0, "points": [(-0.5, 59.0625)], "only": True}))
    T.append(dict(ll(0, 87, 40, 89.8, 10, 7, "near_pole"), force={"radius": 30000.0, "points": [(-10.0, 89.6)], "only": True}))
    T.append(dict(ll(20, 50, 10, 60, 8, 8, "flipped"), force={"radius": 50000.0, "pixels": [(3, 3)], "only": True}))
    T.append(dict(stere(90, 0, (-5e5, 15e5, 5e5, 25e5), 10, 10, "rotated"), force={"radius": 50000.0, "pixels": [(0, 5)], "only": True}))
    T.append(ll(-150, -86, -120, -80, 10, 6, "high_lat"))
    T.append(ll(100, 60, 130, 75, 12, 10, "off_meridian"))
    T.append(ll(-2.5, 40, 2.5, 45, 5, 6, "lon_zero"))                      # a pixel column exactly on lon 0.0
    T.append(ll(-0.5, 10, 9.5, 20, 10, 8, "lon_zero"))                     # west boundary exactly 0.0
    T.append(ll(-9.5, 10, 0.5, 20, 10, 8, "lon_zero"))                     # east boundary exactly 0.0
    T.append(ll(0, 87, 40, 89.8, 10, 7, "near_pole"))
    T.append(ll(10, 60, 20, 50, 8, 8, "flipped"))                          # ymin > ymax
    T.append(ll(20, 50, 10, 60, 8, 8, "flipped"))                          # xmin > xmax
    T.append(area({"proj": "eqc", "lon_0": 180, "ellps": "WGS84"}, 12, 8, (-1.0e6, 5.0e6, 1.0e6, 6.0e6), "dateline"))
    T.append(area({"proj": "laea", "lat_0": 60, "lon_0": 179, "ellps": "WGS84"}, 10, 10, (-5e5, -5e5, 5e5, 5e5), "dateline"))
    T.append(area({"proj": "merc", "lon_0": 180, "ellps": "WGS84"}, 10, 6, (-8e5, 9.0e6, 8e5, 10.0e6), "dateline"))
    for lon0 in (0, 180, 90, -45):
        T.append(stere(90, lon0, (-1e6, -1e6, 1e6, 1e6), 12, 12, "over_pole"))
        T.append(stere(90, lon0, (-5e5, -25e5, 5e5, -15e5), 10, 10, "rotated"))   # towards lon_0
        T.append(stere(90, lon0, (-5e5, 15e5, 5e5, 25e5), 10, 10, "rotated"))     # beyond the pole
        T.append(stere(90, lon0, (15e5, -5e5, 25e5, 5e5), 10, 10, "rotated"))     # to the side
    # CRSs whose geodetic part is not plain Greenwich lon/lat: prime meridian, datum shift, +over (always also run with nprocs=2)
    T.append(dict(area({"proj": "eqc", "pm": 180, "ellps": "WGS84"}, 8, 6, (-8.0e5, 4.0e6, 8.0e5, 5.2e6), "prime_meridian"), mp=True))
    T.append(dict(area({"proj": "longlat", "pm": -70, "ellps": "WGS84"}, 7, 6, (5.0, 30.0, 19.0, 42.0), "prime_meridian"), mp=True))
    T.append(dict(area({"proj": "merc", "pm": "madrid", "ellps": "WGS84"}, 8, 5, (-6.0e5, 4.2e6, 6.0e5, 5.0e6), "prime_meridian"), mp=True))
    T.append(dict(area({"proj": "stere", "lat_0": 90, "lon_0": 0, "lat_ts": 60, "ellps": "bessel",
                        "towgs84": "598.1,73.7,418.2,0.202,0.045,-2.455,6.7"}, 8, 8, (-4e5, -24e5, 4e5, -16e5), "bound_crs"), mp=True))
    T.append(dict(area({"proj": "eqc", "lon_0": 170, "over": True, "ellps": "WGS84"}, 8, 5, (-8.0e5, 1.0e6, 2.4e6, 3.0e6), "lon_over"), mp=True))
    # dtype variant: float32 swath coordinates (pykdtree then works in binary32; the multi-process path does not)
    T.append(dict(ll(0, 45, 20, 60, 10, 8, "float32_source"), mp=True, f32=True))
    T.append(dict(stere(90, 37, (-5e5, -25e5, 5e5, -15e5), 9, 9, "float32_source"), mp=True, f32=True))
    T.append(stere(-90, 0, (-1e6, -1e6, 1e6, 1e6), 11, 13, "over_pole"))
    T.append(stere(-90, 140, (-5e5, 15e5, 5e5, 25e5), 10, 10, "rotated"))
    T.append(area({"proj": "laea", "lat_0": 52, "lon_0": 10, "ellps": "WGS84"}, 14, 12, (-7e5, -6e5, 7e5, 6e5), "mid_lat"))
    T.append(area({"proj": "laea", "lat_0": 52, "lon_0": 10, "ellps": "WGS84"}, 14, 12, (-7e5, 6e5, 7e5, -6e5), "flipped"))
    T.append(area({"proj": "geos", "h": 35785831, "lon_0": 0, "a": 6378169, "b": 6356583.8}, 8, 8,
                  (-5.5e6, -5.5e6, 5.5e6, 5.5e6), "geos_disk"))            # corners off the disk -> inf -> 'illegal'
    T.append(area({"proj": "geos", "h": 35785831, "lon_0": 0, "a": 6378169, "b": 6356583.8}, 10, 6,
                  (-2.0e6, 2.5e6, 2.0e6, 4.5e6), "mid_lat"))
    T.append(ll(0, 45, 20, 60, 9, 1, "thin"))
    T.append(ll(0, 45, 20, 60, 1, 7, "thin"))
    T.append(ll(5, 45, 6, 46, 1, 1, "thin"))
    T.append(area({"proj": "lcc", "lat_1": 30, "lat_2": 60, "lat_0": 45, "lon_0": -100, "ellps": "WGS84"}, 12, 9,
                  (-1e6, -8e5, 1e6, 8e5), "off_meridian"))
    return T


def random_target(r):
    fam = r.choice(["ll", "ll_high", "ll_zero", "stere", "stere", "laea", "eqc180", "flip", "thin"])
    w, h = r.randint(2, 16), r.randint(2, 16)
    while w * h > 280:
        w, h = r.randint(2, 16), r.randint(2, 16)
    if fam == "ll":
        lon0, lat0 = r.uniform(-175, 150), r.uniform(-75, 60)
        return ll(lon0, lat0, lon0 + r.uniform(2, 25), lat0 + r.uniform(2, 15), w, h, "mid_lat" if abs(lon0) < 60 else "off_meridian")
    if fam == "ll_high":
        s = r.choice([1, -1])
        lon0, lat0 = r.uniform(-175, 150), r.uniform(70, 86)
        lat1 = min(lat0 + r.uniform(1, 8), 89.5)
        return ll(lon0, min(s * lat0, s * lat1), lon0 + r.uniform(5, 28), max(s * lat0, s * lat1), w, h, "high_lat")
    if fam == "ll_zero":
        w = r.randint(3, 12)
        j = r.randint(0, w - 1)
        return ll(-j - 0.5, 10, w - j - 0.5, 10 + h, w, h, "lon_zero")
    if fam == "stere":
        s = r.choice([90, 90, -90])
        lon0 = r.choice([0, 180, 90, -90, 37, -135])
        cx, cy = r.uniform(-3e6, 3e6), r.uniform(-3e6, 3e6)
        hw, hh = r.uniform(2e5, 1.5e6), r.uniform(2e5, 1.5e6)
        over = abs(cx) < hw and abs(cy) < hh
        return stere(s, lon0, (cx - hw, cy - hh, cx + hw, cy + hh), w, h, "over_pole" if over else "rotated")
    if fam == "laea":
        lat0, lon0 = r.uniform(-80, 80), r.choice([179, -179, 0, 60, -120, 175])
        hw = r.uniform(2e5, 1.2e6)
        return area({"proj": "laea", "lat_0": lat0, "lon_0": lon0, "ellps": "WGS84"}, w, h, (-hw, -hw, hw, hw),
                    "dateline" if abs(lon0) > 170 else ("high_lat" if abs(lat0) > 65 else "mid_lat"))
    if fam == "eqc180":
        y0 = r.uniform(-7e6, 6e6)
        return area({"proj": "eqc", "lon_0": 180, "ellps": "WGS84"}, w, h, (-r.uniform(3e5, 2e6), y0, r.uniform(3e5, 2e6), y0 + r.uniform(3e5, 1.5e6)), "dateline")
    if fam == "flip":
        lon0, lat0 = r.uniform(-170, 140), r.uniform(-70, 60)
        e = [lon0, lat0, lon0 + r.uniform(3, 25), lat0 + r.uniform(3, 15)]
        if r.random() < 0.5:
            e[0], e[2] = e[2], e[0]
        else:
            e[1], e[3] = e[3], e[1]
        return ll(e[0], e[1], e[2], e[3], w, h, "flipped")
    lon0, lat0 = r.uniform(-170, 140), r.uniform(-70, 60)
    if r.random() < 0.5:
        w = 1
    else:
        h = 1
    return ll(lon0, lat0, lon0 + 12, lat0 + 9, w, h, "thin")


def area_lonlats(a):
    """lon/lat of the pixel centres of an area spec, computed here with pyproj (generator side only)."""
    import pyproj
    crs = pyproj.CRS.from_user_input(a["proj"])
    x0, y0, x1, y1 = a["extent"]
    dx, dy = (x1 - x0) / a["w"], (y1 - y0) / a["h"]
    xs = x0 + dx * (np.arange(a["w"]) + 0.5)
    ys = y1 - dy * (np.arange(a["h"]) + 0.5)
    X, Y = np.meshgrid(xs, ys)
    gcrs = crs.geodetic_crs
    if gcrs.prime_meridian.longitude != 0:
        import warnings
        with warnings.catch_warnings():
            warnings.simplefilter("ignore")
            d = gcrs.to_dict()
        d.pop("pm", None)
        gcrs = pyproj.CRS.from_dict(d)          # longitudes counted from Greenwich
    tr = pyproj.Transformer.from_crs(gcrs, crs, always_xy=True)
    lon, lat = tr.transform(X, Y, direction="INVERSE")
    return np.asarray(lon, dtype=float), np.asarray(lat, dtype=float), tr, (x0, y0, x1, y1, abs(dx), abs(dy))


def dest_point(lon, lat, bearing, ang):
    """point at angular distance ang (rad) from (lon, lat) deg in the given bearing (rad), on the sphere"""
    p, l = math.radians(lat), math.radians(lon)
    p2 = math.asin(max(-1.0, min(1.0, math.sin(p) * math.cos(ang) + math.cos(p) * math.sin(ang) * math.cos(bearing))))
    l2 = l + math.atan2(math.sin(bearing) * math.sin(ang) * math.cos(p), math.cos(ang) - math.sin(p) * math.sin(p2))
    lo = (math.degrees(l2) + 180.0) % 360.0 - 180.0
    return lo, math.degrees(p2)


def chord_to_angle(d):
    return 2.0 * math.asin(min(1.0, d / (2.0 * R_EARTH)))


def pixel_scale(lon, lat):
    """typical distance (m, chord) between neighbouring pixel centres"""
    h, w = lon.shape
    ds = []
    for (i0, j0, i1, j1) in ((0, 0, 0, 1), (0, 0, 1, 0), (h - 1, w - 1, h - 1, w - 2), (h - 1, w - 1, h - 2, w - 1),
                             (h // 2, w // 2, h // 2, min(w // 2 + 1, w - 1)), (h // 2, w // 2, min(h // 2 + 1, h - 1), w // 2)):
        if not (0 <= i1 < h and 0 <= j1 < w) or (i0, j0) == (i1, j1):
            continue
        a, b = xyz(lon[i0, j0], lat[i0, j0]), xyz(lon[i1, j1], lat[i1, j1])
        d = float(np.sqrt(((a - b) ** 2).sum()))
        if math.isfinite(d) and d > 0:
            ds.append(d)
    return float(np.median(ds)) if ds else 100000.0


def xyz(lon, lat):
    with np.errstate(all="ignore"):
        lo, la = np.radians(lon), np.radians(lat)
        return np.stack([R_EARTH * np.cos(la) * np.cos(lo), R_EARTH * np.cos(la) * np.sin(lo), R_EARTH * np.sin(la)], axis=-1)


def make_source_points(r, tgt, radius, n, malformed):
    """swath points around the target: a cloud in the projected plane, plus boundary seekers at 0.3..1.01 x radius
    from border pixels in every bearing (the sharp test of the reduction window)."""
    lon, lat, tr, (x0, y0, x1, y1, dx, dy) = area_lonlats(tgt)
    fin = np.isfinite(lon) & np.isfinite(lat)
    pts = []
    xm, ym = (abs(x1 - x0) * 0.35 + 2.5 * radius_in_units(tgt, radius)), (abs(y1 - y0) * 0.35 + 2.5 * radius_in_units(tgt, radius))
    lo_x, hi_x, lo_y, hi_y = min(x0, x1) - xm, max(x0, x1) + xm, min(y0, y1) - ym, max(y0, y1) + ym
    tries = 0
    ncloud = n * 5 // 10
    while len(pts) < ncloud and tries < 20 * n:
        tries += 1
        x, y = r.uniform(lo_x, hi_x), r.uniform(lo_y, hi_y)
        a, b = tr.transform(x, y, direction="INVERSE")
        if math.isfinite(a) and math.isfinite(b) and -90 <= b <= 90:
            a = (a + 180.0) % 360.0 - 180.0
            pts.append((a, b))
    h, w = lon.shape
    border = [(i, j) for i in range(h) for j in range(w) if (i in (0, h - 1) or j in (0, w - 1)) and fin[i, j]]
    allpix = [(i, j) for i in range(h) for j in range(w) if fin[i, j]]
    while len(pts) < n and border:
        i, j = r.choice(border) if r.random() < 0.8 else r.choice(allpix)
        lo0, la0 = float(lon[i, j]), float(lat[i, j])
        kind = r.random()
        if kind < 0.2:
            # tangent seekers: the point of largest longitude difference at chord distance u * radius from the pixel
            a = chord_to_angle(radius * r.choice([0.99, 0.999, 0.9999, 0.99995]) * (1 - r.random() * 1e-6))
            if abs(math.radians(la0)) + a < math.pi / 2 - 1e-9:
                dl = math.degrees(math.asin(min(1.0, math.sin(a) / math.cos(math.radians(la0)))))
                lt = math.degrees(math.asin(max(-1.0, min(1.0, math.sin(math.radians(la0)) / math.cos(a)))))
                pts.append(((lo0 + r.choice([-1, 1]) * dl + 180.0) % 360.0 - 180.0, lt))
                continue
        u = r.choice([0.3, 0.6, 0.9, 0.97, 0.995, 0.9995, 0.99995, 1.0005, 1.01]) * (1 - r.random() * 1e-6)
        if kind < 0.35:
            bearing = r.choice([0.0, math.pi])                 # due north / south: the latitude buffer (arc vs chord)
        else:
            bearing = r.uniform(0, 2 * math.pi)
        pts.append(dest_point(lo0, la0, bearing, chord_to_angle(radius * u)))
    while len(pts) < n:
        pts.append((r.uniform(-180, 180), r.uniform(-90, 90)))
    r.shuffle(pts)
    if malformed:
        for bad in ((181.0, 10.0), (10.0, 90.5), (float("nan"), 5.0), (1e30, 1e30), (-180.0, -90.0), (180.0, 90.0)):
            pts[r.randrange(len(pts))] = bad
    return [p[0] for p in pts], [p[1] for p in pts]


def radius_in_units(tgt, radius):
    return radius / 111000.0 if tgt["proj"].get("proj") == "longlat" else radius


def make_datasets(r, n, variant):
    v1 = [r.randint(-400, 400) / 8.0 for _ in range(n)]
    ds = [{"values": v1, "fill": 0}]
    if variant % 3 == 0:
        ds.append({"values": [r.randint(0, 250) for _ in range(n)], "dtype": "int32", "fill": None})
    elif variant % 3 == 1:
        ds.append({"values": [r.randint(-80, 80) / 4.0 for _ in range(2 * n)], "channels": 2, "fill": -999.0})
    else:
        ds.append({"values": [r.randint(-80, 80) / 4.0 for _ in range(n)], "mask": [int(r.random() < 0.25) for _ in range(n)], "fill": None})
    return ds


def configs_for(ctx, rows, mp_ok, small):
    segs = [1, 2, 3, rows, rows + 3]
    segs = list(dict.fromkeys(s for s in segs if s >= 1))
    cfgs = [{"reduce": False, "segments": 1, "nprocs": 1, "fresh_all": True}]          # the plain call, first
    for red in (True, False):
        for s in segs + [None]:
            if (red, s) != (False, 1):
                cfgs.append({"reduce": red, "segments": s, "nprocs": 1, "fresh_all": s in (2, None)})
    # history on the target object: get_lonlats(cache=True) before the call (AreaDefinition targets; ignored for swaths)
    cfgs.append({"reduce": False, "segments": 3, "nprocs": 1, "fresh_all": False, "cache_target": True})
    if ctx.thorough:
        cfgs.append({"reduce": True, "segments": 2, "nprocs": 1, "fresh_all": False, "cache_target": True})
    if mp_ok and small:
        if ctx.thorough:
            for red in (True, False):
                for s in (1, 2, rows + 3):
                    cfgs.append({"reduce": red, "segments": s, "nprocs": 2, "fresh_all": False})
        else:
            cfgs.append({"reduce": False, "segments": 1, "nprocs": 2, "fresh_all": False})
            cfgs.append({"reduce": True, "segments": 2, "nprocs": 2, "fresh_all": False})
    return cfgs


def gen_cases(ctx, mp_ok):
    r = ctx.rng
    targets = fixed_targets()
    n_rand = ctx.n(18, 150)
    targets += [random_target(r) for _ in range(n_rand)]
    cases = []
    for ti, tgt in enumerate(targets):
        lon, lat, _, _ = area_lonlats(tgt)
        ps = pixel_scale(lon, lat)
        force = tgt.pop("force", None)
        mp_forced = tgt.pop("mp", False)
        f32 = tgt.pop("f32", False)
        if force:
            radius = force["radius"]
        else:
            radius = float(round(ps * r.choice([0.7, 1.3, 2.2, 4.0]) if r.random() < 0.8 else r.choice([3.0e5, 1.0e6, 1.6e6, 2.5e6])))
        radius = max(radius, 1000.0)
        n = r.randint(20, 120) if ctx.tier == "quick" else r.randint(20, 400)
        mp_case = mp_forced or ((ti % 4 == 0) if ctx.thorough else ti in (0, 6, 12, 19))      # cases also run with nprocs=2
        if mp_case:
            n = min(n, 60)
        malformed = (ti % 7 == 3) and not force
        slon, slat = make_source_points(r, tgt, radius, n, malformed)
        if force and force.get("only"):
            far = [(-150.0, -40.0), (-140.0, -50.0), (-160.0, -30.0), (100.0, -60.0), (-120.0, -20.0), (-130.0, -45.0)]
            fp = [tuple(p) for p in force.get("points", [])] + [(float(lon[i, j]), float(lat[i, j])) for i, j in force.get("pixels", [])]
            slon, slat = [p[0] for p in fp + far], [p[1] for p in fp + far]
            n = len(slon)
        elif force:
            for j, (a, b) in enumerate(force["points"]):
                slon[j], slat[j] = a, b
        shape = [n]
        if n % 4 == 0 and ti % 2 == 0:
            shape = [n // 4, 4]
        src = {"kind": "swath", "lons": slon, "lats": slat, "shape": shape}
        if f32:
            slon = [float(np.float32(x)) for x in slon]
            slat = [float(np.float32(x)) for x in slat]
            src = {"kind": "swath", "lons": slon, "lats": slat, "shape": shape, "dtype": "float32"}
        mode = "swath_to_area"
        t_out, s_out = dict(tgt), src
        if ti % 6 == 5 and tgt["tag"] != "thin" and not force and not mp_forced:
            # grid -> swath: the reduction applies to the TARGET points (valid_output_index)
            mode = "area_to_swath"
            t_out = {"kind": "swath", "lons": slon, "lats": slat, "shape": shape, "tag": tgt["tag"]}
            s_out = dict(tgt)
        k = r.choice([2, 3, 4, 5])
        rows = t_out["h"] if t_out["kind"] == "area" else shape[0]
        nsrc = n if s_out["kind"] == "swath" else tgt["w"] * tgt["h"]
        small = mp_case
        case = {"id": len(cases), "source": encode_geo(s_out), "target": encode_geo(t_out), "radius": radius, "k": k,
                "sigma": radius / 2.0, "datasets": make_datasets(r, nsrc, ti), "configs": configs_for(ctx, rows, mp_ok, small),
                "tag": tgt["tag"], "mode": mode, "malformed": malformed}
        cases.append(case)
    return cases


def encode_geo(g):
    return dict(g)      # NaN travels as the JSON extension literal NaN (Python on both ends)


# ---------------------------------------------------------------------------------------------
# the property oracle on the implementation's observations
INFO_KEYS = (("vii", np.uint8), ("voi", np.uint8), ("ia", np.int64), ("da", np.float64))


def info_arrays(info):
    if info is None or "error" in info:
        return None
    return {k: dec(info[k], dt) for k, dt in INFO_KEYS}


def raw_equal(a, b):
    if a is None or b is None:
        return a is b
    return all(a[k].shape == b[k].shape and np.array_equal(a[k], b[k], equal_nan=True) for k, _ in INFO_KEYS)


def canon_info(a):
    """neighbour info mapped back to original source indices: per target pixel the tuple of (source, distance) of the
    neighbours found; targets that are not queried (valid_output_index False) have none.  -> (list, problem or None)"""
    vii, voi = a["vii"].astype(bool).ravel(), a["voi"].astype(bool).ravel()
    nvalid = int(vii.sum())
    orig = np.flatnonzero(vii)
    tpos = np.flatnonzero(voi)
    if a["ia"].size == 0:
        ia = np.zeros((0, 1), dtype=np.int64)
    else:
        ia = a["ia"].reshape(a["ia"].shape[0], -1) if a["ia"].ndim else a["ia"].reshape(1, 1)
    da = a["da"].reshape(ia.shape)
    if ia.shape[0] != tpos.size:
        return None, "index_array has %d rows for %d valid outputs" % (ia.shape[0], tpos.size)
    nb = [()] * voi.size
    for row, t in enumerate(tpos):
        ent = []
        for j in range(ia.shape[1]):
            idx = int(ia[row, j])
            if idx >= nvalid or idx < 0:
                continue
            ent.append((int(orig[idx]), float(da[row, j])))
        nb[int(t)] = tuple(ent)
    return nb, None


def first_diff(a, b):
    for t, (x, y) in enumerate(zip(a, b)):
        if x != y:
            return t, x, y
    return None


def only_ties(a, b):
    """two neighbour maps that differ only in WHICH of several equidistant sources was returned"""
    return all(len(x) == len(y) and [d for _, d in x] == [d for _, d in y] for x, y in zip(a, b))


def f32_close(a, b, radius=None, k=None):
    """Are two neighbour maps explained by coordinates having been stored in binary32 on one side only?
    tol(d) = 5 m + 2**-21 d: a float32 longitude near 180 deg has spacing 2**-16 deg (1.7 m on the sphere), a latitude
    2**-17 deg (0.85 m), a cartesian coordinate near 6.4e6 m has spacing 0.5 m; both end points may move by half of each and
    the float32 distance carries a few ulps.  Per target: (a) the distances at equal rank agree within tol; (b) entries one
    list has beyond the other's length lie within tol of the radius (they fell on the other side of the strict cut);
    (c) a source present in one list only lies within tol of the cut that excluded it from the other (the radius, or the
    other list's last distance when that list is full).  -> largest distance difference at equal rank (m), or None."""
    worst = 0.0
    tol = lambda d: 5.0 + abs(d) * 2.0 ** -21
    for x, y in zip(a, b):
        m = min(len(x), len(y))
        for (i, d), (j, e) in zip(x[:m], y[:m]):
            if abs(d - e) > tol(max(d, e)):
                return None
            worst = max(worst, abs(d - e))
        for lst in (x[m:], y[m:]):
            for _, d in lst:
                if radius is None or d < radius - tol(radius):
                    return None
        for p, q in ((x, y), (y, x)):
            qs = {i for i, _ in q}
            for i, d in p:
                if i not in qs:
                    cut = q[-1][1] if (k is not None and len(q) >= k and q) else radius
                    if cut is None or d < cut - tol(cut):
                        return None
    return worst


def tie_targets(a, b):
    """target pixels where two neighbour maps differ although the distance sequences are identical"""
    return {t for t, (x, y) in enumerate(zip(a, b)) if x != y and len(x) == len(y) and [d for _, d in x] == [d for _, d in y]}


RESULT_INFO = {"nn": "info1"}     # every other result type is computed from the k-neighbour info


def cfg_name(c):
    return "reduce=%s,segments=%s,nprocs=%s%s" % (c["reduce"], c["segments"], c["nprocs"], ",lonlats cached" if c.get("cache_target") else "")


def which_component(cfg, base):
    if cfg["nprocs"] != base["nprocs"]:
        return "nprocs"
    if cfg.get("cache_target") != base.get("cache_target"):
        return "cached_lonlats"
    if cfg["segments"] != base["segments"]:
        return "segments"
    return "reduce"


def check_case(ctx, case, obs, report):
    """Compare the runs of one case: the reduce_data=True reference (segments=1, nprocs=1) against the plain call
    (neighbour info mapped back to source indices + final arrays), every other run against the reference of the same
    reduce_data flavour (raw arrays), and the two-step results against fresh calls.  Where two runs differ only in WHICH of
    several exactly equidistant sources the kd-tree returned (the tree is an oracle; pykdtree and scipy break ties
    differently), the difference is counted as a tie and the affected target pixels are left out of the comparison of results.
    report(key, what, extra) is called per violation. Returns facts for attribution / book-keeping."""
    facts = {"lost_src": set(), "lost_tgt": set(), "neigh": 0, "ties": 0, "runs": 0, "errors": 0, "reduce_differs": False}
    if "driver_error" in obs or "geo_error" in obs:
        report("C03.driver", "driver could not build the case: %s" % (obs.get("driver_error") or obs.get("geo_error")), {})
        return facts
    runs = obs["runs"]
    T = obs["T"]
    if runs[0].get("skipped"):
        return facts
    for which, o in (obs.get("lonlats_mp") or {}).items():
        cls = {"prime_meridian": "prime_meridian", "bound_crs": "bound_crs", "lon_over": "lon_over"}.get(case["tag"], "greenwich")
        if "error" in o:
            report("C03.nprocs.lonlats.%s" % cls, "%s.get_lonlats(nprocs=2) raises %s(%s) where get_lonlats() returns" % (which, o["error"], o.get("msg", "")),
                   {"config": {"reduce": False, "segments": 1, "nprocs": 2}})
            continue
        ref = obs["tgt_lonlat"] if which == "target" else obs["src_lonlat"]
        for name_, a, b in (("lons", dec(o["lon"], np.float64), dec(ref[0], np.float64)), ("lats", dec(o["lat"], np.float64), dec(ref[1], np.float64))):
            if a.shape != b.shape or not np.array_equal(a, b, equal_nan=True):
                j = int(np.flatnonzero(~((a == b) | ((a != a) & (b != b))))[0]) if a.shape == b.shape else -1
                report("C03.nprocs.lonlats.%s" % cls, "%s.get_lonlats(nprocs=2) %s differ from get_lonlats() (%s), e.g. pixel %d: %r vs %r" % (
                    which, name_, str(case["target"].get("proj") if which == "target" else case["source"].get("proj")), j,
                    float(a.ravel()[j]) if j >= 0 else None, float(b.ravel()[j]) if j >= 0 else None),
                    {"config": {"reduce": False, "segments": 1, "nprocs": 2}})
                break
    refs = {}                      # reduce flag -> (run, infos, canon, fresh)
    thin_cls = case["tag"] == "thin"
    for run in runs:
        cfg = run["cfg"]
        if run.get("skipped"):
            continue
        facts["runs"] += 1
        name = cfg_name(cfg)
        infos = {"info1": info_arrays(run["info1"]), "infok": info_arrays(run["infok"])}
        fresh = [{t: dec_fl(v) for t, v in d.items()} if d else None for d in run["fresh"]]
        canon = {}
        for kk in ("info1", "infok"):
            canon[kk] = None
            if infos[kk] is not None:
                canon[kk], prob = canon_info(infos[kk])
                if prob:
                    report("C03.info_shape", "%s: %s" % (name, prob), {"config": cfg})
                    canon[kk] = None
        is_ref = cfg["reduce"] not in refs
        if is_ref:
            refs[cfg["reduce"]] = (run, infos, canon, fresh)
            if not cfg["reduce"]:
                if canon["info1"] is None or canon["infok"] is None:
                    report("C03.plain_call", "the plain call fails: %s %s" % (run["info1"].get("error"), run["infok"].get("error")), {})
                    return facts
                facts["neigh"] = sum(len(x) for x in canon["infok"])
                continue
        # what this run is compared with: the reduce_data=True reference with the plain call, every other run with the
        # reference of its own reduce_data flavour
        rrun, rinfo, rcanon, rfresh = refs[False] if is_ref else refs[cfg["reduce"]]
        rcfg = rrun["cfg"]
        rname = "the plain call" if is_ref else cfg_name(rcfg)
        comp = "reduce" if is_ref else which_component(cfg, rcfg)
        ties = {"info1": set(), "infok": set()}
        f32_nprocs = case["source"].get("dtype") == "float32" and comp in ("nprocs", "cached_lonlats")
        f32_rel = 0.0
        # -- neighbour info
        for kk in ("info1", "infok"):
            if infos[kk] is None:
                facts["errors"] += 1
                e = run[kk]
                if rinfo[kk] is not None:
                    thin = "0-d" in e.get("msg", "") and cfg["reduce"] and thin_cls
                    report("C03.reduce.thin_target_crash" if thin else "C03.%s.error" % comp,
                           "get_neighbour_info(%s) raises %s(%s) where %s returns" % (name, e["error"], e.get("msg", ""), rname),
                           {"config": cfg, "stage": kk})
                continue
            if rinfo[kk] is None or canon[kk] is None or rcanon[kk] is None:
                continue
            if not is_ref and raw_equal(infos[kk], rinfo[kk]):
                continue
            can, bcan = canon[kk], rcanon[kk]
            if f32_nprocs and can != bcan:
                rel = f32_close(can, bcan, case["radius"], 1 if kk == "info1" else case["k"])
                if rel is not None:
                    # same neighbours up to binary32 rounding of the coordinates on one side
                    f32_rel = max(f32_rel, rel, 1e-9)
                    ties[kk] = set(range(T))
                    continue
            if can == bcan:
                if not is_ref:
                    # same neighbours for every target, yet the raw arrays differ (layout, padding, dtype-independent values)
                    report("C03.%s.info" % comp, "neighbour info arrays (%s) of %s differ from those of %s although they describe the same neighbours" % (
                        kk, name, rname), {"config": cfg, "reference": rcfg, "stage": kk})
                continue
            ties[kk] = tie_targets(can, bcan)
            if only_ties(can, bcan):
                facts["ties"] += 1
                continue
            if is_ref:
                facts["reduce_differs"] = True
                kept = infos[kk]["vii"].astype(bool).ravel()
                voi = infos[kk]["voi"].astype(bool).ravel()
                for tt, (x, y) in enumerate(zip(can, bcan)):
                    if x != y and tt not in ties[kk]:
                        for s_, _ in y:
                            if not kept[s_]:
                                facts["lost_src"].add(s_)
                        if y and not voi[tt]:
                            facts["lost_tgt"].add(tt)
            t, got, want = next((t, x, y) for t, (x, y) in enumerate(zip(can, bcan)) if x != y and t not in ties[kk])
            report("C03.%s.neighbours" % comp, "%s: target pixel %d gets neighbours %s, %s gets %s (source index, distance)" % (
                name, t, list(got), rname, list(want)),
                {"config": cfg, "reference": rcfg, "stage": kk, "target_pixel": t, "got": list(got), "want": list(want)})
        if f32_rel > 0.0:
            why = ("its distance_array is float64 (scipy on a c_double copy) where the single-process one is float32 (pykdtree in the swath's dtype)"
                   if comp == "nprocs" else
                   "the stored target lon/lats are float64 while a fresh get_lonlats(dtype=float32) rounds the projection coordinates to float32 first")
            report("C03.%s.float32_source" % comp, "%s finds the same neighbours as %s up to binary32 rounding, but %s: distances at equal rank differ by up to %.3f m, so "
                   "weighted results differ in the last digits of binary32" % (name, rname, why, f32_rel), {"config": cfg, "reference": rcfg})
        # -- final arrays of the fresh calls
        for di, d in enumerate(fresh):
            if d is None or rfresh[di] is None:
                continue
            for typ, got in d.items():
                want = rfresh[di].get(typ)
                ign = ties[RESULT_INFO.get(typ, "infok")]
                if want is None or same_fl(got, want, ign, T):
                    continue
                if isinstance(got[0], str):
                    thin = "0-d" in got[2] and cfg["reduce"] and thin_cls
                    if not isinstance(want[0], str):
                        report("C03.reduce.thin_target_crash" if thin else "C03.%s.error" % comp,
                               "resample_%s(%s) raises %s(%s) where %s returns an array" % (typ, name, got[1], got[2], rname),
                               {"config": cfg, "type": typ, "dataset": di})
                else:
                    if is_ref:
                        facts["reduce_differs"] = True
                    report("C03.%s.result" % comp, "resample %s (%s) on dataset %d differs from %s%s" % (
                        typ, name, di, rname, describe_diff(got, want)), {"config": cfg, "reference": rcfg, "type": typ, "dataset": di})
        if run.get("info_unchanged_by_sampling") is False:
            report("C03.two_step.info_mutated", "get_sample_from_neighbour_info(%s) modified the neighbour info arrays it was given" % name,
                   {"config": cfg})
        # -- two-step: info computed once and applied to every dataset, against the fresh call of the same configuration;
        #    where no fresh call was made for that dataset, against the fresh call of the reference configuration
        #    (then a difference is one of that component, and ties are left out as above)
        for di, d in enumerate(run["two_step"]):
            if d is None:
                continue
            own = fresh[di] is not None
            ref = fresh[di] if own else rfresh[di]
            if ref is None:
                continue
            for typ, v in d.items():
                got = dec_fl(v)
                want = ref.get(typ)
                ign = None if own else ties[RESULT_INFO.get(typ, "infok")]
                if want is None or same_fl(got, want, ign, T):
                    continue
                if not own and (facts["errors"] or (is_ref and facts["reduce_differs"])):
                    continue        # already reported for this run
                report("C03.two_step" if own else "C03.%s.result" % comp,
                       "get_sample_from_neighbour_info(%s, %s) on dataset %d differs from the fresh resample call%s%s" % (
                           typ, name, di, "" if own else " of " + rname, describe_diff(got, want)),
                       {"config": cfg, "reference": rcfg, "type": typ, "dataset": di})
    # the plain call's own two-step
    run = runs[0]
    fresh = refs[False][3]
    for di, d in enumerate(run["two_step"]):
        if d is None or fresh[di] is None:
            continue
        for typ, v in d.items():
            got, want = dec_fl(v), fresh[di].get(typ)
            if want is not None and not same_fl(got, want):
                report("C03.two_step", "get_sample_from_neighbour_info(%s, plain call) on dataset %d differs from the fresh resample call%s" % (
                    typ, di, describe_diff(got, want)), {"config": run["cfg"], "type": typ, "dataset": di})
    if runs[0].get("info_unchanged_by_sampling") is False:
        report("C03.two_step.info_mutated", "get_sample_from_neighbour_info (plain call) modified the neighbour info arrays it was given", {"config": runs[0]["cfg"]})
    return facts


def describe_diff(a, b):
    if isinstance(a[0], str) or isinstance(b[0], str):
        return ": %s vs %s" % (a[1] if isinstance(a[0], str) else "array", b[1] if isinstance(b[0], str) else "array")
    if a[0].shape != b[0].shape:
        return ": shape %s vs %s" % (a[0].shape, b[0].shape)
    if a[2] != b[2]:
        return ": dtype %s vs %s" % (a[2], b[2])
    x, y = a[0].ravel(), b[0].ravel()
    ne = ~((x == y) | ((x != x) & (y != y)))
    if a[1] is not None:
        ne = ne & ~(a[1].ravel() & b[1].ravel()) | (a[1].ravel() != b[1].ravel())
    idx = np.flatnonzero(ne)
    if idx.size == 0:
        return ""
    return ": %d cells differ, e.g. flat index %d: %r vs %r" % (idx.size, idx[0], float(x[idx[0]]), float(y[idx[0]]))


# ---------------------------------------------------------------------------------------------
# Coq side: reduction-mask skeleton and segment assembly against the implementation
COQ_HDR = ("From Coq Require Import ZArith List Bool PrimFloat.\n"
           "From PR Require Import Base.ListX Base.F64 Model.ReduceMask Model.C03_run.\n"
           "Import ListNotations.\nOpen Scope Z_scope.\n")


def fh(x):
    s = fhex(x)
    return "PrimFloat." + s if s in ("nan", "infinity", "neg_infinity") else s


def flist(l):
    return "[" + "; ".join(fh(float.fromhex(x) if isinstance(x, str) else x) for x in l) + "]"


def table(log, name):
    seen, out = set(), []
    for n, a, v in log:
        if n == name and a not in seen:
            seen.add(a)
            out.append("(%s, %s)" % (fh(float.fromhex(a)), fh(float.fromhex(v))))
    return "[" + "; ".join(out) + "]"


def mask_case_text(case, obs):
    """Coq literal of one mask_case, or None when the reduction does not apply / crashed."""
    red = obs.get("red", {})
    if "mask" not in red:
        return None
    if red["applies_to"] == "source":
        plon, plat = dec(obs["src_lonlat"][0], np.float64), dec(obs["src_lonlat"][1], np.float64)
    else:
        plon, plat = dec(obs["tgt_lonlat"][0], np.float64), dec(obs["tgt_lonlat"][1], np.float64)
    mask = dec(red["mask"], np.uint8).astype(bool).ravel()
    if mask.size != plon.size:
        return None
    sides = " ".join(flist(s) for s in red["side_lons"] + red["side_lats"])
    pts = "[" + "; ".join("(%s, %s)" % (fh(a), fh(b)) for a, b in zip(plon.tolist(), plat.tolist())) + "]"
    m = "[" + "; ".join("true" if b else "false" for b in mask.tolist()) + "]"
    log = red["libm"]
    return "(mk_case (mk_sides %s) %s %s %s %s %s %s %s %s)" % (
        sides, fh(case["radius"]), table(log, "sin"), table(log, "cos"), table(log, "arcsin"),
        table(log, "degrees"), table(log, "radians"), pts, m)


def seg_case_texts(case, obs):
    """segment-assembly cases: per-target answers of the plain run as tables, arrays of the segmented runs as expectation"""
    out = []
    runs = obs.get("runs") or []
    if not runs:
        return out
    base = info_arrays(runs[0]["info1"])
    if base is None:
        return out
    tshape = obs["tshape"]
    rows, cols = (tshape[0], tshape[1]) if len(tshape) == 2 else (tshape[0], 1)
    voi = base["voi"].astype(bool).ravel()
    ia = base["ia"].reshape(-1)
    if voi.sum() != ia.size:
        return out
    qtab, j = [], 0
    for v in voi.tolist():
        if v:
            qtab.append("[%d]" % int(ia[j]))
            j += 1
        else:
            qtab.append("[]")
    bl = "[" + "; ".join("true" if b else "false" for b in voi.tolist()) + "]"
    for run in runs[1:]:
        cfg = run["cfg"]
        if cfg["reduce"] or cfg["nprocs"] != 1 or cfg["segments"] is None or cfg.get("cache_target"):
            continue        # (a run after get_lonlats(cache=True) is a different history of the target object, see the oracle)
        a = info_arrays(run["info1"])
        if a is None:
            continue
        v2 = "[" + "; ".join("true" if b else "false" for b in a["voi"].astype(bool).ravel().tolist()) + "]"
        i2 = "[" + "; ".join("[%d]" % int(x) for x in a["ia"].reshape(-1).tolist()) + "]"
        out.append("(%d, %d%%nat, %d%%nat, %s, [%s], %s, %s)" % (cfg["segments"], rows, cols, bl, "; ".join(qtab), v2, i2))
    return out


COMPONENT = {1: "lat_window", 2: "lon_window", 3: "lat_and_lon_window", 0: "not_rejected_by_model"}


def wrapped_deltas(sides):
    """cumulative longitude of the boundary relative to its first point, without the jumps at the date line"""
    cum, acc = [0.0], 0.0
    for side in sides:
        prev = None
        for lon in side:
            if prev is not None:
                d = lon - prev
                if abs(d) > 180:
                    d = (abs(d) - 360) * (1 if d > 0 else -1)
                acc += d
                cum.append(acc)
            prev = lon
    return cum


def diagnose_snapshot(red, radius, lon, lat, code):
    """Why the SNAPSHOT's window rejects a point that has a counterpart within the radius (deterministic, from the
    boundary itself): returns the attribution key suffix.
      lon_window.<band>            : side 4 / side 2 do hold the western / eastern extremes, the buffer r/(sin(max|lat|)R) is
                                     too narrow; band = latitude band of the boundary (max |lat|)
      side_assumption.<how>        : even with the correct spherical buffer the window built from side4.min()/side2.max()
                                     and the `side2.min() > side4.max()` date-line test excludes the point
      lat_window.large_radius      : latitude buffer r/R (arc) although neighbours are selected by chord length
    """
    lo = [[float.fromhex(x) for x in s] for s in red["side_lons"]]
    la = [[float.fromhex(x) for x in s] for s in red["side_lats"]]
    all_lat = [x for s in la for x in s]
    maxabs = max(abs(x) for x in all_lat)
    ang = 2.0 * math.asin(min(radius / (2 * R_EARTH), 1.0))
    keys = []
    if code in (1, 3):
        lat_ok = min(all_lat) - math.degrees(ang) <= lat <= max(all_lat) + math.degrees(ang)
        if lat_ok:
            keys.append("lat_window.large_radius" if radius >= 2.0e5 else "lat_window.small_radius")
        else:
            keys.append("lat_window.extremum_not_on_boundary")
    if code in (2, 3):
        pole_reach = maxabs + math.degrees(ang) >= 90
        buf = 360.0 if pole_reach else math.degrees(math.asin(min(1.0, math.sin(ang) / math.cos(math.radians(maxabs)))))
        w_leg, e_leg = min(lo[3]), max(lo[1])
        no_dateline = min(lo[1]) > max(lo[3])
        if no_dateline:
            kept = w_leg - buf <= lon <= e_leg + buf
        else:
            kept = (w_leg - buf <= lon <= 180) or (-180 <= lon <= e_leg + buf)
        if kept:
            band = "low_lat" if maxabs < 45 else "mid_lat" if maxabs < 60 else "high_lat" if maxabs < 85 else "near_pole"
            keys.append("lon_window." + band)
        else:
            cum = wrapped_deltas(lo)
            west, east = lo[0][0] + min(cum), lo[0][0] + max(cum)
            crosses = math.floor((west + 180) / 360) != math.floor((east + 180) / 360)
            if no_dateline:
                keys.append("side_assumption.extremes_not_on_side4_side2")
            elif crosses:
                keys.append("side_assumption.dateline_extremes")
            else:
                keys.append("side_assumption.dateline_branch_without_crossing")
    return keys if keys else ["not_rejected_by_model"]


def shard(l, n):
    return [l[i:i + n] for i in range(0, len(l), n)]


def run_impl_sharded(ctx, cases, per=6, workers=8, timeout=1700):
    from concurrent.futures import ThreadPoolExecutor
    chunks = shard(cases, per)
    with ThreadPoolExecutor(max_workers=workers) as ex:
        futs = [ex.submit(ctx.impl, "c03", {"cases": ch, "limit": 60 if ctx.tier == "quick" else 120}, timeout) for ch in chunks]
        res = []
        for f in futs:
            res += f.result()["cases"]
    return res


def mp_available(ctx):
    try:
        r = ctx.impl("c03", {"cases": [], "probe_mp": True}, timeout=120)
        return bool(r.get("mp_ok"))
    except Exception:
        return False


def analyse(ctx, cases, obs_list):
    """Oracle + attribution + correspondence for a list of (case, observation). Returns list of (key, what, replay)."""
    reports = []            # (case index, key, what, extra)
    facts_all = []
    for ci, (case, obs) in enumerate(zip(cases, obs_list)):
        def report(key, what, extra, ci=ci):
            reports.append((ci, key, what, extra))
        facts_all.append(check_case(ctx, case, obs, report))

    # ---- Coq: masks (both variants of the skeleton), reasons for lost points, segment assembly
    mtexts, midx = [], []
    for ci, (case, obs) in enumerate(zip(cases, obs_list)):
        t = mask_case_text(case, obs) if "runs" in obs else None
        if t is not None:
            midx.append(ci)
            mtexts.append(t)
    files = []
    per_file = 12
    for fi, ch in enumerate(shard(list(zip(midx, mtexts)), per_file)):
        lost = []
        for pos, (ci, _) in enumerate(ch):
            f = facts_all[ci]
            pts = sorted(f["lost_src"] if obs_list[ci]["red"]["applies_to"] == "source" else f["lost_tgt"])[:40]
            lost.append("(%d%%nat, [%s])" % (pos, "; ".join("%d%%nat" % p for p in pts)))
        body = (COQ_HDR + "Definition cases : list mask_case := [\n%s].\n" % ";\n".join(t for _, t in ch)
                + "Definition lost : list (nat * list nat) := [%s].\n" % "; ".join(lost)
                + "Eval vm_compute in (bad (chk_mask true) cases).\n"
                + "Eval vm_compute in (bad (chk_mask false) cases).\n"
                + "Definition dflt := mk_case (mk_sides [] [] [] [] [] [] [] []) 0%float [] [] [] [] [] [] [].\n"
                + "Eval vm_compute in (map (fun e => reasons true (nth (fst e) cases dflt) (snd e)) lost).\n"
                + "Eval vm_compute in (map (fun e => reasons false (nth (fst e) cases dflt) (snd e)) lost).\n")
        files.append(("c03_mask_%03d" % fi, body, [ci for ci, _ in ch]))
    stexts = []
    for case, obs in zip(cases, obs_list):
        stexts += seg_case_texts(case, obs)
    sfiles = []
    for fi, ch in enumerate(shard(stexts, 60)):
        body = (COQ_HDR.replace("Model.C03_run.", "Model.C03_run Model.C03_imp_run.")
                + "Definition cases : list (Z * nat * nat * list bool * list (list Z) * list bool * list (list Z)) := [\n%s].\n" % ";\n".join(ch)
                + "Eval vm_compute in (bad chk_imp_gni cases).\n"          # the TRANSLATED get_neighbour_info (Gen/GenC03imp.v)
                + "Eval vm_compute in (bad chk_segments cases).\n")         # the hand model (Model/Organise.v)
        sfiles.append(("c03_seg_%03d" % fi, body, ch))
    res = ctx.coq_eval_many([(n, t) for n, t, _ in files] + [(n, t) for n, t, _ in sfiles])

    from .common import evals
    import re as _re
    okf, okl, rs_f, rs_l = {}, {}, {}, {}
    for name, _, cis in files:
        out, ok = res[name]
        if not ok:
            ctx.broken.append(("correspondence:reduction_mask", "model evaluation failed: " + out[-400:]))
            continue
        ev = evals(out)
        nums = [[int(x) for x in _re.findall(r"-?\d+", _re.sub(r"%[a-zA-Z]+", "", e))] for e in ev[:2]]
        bad_fixed, bad_legacy = set(nums[0]), set(nums[1])
        pf, pl = parse_reasons(ev[2]), parse_reasons(ev[3])
        for pos, ci in enumerate(cis):
            okf[ci], okl[ci] = pos not in bad_fixed, pos not in bad_legacy
            rs_f[ci], rs_l[ci] = pf[pos], pl[pos]
    # the tree is ONE variant of the function: the snapshot's, if that skeleton reproduces every mask, else the repaired one
    variant_votes = {"fixed": 0, "legacy": 0, "neither": 0}
    reason_of = {}          # case index -> (variant, winding/mode code, [codes])
    mask_bad = []
    if okl and all(okl.values()):
        tree_variant = "legacy"
    elif okf and all(okf.values()):
        tree_variant = "fixed"
    else:
        tree_variant = "legacy" if sum(okl.values()) >= sum(okf.values()) else "fixed"
    for ci in okl:
        good = okl[ci] if tree_variant == "legacy" else okf[ci]
        if good:
            variant_votes[tree_variant] += 1
            reason_of[ci] = (tree_variant,) + (rs_l[ci] if tree_variant == "legacy" else rs_f[ci])
        else:
            variant_votes["neither"] += 1
            mask_bad.append(ci)
    ctx.count("mask_cases_matching_repaired_skeleton", variant_votes["fixed"])
    ctx.count("mask_cases_matching_snapshot_skeleton", variant_votes["legacy"])
    # a case on which both skeletons agree is counted for 'fixed'; the tree is 'legacy' only if no case needs 'fixed'
    if mask_bad:
        c0 = cases[mask_bad[0]]
        ctx.broken.append(("correspondence:reduction_mask",
                           "data_reduce mask differs from the skeleton model (%s variant; the other variant fits no better) on %d of %d cases, e.g. case %d (%s, target %s)" % (
                               tree_variant, len(mask_bad), len(midx), mask_bad[0], c0["tag"], str(c0["target"] if c0["mode"] == "swath_to_area" else c0["source"])[:160])))
    nseg_bad = 0
    for name, _, ch in sfiles:
        out, ok = res[name]
        if not ok:
            ctx.broken.append(("correspondence:segments", "model evaluation failed: " + out[-400:]))
            continue
        b = ints(out)
        nseg_bad += len(b)
        if b:
            ctx.broken.append(("correspondence:segments", "segment assembly model and implementation differ on %d of %d cases, e.g. %s" % (
                len(b), len(ch), ch[b[0]][:200])))
        ev_ = evals(out)
        bi = [int(x) for x in _re.findall(r"-?\d+", _re.sub(r"%[a-zA-Z]+", "", ev_[0]))] if len(ev_) >= 2 else [0]
        if bi:
            ctx.broken.append(("correspondence:get_neighbour_info_translated", "the translated get_neighbour_info (Gen/GenC03imp.v) and the implementation "
                               "differ on %d of %d segment cases, e.g. %s" % (len(bi), len(ch), ch[bi[0]][:200])))
    ctx.count("segment_assembly_cases", len(stexts))

    # ---- final keys
    out = []
    for ci, key, what, extra in reports:
        case = cases[ci]
        if key in ("C03.reduce.neighbours", "C03.reduce.result"):
            f = facts_all[ci]
            r = reason_of.get(ci)
            red = obs_list[ci].get("red", {})
            applies = red.get("applies_to")
            lost = sorted(f["lost_src"] if applies == "source" else f["lost_tgt"])[:40]
            if r is None:
                out.append((ci, "C03.H_red.unmodelled", what, extra))
                continue
            if not lost:
                out.append((ci, "C03.H_red.no_lost_point", what, extra))
                continue
            variant, code, codes = r
            ll_ = obs_list[ci]["src_lonlat"] if applies == "source" else obs_list[ci]["tgt_lonlat"]
            plon, plat = dec(ll_[0], np.float64), dec(ll_[1], np.float64)
            by_key = {}
            for p, c in zip(lost, codes):
                if variant == "legacy":
                    comps = diagnose_snapshot(red, case["radius"], float(plon[p]), float(plat[p]), c)
                else:
                    comps = ["repaired." + COMPONENT.get(c, "?")]
                for comp in comps:          # a point rejected by both windows counts for both causes
                    by_key.setdefault(comp, []).append(p)
            for comp, ps in sorted(by_key.items()):
                p = ps[0]
                detail = " [%s skeleton, winding class %d, lon mode %d: %d lost %s point(s) of this kind, e.g. index %d at (lon %.6f, lat %.6f)]" % (
                    variant, code // 10, code % 10, len(ps), "source" if applies == "source" else "target", p, float(plon[p]), float(plat[p]))
                out.append((ci, "C03.H_red." + comp, what + detail, extra))
            continue
        out.append((ci, key, what, extra))
    return out, facts_all, variant_votes


def parse_reasons(text):
    """'[(22, [2; 2]); (23, [])]' -> [(22, [2, 2]), (23, [])]"""
    import re
    text = re.sub(r"%[a-zA-Z]+", "", text)
    out = []
    for m in re.finditer(r"\(\s*(-?\d+)\s*,\s*\[([^\]]*)\]\s*\)", text):
        out.append((int(m.group(1)), [int(x) for x in re.findall(r"-?\d+", m.group(2))]))
    return out


def replay_payload(case, extra):
    c = dict(case)
    cfgs = [c["configs"][0]]
    if extra.get("config") and extra["config"] != cfgs[0]:
        ref = extra.get("reference")
        if ref and ref != cfgs[0]:
            cfgs.append(dict(ref, fresh_all=True))
        elif extra["config"]["reduce"] and (extra["config"]["segments"], extra["config"]["nprocs"]) != (1, 1):
            cfgs.append({"reduce": True, "segments": 1, "nprocs": 1, "fresh_all": True})
        cfgs.append(dict(extra["config"], fresh_all=True))
    c["configs"] = cfgs
    return c


def run(ctx):
    ctx.rule = ("geometry pool: one fixed representative per input class of the property text (mid/high latitude, off the central "
                "meridian, boundary longitude exactly 0.0, near a pole, over a pole, across the dateline, rotated and flipped grids, "
                "geos disk with off-earth corners, one-pixel-thick targets, the witnesses of C03_snapshot_reduce_refuted) plus "
                "PRNG-generated targets of the same families; sources = a cloud around the target in the projected plane plus boundary "
                "seekers (0.3..1.01 x radius from border pixels in random / meridional bearings, and the point of largest longitude "
                "difference at 0.99..0.99995 x radius), a malformed stream (lon 181, lat 90.5, NaN, 1e30) in every 7th case, every 6th "
                "case reversed (grid -> swath: reduction of the targets); per case every reduce_data x segments "
                "{1,2,3,rows,rows+3,None} (+ nprocs=2 on a subset) x nn/gauss/custom(with_uncert) x 2 datasets (int / multi-channel / "
                "masked, fill value or masked output). One evaluation = one configuration of one case; non-trivial = the plain call "
                "finds at least one neighbour and the configuration differs from the plain call; distinct = distinct (geometry, "
                "radius, k, configuration). Differences that consist only in WHICH of several exactly equidistant sources the "
                "kd-tree returned are counted as ties, not failures (the tree is an oracle)")
    ctx.notes.append("kd-tree engines (pykdtree for nprocs=1, scipy cKDTree for nprocs>1) are oracles: per-target answer assumed to be a "
                     "function of the candidate set (Model/Organise.knn breaks ties by index; the engines break exact ties differently, "
                     "such differences are tolerated and counted)")
    ctx.notes.append("H_red (the reduction mask keeps every source within the radius of a target) is a hypothesis of C03_reduce_sound_if; "
                     "it is refuted for the current data_reduce._get_valid_index (C03_snapshot_reduce_refuted) - known findings C03.H_red.*")
    mp_ok = mp_available(ctx)
    if not mp_ok:
        ctx.notes.append("multiprocessing unavailable in this sandbox run: nprocs=2 configurations skipped")
    cases = gen_cases(ctx, mp_ok)
    hists = gen_histories(ctx)
    from concurrent.futures import ThreadPoolExecutor
    with ThreadPoolExecutor(max_workers=1) as hex_:
        hfut = hex_.submit(ctx.impl, "c03", {"cases": [], "histories": hists, "limit": 60}, 900)
        obs_list = run_impl_sharded(ctx, cases, per=ctx.n(6, 5), workers=8)
        hobs = hfut.result()["histories"]
    for h, ho in zip(hists, hobs):
        def hreport(key, what, extra, h=h):
            ctx.add_failure(key, "history %d (%s %dx%d, %d sources): %s" % (h["id"], h["target"]["proj"].get("proj"), h["target"]["w"], h["target"]["h"],
                                                                              len(h["source"]["lons"]), what),
                            {"oracle": "history", "history": h, "key": key})
        ok = check_history(h, ho, hreport)
        ctx.count("history_calls", len(h["calls"]))
        for i, c in enumerate(h["calls"]):
            ctx.case(("history", h["id"], i, call_name(c)), nontrivial=i > 0,
                     sample={"history": "call %d of %d in one process" % (i, len(h["calls"])), "call": call_name(c),
                             "geometry": {kk: vv for kk, vv in h["target"].items() if kk in ("proj", "w", "h", "extent")}})
    reports, facts_all, votes = analyse(ctx, cases, obs_list)
    for case, obs, f in zip(cases, obs_list, facts_all):
        ctx.count("class_" + case["tag"])
        ctx.count("mode_" + case["mode"])
        if case.get("malformed"):
            ctx.count("malformed_stream_cases")
        if case["source"].get("dtype") == "float32":
            ctx.count("float32_source_cases")
        geo = case["target"] if case["mode"] == "swath_to_area" else case["source"]
        ctx.count("crs_" + str(geo.get("proj", {}).get("proj")))
        for cfg in case["configs"]:
            nontriv = f["neigh"] > 0 and cfg is not case["configs"][0]
            ctx.case((case["id"], repr(case["target"])[:2000], case["radius"], case["k"], cfg_name(cfg)), nontrivial=nontriv,
                     sample={case["tag"]: "%s, %s" % (case["mode"], cfg_name(cfg)),
                             "geometry": {kk: vv for kk, vv in geo.items() if kk in ("proj", "w", "h", "extent")},
                             "sources": obs.get("S"), "targets": obs.get("T"), "radius_m": case["radius"], "k": case["k"],
                             "source_dtype": case["source"].get("dtype", "float64"),
                             "neighbours_found_by_plain_call": f["neigh"],
                             "lost_under_reduction": len(f["lost_src"]) + len(f["lost_tgt"])})
            ctx.count("nprocs_%d" % cfg["nprocs"])
            ctx.count("reduce_%s" % cfg["reduce"])
            ctx.count("segments_%s" % ("None" if cfg["segments"] is None else "1" if cfg["segments"] == 1 else
                                       "rows+3" if cfg["segments"] > obs.get("rows", 0) else "rows" if cfg["segments"] == obs.get("rows") else str(cfg["segments"])))
            if cfg.get("cache_target"):
                ctx.count("lonlats_cached_before_call")
        if f["ties"]:
            ctx.count("tie_only_differences", f["ties"])
    ctx.traces = sum(f["runs"] for f in facts_all)
    seen = set()
    for ci, key, what, extra in reports:
        if (ci, key) in seen:
            continue
        seen.add((ci, key))
        case = cases[ci]
        ctx.add_failure(key, "case %d (%s, %s, radius %.0f m, k=%d): %s" % (ci, case["tag"], case["mode"], case["radius"], case["k"], what),
                        {"oracle": "organisation", "case": replay_payload(case, extra), "key": key})


# ---------------------------------------------------------------------------------------------
# histories of calls in one process
def gen_histories(ctx):
    """Geometry pairs driven through a sequence of calls in ONE driver process: radii growing and shrinking, different
    neighbour counts and segment counts, reduce_data on and off, the same geometry objects re-used or equal-content fresh
    objects.  Each call is compared with the same call made as an isolated first call (forked before any history call)."""
    r = ctx.rng
    pool = [area({"proj": "laea", "lat_0": 45, "lon_0": 15, "ellps": "WGS84"}, 12, 12, (-4e5, -4e5, 4e5, 4e5), "history"),
            ll(0, 5, 12, 17, 10, 10, "history"),
            stere(90, 37, (-5e5, -25e5, 5e5, -15e5), 9, 9, "history")]
    if ctx.thorough:
        pool += [random_target(r) for _ in range(9)]
    hists = []
    for hi, tgt in enumerate(pool):
        lon, lat, tr, (x0, y0, x1, y1, dx, dy) = area_lonlats(tgt)
        ps = pixel_scale(lon, lat)
        n = 160
        pts, tries = [], 0
        mx, my = abs(x1 - x0) * 0.9, abs(y1 - y0) * 0.9
        while len(pts) < n and tries < 40 * n:
            tries += 1
            a, b = tr.transform(r.uniform(min(x0, x1) - mx, max(x0, x1) + mx), r.uniform(min(y0, y1) - my, max(y0, y1) + my), direction="INVERSE")
            if math.isfinite(a) and math.isfinite(b) and -90 <= b <= 90:
                pts.append(((a + 180.0) % 360.0 - 180.0, b))
        if len(pts) < 10:
            continue
        src = {"kind": "swath", "lons": [p[0] for p in pts], "lats": [p[1] for p in pts], "shape": [len(pts)]}
        radii = [round(ps * f) for f in (0.35, 2.6, 1.2, 4.0, 0.35, 4.0)]
        ks = [1, 3, 1, 2, 4, 1]
        segs = [1, 1, 2, 1, 3, 2]
        fresh = [False, False, True, False, True, False]
        reduce_ = [True, True, True, False, True, True]
        order = list(range(6))
        if hi % 2 == 1:
            order = [3, 1, 5, 0, 2, 4]          # a shrinking-first order
        calls = [{"radius": float(max(radii[i], 1000)), "k": ks[i], "segments": segs[i], "fresh": fresh[i], "reduce": reduce_[i],
                  "epsilon": 0.0 if i % 2 else 0, "fill": 0 if i == 2 else -1} for i in order]
        hists.append({"id": hi, "tag": tgt["tag"], "source": src, "target": {k_: v for k_, v in tgt.items() if k_ != "tag"},
                      "data": [r.randint(-400, 400) / 8.0 for _ in pts], "calls": calls})
    return hists


def call_name(c):
    return "radius=%.0f,k=%d,reduce=%s,segments=%s%s" % (c["radius"], c["k"], c["reduce"], c["segments"], ",fresh objects" if c.get("fresh") else "")


def check_history(h, obs, report):
    """history independence: call i of the history == the same call made as a first call"""
    n_ok = 0
    for i, (c, got, iso) in enumerate(zip(h["calls"], obs["history"], obs["isolated"])):
        past = "; ".join(call_name(x) for x in h["calls"][:i]) or "nothing"
        where = "call %d (%s) after [%s]" % (i, call_name(c), past)
        extra = {"history": h["id"], "call": i}
        if "error" in iso:
            if "error" not in got or got["error"] != iso["error"]:
                report("C03.history.error", "%s: isolated call raises %s, in the history %s" % (where, iso.get("error"), got.get("error", "returns")), extra)
            continue
        if "error" in got:
            report("C03.history.error", "%s raises %s(%s); as a first call it returns" % (where, got["error"], got.get("msg", "")), extra)
            continue
        a, b = info_arrays(got["info"]), info_arrays(iso["info"])
        if not np.array_equal(a["vii"], b["vii"]):
            d = np.flatnonzero(a["vii"].ravel() != b["vii"].ravel())
            report("C03.history.reduction_mask", "%s: valid_input_index differs from that of the same call made first in a process (%d sources, e.g. index %d: %s vs %s)" % (
                where, d.size, int(d[0]), bool(a["vii"].ravel()[d[0]]), bool(b["vii"].ravel()[d[0]])), extra)
            continue
        ca, _ = canon_info(a)
        cb, _ = canon_info(b)
        if ca != cb and not (ca and cb and only_ties(ca, cb)):
            t, x, y = first_diff(ca, cb)
            report("C03.history.neighbours", "%s: target pixel %d gets %s, the same call made first gets %s" % (where, t, list(x), list(y)), extra)
            continue
        ra, rb = dec_fl(got["nn"]), dec_fl(iso["nn"])
        if not same_fl(ra, rb, tie_targets(ca, cb) if ca and cb else None, len(ca) if ca else None):
            report("C03.history.result", "%s: resample_nearest differs from the same call made first%s" % (where, describe_diff(ra, rb)), extra)
            continue
        n_ok += 1
    return n_ok


def replay(ctx, data):
    """re-run the recorded case (plain call, reference and failing configuration); still failing = the same key is reported"""
    rp = data["case"]
    if rp.get("oracle") == "history":
        h = rp["history"]
        ho = ctx.impl("c03", {"cases": [], "histories": [h], "limit": 60})["histories"][0]
        found = []
        check_history(h, ho, lambda key, what, extra: found.append((key, what)))
        for key, what in found:
            if key == data.get("key"):
                print("  still failing: %s: %s" % (key, what[:400]))
                return True
        return False
    case = rp["case"]
    obs = ctx.impl("c03", {"cases": [case]})["cases"]
    reports, _, _ = analyse(ctx, [case], obs)
    still = False
    for _, key, what, _ in reports:
        if key == data.get("key"):
            if not still:
                print("  still failing: %s: %s" % (key, what[:400]))
            still = True
    return still or bool(ctx.broken)
