"""C19 — partition helpers and overlap merging."""
import itertools
from .common import zlit, zlist, ints

PROP_FILE = "Properties/C19.v"
GEN = ["GenSubset", "GenC19"]
RUN_FILES = ["Model/C19_run.v", "Model/C19_imp_run.v"]


def pairs(l):
    return "[" + "; ".join("(%d, %d)" % (a, b) for a, b in l) + "]"


def gen_cases(ctx):
    r = ctx.rng
    c = {}
    lim = ctx.n(24, 48)
    c["get_slice"] = [(seg, size, 1 + (seg + size) % 2) for size in range(0, lim + 1) for seg in range(1, lim + 4)]
    c["get_slice"] += [(r.randint(1, 400), r.randint(0, 5000), r.choice([1, 2])) for _ in range(ctx.n(60, 400))]
    ch = []
    ent = [0, 1, 2, 3]
    axes = [list(t) for k in (1, 2, 3) for t in itertools.product(ent, repeat=k)]
    for a in axes[:ctx.n(30, 84)]:
        for b in axes[:ctx.n(12, 40)]:
            ch.append([a, b])
    for a in axes[:12]:
        ch.append([a])
        ch.append([a, [2, 1], [1, 2]])
    ch += [[[r.randint(0, 9) for _ in range(r.randint(1, 6))] for _ in range(r.randint(1, 3))] for _ in range(ctx.n(40, 300))]
    c["chunks"] = ch
    raa = []
    seqs = [list(t) for k in range(1, 4) for t in itertools.product([0, 1, 2, 3], repeat=k)]
    for cap in range(0, ctx.n(7, 10)):
        for lens in seqs:
            raa.append((cap, lens, (cap + len(lens)) % 3))
    for _ in range(ctx.n(60, 600)):
        raa.append((r.randint(0, 40), [r.randint(0, 12) for _ in range(r.randint(1, 8))], r.choice([0, 1, 4])))
    out = []
    for cap, lens, width in raa:
        k = 0
        appends = []
        for n in lens:
            appends.append(list(range(k, k + n)))
            k += n
        # histories: to_array() is also observed after a PRNG-chosen subset of the appends (always after the last)
        reads = sorted(i for i in range(1, len(appends)) if r.random() < 0.5)
        # aliasing: in half of the histories the caller overwrites its own row array right after append_row returned
        # (np.concatenate copies; a buffer that kept a reference to the caller's memory would change)
        out.append((cap, appends, width, reads, (cap + len(appends) + width) % 2))
    c["raa"] = out
    dv = []
    M = ctx.n(11, 15)
    for mx in range(1, M):
        for f in range(1, 8):
            for a in range(0, mx):
                for b in range(a + 1, mx + 1):
                    dv.append((a, b, mx, f))
    for _ in range(ctx.n(200, 3000)):
        mx = r.randint(1, 3000)
        a = r.randint(0, mx - 1)
        b = r.randint(a + 1, mx)
        dv.append((a, b, mx, r.choice([1, 2, 3, 4, 5, 7, 8, 16, 100, mx, mx + 1])))
    c["divisible"] = dv
    c["expand"] = [(a, b) for a in range(0, 6) for b in range(a, 9)]
    un = []
    U = [0, 1, 2, 3, 4]
    subsets = [[x for i, x in enumerate(U) if m >> i & 1] for m in range(1, 32)]
    for _ in range(ctx.n(150, 1500)):
        k = r.randint(1, 6)
        fam = [r.choice(subsets[:r.choice([7, 15, 31])]) for _ in range(k)]
        un.append(fam)
        p = fam[:]
        r.shuffle(p)
        un.append(p)
    c["unions"] = un
    return c


def tiles(sl, size):
    pos = 0
    for a, b in sl:
        if a != pos or not a < b:
            return False
        pos = b
    return pos == size


def components(sets):
    n = len(sets)
    comp = list(range(n))

    def find(i):
        while comp[i] != i:
            i = comp[i]
        return i
    for i in range(n):
        for j in range(i + 1, n):
            if set(sets[i]) & set(sets[j]):
                comp[find(i)] = find(j)
    groups = {}
    for i in range(n):
        groups.setdefault(find(i), []).append(i)
    return sorted(sorted(g) for g in groups.values())


def run(ctx):
    ctx.rule = ("exhaustive small scopes (all (size,segments) up to the tier bound, all chunk tuples with entries 0..3, all append "
                "sequences of <=3 rows-lengths 0..3 with capacity 0..6+, all (max,factor,start,stop) below the tier bound, random "
                "set families over {0..4} and their shuffles) plus PRNG cases; a case is non-trivial when the helper produces at "
                "least two pieces / takes an adjusting or overflow branch / merges at least one pair; distinct = distinct inputs")
    cases = gen_cases(ctx)
    obs = ctx.impl("c19", {k: [list(x) for x in v] if k != "unions" else v for k, v in cases.items()})
    texts = []
    hdr = "From Coq Require Import ZArith List.\nFrom PR Require Import Base.ListX Base.Slice Model.Partition Model.C19_run Gen.GenSubset.\nImport ListNotations.\nOpen Scope Z_scope.\n"

    # the same cases are also run through the definitions regenerated from /repo by tools/py2coq_imp.py (Gen/GenC19.v)
    ihdr = "From Coq Require Import ZArith List.\nFrom PR Require Import Base.ListX Base.Slice Model.C19_run Model.C19_imp_run.\nImport ListNotations.\nOpen Scope Z_scope.\n"

    # ---- independent property oracle on the implementation's observations + Coq case text
    L = []
    LI = []
    for (seg, size, nd), o in zip(cases["get_slice"], obs["get_slice"]):
        ctx.case(("gs", seg, size, nd), nontrivial=isinstance(o, list) and len(o) >= 2,
                 sample={"get_slice": [seg, size], "impl": o})
        ctx.count("get_slice")
        if not isinstance(o, list) or not tiles(o, size) or len(o) > seg:
            ctx.add_failure("C19.get_slice", "_get_slice(%d,(%d,..)) -> %s does not tile [0,%d) in <= %d pieces" % (seg, size, o, size, seg),
                            {"oracle": "get_slice", "args": [seg, size, nd], "impl": o})
            continue
        L.append("(%d, %d, %s)" % (seg, size, pairs(o)))
        LI.append("(%d, %d, %d, %s)" % (seg, size, nd, pairs(o)))
    texts.append(("c19_get_slice", hdr + "Definition cases := [%s].\nEval vm_compute in (bad chk_get_slice cases).\n" % ";\n".join(L), L, "get_slice"))
    texts.append(("c19_imp_get_slice", ihdr + "Definition cases := [%s].\nEval vm_compute in (bad chk_imp_get_slice cases).\n" % ";\n".join(LI), LI, "generated:_get_slice"))

    L = []
    for chunks, o in zip(cases["chunks"], obs["chunks"]):
        ok = isinstance(o, list)
        ctx.case(("ch", repr(chunks)), nontrivial=ok and len(o) >= 2, sample={"chunks": chunks, "impl_blocks": o[:3] if ok else o})
        ctx.count("chunks")
        if ok:
            # each block exactly once, C order, per-axis offsets = prefix sums
            want = []
            for pos in itertools.product(*[range(len(c)) for c in chunks]):
                want.append([[p, sum(c[:p]), sum(c[:p]) + c[p]] for p, c in zip(pos, chunks)])
            ok = (o == want)
        if not ok:
            ctx.add_failure("C19.chunk_slices", "_enumerate_chunk_slices(%s) is not the in-order product of prefix-sum slices" % (chunks,),
                            {"oracle": "chunks", "args": chunks, "impl": o})
            continue
        L.append("(%s, %s)" % ("[" + "; ".join(zlist(c) for c in chunks) + "]",
                               "[" + "; ".join("[" + "; ".join("(%d, (%d, %d))" % tuple(e) for e in blk) + "]" for blk in o) + "]"))
    texts.append(("c19_chunks", hdr + "Definition cases : list (list (list Z) * list (list (Z * (Z * Z)))) := [%s].\nEval vm_compute in (bad chk_chunks cases).\n" % ";\n".join(L), L, "chunks"))
    texts.append(("c19_imp_chunks", ihdr + "Definition cases : list (list (list Z) * list (list (Z * (Z * Z)))) := [%s].\nEval vm_compute in (bad chk_imp_chunks cases).\n" % ";\n".join(L), L, "generated:_enumerate_chunk_slices"))

    L = []
    for (cap, appends, width, reads, scr), o in zip(cases["raa"], obs["raa"]):
        over = sum(len(a) for a in appends) > cap
        ctx.case(("raa", cap, repr(appends), width, repr(reads), scr), nontrivial=over and len(appends) >= 2,
                 sample={"capacity": cap, "appends": appends, "to_array_after": reads + [len(appends)], "caller_overwrites_rows": scr, "impl": o})
        ctx.count("raa_caller_overwrites_rows" if scr else "raa_rows_left_alone")
        ctx.count("raa_overflow" if over else "raa_fits")
        ctx.count("raa_intermediate_reads", len(reads))
        bad = "error" in o
        if not bad:
            for rd in o["reads"]:
                flat = [x for a in appends[:rd["k"]] for x in a]
                if rd["rows"] != flat or not rd["cols_ok"]:
                    bad = True
        if bad:
            ctx.add_failure("C19.row_appendable", "RowAppendableArray(%d): appends %s%s with to_array() after %s gives %s, not the concatenation of the rows appended so far" % (cap, appends, " (the caller overwrites each row array after appending it)" if scr else "", reads, o),
                            {"oracle": "raa", "args": [cap, appends, width, reads, scr], "impl": o})
            continue
        L.append("(%d, %s, %s)" % (cap, "[" + "; ".join(zlist(a) for a in appends) + "]",
                                   "[" + "; ".join("(%d, %s)" % (rd["k"], zlist(rd["rows"])) for rd in o["reads"]) + "]"))
    texts.append(("c19_raa", hdr + "Definition cases : list (Z * list (list Z) * list (Z * list Z)) := [%s].\nEval vm_compute in (bad chk_raa cases).\n" % ";\n".join(L), L, "raa"))
    texts.append(("c19_imp_raa", ihdr + "Definition cases : list (Z * list (list Z) * list (Z * list Z)) := [%s].\nEval vm_compute in (bad chk_imp_raa cases).\n" % ";\n".join(L), L, "generated:RowAppendableArray"))

    L = []
    for (a, b, mx, f), o in zip(cases["divisible"], obs["divisible"]):
        ln = b - a
        ctx.case(("dv", a, b, mx, f), nontrivial=ln % f != 0, sample={"slice": [a, b], "max": mx, "factor": f, "impl": o})
        ctx.count("divisible_adjust" if ln % f else "divisible_noop")
        ok = isinstance(o, list)
        if ok:
            s, e = o
            ok = s < e and 0 <= s and e <= mx
            if mx >= f:
                ok = ok and (e - s) % f == 0
            if -(-ln // f) * f <= mx:
                ok = ok and s <= a and b <= e
        if not ok:
            ctx.add_failure("C19.make_divisible", "_make_slice_divisible(slice(%d,%d), %d, factor=%d) -> %s violates the slice contract" % (a, b, mx, f, o),
                            {"oracle": "divisible", "args": [a, b, mx, f], "impl": o})
            if not isinstance(o, list):
                continue
        L.append("(%d, %d, %d, %d, (%d, %d))" % (a, b, mx, f, o[0], o[1]))
    texts.append(("c19_divisible", hdr + "Definition chk (c : Z * Z * Z * Z * (Z * Z)) : bool := let '(a, b, mx, f, e) := c in pz_eqb (sl2p (gen_make_slice_divisible (mk_slice a b) mx f)) e.\n"
                  "Definition cases := [%s].\nEval vm_compute in (bad chk cases).\n" % ";\n".join(L), L, "make_divisible"))

    L = []
    for (a, b), o in zip(cases["expand"], obs["expand"]):
        ctx.case(("ex", a, b), nontrivial=a > 0)
        L.append("(%d, %d, (%d, %d))" % (a, b, o[0], o[1]))
    texts.append(("c19_expand", hdr + "Definition chk (c : Z * Z * (Z * Z)) : bool := let '(a, b, e) := c in pz_eqb (sl2p (gen_expand_slice (mk_slice a b))) e.\n"
                  "Definition cases := [%s].\nEval vm_compute in (bad chk cases).\n" % ";\n".join(L), L, "expand_slice"))

    L = []
    for fam, o in zip(cases["unions"], obs["unions"]):
        comps = components(fam)
        ctx.case(("un", repr(fam)), nontrivial=len(comps) < len(fam), sample={"sets": fam, "impl": o})
        ctx.count("unions_merged" if len(comps) < len(fam) else "unions_disjoint")
        ok = isinstance(o, list)
        if ok:
            got = sorted(sorted(ids) for ids, _ in o)
            ok = got == comps and all(sorted(set().union(*[fam[i] for i in ids])) == p for ids, p in o)
        if not ok:
            ctx.add_failure("C19.merge_components", "merging %s gives %s, not the connected components %s" % (fam, o, comps),
                            {"oracle": "unions", "args": fam, "impl": o})
            continue
        L.append("(%s, %s)" % ("[" + "; ".join(zlist(s) for s in fam) + "]",
                               "[" + "; ".join("(%s, %s)" % (zlist(ids), zlist(p)) for ids, p in o) + "]"))
    texts.append(("c19_unions", hdr + "Definition cases : list (list zset * list (list Z * zset)) := [%s].\nEval vm_compute in (bad chk_unions cases).\n" % ";\n".join(L), L, "merge"))
    texts.append(("c19_imp_unions", ihdr + "Definition cases : list (list zset * list (list Z * zset)) := [%s].\nEval vm_compute in (bad chk_imp_unions cases).\n" % ";\n".join(L), L, "generated:_merge_unions"))

    res = ctx.coq_eval_many([(n, t) for n, t, _, _ in texts])
    for name, _, lines, what in texts:
        out, ok = res[name]
        if not ok:
            ctx.broken.append(("correspondence:" + what, "model evaluation failed: " + out[-300:]))
            continue
        bad = ints(out)
        if bad:
            ctx.broken.append(("correspondence:" + what, "model and implementation differ on %d of %d cases, e.g. %s" % (len(bad), len(lines), lines[bad[0]][:200])))
