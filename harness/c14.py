"""C14 — freezing a dynamic area yields a grid containing all the data it was fitted to."""
import math

from .common import ints

PROP_FILE = "Properties/C14.v"
GEN = ["GenC14", "GenC14imp"]
RUN_FILES = ["Model/C14_run.v", "Model/C14_imp_run.v"]

HDR = ("From Coq Require Import ZArith List Bool PrimFloat.\n"
       "From PR Require Import Base.Num Base.F64 Base.ListX Model.Grid Model.DynBase Model.Dynamic Model.C14_run Model.DynImp "
       "Model.C14_imp_run.\n"
       "Import ListNotations.\nOpen Scope Z_scope.\n")

NAN = float("nan")
MODES = [None, "modify_extents", "modify_crs", "global_extents", "bogus_mode"]
MODE_COQ = {None: "MNone", "modify_extents": "MExtents", "modify_crs": "MCrs", "global_extents": "MGlobal"}
KINDS = ["numpy", "numpy", "list", "dask", "swath", "swath_dask", "swath_xr", "swath_xr_dask", "swath_bbox"]


# ------------------------------------------------------------------ literals
def flit(x):
    x = float(x)
    if x != x:
        return "PrimFloat.nan"
    if x == math.inf:
        return "PrimFloat.infinity"
    if x == -math.inf:
        return "PrimFloat.neg_infinity"
    h = x.hex()
    return "(-%s)%%float" % h[1:] if h.startswith("-") else "(%s)%%float" % h


def fx(s):
    """hex string (driver output) -> float"""
    return float.fromhex(s)


def hexs(v):
    return float(v).hex()


def res_coq(r):
    if r is None:
        return "RNone"
    if isinstance(r, (list, tuple)):
        return "(RPair %s %s)" % (flit(r[0]), flit(r[1]))
    return "(RScalar %s)" % flit(r)


def oz(v):
    return "None" if v is None else "(Some (%d))" % v


def res_json(r):
    """ints stay ints (the int code path), floats travel as hex strings"""
    if r is None:
        return None
    if isinstance(r, (list, tuple)):
        return [res_json(v) for v in r]
    return r if isinstance(r, int) else hexs(r)


# ------------------------------------------------------------------ generation
def gen_crs(r):
    k = r.choice(["longlat", "longlat", "longlat", "epsg4326", "laea", "laea", "stere", "merc", "eqc", "laea_info", "epsg3035",
                  "pm_projected", "pm_geographic", "epsg_merc"])
    if k == "pm_projected":      # prime meridian other than Greenwich (EPSG and PROJ spellings)
        return k, r.choice(["EPSG:27571",
                            "+proj=lcc +lat_1=49.5 +lat_0=49.5 +lon_0=0 +x_0=600000 +y_0=200000 +ellps=WGS84 +pm=paris +units=m",
                            {"proj": "merc", "pm": -90}, {"proj": "laea", "lat_0": 50, "lon_0": 5, "pm": 10, "ellps": "WGS84"},
                            {"proj": "eqc", "pm": 180, "ellps": "WGS84"}]), None
    if k == "pm_geographic":
        # incl. prime meridians pyproj reports in GRADS ('paris' by name, EPSG:4807 NTF (Paris), the base of EPSG:27571)
        return k, r.choice(["+proj=longlat +ellps=WGS84 +pm=180 +no_defs", {"proj": "longlat", "pm": "paris", "ellps": "WGS84"},
                            {"proj": "longlat", "pm": "paris", "ellps": "WGS84"}, "EPSG:4807",
                            {"proj": "longlat", "pm": 10, "datum": "WGS84"}, {"proj": "longlat", "pm": -90, "ellps": "WGS84"},
                            {"proj": "longlat", "pm": "lisbon", "ellps": "WGS84"}]), None
    if k == "epsg_merc":         # CRSs with an area of use and x = 0 at lon 0
        return k, r.choice(["EPSG:3857", "EPSG:3395"]), None
    if k == "longlat":
        return k, r.choice([{"proj": "longlat"}, {"proj": "longlat", "ellps": "WGS84"}, {"proj": "longlat", "datum": "WGS84"}]), None
    if k == "epsg4326":
        return k, "EPSG:4326", None
    if k == "laea":
        return k, {"proj": "laea", "lat_0": r.choice([52, -30, 0, 90, 60.5]), "lon_0": r.choice([13, 0, -100, 179, -179.5])}, None
    if k == "laea_info":
        return k, {"proj": "laea"}, {"lat_0": r.choice([58, -45]), "lon_0": r.choice([16, 170])}
    if k == "stere":
        s = r.choice([1, -1])
        return k, {"proj": "stere", "lat_0": 90 * s, "lat_ts": 60 * s, "lon_0": r.choice([0, -45, 90]), "ellps": "WGS84"}, None
    if k == "merc":
        return k, {"proj": "merc", "lon_0": r.choice([0, 0, 100, -170])}, None
    if k == "eqc":
        return k, {"proj": "eqc", "lon_0": r.choice([0, 0, 180])}, None
    return k, "EPSG:3035", None


def gen_points(r, crs_kind):
    """-> (class label, lons, lats)"""
    geo = crs_kind in ("longlat", "epsg4326", "pm_geographic")
    classes = ["box", "box", "box", "dyadic", "antimeridian", "antimeridian", "global", "pole", "same_x", "same_y", "single",
               "repeated_point", "two"]
    if geo:
        classes += ["antimeridian", "antimeridian", "global", "near355", "pole_antimeridian"]
    c = r.choice(classes)
    if crs_kind in ("epsg_merc", "epsg4326", "merc", "eqc", "longlat") and r.random() < 0.3:
        c = "zero_bound"
    elif geo and r.random() < 0.45:
        c = r.choice(["antimeridian", "antimeridian", "global", "near355", "pole_antimeridian"])
    n = r.choice([1, 2, 3, 4, 6, 9, 12, 20, 36]) if c not in ("single",) else 1
    lon0 = r.choice([10.0, -60.0, 120.0, 0.0, 13.0, 170.0, -170.0]) + r.uniform(-5, 5)
    lat0 = r.choice([50.0, -20.0, 0.0, 35.0, 70.0, -65.0]) + r.uniform(-5, 5)
    sx, sy = r.choice([0.5, 3.0, 12.0, 40.0]), r.choice([0.5, 3.0, 10.0, 25.0])
    lons = [lon0 + r.uniform(-sx, sx) for _ in range(n)]
    lats = [max(-89.0, min(89.0, lat0 + r.uniform(-sy, sy))) for _ in range(n)]
    if c == "dyadic":
        lons = [round(v * 4) / 4 for v in lons]
        lats = [round(v * 4) / 4 for v in lats]
    elif c in ("antimeridian", "pole_antimeridian"):
        lons = [((180.0 + r.uniform(-sx, sx)) + 180.0) % 360.0 - 180.0 for _ in range(n)]
        if n >= 2:
            lons[0], lons[1] = 180.0 - r.uniform(0.01, 2), -180.0 + r.uniform(0.01, 2)
        if c == "pole_antimeridian":
            lats[0] = r.choice([89.95, -89.95, 89.9, 90.0, -90.0, 89.89])
    elif c == "global":
        lons = [r.uniform(-180, 180) for _ in range(n)]
        if n >= 2:
            lons[0], lons[1] = -179.0 - r.uniform(0, 0.99), 179.0 + r.uniform(0, 0.99)
        lats = [r.uniform(-80, 80) for _ in range(n)]
    elif c == "near355":
        w = r.choice([354.9, 355.0, 355.1, 354.0, 356.0])
        lons = [-w / 2, w / 2] + [r.uniform(-w / 2, w / 2) for _ in range(max(0, n - 2))]
        lats = (lats + lats)[:len(lons)]
    elif c == "pole":
        lats = [r.choice([1, -1]) * r.uniform(80, 90) for _ in range(n)]
        lons = [r.uniform(-180, 180) for _ in range(n)]
    elif c == "same_x":
        lons = [lons[0]] * n
    elif c == "same_y":
        lats = [lats[0]] * n
    elif c == "repeated_point":
        lons, lats = [lons[0]] * n, [lats[0]] * n
    elif c == "two":
        lons, lats = lons[:2] if n >= 2 else lons * 2, lats[:2] if n >= 2 else lats * 2
    elif c == "zero_bound":
        # the westernmost / easternmost (or southern-/northernmost) position is exactly on lon 0 / lat 0: projected 0.0
        e = r.choice(["west", "east", "both_x", "south", "north"])
        span = r.choice([0.5, 5.0, 30.0])
        m = max(n, 2)
        if e == "west":
            lons = [0.0] + [r.uniform(0.01, span) for _ in range(m - 1)]
        elif e == "east":
            lons = [0.0] + [-r.uniform(0.01, span) for _ in range(m - 1)]
        elif e == "both_x":
            lons = [0.0] * m
        lats = (lats * m)[:m]
        if e == "south":
            lats = [0.0] + [r.uniform(0.01, span) for _ in range(m - 1)]
            lons = (lons * m)[:m]
        elif e == "north":
            lats = [0.0] + [-r.uniform(0.01, span) for _ in range(m - 1)]
            lons = (lons * m)[:m]
        c += "_" + e
    # malformed sprinkles
    m = r.random()
    if m < 0.12 and len(lons) >= 1:
        i = r.randrange(len(lons))
        lons[i], lats[i] = NAN, NAN
        c += "+nan"
    elif m < 0.2:
        lons.append(1e30)
        lats.append(1e30)
        c += "+1e30"
    elif m < 0.24:
        lons.append(NAN)
        lats.append(r.uniform(-80, 80))
        c += "+nanlon"
    elif m < 0.26:
        lons, lats = [NAN] * len(lons), [NAN] * len(lats)
        c = "all_nan"
    elif m < 0.29:
        lons.append(r.choice([190.0, -185.0, 359.0]))
        lats.append(r.uniform(-80, 80))
        c += "+lon_out_of_range"
    return c, lons, lats


def gen_args(r, geo):
    """constructor / freeze arguments"""
    ctor, fz = {}, {}
    pat = r.choice(["res_f", "res_f", "res_c", "res_pair_f", "res_pair_c", "res_int", "shape_f", "shape_f", "shape_c", "shape_1",
                    "shape_1", "both", "neither", "explicit", "explicit_fshape", "extent_only_res", "extent_width_shape",
                    "res_override", "shape_override", "shape_partial"])
    if geo:
        res = r.choice([0.5, 0.25, 1.0, 0.1, 0.0056, 2.5, 3.0])
    else:
        res = r.choice([1000.0, 3000.0, 500.0, 12345.678, 25000.0, 100000.0])
    res2 = res * r.choice([0.5, 2.0, 1.5])
    shp = [r.choice([2, 3, 5, 8, 17, 40]), r.choice([2, 3, 5, 8, 17, 40])]
    if pat == "res_f":
        fz["resolution"] = res
    elif pat == "res_c":
        ctor["resolution"] = res
    elif pat == "res_pair_f":
        fz["resolution"] = [res, res2]
    elif pat == "res_pair_c":
        ctor["resolution"] = [res, res2]
    elif pat == "res_int":
        fz["resolution"] = r.choice([1, 2, 5]) if geo else r.choice([1000, 2500, 40000])
    elif pat == "shape_f":
        fz["shape"] = shp
    elif pat == "shape_c":
        ctor["height"], ctor["width"] = shp
    elif pat == "shape_1":
        s = r.choice([[1, shp[1]], [shp[0], 1], [1, 1], [1, 2], [2, 1]])
        if r.random() < 0.5:
            fz["shape"] = s
        else:
            ctor["height"], ctor["width"] = s
    elif pat == "both":
        fz["resolution"] = res
        fz["shape"] = shp
    elif pat == "neither":
        pass
    elif pat in ("explicit", "explicit_fshape", "extent_only_res", "extent_width_shape"):
        x0, y0 = r.uniform(-1e6, 1e6), r.uniform(-1e6, 1e6)
        ctor["area_extent"] = [x0, y0, x0 + r.uniform(1, 1e6), y0 + r.uniform(1, 1e6)]
        if pat == "explicit":
            ctor["height"], ctor["width"] = shp
            if r.random() < 0.3:
                fz["resolution"] = res       # ignored
        elif pat == "explicit_fshape":
            fz["shape"] = shp
        elif pat == "extent_only_res":
            fz["resolution"] = res
        else:
            ctor["width"] = shp[1]
            fz["shape"] = r.choice([[shp[0], None], [None, shp[1]], shp])
    elif pat == "res_override":
        ctor["resolution"] = res2
        fz["resolution"] = res
    elif pat == "shape_override":
        ctor["height"], ctor["width"] = shp[::-1]
        fz["shape"] = shp
    elif pat == "shape_partial":
        ctor["width"] = shp[1]
        fz["resolution"] = res
    return pat, ctor, fz


def gen_freeze_cases(ctx):
    r = ctx.rng
    cases = []
    n = ctx.n(520, 6000)
    for i in range(n):
        ck, crs, info = gen_crs(r)
        geo = ck in ("longlat", "epsg4326", "pm_geographic")
        pc, lons, lats = gen_points(r, ck)
        pat, ctor, fz = gen_args(r, geo)
        if info:
            fz["proj_info"] = info
        mode = r.choice(MODES) if geo or r.random() < 0.3 else None
        if mode is not None:
            fz["antimeridian_mode"] = mode
        kind = r.choice(KINDS)
        shape2d = None
        if pat == "explicit" and r.random() < 0.3:
            kind, lons, lats = "none", [], []
        if len(lons) in (4, 6, 9, 12, 20, 36) and r.random() < 0.5 and kind != "swath_bbox":
            rows = {4: 2, 6: 2, 9: 3, 12: 3, 20: 4, 36: 6}[len(lons)]
            shape2d = [rows, len(lons) // rows]
        if kind.startswith("swath_xr") and shape2d is None and len(lons) < 1:
            kind = "numpy"
        via = None
        if not ctor.get("area_extent") and (("width" in ctor) == ("height" in ctor)) and ctor and r.random() < 0.5:
            via = "create_area_def"       # the other public entry point that builds a DynamicAreaDefinition
        cases.append({"crs": crs, "crs_kind": ck, "points": pc, "pattern": pat, "via": via,
                      "ctor": {k: (res_json(v) if k == "resolution" else ([hexs(x) for x in v] if k == "area_extent" else v)) for k, v in ctor.items()},
                      "freeze": {k: (res_json(v) if k == "resolution" else v) for k, v in fz.items()},
                      "lons": [hexs(v) for v in lons], "lats": [hexs(v) for v in lats], "shape2d": shape2d, "kind": kind,
                      "chunks": r.choice([1, 2, 3, 5, 100])})
    cases += gen_optimize_cases(ctx)
    cases += gen_two_step_cases(ctx)
    cases += gen_named_pm_cases(ctx)
    return cases


def gen_named_pm_cases(ctx):
    """geographic CRSs whose prime meridian pyproj reports in a non-degree unit (grads), with data across THAT CRS's
    antimeridian and every antimeridian mode: the class behind the residual defect of the modify_crs fix"""
    r = ctx.rng
    out = []
    for _ in range(ctx.n(16, 160)):
        crs = r.choice([{"proj": "longlat", "pm": "paris", "ellps": "WGS84"}, "EPSG:4807",
                        {"proj": "longlat", "pm": "paris", "datum": "WGS84"}])
        pm = 2.33722917
        n = r.choice([3, 6, 12])
        lons = [((pm + 180.0 + r.uniform(-6, 6)) + 180.0) % 360.0 - 180.0 for _ in range(n)]
        lons[0], lons[1] = ((pm + 179.0) + 180.0) % 360.0 - 180.0, ((pm - 179.0) + 180.0) % 360.0 - 180.0
        lats = [r.uniform(-60, 60) for _ in range(n)]
        fz = {"resolution": res_json(r.choice([0.5, 0.25, 1.0]))} if r.random() < 0.7 else {"shape": [r.choice([2, 5, 9]), r.choice([2, 6, 11])]}
        fz["antimeridian_mode"] = r.choice(["modify_crs", "modify_crs", "modify_extents", "global_extents", None])
        if fz["antimeridian_mode"] is None:
            del fz["antimeridian_mode"]
        out.append({"crs": crs, "crs_kind": "pm_named_grad", "points": "antimeridian_of_crs", "pattern": "res_f" if "resolution" in fz else "shape_f",
                    "via": None, "ctor": {}, "freeze": fz, "lons": [hexs(v) for v in lons], "lats": [hexs(v) for v in lats],
                    "shape2d": None, "kind": r.choice(["numpy", "dask", "swath"]), "chunks": 3})
    return out


def gen_two_step_cases(ctx):
    """freeze a granule over the antimeridian (any mode), then fit the NEXT granule on the CRS that first result handed out"""
    r = ctx.rng
    out = []
    for _ in range(ctx.n(24, 240)):
        n1 = r.choice([4, 8, 30])
        l1 = [((165.0 + 30.0 * k / (n1 - 1)) + 180.0) % 360.0 - 180.0 for k in range(n1)]
        first = {"lons": [hexs(v) for v in l1], "lats": [hexs(25.0 + 10.0 * k / (n1 - 1)) for k in range(n1)],
                 "resolution": res_json(r.choice([0.5, 0.25])), "antimeridian_mode": r.choice(["modify_crs", "modify_crs", "modify_extents", None]),
                 "as": r.choice(["crs", "proj4"])}
        n2 = r.choice([3, 6, 12])
        c0 = r.choice([170.0, 178.0, -175.0, 150.0, 0.0, 20.0])
        lons = [((c0 + r.uniform(-8, 8)) + 180.0) % 360.0 - 180.0 for _ in range(n2)]
        lats = [r.uniform(20, 40) for _ in range(n2)]
        fz = {"resolution": res_json(r.choice([0.5, 1.0]))} if r.random() < 0.7 else {"shape": [r.choice([2, 5, 9]), r.choice([2, 6, 11])]}
        m = r.choice(MODES)
        if m:
            fz["antimeridian_mode"] = m
        out.append({"crs": {"proj": "longlat"}, "crs_kind": "two_step", "points": "next_granule", "pattern": "two_step", "via": None,
                    "first": first, "ctor": {}, "freeze": fz, "lons": [hexs(v) for v in lons], "lats": [hexs(v) for v in lats],
                    "shape2d": None, "kind": r.choice(["numpy", "dask", "swath"]), "chunks": 3})
    return out


def gen_optimize_cases(ctx):
    """optimize_projection=True: 2-D swaths (curved scan lines, interior extremes) frozen through compute_optimal_bb_area"""
    r = ctx.rng
    out = []
    for _ in range(ctx.n(40, 500)):
        nrow, ncol = r.choice([3, 4, 6, 10]), r.choice([3, 5, 8])
        lat0 = r.choice([-60.0, -20.0, 10.0, 45.0, 70.0]) + r.uniform(-5, 5)
        lon0 = r.choice([-150.0, -30.0, 20.0, 100.0, 160.0]) + r.uniform(-5, 5)
        dlat, dlon = r.choice([0.3, 1.0, 2.5]) * r.choice([1, -1]), r.choice([0.5, 2.0, 5.0])
        bow = r.choice([0.0, 0.5, 2.0, 4.0]) * r.choice([1, -1])       # scan lines bowing north/south
        bulge = r.choice([0.0, 0.0, 1.0, 3.0]) * r.choice([1, -1])     # along-track bulge: the extreme is an interior row
        skew = r.choice([0.0, 0.5, -1.0])
        lons, lats = [], []
        mid = (ncol - 1) / 2.0
        for i in range(nrow):
            for j in range(ncol):
                u = (j - mid) / mid
                la = lat0 + i * dlat - bow * u * u + bulge * math.sin(math.pi * i / (nrow - 1)) * (1 - u * u)
                lo = lon0 + (j - mid) * dlon + skew * i
                lons.append(((lo + 180.0) % 360.0) - 180.0)
                lats.append(max(-88.0, min(88.0, la)))
        pc = "swath2d" + ("+bulge" if bulge else "") + ("+bow" if bow else "")
        if r.random() < 0.1:
            k = r.randrange(len(lons))
            lons[k], lats[k] = NAN, NAN
            pc += "+nan"
        crs = r.choice([{"proj": "omerc", "ellps": "WGS84"}, {"proj": "omerc"}, {"proj": "laea"}, {"proj": "stere"}, {"proj": "merc"},
                        {"proj": "eqc"}])
        res = r.choice([None, 5000.0, 20000.0, 50000.0])
        where = r.choice(["ctor", "freeze"])
        out.append({"crs": crs, "crs_kind": "opt_" + crs["proj"], "points": pc, "pattern": "optimize" + ("_res_" + where if res else ""),
                    "optimize": True, "via": None,
                    "ctor": {"resolution": res_json(res)} if res and where == "ctor" else {},
                    "freeze": {"resolution": res_json(res)} if res and where == "freeze" else {},
                    "lons": [hexs(v) for v in lons], "lats": [hexs(v) for v in lats], "shape2d": [nrow, ncol],
                    "kind": r.choice(["swath", "swath_xr", "swath_dask", "swath_xr_dask"]), "chunks": r.choice([2, 3, 100])})
    return out


def gen_history_cases(ctx):
    """several freezes on ONE DynamicAreaDefinition (different proj_info / modes / data): each must equal a fresh object's"""
    r = ctx.rng
    out = []
    for _ in range(ctx.n(30, 300)):
        crs = r.choice([{"proj": "lcc"}, {"proj": "omerc"}, {"proj": "laea"}, {"proj": "stere"}, {"proj": "longlat"}, "EPSG:4326",
                        {"proj": "merc"}])
        geo = crs in ({"proj": "longlat"}, "EPSG:4326")
        calls = []
        for _k in range(r.choice([2, 3, 4])):
            lon0, lat0 = r.uniform(-30, 30), r.uniform(30, 60)
            n = r.choice([2, 4, 7])
            lons = [lon0 + r.uniform(-5, 5) for _ in range(n)]
            lats = [lat0 + r.uniform(-5, 5) for _ in range(n)]
            fz = {}
            if geo:
                if r.random() < 0.5:
                    lons = [179.0, -179.0] + lons[2:]
                    fz["antimeridian_mode"] = r.choice(MODES[1:4])
                fz["resolution"] = res_json(r.choice([0.5, 1.0]))
            else:
                fz["resolution"] = res_json(r.choice([10000.0, 25000.0]))
                name = crs["proj"] if isinstance(crs, dict) else ""
                info = {"lat_0": r.choice([40, 52]), "lon_0": r.choice([0, 13])}
                if name == "lcc":
                    info["lat_1"] = r.choice([40, 50])
                    if r.random() < 0.5:
                        info["lat_2"] = r.choice([55, 60])
                elif name == "omerc":
                    info = {"lat_0": r.choice([40, 52]), "lonc": r.choice([0, 13]), r.choice(["alpha", "gamma"]): r.choice([10, 30])}
                elif name == "stere" and r.random() < 0.5:
                    info["lat_ts"] = r.choice([60, 70])
                if r.random() < 0.85:
                    fz["proj_info"] = info
            calls.append({"freeze": fz, "lons": [hexs(v) for v in lons], "lats": [hexs(v) for v in lats], "kind": "numpy", "shape2d": None})
        out.append({"crs": crs, "ctor": {}, "calls": calls})
    return out


def oracle_history(h, o):
    bad = []
    if "calls" not in o:
        return [("C14.history", "constructor failed: %s" % o)]
    for k, (call, c) in enumerate(zip(h["calls"], o["calls"])):
        if c["same"] != c["fresh"]:
            key = "C14.history.proj_info" if any("proj_info" in x["freeze"] for x in h["calls"][:k + 1]) else "C14.history"
            bad.append((key, "freeze #%d on the same DynamicAreaDefinition(%s) differs from a fresh object's: %s vs %s (calls so far: %s)"
                        % (k + 1, h["crs"], c["same"], c["fresh"], [x["freeze"] for x in h["calls"][:k + 1]])))
            break
    return bad


def gen_cd_cases(ctx):
    """compute_domain called directly: dyadic corners (exact arithmetic), random corners, boundary seekers, full x extent"""
    r = ctx.rng
    out = []
    for _ in range(ctx.n(260, 4000)):
        t = r.random()
        if t < 0.3:      # dyadic / integer
            c0, c1 = r.randint(-40, 40) / 4, r.randint(-40, 40) / 4
            cs = [c0, c1, c0 + r.randint(0, 80) / 4, c1 + r.randint(0, 80) / 4]
            res = r.choice([0.25, 0.5, 1.0, 2.0, 2, 1])
        elif t < 0.5:    # corners exactly on the floor/ceil boundary: corner -/+ res/2 is a multiple of res
            res = r.choice([0.1, 0.3, 1000.0, 0.0056, 7.0])
            k0, k1 = r.randint(-1000, 1000), r.randint(-1000, 1000)
            cs = [k0 * res + res / 2, k1 * res + res / 2, (k0 + r.randint(0, 50)) * res - res / 2 + res, (k1 + r.randint(0, 50)) * res + res / 2]
        else:
            c0, c1 = r.uniform(-5e6, 5e6), r.uniform(-5e6, 5e6)
            cs = [c0, c1, c0 + r.choice([0.0, r.uniform(0, 1e6)]), c1 + r.choice([0.0, r.uniform(0, 1e6)])]
            res = r.choice([1000.0, 333.3, 0.5, 50000.0, 1000])
        # corners are (xmin, ymin, xmax, ymax) of pixel centres: keep max >= min also when the boundary-seeking
        # expressions above round an ulp the other way (an inverted box is outside compute_domain's contract)
        cs[2], cs[3] = max(cs[2], cs[0]), max(cs[3], cs[1])
        c = {"corners": [v if isinstance(v, int) else hexs(v) for v in cs]}
        if r.random() < 0.12:
            c["corners"] = [int(v) for v in cs]         # python ints (the test-suite's spelling)
        u = r.random()
        if u < 0.45:
            c["resolution"] = res_json(res if r.random() < 0.6 else [res, float(res) * r.choice([0.5, 2.0, 1.0])])
        elif u < 0.9:
            c["shape"] = [r.choice([1, 1, 2, 3, 5, 10, 33]), r.choice([1, 1, 2, 3, 5, 10, 33])]
        elif u < 0.95:
            c["resolution"] = res_json(res)
            c["shape"] = [3, 3]
        if r.random() < 0.2:     # x corners None: full extent of the CRS
            c["corners"][0] = None
            c["corners"][2] = None
            c["crs"] = r.choice([{"proj": "longlat"}, "EPSG:4326", "EPSG:3035"])
            if "resolution" in c and c["crs"] == "EPSG:3035":
                pass
        out.append(c)
    return out


# ------------------------------------------------------------------ property oracle on the implementation
def finite(v):
    return v == v and abs(v) != math.inf


def oracle_freeze(case, o):
    """-> list of (key, what) violations of the PROPERTY TEXT by the implementation's observation o"""
    bad = []
    ctor, fz = case.get("ctor", {}), case.get("freeze", {})
    lons = [float.fromhex(v) for v in case["lons"]]
    lats = [float.fromhex(v) for v in case["lats"]]
    res = fz.get("resolution") if fz.get("resolution") is not None else ctor.get("resolution")
    fshape = fz.get("shape")
    hw = list(fshape) if fshape is not None else [ctor.get("height"), ctor.get("width")]
    shape = None if None in hw else hw
    explicit = bool(ctor.get("area_extent")) and bool(hw[0]) and bool(hw[1])
    tag = "%s/%s/%s" % (case.get("crs_kind"), case.get("points"), case.get("pattern"))
    if case.get("optimize"):
        # compute_optimal_bb_area: the resolution only steers the uniform shape; the area is fitted with that shape
        bad = oracle_freeze_core(case, o, None, o.get("opt_shape") or [2, 2], False, tag)
        return [("C14.optimize_projection.contains" if k.startswith(("C14.contains", "C14.extent", "C14.freeze.error")) else k, w)
                for k, w in bad]
    return oracle_freeze_core(case, o, res, shape, explicit, tag)


def oracle_freeze_core(case, o, res, shape, explicit, tag):
    bad = []
    ctor, fz = case.get("ctor", {}), case.get("freeze", {})
    lons = [float.fromhex(v) for v in case["lons"]]
    lats = [float.fromhex(v) for v in case["lats"]]
    hw = shape if shape is not None else [None, None]
    if explicit:
        if "result" not in o:
            return [("C14.explicit_kept", "explicit extent and shape given but freeze raised %s (%s)" % (o.get("error"), tag))]
        ext = [fx(v) for v in o["result"]["extent"]]
        want = [float.fromhex(v) for v in ctor["area_extent"]]
        if ext != want or [o["result"]["h"], o["result"]["w"]] != hw:
            bad.append(("C14.explicit_kept", "explicit extent %s shape %s not kept: got %s %s" % (want, hw, ext, [o["result"]["h"], o["result"]["w"]])))
        return bad
    # projected finite points, as PROJ gives them for the frozen CRS (or, without a result, as the implementation got them)
    src = o.get("proj") if "result" in o else o.get("pts")
    pts = []
    if src:
        for i, (a, b) in enumerate(src):
            x, y = fx(a), fx(b)
            if finite(x) and finite(y) and x <= 9e29 and y <= 9e29 and finite(lons[i]) and finite(lats[i]):
                pts.append((i, x, y))
    distinct_x = len(set(p[1] for p in pts)) > 1
    distinct_y = len(set(p[2] for p in pts)) > 1
    if "result" not in o:
        err = o.get("error")
        if (res is None) == (shape is None):
            return [] if err == "ValueError" else [("C14.args", "both/neither resolution and shape must raise ValueError, got %s" % err)]
        if not pts:
            return []        # nothing finite to contain
        if shape is not None and not distinct_x and not distinct_y and err == "ValueError":
            return []        # one single position: a shape alone cannot define a pixel size (documented ValueError)
        key = "C14.shape.degenerate_axis" if shape is not None and (1 in shape or not distinct_x or not distinct_y) else "C14.freeze.error"
        return [(key, "freeze raised %s: %s although %d finite points were given (%s)" % (err, o.get("msg"), len(pts), tag))]
    if (res is None) == (shape is None):
        return [("C14.args", "both/neither resolution and shape given but freeze returned an area (%s)" % tag)]
    if "oracle_error" in o:
        return [("C14.area.invalid", "the frozen area's own accessors fail: %s (%s)" % (o["oracle_error"], tag))]
    R = o["result"]
    ext = [fx(v) for v in R["extent"]]
    w, h = R["w"], R["h"]
    degenerate = shape is not None and (1 in shape or not distinct_x or not distinct_y)
    kdeg = "C14.shape.degenerate_axis"
    if not pts:
        return []
    if not (all(finite(v) for v in ext) and ext[0] < ext[2] and ext[1] < ext[3] and w >= 1 and h >= 1):
        return [(kdeg if degenerate else "C14.extent.invalid",
                 "frozen area is not a valid grid: extent %s size %dx%d for %d finite points (%s)" % (ext, w, h, len(pts), tag))]
    tx, ty = 1e-9 * (ext[2] - ext[0]), 1e-9 * (ext[3] - ext[1])
    shifts = o.get("shifts", [0.0])
    used = []
    for i, x, y in pts:
        ok = None
        for si, s in enumerate(shifts):
            if ext[0] - tx <= x + s <= ext[2] + tx and ext[1] - ty <= y <= ext[3] + ty:
                c, rr, cm, rm = o["idx"][si][i]
                if not cm and not rm and 0 <= c < w and 0 <= rr < h:
                    ok = s
                    break
                ok = ("idx", s, c, rr, cm, rm)
        if ok is None or isinstance(ok, tuple):
            key = kdeg if degenerate else ("C14.contains.antimeridian" if R["geo"] and fz.get("antimeridian_mode") else "C14.contains")
            bad.append((key, "point lon/lat (%r, %r) -> (%r, %r) in the frozen CRS %s is not in a valid pixel: extent %s size %dx%d %s (%s)"
                        % (lons[i], lats[i], x, y, R["crs"], ext, w, h, "index %s" % (ok,) if ok else "outside the extent", tag)))
            break
        used.append((x + ok, y))
    if bad:
        return bad
    # resolution honoured exactly, extents aligned
    if res is not None:
        rr = res if isinstance(res, list) else [res, res]
        rr = [float.fromhex(v) if isinstance(v, str) else float(v) for v in rr]
        ps = [fx(v) for v in o["pixel_size"]]
        for a, (p, q) in enumerate(zip(ps, rr)):
            if abs(p - q) > 1e-9 * q:
                bad.append(("C14.resolution.exact", "pixel size %r differs from the requested resolution %r (axis %d, %s)" % (p, q, a, tag)))
        for a, e in enumerate(ext):
            q = e / rr[a % 2]
            if abs(q - round(q)) > 1e-6 * max(1.0, abs(q)) * 1e-3 + 1e-6:
                bad.append(("C14.resolution.aligned", "extent bound %r is not a multiple of the resolution %r (%s)" % (e, rr[a % 2], tag)))
        if [round((ext[2] - ext[0]) / rr[0]), round((ext[3] - ext[1]) / rr[1])] != [w, h]:
            bad.append(("C14.resolution.shape", "size %dx%d does not match extent/resolution (%s)" % (w, h, tag)))
    # shape honoured exactly, outermost points on outermost pixel centres
    if shape is not None:
        if [h, w] != shape:
            bad.append(("C14.shape.exact", "requested shape %s, got %s (%s)" % (shape, [h, w], tag)))
        full_x = bool(R["geo"]) and fz.get("antimeridian_mode") == "global_extents" and "aou" in o
        cen = [fx(v) for v in o["centres"]]
        unshifted = all(abs(p[0] - q[1]) == 0 for p, q in zip(used, pts))
        # the code filters x and y independently: a half-valid position (e.g. lon NaN, lat finite, which PROJ passes through
        # for longlat) still contributes its finite coordinate to the extent.  Such a position is not a point of the
        # property text; the centre clause is only evaluated when every position is valid or invalid as a whole.
        def valid(v):
            return finite(v) and v <= 9e29
        half_valid = any(valid(fx(a)) != valid(fx(b)) for a, b in o.get("pts", []))
        xs, ys = [p[0] for p in used], [p[1] for p in used]
        if not half_valid and not full_x and unshifted and w >= 2 and distinct_x:
            if abs(cen[0] - min(xs)) > 1e-7 * (ext[2] - ext[0]) or abs(cen[1] - max(xs)) > 1e-7 * (ext[2] - ext[0]):
                bad.append(("C14.shape.centres", "outermost x %r..%r are not on the outermost pixel centres %r..%r (%s)" % (min(xs), max(xs), cen[0], cen[1], tag)))
        if not half_valid and h >= 2 and distinct_y:
            if abs(cen[2] - max(ys)) > 1e-7 * (ext[3] - ext[1]) or abs(cen[3] - min(ys)) > 1e-7 * (ext[3] - ext[1]):
                bad.append(("C14.shape.centres", "outermost y %r..%r are not on the outermost pixel centres %r..%r (%s)" % (min(ys), max(ys), cen[3], cen[2], tag)))
        if full_x:
            W, E = fx(o["aou"][0]), fx(o["aou"][1])
            if abs(ext[0] - W) > 1e-9 * (E - W) or abs(ext[2] - E) > 1e-9 * (E - W):
                bad.append(("C14.antimeridian.global_extents", "global_extents with a shape: x extent %r..%r is not the CRS extent %r..%r (%s)" % (ext[0], ext[2], W, E, tag)))
    # antimeridian mode followed
    px = fx(o["pixel_size"][0])
    if R["geo"] and fz.get("antimeridian_mode") == "modify_crs" and pm_moved(o) and (ext[0] < -180 - 1.5 * px - tx or ext[2] > 180 + 1.5 * px + tx):
        bad.append(("C14.antimeridian.modify_crs", "modify_crs: extent %s leaves the [-180, 180] range of the shifted CRS (%s)" % (ext, tag)))
    if not R["geo"] and pm_moved(o):
        bad.append(("C14.antimeridian.modify_crs", "prime meridian changed for a non-geographic CRS (%s)" % tag))
    # H_pm (reading of PROJ's +pm=180 used by C14_freeze_contains_points / frozen_x): the coordinate PROJ gives in the frozen
    # CRS is the implementation's own projected x, modulo 360, minus 180 when the prime meridian was moved
    if R["geo"] and "pts" in o and len(o["pts"]) == len(o.get("proj", [])):
        for i, x, y in pts:
            x0 = fx(o["pts"][i][0])
            if finite(x0):
                dlt = (x - (x0 - (180.0 if pm_moved(o) else 0.0))) / 360.0
                if abs(dlt - round(dlt)) > 1e-9:
                    bad.append(("C14.pm_shift.reading", "PROJ places lon %r at x=%r in %s, not at (%r - pm) modulo 360 (%s)" % (lons[i], x, R["crs"], x0, tag)))
                    break
    return bad


def oracle_cd(c, o):
    """compute_domain directly: corners are pixel centres -> they must lie inside a valid (positive size) extent"""
    cs = [None if v is None else (float.fromhex(v) if isinstance(v, str) else float(v)) for v in c["corners"]]
    res, shape = c.get("resolution"), c.get("shape")
    if (res is None) == (shape is None):
        return [] if o.get("error") == "ValueError" else [("C14.args", "compute_domain with both/neither must raise ValueError: %s" % o)]
    single = shape is not None and cs[0] is not None and cs[0] == cs[2] and cs[1] == cs[3]
    degenerate = shape is not None and (1 in shape or cs[1] == cs[3] or (cs[0] is not None and cs[0] == cs[2]))
    key = "C14.shape.degenerate_axis" if degenerate else "C14.compute_domain"
    if "result" not in o:
        if single and o.get("error") == "ValueError":
            return []
        return [(key, "compute_domain(%s, resolution=%s, shape=%s) raised %s: %s" % (cs, res, shape, o.get("error"), o.get("msg")))]
    ext = [fx(v) for v in o["result"]["extent"]]
    w, h = o["result"]["w"], o["result"]["h"]
    if cs[0] is None:
        if "aou" not in o:
            return [(key, "no area of use recorded")]
        cs[0], cs[2] = fx(o["aou"][0]), fx(o["aou"][1])
        okx = ext[0] <= cs[0] and cs[2] <= ext[2]
    else:
        okx = ext[0] <= cs[0] and cs[2] <= ext[2]
    # closed containment (over the reals it is strict - Coq; in binary64 a span of a few ulps may round onto the edge)
    if not (all(finite(v) for v in ext) and okx and ext[1] <= cs[1] and cs[3] <= ext[3] and ext[0] < ext[2] and ext[1] < ext[3]
            and w >= 1 and h >= 1):
        return [(key, "compute_domain(%s, resolution=%s, shape=%s) -> extent %s size %dx%d does not contain the corners"
                 % (cs, res, shape, ext, w, h))]
    if shape is not None and [h, w] != shape:
        return [("C14.shape.exact", "compute_domain shape %s -> %s" % (shape, [h, w]))]
    return []


# ------------------------------------------------------------------ Coq case text
def pm_moved(o):
    """the observable behind the model's f_pm180: the prime meridian of the result is the requested one moved by 180 degrees"""
    R = o["result"]
    pin = o.get("pm_in")
    if pin is None:
        return bool(R["pm180"])
    return abs(((R["pm"] - pin) % 360.0) - 180.0) < 1e-9


def coq_fcase(case, o):
    ctor, fz = case.get("ctor", {}), case.get("freeze", {})
    mode = fz.get("antimeridian_mode")

    def rj(v):
        if v is None:
            return None
        if isinstance(v, list):
            return [rj(x) for x in v]
        return float.fromhex(v) if isinstance(v, str) else float(v)
    ext = ctor.get("area_extent")
    d = "(mk_dyn %s %s %s %s)" % ("None" if not ext else "(Some (%s))" % ", ".join(flit(float.fromhex(v)) for v in ext),
                                  oz(ctor.get("width")), oz(ctor.get("height")), res_coq(rj(ctor.get("resolution"))))
    fs = fz.get("shape")
    fshape = "None" if fs is None else "(Some (%s, %s))" % (oz(fs[0]), oz(fs[1]))
    geo = o.get("geo")
    fres = res_coq(rj(fz.get("resolution")))
    if case.get("optimize"):
        # model: optimal_bb_area h w = freeze of an empty DynamicAreaDefinition with shape (h, w) on all positions
        hw = o.get("opt_shape") or [0, 0]
        d, fres, fshape = "(mk_dyn None None None RNone)", "RNone", "(Some (%s, %s))" % (oz(hw[0]), oz(hw[1]))
        mode = None
        geo = o["result"]["geo"] if "result" in o else False
    aou = o.get("aou")
    aou = "(mk_aou %s %s)" % ((flit(fx(aou[0])), flit(fx(aou[1]))) if aou else (flit(-180.0), flit(180.0)))
    pts = "[" + "; ".join("(%s, %s)" % (flit(fx(a)), flit(fx(b))) for a, b in o.get("pts", [])) + "]"
    if "result" in o:
        R = o["result"]
        exp = "(Some ((%s), (%d), (%d), %s))" % (", ".join(flit(fx(v)) for v in R["extent"]), R["w"], R["h"], "true" if pm_moved(o) else "false")
    else:
        exp = "None"
    return "(%s, %s, %s, %s, %s, %s, %s, %s)" % (d, fres, fshape, "true" if geo else "false",
                                                MODE_COQ.get(mode, "MOther"), aou, pts, exp)


def coq_ccase(c, o):
    cs = [None if v is None else (float.fromhex(v) if isinstance(v, str) else float(v)) for v in c["corners"]]
    res = c.get("resolution")

    def rj(v):
        if v is None:
            return None
        if isinstance(v, list):
            return [rj(x) for x in v]
        return float.fromhex(v) if isinstance(v, str) else float(v)
    xc = "None" if cs[0] is None else "(Some (%s, %s))" % (flit(cs[0]), flit(cs[2]))
    aou = o.get("aou")
    aou = "(mk_aou %s %s)" % ((flit(fx(aou[0])), flit(fx(aou[1]))) if aou else (flit(-180.0), flit(180.0)))
    sh = c.get("shape")
    shape = "None" if sh is None else "(Some ((%d), (%d)))" % (sh[0], sh[1])
    if "result" in o:
        R = o["result"]
        exp = "(Some ((%s), (%d), (%d)))" % (", ".join(flit(fx(v)) for v in R["extent"]), R["w"], R["h"])
    else:
        exp = "None"
    return "(%s, %s, %s, %s, %s, %s, %s)" % (xc, flit(cs[1]), flit(cs[3]), res_coq(rj(res)), shape, aou, exp)


def signed_zero_clash(o):
    for k in (0, 1):
        z = set(math.copysign(1, fx(p[k])) for p in o.get("pts", []) if fx(p[k]) == 0)
        if len(z) > 1:
            return True
    return False


def shard(ctx, name, typ, chk, lines, what, size=300):
    texts = []
    for i in range(0, len(lines), size):
        part = lines[i:i + size]
        texts.append(("%s_%03d" % (name, i // size),
                      HDR + "Definition cases : list %s := [\n%s].\nEval vm_compute in (bad %s cases).\n" % (typ, ";\n".join(part), chk),
                      part, what))
    return texts


def one_sample(ctx, sample):
    """one evidence sample per kind of case (7 kinds -> 7 varied samples)"""
    seen = ctx.__dict__.setdefault("_c14_kinds", set())
    k = next(iter(sample))
    if k in seen:
        return None
    seen.add(k)
    return sample


def run(ctx):
    ctx.rule = ("freeze: PRNG over CRS (longlat x3 spellings, EPSG:4326, laea incl. proj_info, stere N/S, merc, eqc, EPSG:3035, EPSG:3857/3395, "
                "non-Greenwich prime meridians: EPSG:27571, EPSG:4807 and +pm= (numbers, paris [grads], lisbon) on lcc/laea/merc/eqc/longlat, "
                "with dedicated grad-unit cases across that CRS's own antimeridian in every mode; two-step: the next granule fitted on the "
                "CRS a previous antimeridian freeze handed out; bounds exactly on lon 0 / lat 0 = projected 0.0) x point "
                "clouds (boxes, dyadic, antimeridian-crossing, global, |span| near 355, poles, zero span in x / y, single and repeated "
                "points, NaN / 1e30 / out-of-range sprinkles, all-NaN) x argument patterns (resolution scalar/int/pair via constructor "
                "or freeze, shapes incl. one-pixel axes, both, neither, explicit extent+shape, partial) x 5 antimeridian modes x 8 "
                "container kinds (numpy, list, dask, SwathDefinition numpy/dask/xarray/xarray+dask, bounding_box attr) x chunk sizes; "
                "compute_domain directly on dyadic, floor/ceil-boundary and random corners incl. None x corners; entry points "
                "DynamicAreaDefinition(), create_area_def() and optimize_projection=True (compute_optimal_bb_area on curved 2-D swaths with "
                "interior extremes, 4 swath containers, 6 projections); call histories: 2-4 freezes with different proj_info / modes / "
                "data on ONE object, each compared with a fresh object. A freeze case is "
                "non-trivial when an area is computed from >= 2 distinct finite points or takes the antimeridian / pole / "
                "degenerate / explicit branch; distinct = distinct canonical inputs")
    fcases = gen_freeze_cases(ctx)
    ccases = gen_cd_cases(ctx)
    r = ctx.rng
    wraps = [r.uniform(-400, 800) for _ in range(ctx.n(150, 1500))] + [0.0, -0.0, 360.0, -360.0, 720.0, 180.0, -180.0, 1e-20, -1e-20,
                                                                     359.99999999999994, -5e-324, 1e300, -1e300, NAN, math.inf]
    hcases = gen_history_cases(ctx)
    xcases = [[0, False], [1, True], [1, False], [2, False]]
    obs = ctx.impl("c14", {"freeze": fcases, "compute_domain": ccases, "wrap": [hexs(v) for v in wraps], "history": hcases,
                           "extract": xcases})
    for h, o in zip(hcases, obs["history"]):
        name = h["crs"]["proj"] if isinstance(h["crs"], dict) else h["crs"]
        ctx.count("history:%s x%d" % (name, len(h["calls"])))
        ctx.case(("hist", repr(h)), nontrivial=True,
                 sample=one_sample(ctx, {"history": {"crs": h["crs"], "calls": [c["freeze"] for c in h["calls"]]},
                                         "impl_last": o.get("calls", [o])[-1]}))
        ctx.traces += 1
        for key, what in oracle_history(h, o):
            ctx.add_failure(key, what, {"oracle": "history", "case": h, "impl": o})

    L, LI = [], []
    skipped = 0
    for case, o in zip(fcases, obs["freeze"]):
        ctx.count("crs:" + case["crs_kind"])
        ctx.count("kind:" + case["kind"])
        ctx.count("args:" + case["pattern"])
        ctx.count("points:" + case["points"].split("+")[0])
        ctx.count("mode:%s" % case["freeze"].get("antimeridian_mode"))
        ctx.count("entry:" + ("optimize_projection" if case.get("optimize") else (case.get("via") or "DynamicAreaDefinition()")))
        ctx.count("outcome:" + ("area" if "result" in o else "error:%s" % o.get("error")))
        if "result" in o and pm_moved(o):
            ctx.count("branch:pm180")
        if o.get("pm_in"):
            ctx.count("crs_prime_meridian:non_greenwich")
        if "aou" in o:
            ctx.count("branch:full_x_extent")
        if "result" in o and o["result"]["geo"] and not o["result"]["pm180"] and fx(o["result"]["extent"][2]) > 181:
            ctx.count("branch:wrapped_extents")
        npts = len(set(tuple(p) for p in o.get("pts", []) if finite(fx(p[0])) and finite(fx(p[1]))))
        nontrivial = npts >= 2 or "aou" in o or case["pattern"].startswith(("explicit", "shape_1"))
        ctx.case(("fz", repr(sorted((k, repr(v)) for k, v in case.items()))), nontrivial=nontrivial,
                 sample=one_sample(ctx, {"freeze[%s|%s]" % ("optimize_projection" if case.get("optimize") else (case.get("via") or "ctor"),
                                                          "geographic" if o.get("geo") else "projected"):
                                        {k: case[k] for k in ("crs", "ctor", "freeze", "kind")}, "n_points": len(case["lons"]),
                                        "impl": o.get("result", o.get("error"))}) if nontrivial else None)
        for key, what in oracle_freeze(case, o):
            ctx.add_failure(key, what, {"oracle": "freeze", "case": case, "impl": {k: v for k, v in o.items() if k not in ("idx",)}})
        if "pts" not in o and not ("result" in o and not case["lons"]) and "result" not in o:
            # the implementation failed before projecting anything
            if not ((case["freeze"].get("resolution") is None and case["ctor"].get("resolution") is None)):
                pass
        if signed_zero_clash(o):
            skipped += 1
            ctx.count("skipped:+0/-0 tie in nanmin")
            continue
        if "pts" not in o and "result" not in o:
            ctx.count("skipped:error before projection")
            continue
        L.append(coq_fcase(case, o))
        if "result" in o and "proj" in o and len(LI) < ctx.n(600, 6000):
            R = o["result"]
            k = 0
            for (a, b), (c, rr, cm, rm) in zip(o["proj"], o["idx"][0]):
                x, y = fx(a), fx(b)
                if finite(x) and finite(y) and all(finite(fx(v)) for v in R["extent"]) and k < 3:
                    k += 1
                    LI.append("((%s), (%d), (%d), %s, %s, %s, %s)" % (", ".join(flit(fx(v)) for v in R["extent"]), R["w"], R["h"],
                                                                       flit(x + 0.0), flit(y), oz(None if cm else c), oz(None if rm else rr)))
    LC = []
    for c, o in zip(ccases, obs["compute_domain"]):
        ctx.count("compute_domain:" + ("full_x" if c["corners"][0] is None else "corners") + ("/res" if "resolution" in c else "") + ("/shape" if "shape" in c else ""))
        ctx.case(("cd", repr(sorted(c.items(), key=lambda kv: kv[0]))), nontrivial="result" in o,
                 sample=one_sample(ctx, {"compute_domain": c, "impl": o.get("result", o.get("error"))}) if "result" in o else None)
        for key, what in oracle_cd(c, o):
            ctx.add_failure(key, what, {"oracle": "compute_domain", "case": c, "impl": o})
        LC.append(coq_ccase(c, o))
    LW = []
    for v, w in zip(wraps, obs["wrap"]):
        ctx.case(("wrap", hexs(v)), nontrivial=finite(v) and not 0 <= v < 360)
        LW.append("(%s, %s)" % (flit(v), flit(fx(w))))
    ctx.count("wrap360", len(LW))

    LX = []
    for (kind, hb), got in zip(xcases, obs["extract"]):
        want = 0 if kind == 0 else (1 if hb else 2)
        ctx.count("extract_lons_lats:" + ["pair", "object+bounding_box" if hb else "object without bounding_box", "legacy object"][kind])
        ctx.case(("extract", kind, hb), nontrivial=kind != 0)
        if got != want:
            ctx.add_failure("C14.extract_lons_lats", "_extract_lons_lats used source %s, the property needs %d (0 = the pair, 1 = bounding_box "
                            "attribute, 2 = all positions of the object)" % (got, want), {"oracle": "extract", "case": [kind, hb], "impl": got})
        if isinstance(got, int):
            LX.append("((%d), %s, (%d))" % (kind, "true" if hb else "false", got))
    texts = shard(ctx, "c14_freeze", "fcase", "chk_freeze", L, "freeze", 150)
    # the same cases through the GENERATED object-level methods (Gen/GenC14imp.v); optimize_projection cases go through
    # compute_optimal_bb_area, which the generated freeze reaches as the abstract w_optimal
    texts += shard(ctx, "c14_imp_freeze", "fcase", "chk_imp_freeze", L, "imp_freeze", 150)
    texts += shard(ctx, "c14_imp_extract", "(Z * bool * Z)", "chk_imp_extract", LX, "imp_extract_lons_lats", 100)
    texts += shard(ctx, "c14_cd", "ccase", "chk_cd", LC, "compute_domain", 400)
    texts += shard(ctx, "c14_idx", "icase", "chk_index", LI, "masked_index", 400)
    texts += shard(ctx, "c14_wrap", "(float * float)", "chk_wrap", LW, "wrap360", 2000)
    res = ctx.coq_eval_many([(n, t) for n, t, _, _ in texts])
    for name, _, lines, what in texts:
        out, ok = res[name]
        if not ok:
            ctx.broken.append(("correspondence:" + what, "model evaluation failed: " + out[-300:]))
            continue
        badi = ints(out)
        if badi:
            ctx.broken.append(("correspondence:" + what, "model and implementation differ on %d of %d cases, e.g. %s"
                               % (len(badi), len(lines), lines[badi[0]][:600])))
    ctx.notes.append("correspondence: %d freeze cases, %d compute_domain cases, %d index cases, %d x%%360 cases compared bit-exactly "
                     "(%d freeze cases skipped: +0/-0 tie)" % (len(L), len(LC), len(LI), len(LW), skipped))


def replay(ctx, data):
    c = data.get("case", {})
    if c.get("oracle") == "freeze":
        o = ctx.impl("c14", {"freeze": [c["case"]]})["freeze"][0]
        return bool(oracle_freeze(c["case"], o))
    if c.get("oracle") == "history":
        o = ctx.impl("c14", {"history": [c["case"]]})["history"][0]
        return bool(oracle_history(c["case"], o))
    if c.get("oracle") == "compute_domain":
        o = ctx.impl("c14", {"compute_domain": [c["case"]]})["compute_domain"][0]
        return bool(oracle_cd(c["case"], o))
    return False
