"""C16 - a geometry's boundary is a closed, clockwise ring of its own edge pixels."""
import math
import time

from .common import ints

PROP_FILE = "Properties/C16.v"
GEN = ["GenC16", "GenC16imp"]
RUN_FILES = ["Model/C16_run.v", "Model/C16_imp_run.v"]

IHDR = ("From Coq Require Import ZArith List Bool.\nFrom PR Require Import Base.ListX Model.Boundary Model.C16_run Model.C16_imp_run.\n"
        "Import ListNotations.\nOpen Scope Z_scope.\n")
HDR = ("From Coq Require Import ZArith List Bool.\nFrom PR Require Import Base.ListX Model.Boundary Model.C16_run.\n"
       "Import ListNotations.\nOpen Scope Z_scope.\n")

CRS = {
    "eqc": "+proj=eqc +lat_ts=0 +lon_0=0 +datum=WGS84 +units=m +no_defs",
    "merc": "+proj=merc +lon_0=0 +datum=WGS84 +units=m +no_defs",
    "laea": "+proj=laea +lat_0=50 +lon_0=10 +datum=WGS84 +units=m +no_defs",
    "stere_n": "+proj=stere +lat_0=90 +lat_ts=60 +lon_0=0 +datum=WGS84 +units=m +no_defs",
    "stere_s": "+proj=stere +lat_0=-90 +lat_ts=-71 +lon_0=0 +datum=WGS84 +units=m +no_defs",
    "lcc": "+proj=lcc +lat_1=25 +lat_2=25 +lat_0=25 +lon_0=-95 +datum=WGS84 +units=m +no_defs",
    "eqc_dateline": "+proj=eqc +lat_ts=0 +lon_0=180 +datum=WGS84 +units=m +no_defs",
}
GEOS = "+proj=geos +h=35785831 +a=6378169 +b=6356583.8 +lon_0=%s +units=m +no_defs"
GEOS_A, GEOS_B, GEOS_H = 6378169.0, 6356583.8, 35785831.0


def hx(v):
    return float(v).hex()


def uh(s):
    return float.fromhex(s)


# ------------------------------------------------------------------ independent spherical geometry (oracle side)
def vec(lon, lat):
    lo, la = math.radians(lon), math.radians(lat)
    return (math.cos(la) * math.cos(lo), math.cos(la) * math.sin(lo), math.sin(la))


def dot(a, b):
    return a[0] * b[0] + a[1] * b[1] + a[2] * b[2]


def cross(a, b):
    return (a[1] * b[2] - a[2] * b[1], a[2] * b[0] - a[0] * b[2], a[0] * b[1] - a[1] * b[0])


def tri_solid(a, b, c):
    """signed solid angle of the spherical triangle a,b,c (positive: counter-clockwise seen from outside)"""
    num = dot(a, cross(b, c))
    den = 1.0 + dot(a, b) + dot(b, c) + dot(c, a)
    return 2.0 * math.atan2(num, den)


_APEX = [vec(lo, la) for lo, la in ((11.3, 17.9), (-73.1, 41.7), (127.9, -33.3), (-151.7, -58.9), (61.3, 71.3), (-17.7, -12.1),
                                   (95.1, 8.3), (-110.9, 23.9), (171.1, 48.7), (33.7, -67.3), (-45.5, 64.1), (-131.3, -3.7))]


def signed_area(vs):
    """signed area (unit sphere, in (-2pi, 2pi]) of the polygon through unit vectors vs (edges: short great-circle arcs);
    positive: counter-clockwise seen from outside.  Fan of signed triangles from an apex kept away from every vertex
    and from every vertex's antipode (the fan sum is the area modulo the whole sphere)."""
    apex = max(_APEX, key=lambda p: min(1.0 - abs(dot(p, v)) for v in vs))
    s = 0.0
    n = len(vs)
    for i in range(n):
        s += tri_solid(apex, vs[i], vs[(i + 1) % n])
    while s > 2 * math.pi:
        s -= 4 * math.pi
    while s <= -2 * math.pi:
        s += 4 * math.pi
    return s


def winding(p, vs):
    """sum of the signed angles under which the edges of the ring are seen from p (about -2pi: inside a clockwise ring)"""
    s = 0.0
    n = len(vs)
    for i in range(n):
        a, b = vs[i], vs[(i + 1) % n]
        # written with the differences to p (same value as p.(a x b) and a.b - (a.p)(b.p), without the cancellation that
        # loses all digits when the ring is a few metres away from p)
        u = (a[0] - p[0], a[1] - p[1], a[2] - p[2])
        v = (b[0] - p[0], b[1] - p[1], b[2] - p[2])
        num = dot(p, cross(u, v))
        den = dot(u, v) - dot(u, p) * dot(v, p)
        s += math.atan2(num, den)
    return s


def arcs_cross(a, b, p, q):
    """do the short great-circle arcs a-b and p-q cross (general position)"""
    n1, n2 = cross(a, b), cross(p, q)
    t = cross(n1, n2)
    if dot(t, t) == 0.0:
        return False
    for sgn in (1.0, -1.0):
        x = tuple(sgn * v for v in t)
        if dot(cross(a, x), n1) > 0 and dot(cross(x, b), n1) > 0 and dot(cross(p, x), n2) > 0 and dot(cross(x, q), n2) > 0:
            return True
    return False


def inside_parity(p, outside, vs):
    """p is inside the ring iff the arc from p to a point known to be outside crosses the ring an odd number of times"""
    n = len(vs)
    return sum(1 for i in range(n) if arcs_cross(vs[i], vs[(i + 1) % n], p, outside)) % 2 == 1


def far_points(ctr):
    """the antipode of ctr and two generic points more than a quarter of the globe away from it"""
    e1 = cross(ctr, (0.0, 0.0, 1.0) if abs(ctr[2]) < 0.9 else (1.0, 0.0, 0.0))
    nrm = math.sqrt(dot(e1, e1))
    e1 = tuple(x / nrm for x in e1)
    e2 = cross(ctr, e1)
    out = [tuple(-x for x in ctr)]
    for (a, b, c) in ((-0.2, 0.7, 0.68), (-0.35, -0.61, 0.71)):
        p = tuple(a * ctr[i] + b * e1[i] + c * e2[i] for i in range(3))
        nrm = math.sqrt(dot(p, p))
        out.append(tuple(x / nrm for x in p))
    return out


def unwrap(lon, ref):
    return ((lon - ref + 180.0) % 360.0) - 180.0


def shoelace(pts):
    s = 0.0
    n = len(pts)
    for i in range(n):
        x0, y0 = pts[i]
        x1, y1 = pts[(i + 1) % n]
        s += x0 * y1 - x1 * y0
    return s / 2.0


# ------------------------------------------------------------------ Coq literals
def pixl(l):
    return "[" + "; ".join("(%d, %d)" % (r, c) for r, c in l) + "]"


def sidesl(s):
    return "[" + "; ".join(pixl(x) for x in s) + "]"


def vpsl(v):
    return "None" if v is None else "(Some %d)" % v


# ------------------------------------------------------------------ case generation
def orient(arr, k):
    """the 8 array orientations: transpose (k&4), flip rows (k&1), flip columns (k&2)"""
    a = [row[:] for row in arr]
    if k & 4:
        a = [list(t) for t in zip(*a)]
    if k & 1:
        a = a[::-1]
    if k & 2:
        a = [row[::-1] for row in a]
    return a


def encoded_swath(h0, w0, k, lon0, lat0, d):
    lons = [[((lon0 + c * d + 180.0) % 360.0) - 180.0 for c in range(w0)] for r in range(h0)]
    lats = [[lat0 - r * d for c in range(w0)] for r in range(h0)]
    return orient(lons, k), orient(lats, k)


def orbit_swath(h, w, rng, ascending, flip_scan):
    """a polar-orbiter-like swath: sub-satellite track on an inclined great circle, scan lines across it"""
    inc = math.radians(rng.choice([98.7, 81.3, 65.0]))
    node = math.radians(rng.uniform(-180, 180))
    t0 = rng.uniform(0, 2 * math.pi)
    dt = math.radians(rng.uniform(0.05, 0.4)) * (1 if ascending else -1)
    half = math.radians(rng.uniform(2.0, 12.0))
    # orbit plane basis
    n_ = (math.cos(node), math.sin(node), 0.0)
    m_ = (-math.sin(node) * math.cos(inc), math.cos(node) * math.cos(inc), math.sin(inc))
    if not ascending:
        # a descending pass: latitude decreases along the track in the part used
        t0 = math.pi - t0 if math.cos(t0) > 0 else t0
        dt = abs(dt)
    lons, lats = [], []
    for r in range(h):
        t = t0 + r * dt
        s = tuple(math.cos(t) * n_[i] + math.sin(t) * m_[i] for i in range(3))
        v = tuple(-math.sin(t) * n_[i] + math.cos(t) * m_[i] for i in range(3))
        cr = cross(s, v)      # across-track direction (left of the flight direction)
        lo_row, la_row = [], []
        for c in range(w):
            th = -half + 2 * half * c / (w - 1)
            if flip_scan:
                th = -th
            p = tuple(math.cos(th) * s[i] - math.sin(th) * cr[i] for i in range(3))
            lo_row.append(math.degrees(math.atan2(p[1], p[0])))
            la_row.append(math.degrees(math.asin(max(-1.0, min(1.0, p[2])))))
        lons.append(lo_row)
        lats.append(la_row)
    return lons, lats


def long_orbit_swath(h, w, rng, direction, flip_scan, span_deg, half_deg):
    """a long, narrow swath: [span_deg] degrees of arc along an inclined orbit, 2*half_deg wide"""
    inc = math.radians(rng.choice([98.7, 81.3, 65.0, 40.0]))
    node = math.radians(rng.uniform(-180, 180))
    t0 = rng.uniform(0, 2 * math.pi)
    dt = direction * math.radians(span_deg) / (h - 1)
    half = math.radians(half_deg)
    n_ = (math.cos(node), math.sin(node), 0.0)
    m_ = (-math.sin(node) * math.cos(inc), math.cos(node) * math.cos(inc), math.sin(inc))
    lons, lats = [], []
    for r in range(h):
        t = t0 + r * dt
        s = tuple(math.cos(t) * n_[i] + math.sin(t) * m_[i] for i in range(3))
        v = tuple(-math.sin(t) * n_[i] + math.cos(t) * m_[i] for i in range(3))
        cr = cross(s, v)
        lo_row, la_row = [], []
        for c in range(w):
            th = (-half + 2 * half * c / (w - 1)) * (-1 if flip_scan else 1)
            p = tuple(math.cos(th) * s[i] - math.sin(th) * cr[i] for i in range(3))
            lo_row.append(math.degrees(math.atan2(p[1], p[0])))
            la_row.append(math.degrees(math.asin(max(-1.0, min(1.0, p[2])))))
        lons.append(lo_row)
        lats.append(la_row)
    return lons, lats


def gen_long(ctx):
    """geometries with a side longer than half a great circle (long but narrow: footprint far below a hemisphere)"""
    r = ctx.rng
    out = []
    combos = [(d, fl, tr) for d in (1, -1) for fl in (False, True) for tr in (False, True)]
    spans = [270.0, 300.0, 200.0, 225.0, 180.0, 150.0, 330.0, 185.0]
    reps = ctx.n(2, 8)
    for rep_i in range(reps):
        for j, (d, fl, tr) in enumerate(combos):
            span = spans[(j + rep_i * 3) % len(spans)] if rep_i else (270.0 if j % 2 == 0 else 300.0)
            h, w = r.randint(100, 150), r.randint(3, 5)
            lons, lats = long_orbit_swath(h, w, r, d, fl, span, r.uniform(0.6, 1.2))
            if tr:
                lons, lats = orient(lons, 4), orient(lats, 4)
            v = r.choice([None, None, r.randint(30, 60), max(h, w) + 5])
            out.append({"kind": "swath", "tag": "long_orbit%d_%s%s%s" % (round(span), "fwd" if d > 0 else "bwd", "_flip" if fl else "", "_transposed" if tr else ""),
                        "key": "long_side", "lons": lons, "lats": lats, "vps": v, "dask": False, "xarray": False, "true_cw": None})
    # wide lon/lat grids along the equator, all 8 array orientations (transposed: the long side is a column)
    for rep_i in range(ctx.n(1, 4)):
        for k in range(8):
            n_lon, n_lat = r.randint(110, 150), r.randint(3, 5)
            span = r.choice([270.0, 300.0, 200.0]) if rep_i else 270.0
            lon0, lat0 = r.uniform(-179.0, 179.0), r.uniform(0.5, 1.5)
            dlon, dlat = span / (n_lon - 1) * 0.99731, r.uniform(0.3, 0.6) * 1.0137
            lons = [[((lon0 + c * dlon + 180.0) % 360.0) - 180.0 for c in range(n_lon)] for _ in range(n_lat)]
            lats = [[lat0 - rr * dlat for _ in range(n_lon)] for rr in range(n_lat)]
            v = r.choice([None, r.randint(40, 70)])
            out.append({"kind": "swath", "tag": "long_grid%d" % round(span), "key": "long_side", "k": k, "lons": orient(lons, k), "lats": orient(lats, k),
                        "vps": v, "dask": False, "xarray": False, "true_cw": bin(k).count("1") % 2 == 0})
    return out


HIRES_CRS = {
    "utm60n": ("EPSG:32660", 1), "utm01n": ("EPSG:32601", 1), "utm10n": ("EPSG:32610", 1), "utm47n": ("EPSG:32647", 1),
    "utm60s": ("EPSG:32760", -1), "utm18s": ("EPSG:32718", -1),
    "stere_n": (CRS["stere_n"], 0), "stere_s": (CRS["stere_s"], 0),
}


def gen_hires(ctx):
    """high-resolution geometries (10-100 m pixels) far from lon 0 / lat 0, where np.allclose-style comparisons of
    coordinates in radians cannot tell neighbouring pixels apart"""
    r = ctx.rng
    out = []
    for _ in range(ctx.n(28, 250)):
        name = r.choice(sorted(HIRES_CRS))
        proj, hemi = HIRES_CRS[name]
        px = r.choice([10.0, 20.0, 30.0, 50.0, 60.0, 100.0, r.uniform(10.0, 100.0)])
        h, w = r.randint(6, 40), r.randint(6, 40)
        if hemi:       # UTM: central meridian at |lon| > 90; northing of latitude 46..80
            x0 = r.uniform(3.0e5, 7.0e5)
            lat = r.uniform(46.0, 80.0)
            y0 = lat * 111000.0 if hemi > 0 else 1.0e7 - lat * 111000.0
        else:          # polar stereographic, lon_0 = 0: the half plane away from the Greenwich meridian
            x0 = r.uniform(-3.0e6, 3.0e6)
            y0 = r.uniform(4.0e5, 3.0e6) * (1 if name == "stere_n" else -1)
        ext = [x0, y0, x0 + w * px, y0 + h * px]
        fk = r.choice([0, 0, 1, 2, 3])
        if fk & 1:
            ext[1], ext[3] = ext[3], ext[1]
        if fk & 2:
            ext[0], ext[2] = ext[2], ext[0]
        v = r.choice([None, None, None, max(h, w) + 1, r.randint(2, 12)])
        out.append({"kind": "area", "tag": "hires_area_%s_%dm%s" % (name, round(px), "_flip%d" % fk if fk else ""), "key": "high_resolution",
                    "proj": proj, "shape": [h, w], "extent": ext, "vps": v, "want_lonlats": True, "true_cw": None})
    for _ in range(ctx.n(28, 250)):
        k = r.randrange(8)
        d = r.choice([1e-4, 2e-4, 3e-4, 5e-4, 1e-3])        # degrees: 11 m .. 111 m of latitude
        h0, w0 = r.randint(5, 30), r.randint(5, 30)
        lon0 = r.uniform(92.0, 179.9) * r.choice([1, -1])
        lat0 = r.uniform(46.0, 84.0) * r.choice([1, -1])
        lons, lats = encoded_swath(h0, w0, k, lon0, lat0, d)
        v = r.choice([None, None, None, max(h0, w0) + 2, r.randint(2, 10)])
        out.append({"kind": "swath", "tag": "hires_swath_%gdeg" % d, "key": "high_resolution", "k": k, "lons": lons, "lats": lats, "vps": v,
                    "dask": False, "xarray": False, "true_cw": bin(k).count("1") % 2 == 0})
    return out


def gen_cases(ctx):
    r = ctx.rng
    c = {}
    # ---- index tables
    N = 30
    lin = [(0, n - 1, m) for n in range(1, N + 1) for m in range(1, N + 1)]
    lin += [(n - 1, 0, m) for n in range(1, N + 1) for m in range(1, N + 1)]
    for _ in range(ctx.n(120, 1500)):
        n = r.randint(2, r.choice([64, 400, 5000]))
        m = r.choice([r.randint(2, n), r.randint(2, n), n, n + 1, r.randint(n, 2 * n), max(2, n - 1)])
        m = min(m, 400)
        lin.append((0, n - 1, m) if r.random() < 0.5 else (n - 1, 0, m))
    c["linspace"] = lin
    # ---- slices
    sl = [(h, w, v) for h in range(2, 9) for w in range(2, 9) for v in [None] + list(range(2, 13))]
    for _ in range(ctx.n(80, 800)):
        h, w = r.randint(2, r.choice([12, 60, 300])), r.randint(2, r.choice([12, 60, 300]))
        v = r.choice([None, r.randint(2, 12), r.randint(2, max(h, w) + 5), min(h, w), min(h, w) + 1, max(h, w), max(h, w) + 1])
        sl.append((h, w, v))
    # outside the property's scope (one-pixel-thick shapes, vertices_per_side = 1): model/code agreement only
    sl += [(1, w, v) for w in (1, 2, 5) for v in (None, 1, 2, 3, 10)] + [(h, 1, v) for h in (2, 4) for v in (None, 1, 2, 7)]
    sl += [(h, w, 1) for h in (2, 3) for w in (2, 5)]
    c["slices"] = sl
    # ---- rings
    rings = []
    shapes = [(h, w) for h in range(2, 9) for w in range(2, 9)]
    vlist = [None] + list(range(2, 13))
    allenc = [(h, w, k, v) for (h, w) in shapes for k in range(8) for v in vlist]
    if ctx.thorough:
        chosen = allenc
    else:
        chosen = r.sample(allenc, 800)
        # always: every orientation with vertices_per_side beyond a side, the defect's own input
        chosen += [(4, 3, k, v) for k in range(8) for v in (4, 5, 6)]
    for (h0, w0, k, v) in chosen:
        spot = r.choice([(10.0, 0.05), (10.0, 0.05), (-60.0, 0.3), (179.97, 0.02), (25.0, 70.0), (-120.0, -55.0)])
        d = 0.01
        lons, lats = encoded_swath(h0, w0, k, spot[0], spot[1], d)
        rings.append({"kind": "swath", "tag": "enc", "k": k, "lons": lons, "lats": lats, "vps": v,
                      "dask": r.random() < 0.08, "xarray": r.random() < 0.08, "true_cw": bin(k).count("1") % 2 == 0})
    for _ in range(ctx.n(110, 700)):
        h, w = r.randint(6, 36), r.randint(4, 20)
        asc, fl = r.random() < 0.5, r.random() < 0.5
        lons, lats = orbit_swath(h, w, r, asc, fl)
        v = r.choice([None, 2, 3, r.randint(2, 12), r.randint(2, 60), min(h, w), max(h, w) + 3])
        rings.append({"kind": "swath", "tag": "orbit_" + ("asc" if asc else "desc") + ("_flip" if fl else ""),
                      "lons": lons, "lats": lats, "vps": v, "dask": False, "xarray": False, "true_cw": None})
    for _ in range(ctx.n(140, 800)):
        name = r.choice(sorted(CRS))
        h, w = r.randint(2, 22), r.randint(2, 22)
        if name in ("eqc", "merc", "eqc_dateline"):
            cx, cy = r.uniform(-8e6, 8e6), r.uniform(-5e6, 5e6)
            sx, sy = r.uniform(2e4, 3e6), r.uniform(2e4, 2e6)
        elif name == "lcc":
            cx, cy = r.uniform(-2e6, 2e6), r.uniform(-1e6, 2e6)
            sx, sy = r.uniform(2e4, 1.5e6), r.uniform(2e4, 1.5e6)
        else:
            cx, cy = r.uniform(-2.5e6, 2.5e6), r.uniform(-2.5e6, 2.5e6)
            sx, sy = r.uniform(2e4, 2e6), r.uniform(2e4, 2e6)
        ext = [cx - sx, cy - sy, cx + sx, cy + sy]
        fk = r.choice([0, 0, 1, 2, 3])
        if fk & 1:
            ext[1], ext[3] = ext[3], ext[1]
        if fk & 2:
            ext[0], ext[2] = ext[2], ext[0]
        v = r.choice([None, 2, 3, r.randint(2, 12), r.randint(2, 40), min(h, w) + 1, max(h, w) + 2])
        rings.append({"kind": "area", "tag": "area_" + name + ("_flip%d" % fk if fk else ""), "proj": CRS[name],
                      "shape": [h, w], "extent": ext, "vps": v, "want_lonlats": True, "true_cw": None})
    rings += gen_long(ctx)
    rings += gen_hires(ctx)
    for g in rings:
        g["want_legacy"] = r.random() < (0.3 if g.get("key") == "long_side" else ctx.n(0.35, 1.0))
        if g["vps"] is None and r.random() < 0.7:
            g["frequency_legacy"] = r.choice([1, 2, 2, 3, 4, 5, 7, 11])
    c["rings"] = rings
    # ---- AreaBoundary.decimate on synthetic sides (positions as values), with and without a memoised polygon
    dec = [([L, L, L, L], q, t) for L in range(2, 13) for q in range(1, 8) for t in (False,)]
    for _ in range(ctx.n(80, 1200)):
        dec.append(([r.randint(2, r.choice([8, 40, 200])) for _ in range(4)], r.randint(1, r.choice([3, 12, 60])), r.random() < 0.5))
    c["decimate"] = dec
    # ---- NaN filtering (encoded north-up swaths with invalid edge pixels)
    nanc = []
    for _ in range(ctx.n(60, 500)):
        h, w = r.randint(2, 7), r.randint(2, 7)
        v = r.choice([None, None, 2, 3, r.randint(2, 9)])
        edge = [(rr, cc) for rr in range(h) for cc in range(w) if rr in (0, h - 1) or cc in (0, w - 1)]
        mode = r.random()
        if mode < 0.12:
            side = r.choice([[(0, cc) for cc in range(w)], [(rr, w - 1) for rr in range(h)],
                             [(h - 1, cc) for cc in range(w)], [(rr, 0) for rr in range(h)]])
            bad = side
        else:
            bad = r.sample(edge, r.randint(1, max(1, len(edge) // 3)))
        cls = r.choice(["lat_only", "lat_only", "lon_only", "separate_masks", "mixed"])
        if cls == "lat_only":          # valid longitude, NaN latitude
            nlon, nlat = [], list(bad)
        elif cls == "lon_only":
            nlon, nlat = list(bad), []
        elif cls == "separate_masks":  # two fill masks that do not coincide
            nlon = [p for i, p in enumerate(bad) if i % 2 == 0]
            nlat = [p for i, p in enumerate(bad) if i % 2 == 1] or [bad[0]]
            nlon = [p for p in nlon if p not in nlat] if len(bad) > 1 else []
        else:
            nlon = [p for p in bad if r.random() < 0.6]
            nlat = [p for p in bad if p not in nlon or r.random() < 0.2]
        container = r.choice(["numpy", "numpy", "dask", "xarray", "xarray_dask"])
        nanc.append((h, w, v, nlon, nlat, cls, container))
    c["nan"] = nanc
    # ---- geostationary areas
    geos = []
    xa = math.acos(math.sqrt(1 - (GEOS_A / 1000.0) ** 2 / ((GEOS_H / 1000.0 + GEOS_A / 1000.0) ** 2)))
    ya = math.acos(math.sqrt(1 - (GEOS_B / 1000.0) ** 2 / ((GEOS_H / 1000.0 + GEOS_A / 1000.0) ** 2)))
    X, Y = xa * GEOS_H, ya * GEOS_H
    full = [-5570248.477339745, -5567248.074173927, 5567248.074173927, 5570248.477339745]
    fixed = [("full", full), ("inside", [-1e6, -1e6, 1e6, 1e6]), ("europe", [-2e6, 2.5e6, 2e6, 5e6]),
             ("strip", [full[0], -5e5, full[2], 5e5]), ("corner_ne", [1.3e6, 1.1e6, full[2], full[3]]),
             ("west_half", [full[0], full[1], -2.2e5, full[3]]), ("quadrant_ne", [0.0, 0.0, full[2], full[3]]),
             ("quadrant_sw", [full[0], full[1], 0.0, 0.0]),
             ("north_half", [full[0], 0.0, full[2], full[3]]), ("east_half", [0.0, full[1], full[2], full[3]])]
    for tag, ext in fixed:
        for v in ([None, 2, 5, 8, 20, 50] if not ctx.thorough else [None] + list(range(2, 31)) + [50, 64]):
            geos.append({"tag": tag, "extent": ext, "vps": v, "lon_0": 0.0})
    for _ in range(ctx.n(40, 500)):
        cx, cy = r.uniform(-0.9 * X, 0.9 * X), r.uniform(-0.9 * Y, 0.9 * Y)
        sx, sy = r.uniform(0.05 * X, 1.1 * X), r.uniform(0.05 * Y, 1.1 * Y)
        ext = [cx - sx, cy - sy, cx + sx, cy + sy]
        v = r.choice([None, r.randint(2, 12), r.randint(2, 64), 50])
        geos.append({"tag": "random", "extent": ext, "vps": v, "lon_0": r.choice([0.0, -75.2, 140.7])})
    for g in geos:
        g.update({"kind": "area", "proj": GEOS % repr(g["lon_0"]), "shape": [60, 60]})
        v = g["vps"]
        nb = 50 if v is None else max(v, 4)
        nb += nb % 2
        g["nb_points"] = nb
    c["geos"] = geos
    c["geos_consts"] = (X, Y, xa, ya)
    return c


# ------------------------------------------------------------------ oracle helpers
def dec_sides(sides, table):
    """coordinates -> pixel indices of the geometry's own lon/lat arrays (None where a vertex is no pixel of it)"""
    out = []
    for lo, la in sides:
        out.append([table.get((uh(a), uh(b))) for a, b in zip(lo, la)])
    return out


def dec_list(pair, table):
    return [table.get((uh(a), uh(b))) for a, b in zip(pair[0], pair[1])]


def is_err(o):
    return isinstance(o, dict) and "error" in o


def run(ctx):
    t_start = time.time()
    ctx.rule = ("index tables np.linspace(.., dtype=int): all side lengths and vertex counts 1..30 ascending and descending plus "
                "PRNG sizes up to 5000; _get_bbox_slices: all shapes 2..8 x 2..8 with vertices_per_side None, 2..12 plus PRNG shapes up "
                "to 300 and out-of-scope shapes (1,n)/vps=1; rings: swaths whose lon/lat encode (row, col) in all 8 array orientations "
                "(thorough: all shapes 2..8 x 2..8, all vps None,2..12; quick: a PRNG sample of 800 plus the 4x3 vps 4..6 cases; some as "
                "dask / xarray), synthetic polar-orbit swaths (ascending/descending, scan direction flipped), areas in 7 CRSs with the 4 "
                "extent orientations, long narrow geometries with a side longer than half a great circle (3/4-orbit swaths "
                "forward/backward/flipped/transposed, wide lon/lat grids in all 8 orientations), high-resolution geometries (10-100 m "
                "pixels at |lon| > 90, |lat| > 45: UTM / polar stereographic areas in the 4 extent orientations, encoded swaths in the 8 "
                "array orientations); legacy entry points (get_boundary_lonlats on a third (thorough: all) of the ring cases, "
                "AreaDefBoundary(frequency) on vps=None cases, AreaBoundary.decimate on synthetic sides of 2..200 vertices with ratio "
                "1..60, half of them after contour_poly was read); edge pixels with NaN in the latitude only / the longitude only / two "
                "separate fill masks / both, as numpy, dask, xarray and xarray-of-dask swaths; geostationary full/partial-disk areas. "
                "A case is non-trivial when vertices_per_side differs from the side length / the ring had to be reversed / the geometry "
                "is not north-up / NaNs hit a vertex / decimation drops a vertex / the disk cuts the extent; distinct = distinct inputs")
    cases = gen_cases(ctx)
    payload = {"linspace": cases["linspace"], "slices": cases["slices"]}
    ring_in = []
    for g in cases["rings"]:
        q = {k: g[k] for k in ("kind", "vps", "want_legacy", "frequency_legacy") if k in g}
        if g["kind"] == "swath":
            q["lons"] = [[hx(v) for v in row] for row in g["lons"]]
            q["lats"] = [[hx(v) for v in row] for row in g["lats"]]
            q["dask"], q["xarray"] = g["dask"], g["xarray"]
        else:
            q.update({"proj": g["proj"], "shape": g["shape"], "extent": g["extent"], "want_lonlats": True})
        ring_in.append(q)
    # NaN cases ride on the ring stream (unforced sides only are used)
    nan_in = []
    for (h, w, v, nlon, nlat, _cls, container) in cases["nan"]:
        lons = [[float(c) for c in range(w)] for _ in range(h)]
        lats = [[float(rr) for _ in range(w)] for rr in range(h)]
        for (rr, cc) in nlon:
            lons[rr][cc] = float("nan")
        for (rr, cc) in nlat:
            lats[rr][cc] = float("nan")
        nan_in.append({"kind": "swath", "vps": v, "lons": [[hx(x) for x in row] for row in lons],
                       "lats": [[hx(x) for x in row] for row in lats], "dask": "dask" in container, "xarray": "xarray" in container})
    payload["rings"] = ring_in + nan_in
    payload["decimate"] = [{"lens": l, "ratio": q, "touch_poly_first": t} for (l, q, t) in cases.get("decimate", [])]
    X, Y, xa, ya = cases["geos_consts"]
    geos_in = []
    for g in cases["geos"]:
        ext = g["extent"]
        cx, cy = (ext[0] + ext[2]) / 2, (ext[1] + ext[3]) / 2
        geos_in.append({"kind": "area", "proj": g["proj"], "shape": g["shape"], "extent": ext, "vps": g["vps"],
                        "nb_points": g["nb_points"]})
    payload["geos"] = geos_in
    obs = ctx.impl("c16", payload, timeout=1500)
    t_impl = time.time()
    texts = []

    # ================================================================= index tables
    L = []
    for (start, stop, num), o in zip(cases["linspace"], obs["linspace"]):
        rep = None
        try:
            n = max(start, stop) + 1
            asc = start <= stop
            ctx.case(("lin", start, stop, num), nontrivial=num >= 2 and num != n,
                     sample={"linspace": [start, stop, num], "impl": o} if (n, num) == (5, 8) and start > stop else None)
            ctx.count("linspace_" + ("beyond_side" if num > n else "within_side"))
            if is_err(o):
                ctx.add_failure("C16.linspace_idx", "np.linspace(%d, %d, %d, dtype=int) raised %s" % (start, stop, num, o["error"]),
                                {"oracle": "linspace", "args": [start, stop, num]})
                continue
            if num >= 2:
                t = o if asc else o[::-1]
                ok = (len(t) == num and t[0] == 0 and t[-1] == n - 1 and all(0 <= x <= n - 1 for x in t)
                      and all(a <= b for a, b in zip(t, t[1:])) and (all(a < b for a, b in zip(t, t[1:])) == (num <= n)))
                if not ok:
                    ctx.add_failure("C16.linspace_idx", "np.linspace(%d, %d, %d, dtype=int) = %s violates the index-table specification"
                                    % (start, stop, num, o[:40]), {"oracle": "linspace", "args": [start, stop, num]})
            L.append("(%d, %d, %d, [%s])" % (start, stop, num, "; ".join(str(x) for x in o)))
        except Exception as exc:      # an observation the oracle was not prepared for: attribute it, never crash
            ctx.add_failure("C16.error.observation.linspace", "the oracle could not interpret what the implementation returned (%s: %s)" % (type(exc).__name__, exc),
                            rep if isinstance(rep, dict) else {"oracle": "linspace"})
    for i in range(0, len(L), 300):
        texts.append(("c16_lin_%d" % (i // 300), HDR + "Definition cases : list (Z * Z * Z * list Z) := [%s].\nEval vm_compute in (bad chk_linspace cases).\n"
                      % ";\n".join(L[i:i + 300]), L[i:i + 300], "linspace_idx"))

    # ================================================================= _get_bbox_slices
    L = []
    for (h, w, v), o in zip(cases["slices"], obs["slices"]):
        rep = None
        try:
            inscope = h >= 2 and w >= 2 and (v is None or v >= 2)
            ctx.case(("sl", h, w, v), nontrivial=v is not None and (v != h or v != w),
                     sample={"slices": {"shape": [h, w], "vertices_per_side": v}, "impl": o} if (h, w, v) == (4, 6, 3) else None)
            ctx.count("slices_" + ("out_of_scope" if not inscope else "vps_none" if v is None else "vps_beyond_side" if v > min(h, w) else "vps_within"))
            if is_err(o):
                if inscope:
                    ctx.add_failure("C16.bbox_slices", "_get_bbox_slices(%s) on shape (%d, %d) raised %s" % (v, h, w, o["error"]),
                                    {"oracle": "slices", "args": [h, w, v]})
                continue
            res = [[(rr % h if rr < 0 else rr, cc % w if cc < 0 else cc) for rr, cc in s] for s in o]
            if inscope:
                flat = [p for s in res for p in s[:-1]]
                bad = None
                if not all((0 <= rr < h and 0 <= cc < w and (rr in (0, h - 1) or cc in (0, w - 1))) for s in res for rr, cc in s):
                    bad = ("C16.edge_pixels", "selects a pixel that is not on the outer rows/columns")
                elif not all(res[i][-1] == res[(i + 1) % 4][0] for i in range(4)):
                    bad = ("C16.closure", "a side does not end where the next begins")
                elif len(set(flat)) != len(flat):
                    bad = ("C16.no_repeat" + (".vps_gt_side" if v is not None and v > min(h, w) else ""), "repeats a pixel within the ring")
                if bad:
                    ctx.add_failure(bad[0], "_get_bbox_slices(vertices_per_side=%s) on shape (%d, %d) %s: %s" % (v, h, w, bad[1], res),
                                    {"oracle": "slices", "args": [h, w, v]})
            L.append("(%d, %d, %s, %s)" % (h, w, vpsl(v), sidesl(res)))
        except Exception as exc:      # an observation the oracle was not prepared for: attribute it, never crash
            ctx.add_failure("C16.error.observation.slices", "the oracle could not interpret what the implementation returned (%s: %s)" % (type(exc).__name__, exc),
                            rep if isinstance(rep, dict) else {"oracle": "slices"})
    for i in range(0, len(L), 400):
        texts.append(("c16_slices_%d" % (i // 400), HDR + "Definition cases : list (Z * Z * option Z * list (list pix)) := [%s].\n"
                      "Eval vm_compute in (bad chk_slices cases).\n" % ";\n".join(L[i:i + 400]), L[i:i + 400], "bbox_slices"))

    # ================================================================= rings
    L = []
    L_full, L_dec = [], []
    shown = {}      # one evidence sample per ring class
    nring = len(cases["rings"])
    for g, o in zip(cases["rings"], obs["rings"][:nring]):
        rep = None
        try:
            v = g["vps"]
            rep = {"oracle": "ring", "case": {k: g[k] for k in g if k not in ("lons", "lats")}}
            if g["kind"] == "swath":
                rep["case"]["lons"], rep["case"]["lats"] = g["lons"], g["lats"]
                lons, lats = g["lons"], g["lats"]
                h, w = len(lons), len(lons[0])
            if is_err(o):
                ctx.add_failure("C16.error." + g["tag"].split("_")[0], "boundary code raised %s: %s" % (o["error"], o.get("msg")), rep)
                continue
            if g["kind"] == "area":
                h, w = o["shape"]
                fl = [uh(x) for x in o["lons"]]
                fa = [uh(x) for x in o["lats"]]
                lons = [fl[i * w:(i + 1) * w] for i in range(h)]
                lats = [fa[i * w:(i + 1) * w] for i in range(h)]
            table = {}
            dup = False
            for rr in range(h):
                for cc in range(w):
                    key = (lons[rr][cc], lats[rr][cc])
                    if key in table:
                        dup = True
                    table[key] = (rr, cc)
            kindkey = g.get("key") or g["tag"].split("_")[0]
            beyond = v is not None and v > min(h, w)
            ctx.count("ring_%s_%s" % (kindkey, "vps_none" if v is None else "vps_beyond_side" if beyond else "vps_within"))
            if dup or any(not math.isfinite(x) for row in lons for x in row):
                ctx.count("ring_skipped_noninjective")
                continue
            errs = [k for k in ("sides_u", "sides_f", "contour", "edge", "cw") if is_err(o.get(k))]
            if errs:
                ctx.case(("ring", g["tag"], h, w, v, repr(g.get("k"))), nontrivial=True)
                ctx.add_failure("C16.error." + kindkey, "%s of a %dx%d %s with vertices_per_side=%s raised %s" %
                                (errs[0], h, w, g["tag"], v, o[errs[0]]["error"]), rep)
                continue
            su, sf = dec_sides(o["sides_u"], table), dec_sides(o["sides_f"], table)
            cf, cu, ed = dec_list(o["contour"], table), dec_list(o["contour_u"], table), dec_list(o["edge"], table)
            cw = o["cw"]
            reversed_ = su != sf
            ctx.case(("ring", g["tag"], h, w, v, repr(g.get("k")), repr(g.get("extent")), g["lons"][0][0] if g["kind"] == "swath" else 0),
                     nontrivial=(v is not None and (v != h or v != w)) or reversed_ or g["tag"] != "enc" or g.get("k", 0) != 0,
                     sample={"ring_" + kindkey: {"tag": g["tag"], "shape": [h, w], "vertices_per_side": v, "orientation": g.get("k"),
                                                 "extent": g.get("extent")},
                             "impl_forced_sides": sf if sum(len(x) for x in sf) <= 40 else {"lengths": [len(x) for x in sf], "first": [x[:3] for x in sf]},
                             "corner_is_clockwise": cw, "reversed": reversed_, "SphPolygon_area": o.get("area")}
                     if (v is not None or kindkey != "enc") and not (kindkey == "enc" and min(h, w) < 3)
                     and shown.setdefault(kindkey, 0) < 1 and not shown.update({kindkey: 1}) else None)
            what = "%dx%d %s%s, vertices_per_side=%s" % (h, w, g["tag"], "" if g.get("k") is None else " orientation %d" % g["k"], v)
            # ---- the property, clause by clause, on the forced ring and on boundary().contour
            allv = [p for s in sf for p in s] + cf + [p for s in su for p in s] + cu + ed
            if any(p is None for p in allv):
                ctx.add_failure("C16.edge_pixels", "%s: a boundary vertex is not a pixel of the geometry" % what, rep)
                continue
            if not all(rr in (0, h - 1) or cc in (0, w - 1) for rr, cc in allv):
                ctx.add_failure("C16.edge_pixels", "%s: a boundary vertex is not on the outer rows/columns" % what, rep)
                continue
            ok_struct = True
            for nm, s in (("forced", sf), ("unforced", su)):
                if len(s) != 4 or any(len(x) < 2 for x in s) or not all(s[i][-1] == s[(i + 1) % 4][0] for i in range(4)):
                    ctx.add_failure("C16.closure", "%s: %s sides do not each end where the next begins: %s" % (what, nm, s), rep)
                    ok_struct = False
            if not ok_struct:
                continue
            if len(set(cf)) != len(cf) or len(set(cu)) != len(cu):
                ctx.add_failure("C16.no_repeat" + (".vps_gt_side" if beyond else ""),
                                "%s: the ring repeats a vertex: %d vertices, %d distinct (SphPolygon.area = %r)" % (what, len(cf), len(set(cf)), o.get("area")), rep)
                continue
            if cf != [p for s in sf for p in s[:-1]] or cu != [p for s in su for p in s[:-1]] or ed != [p for s in su for p in s]:
                ctx.add_failure("C16.api_consistency", "%s: boundary().contour()/get_edge_lonlats() are not the sides minus their last vertex / the concatenated sides" % what, rep)
                continue
            if v is not None and (is_err(o.get("contour_freq")) or dec_list(o["contour_freq"], table) != cf or dec_sides(o["sides_freq"], table) != sf):
                ctx.add_failure("C16.api_consistency.frequency", "%s: frequency= gives another ring than vertices_per_side=" % what, rep)
                continue
            if g["kind"] == "area" and not is_err(o.get("proj_edge")):
                xt = {uh(x): i for i, x in enumerate(o["proj_x"])}
                yt = {uh(y): i for i, y in enumerate(o["proj_y"])}
                pe = [(yt.get(uh(y)), xt.get(uh(x))) for x, y in zip(o["proj_edge"][0], o["proj_edge"][1])]
                if pe != ed:
                    ctx.add_failure("C16.api_consistency.proj_edge", "%s: get_edge_bbox_in_projection_coordinates visits other pixels than get_edge_lonlats" % what, rep)
                    continue
            # ---- legacy entry points: get_boundary_lonlats (complete sides), AreaDefBoundary(area, frequency) (decimated sides)
            if "legacy_sides" in o:
                if is_err(o["legacy_sides"]):
                    ctx.add_failure("C16.error.legacy", "%s: get_boundary_lonlats raised %s" % (what, o["legacy_sides"]["error"]), rep)
                    continue
                ls = dec_sides(o["legacy_sides"], table)
                want = [[(0, cc) for cc in range(w)], [(rr, w - 1) for rr in range(h)],
                        [(h - 1, cc) for cc in range(w - 1, -1, -1)], [(rr, 0) for rr in range(h - 1, -1, -1)]]
                ctx.count("legacy_get_boundary_lonlats")
                if ls != want:
                    ctx.add_failure("C16.legacy.boundary_lonlats", "%s: get_boundary_lonlats does not return the four complete edge rows/columns" % what, rep)
                    continue
                L_full.append("(%d, %d, %s)" % (h, w, sidesl(ls)))
            if "adb_sides" in o:
                ctx.count("legacy_AreaDefBoundary_frequency")
                q = g["frequency_legacy"]
                if is_err(o["adb_sides"]):
                    ctx.add_failure("C16.error.legacy", "%s: AreaDefBoundary(frequency=%d) raised %s" % (what, q, o["adb_sides"]["error"]), rep)
                    continue
                ad = dec_sides(o["adb_sides"], table)
                adc = dec_list(o["adb_contour"], table)
                okd = all(p is not None for s_ in ad for p in s_)
                poss = []
                if okd:
                    for s_full, s_dec in zip(sf, ad):
                        pos = [s_full.index(p) if p in s_full else None for p in s_dec]
                        poss.append(pos)
                    okd = all(None not in pos and pos[0] == 0 and pos[-1] == len(s_full) - 1 and all(a_ < b_ for a_, b_ in zip(pos, pos[1:]))
                              for pos, s_full in zip(poss, sf))
                if not okd or not all(ad[i][-1] == ad[(i + 1) % 4][0] for i in range(4)) or len(set(adc)) != len(adc) \
                        or adc != [p for s_ in ad for p in s_[:-1]]:
                    ctx.add_failure("C16.legacy.decimate", "%s: AreaDefBoundary(frequency=%d) is not a closed, repetition-free sub-ring keeping the corners: %s" % (what, q, ad), rep)
                    continue
                if o["adb_poly_n"] != len(adc):
                    ctx.add_failure("C16.history.decimate_stale_poly", "%s: AreaDefBoundary(frequency=%d).contour_poly has %d vertices, contour() %d" % (what, q, o["adb_poly_n"], len(adc)), rep)
                    continue
                for pos, s_full in zip(poss, sf):
                    L_dec.append("(%d, %d, [%s])" % (len(s_full), q, "; ".join(str(x) for x in pos)))
            # ---- orientation and footprint (spherical; independent computation)
            ring = [vec(lons[rr][cc], lats[rr][cc]) for rr, cc in cf]
            sa = signed_area(ring)
            cells = 0.0
            for rr in range(h - 1):
                for cc in range(w - 1):
                    q = [vec(lons[a][b], lats[a][b]) for a, b in ((rr, cc), (rr, cc + 1), (rr + 1, cc + 1), (rr + 1, cc))]
                    cells += signed_area(q)
            a_ref = abs(cells)
            # discretisation allowance: the slivers between each chord and the edge pixels it skips
            tol = 1e-9 + 1e-6 * a_ref
            slack_impl = 1e-7 * max(1.0, a_ref)
            if kindkey == "high_resolution":
                # footprints of 1e-10 .. 1e-6 sr: SphPolygon.area is a sum of n vertex angles minus (n-2) pi, each rounded at
                # about 1e-16 relative to pi; the oracle's fan sums are far more accurate
                tol = 1e-6 * a_ref + 5e-14 * (len(ring) + 10)
                # SphPolygon.area forms each vertex angle from arctan2(y, x) with x = sin(pa)cos(pp) - cos(pa)sin(pp)cos(dl), a difference
                # of two numbers of size <= 1 that leaves about the vertex spacing d (radians): absolute error ~2 eps, relative ~2 eps/d,
                # i.e. up to ~2 eps/d per azimuth, two azimuths per vertex: n * 4 eps / d_min in total (x2 for the other roundings)
                dmin = min(math.sqrt(sum((ring[i][j] - ring[i - 1][j]) ** 2 for j in range(3))) for i in range(len(ring)))
                slack_impl = len(ring) * 8 * 2.3e-16 / max(dmin, 1e-9) + 5e-14 * (len(ring) + 10)
            for s in sf:
                for p, q in zip(s, s[1:]):
                    if p[0] == q[0]:
                        path = [(p[0], cc) for cc in range(p[1], q[1], 1 if q[1] > p[1] else -1)] + [q]
                    else:
                        path = [(rr, p[1]) for rr in range(p[0], q[0], 1 if q[0] > p[0] else -1)] + [q]
                    if len(path) > 2:
                        tol += sum(abs(tri_solid(vec(lons[path[0][0]][path[0][1]], lats[path[0][0]][path[0][1]]),
                                                 vec(lons[a[0]][a[1]], lats[a[0]][a[1]]), vec(lons[b[0]][b[1]], lats[b[0]][b[1]])))
                                   for a, b in zip(path[1:], path[2:]))
            if a_ref < 1e-12:
                ctx.count("ring_skipped_degenerate")
            else:
                true_cw_forced = sa < 0
                area_impl = o["area"]
                if g["true_cw"] is not None and cw != g["true_cw"]:
                    ctx.add_failure("C16.clockwise." + (kindkey if kindkey in ("high_resolution", "long_side") else "corner_test"),
                                    "%s: _corner_is_clockwise says %s for a ring that runs %s" %
                                    (what, cw, "clockwise" if g["true_cw"] else "counter-clockwise"), rep)
                    continue
                if not true_cw_forced or not (area_impl < 2 * math.pi):
                    ctx.add_failure("C16.clockwise." + kindkey, "%s: the ring of get_bbox_lonlats(force_clockwise=True) runs counter-clockwise "
                                    "(signed area %+.6g sr, SphPolygon.area %.6g)" % (what, sa, area_impl), rep)
                    continue
                if abs(area_impl - a_ref) > tol + slack_impl or abs(-sa - a_ref) > tol:
                    ctx.add_failure("C16.footprint.area", "%s: ring area %.9g (SphPolygon) / %.9g (oracle) vs footprint %.9g, allowance %.3g"
                                    % (what, area_impl, -sa, a_ref, tol), rep)
                    continue
                # interior pixel centres inside, far points outside
                if v is None or (v >= h and v >= w) or g["tag"] == "enc":
                    inner = [(rr, cc) for rr in range(1, h - 1) for cc in range(1, w - 1)]
                else:
                    inner = [(rr, cc) for rr in range(h // 3, h - h // 3) for cc in range(w // 3, w - w // 3) if 0 < rr < h - 1 and 0 < cc < w - 1]
                    if tol > 0.2 * a_ref:
                        inner = []
                if len(inner) > 60:
                    inner = ctx.rng.sample(inner, 60)
                ctr = vec(lons[h // 2][w // 2], lats[h // 2][w // 2])
                far = far_points(ctr)
                if kindkey == "long_side":
                    # the ring may contain antipodal pairs, for which the winding sum is 0: count crossings towards a point that is
                    # at least 10 degrees away from every pixel instead (the footprint is within a pixel spacing of the pixels)
                    step = max(1, (h * w) // 400)
                    allpix = [vec(lons[rr][cc], lats[rr][cc]) for rr in range(h) for cc in range(w)][::step] + ring
                    # generic directions only: the antipode of a pixel lies on the pixel's own scan line / track
                    far = [q for base in (ctr, ring[0], ring[len(ring) // 3]) for p in far_points(base)[1:] for q in (p, tuple(-x for x in p))]
                    far = [p for p in far if max(dot(p, q) for q in allpix) < math.cos(math.radians(10.0))]
                    def is_inside(x):
                        """majority over three outside reference points (an arc may graze a ring vertex)"""
                        refs = [q for q in far if abs(dot(x, q)) < 0.95][:3]
                        return None if len(refs) < 3 else sum(inside_parity(x, q, ring) for q in refs) >= 2
                    bad_in = [p for p in inner if is_inside(vec(lons[p[0]][p[1]], lats[p[0]][p[1]])) is False]
                    if any(is_inside(p) for p in far):
                        ctx.add_failure("C16.footprint.outside", "%s: a point more than 10 degrees away from every pixel counts as inside" % what, rep)
                        continue
                    far = []
                else:
                    bad_in = [p for p in inner if abs(winding(vec(lons[p[0]][p[1]], lats[p[0]][p[1]]), ring) + 2 * math.pi) > 1e-3]
                if bad_in:
                    ctx.add_failure("C16.footprint.inside", "%s: interior pixel centre %s is not inside the ring" % (what, bad_in[0]), rep)
                    continue
                if a_ref < 1.0 and any(winding(p, ring) < -math.pi for p in far):
                    ctx.add_failure("C16.footprint.outside", "%s: a point a quarter of the globe (or more) away counts as inside" % what, rep)
                    continue
            L.append("(mkRing %d %d %s %s %s %s %s %s %s)" % (h, w, vpsl(v), "true" if cw else "false", sidesl(su), sidesl(sf),
                                                             pixl(cf), pixl(cu), pixl(ed)))
        except Exception as exc:      # an observation the oracle was not prepared for: attribute it, never crash
            ctx.add_failure("C16.error.observation.ring", "the oracle could not interpret what the implementation returned (%s: %s)" % (type(exc).__name__, exc),
                            rep if isinstance(rep, dict) else {"oracle": "ring"})
    for i in range(0, len(L), 250):
        texts.append(("c16_ring_%d" % (i // 250), HDR + "Definition cases : list ring_obs := [%s].\nEval vm_compute in (bad chk_ring cases).\n"
                      % ";\n".join(L[i:i + 250]), L[i:i + 250], "ring"))

    # ================================================================= AreaBoundary.decimate (positions kept; memoised polygon)
    for (lens, q, touch), o in zip(cases.get("decimate", []), obs.get("decimate", [])):
        rep = None
        try:
            ctx.case(("dec", tuple(lens), q, touch), nontrivial=q > 1,
                     sample={"decimate": {"side_lengths": lens, "ratio": q, "contour_poly_read_before": touch},
                             "impl_positions": o.get("positions"), "contour_poly_vertices_after": o.get("poly_n_after")}
                     if not is_err(o) and q >= 2 and 5 <= max(lens) <= 14 and (touch or lens[0] == 11) else None)
            ctx.count("decimate_" + ("after_contour_poly" if touch else "fresh"))
            rep = {"oracle": "decimate", "args": [lens, q, touch]}
            if is_err(o):
                ctx.add_failure("C16.error.legacy", "AreaBoundary.decimate(%d) on sides of %s vertices raised %s" % (q, lens, o["error"]), rep)
                continue
            okd = o["positions"] == o["lat_positions"] and all(
                pos and pos[0] == 0 and pos[-1] == L_ - 1 and all(a_ < b_ for a_, b_ in zip(pos, pos[1:])) for pos, L_ in zip(o["positions"], lens))
            if not okd:
                ctx.add_failure("C16.legacy.decimate", "AreaBoundary.decimate(%d) on sides of %s vertices keeps positions %s: not increasing from the first to the last vertex"
                                % (q, lens, o["positions"]), rep)
                continue
            if not o["poly_matches_contour"] or not o["vertices_match_contour"]:
                ctx.add_failure("C16.history.decimate_stale_poly", "b.contour_poly%s; b.decimate(%d); b.contour_poly has %d vertices while b.contour() has %d (sides of %s vertices)"
                                % ("" if touch else " (not read before)", q, o["poly_n_after"], o["contour_n"], lens), rep)
                continue
            for pos, L_ in zip(o["positions"], lens):
                L_dec.append("(%d, %d, [%s])" % (L_, q, "; ".join(str(x) for x in pos)))
        except Exception as exc:      # an observation the oracle was not prepared for: attribute it, never crash
            ctx.add_failure("C16.error.observation.decimate", "the oracle could not interpret what the implementation returned (%s: %s)" % (type(exc).__name__, exc),
                            rep if isinstance(rep, dict) else {"oracle": "decimate"})
    L_dec = list(dict.fromkeys(L_dec))
    for i in range(0, len(L_dec), 500):
        texts.append(("c16_dec_%d" % (i // 500), HDR + "Definition cases : list (Z * Z * list Z) := [%s].\nEval vm_compute in (bad chk_decimate cases).\n"
                      % ";\n".join(L_dec[i:i + 500]), L_dec[i:i + 500], "decimate"))
    # the same cases, run through the definition regenerated from AreaBoundary.decimate by the imperative front end
    for i in range(0, len(L_dec), 500):
        texts.append(("c16_imp_dec_%d" % (i // 500), IHDR + "Definition cases : list (Z * Z * list Z) := [%s].\nEval vm_compute in (bad chk_imp_decimate cases).\n"
                      % ";\n".join(L_dec[i:i + 500]), L_dec[i:i + 500], "generated_decimate"))
    for i in range(0, len(L_full), 300):
        texts.append(("c16_full_%d" % (i // 300), HDR + "Definition cases : list (Z * Z * list (list pix)) := [%s].\nEval vm_compute in (bad chk_full_sides cases).\n"
                      % ";\n".join(L_full[i:i + 300]), L_full[i:i + 300], "get_boundary_lonlats"))

    # ================================================================= NaN filtering
    L = []
    for (h, w, v, nlon, nlat, cls, container), o in zip(cases["nan"], obs["rings"][nring:]):
        rep = None
        try:
            hit = set(nlon) | set(nlat)
            rep = {"oracle": "nan", "args": [h, w, v, nlon, nlat, cls, container]}
            what = "%dx%d %s swath, vertices_per_side=%s, NaN longitude at %s, NaN latitude at %s" % (h, w, container, v, sorted(nlon), sorted(nlat))
            ctx.count("nan_%s_%s" % (cls, container))
            if is_err(o):
                ctx.add_failure("C16.error.nan", "%s: boundary code raised %s: %s" % (what, o["error"], o.get("msg")), rep)
                continue
            su = o.get("sides_u")
            # every coordinate any boundary entry point returns must be a finite coordinate of an edge pixel
            bad_api = None
            for api in ("sides_u", "sides_f", "sides_freq"):
                val = o.get(api)
                if val is not None and not is_err(val) and any(not math.isfinite(uh(x)) for lo, la in val for x in list(lo) + list(la)):
                    bad_api = {"sides_u": "get_bbox_lonlats(force_clockwise=False)", "sides_f": "get_bbox_lonlats(force_clockwise=True)",
                               "sides_freq": "get_bbox_lonlats(frequency=...)"}[api]
                    break
            if bad_api is None:
                for api, name in (("edge", "get_edge_lonlats"), ("contour", "boundary(force_clockwise=True).contour"), ("contour_u", "boundary().contour"),
                                  ("vertices", "boundary(force_clockwise=True).vertices")):
                    val = o.get(api)
                    if val is not None and not is_err(val) and any(not math.isfinite(uh(x)) for x in list(val[0]) + list(val[1])):
                        bad_api = name
                        break
            if bad_api is None and not is_err(o.get("contour")) and o.get("area") is not None and not math.isfinite(o["area"]):
                bad_api = "boundary(force_clockwise=True).contour_poly.area()"
            if bad_api:
                only = "lat_only" if nlat and not nlon else "lon_only" if nlon and not nlat else "lon_and_lat"
                ctx.case(("nan", h, w, v, tuple(nlon), tuple(nlat), container), nontrivial=True)
                ctx.add_failure("C16.nan_filter." + only, "%s: %s returns a vertex with a NaN coordinate (not a coordinate of any pixel; the polygon area becomes NaN)"
                                % (what, bad_api), rep)
                continue
            if is_err(su):
                exp = "None" if su["error"] == "ValueError" else None
                if exp is None:
                    ctx.add_failure("C16.error.nan", "%s: get_bbox_lonlats raised %s" % (what, su["error"]), rep)
                    continue
                dec = None
            else:
                dec = [[(int(round(uh(b))), int(round(uh(a)))) for a, b in zip(lo, la)] for lo, la in su]
                if any(p in hit for s_ in dec for p in s_):
                    ctx.add_failure("C16.nan_filter.wrong_pixel", "%s: a NaN pixel is reported as a boundary vertex" % what, rep)
                    continue
                # independent statement of the filter: each side is the list of its valid selected pixels, in order
                exp = "(Some %s)" % sidesl(dec)
            ctx.case(("nan", h, w, v, tuple(nlon), tuple(nlat), container), nontrivial=True,
                     sample={"nan_case": {"shape": [h, w], "vertices_per_side": v, "container": container, "class": cls},
                             "nan_longitude_pixels": sorted(nlon), "nan_latitude_pixels": sorted(nlat), "impl_sides": dec})
            L.append("(%d, %d, %s, %s, %s, %s)" % (h, w, vpsl(v), pixl(nlon), pixl(nlat), exp))
        except Exception as exc:      # an observation the oracle was not prepared for: attribute it, never crash
            ctx.add_failure("C16.error.observation.nan", "the oracle could not interpret what the implementation returned (%s: %s)" % (type(exc).__name__, exc),
                            rep if isinstance(rep, dict) else {"oracle": "nan"})
    L = list(dict.fromkeys(L))
    texts.append(("c16_nan", HDR + "Definition cases : list (Z * Z * option Z * list pix * list pix * option (list (list pix))) := [%s].\n"
                  "Eval vm_compute in (bad chk_nan cases).\n" % ";\n".join(L), L, "nan_filter"))
    texts.append(("c16_imp_nan", IHDR + "Definition cases : list (Z * Z * option Z * list pix * list pix * option (list (list pix))) := [%s].\n"
                  "Eval vm_compute in (bad chk_imp_nan cases).\n" % ";\n".join(L), L, "generated_filter_sides_nans"))

    # ================================================================= geostationary areas
    L = []
    for g, o in zip(cases["geos"], obs["geos"]):
        rep = None
        try:
            v, ext = g["vps"], g["extent"]
            rep = {"oracle": "geos", "case": {k: g[k] for k in ("tag", "extent", "vps", "lon_0", "proj", "shape", "nb_points")}}
            what = "geostationary area extent %s, vertices_per_side=%s" % ([round(e) for e in ext], v)
            if is_err(o):
                ctx.add_failure("C16.error.geos", "%s: %s" % (what, o), rep)
                continue
            # independent clipping of the disk polygon by the extent rectangle (both convex)
            nb = g["nb_points"]
            disk = [(math.cos(t) * (xa - 0.0001) * GEOS_H, -math.sin(t) * (ya - 0.0001) * GEOS_H)
                    for t in (-math.pi + 2 * math.pi * i / nb for i in range(nb))]
            poly = clip_rect(disk, ext)
            cut = len(poly) >= 3 and any(not (ext[0] < x < ext[2] and ext[1] < y < ext[3]) for x, y in disk)
            ctx.case(("geos", g["tag"], tuple(ext), v, g["lon_0"]), nontrivial=cut or v is not None,
                     sample=None if not cut or v in (2, 3, 4) else {"geos": {"extent": ext, "vertices_per_side": v, "lon_0": g["lon_0"]}, "impl_side_lengths": [len(s[0]) for s in o["sides_proj"]] if not is_err(o["sides_proj"]) else o["sides_proj"]})
            ctx.count("geos_" + ("empty" if len(poly) < 3 else "partial_disk" if cut else "inside_disk"))
            if len(poly) < 3 or poly_area(poly) < 1e-6 * X * Y:
                continue   # the area does not see the Earth: an error is the documented answer
            errs = [k for k in ("sides_proj", "sides_f", "bbox_proj") if is_err(o.get(k))]
            if errs and len(dedupe(poly, 1e-6 * max(X, Y))) == 3:
                ctx.add_failure("C16.geos.triangle_intersection", "%s: the extent cuts a triangle out of the %d-point Earth disk; %s raised %s: %s"
                                % (what, nb, errs[0], o[errs[0]]["error"], o[errs[0]].get("msg")), rep)
                continue
            if errs:
                ctx.add_failure("C16.geos.partial_disk.error", "%s: %s raised %s: %s" % (what, errs[0], o[errs[0]]["error"], o[errs[0]].get("msg")), rep)
                continue
            bx = list(zip([uh(x) for x in o["bbox_proj"][0]], [uh(y) for y in o["bbox_proj"][1]]))
            sp = [list(zip([uh(x) for x in s[0]], [uh(y) for y in s[1]])) for s in o["sides_proj"]]
            ringp = [p for s in sp for p in s[:-1]]
            scale = max(X, Y)
            # (a) the ring is the intersection polygon: same vertex set as the independent clipping
            def close_to(p, q):
                return abs(p[0] - q[0]) <= 1e-6 * scale and abs(p[1] - q[1]) <= 1e-6 * scale
            mine = dedupe(poly, 1e-6 * scale)
            theirs = dedupe(ringp, 1e-6 * scale)
            if len(mine) != len(theirs) or not all(any(close_to(p, q) for q in theirs) for p in mine):
                ctx.add_failure("C16.geos.intersection", "%s: the ring has %d vertices, the intersection of the extent with the %d-point Earth disk has %d"
                                % (what, len(theirs), nb, len(mine)), rep)
                continue
            # (b) vertices inside the disk and the extent, finite lon/lat, closed, no repeats
            tolp = 1e-6 * scale
            if not all((x / X) ** 2 + (y / Y) ** 2 <= 1.0 + 1e-9 and ext[0] - tolp <= x <= ext[2] + tolp and ext[1] - tolp <= y <= ext[3] + tolp for x, y in ringp):
                ctx.add_failure("C16.geos.inside_disk", "%s: a boundary vertex lies outside the Earth disk or the extent" % what, rep)
                continue
            sf = [list(zip([uh(x) for x in s[0]], [uh(y) for y in s[1]])) for s in o["sides_f"]]
            if not all(math.isfinite(a) and math.isfinite(b) for s in sf for a, b in s):
                ctx.add_failure("C16.geos.finite", "%s: a boundary vertex has no finite longitude/latitude" % what, rep)
                continue
            if not all(len(s) >= 2 for s in sf) or not all(sf[i][-1] == sf[(i + 1) % 4][0] for i in range(4)) or \
                    not all(sp[i][-1] == sp[(i + 1) % 4][0] for i in range(4)):
                ctx.add_failure("C16.geos.closure", "%s: a side does not end where the next begins" % what, rep)
                continue
            cont = list(zip([uh(x) for x in o["contour"][0]], [uh(y) for y in o["contour"][1]]))
            if len(set(cont)) != len(cont) or len(set(ringp)) != len(ringp):
                ctx.add_failure("C16.geos.no_repeat", "%s: the ring repeats a vertex" % what, rep)
                continue
            # (c) clockwise, below a hemisphere
            ring = [vec(a, b) for a, b in cont]
            sa = signed_area(ring)
            degenerate = min_turn(ringp, 1e-7 * scale) < 1e-7
            if not (sa < 0 and o["area"] < 2 * math.pi):
                key = "C16.geos.clockwise"
                ctx.add_failure(key, "%s: the ring of get_bbox_lonlats(force_clockwise=True) runs counter-clockwise (signed area %+.6g sr, "
                                "SphPolygon.area %.6g)%s" % (what, sa, o["area"], "; two intersection vertices nearly coincide" if degenerate else ""), rep)
                continue
            if abs(o["area"] + sa) > 1e-6:
                ctx.add_failure("C16.footprint.area", "%s: SphPolygon.area %.9g differs from the oracle's %.9g" % (what, o["area"], -sa), rep)
                continue
            # (d) the centroid of the planar polygon (mapped by PROJ in the driver is not available here): use ring vertices' mean direction
            m = [sum(p[i] for p in ring) for i in range(3)]
            nrm = math.sqrt(dot(m, m))
            m = tuple(x / nrm for x in m)
            # the normalised mean of the vertices is inside the ring when the ring is spherically convex (every turn to the right:
            # a convex region within a hemisphere contains the normalised convex combinations of its points).  A sparse ring next
            # to the limb need not be convex on the sphere although it is in the projection plane; then the probe proves nothing.
            nr = len(ring)
            convex = all(dot(cross(ring[i], ring[(i + 1) % nr]), ring[(i + 2) % nr]) < 0 for i in range(nr))
            ctx.count("geos_inside_probe_" + ("convex_ring" if convex else "skipped_nonconvex_ring"))
            if convex and (abs(winding(m, ring) + 2 * math.pi) > 1e-3 or any(winding(p, ring) < -math.pi for p in far_points(m)[:1])):
                ctx.add_failure("C16.footprint.inside", "%s: the middle of the ring is not inside it / its antipode is" % what, rep)
                continue
            # correspondence: which intersection vertices go to which side
            pos = {p: i for i, p in enumerate(bx)}
            idxs = [[pos.get(p) for p in s] for s in sp]
            if any(i is None for s in idxs for i in s):
                ctx.broken.append(("correspondence:geos_sides", "a side vertex is not a vertex of get_geostationary_bounding_box_in_proj_coords: %s" % what))
                continue
            L.append("(%d, [%s])" % (len(bx), "; ".join("[" + "; ".join(str(i) for i in s) + "]" for s in idxs)))
        except Exception as exc:      # an observation the oracle was not prepared for: attribute it, never crash
            ctx.add_failure("C16.error.observation.geos", "the oracle could not interpret what the implementation returned (%s: %s)" % (type(exc).__name__, exc),
                            rep if isinstance(rep, dict) else {"oracle": "geos"})
    texts.append(("c16_geos", HDR + "Definition cases : list (Z * list (list Z)) := [%s].\nEval vm_compute in (bad chk_geos cases).\n" % ";\n".join(L), L, "geos_sides"))

    # ================================================================= model evaluation
    res = ctx.coq_eval_many([(n, t) for n, t, _, _ in texts])
    for name, text, lines, what in texts:
        out, ok = res[name]
        if not lines:
            continue
        if not ok and not out.strip():
            # no diagnostic at all: the evaluation was killed (time limit on a loaded machine); evaluate this file again, alone
            out, ok = ctx.coqc(name + "_retry", text, timeout=2400) if hasattr(ctx, "coqc") else (out, ok)
            ctx.notes.append("model evaluation of %s was killed without output and repeated alone (%s)" % (name, "ok" if ok else "failed again"))
        if not ok:
            ctx.broken.append(("correspondence:" + what, "model evaluation failed: " + out[-300:]))
            continue
        bad = ints(out)
        if bad:
            ctx.broken.append(("correspondence:" + what, "model and implementation differ on %d of %d cases, e.g. %s" % (len(bad), len(lines), lines[bad[0]][:300])))
    ctx.traces = sum(len(l) for _, _, l, _ in texts)
    ctx.exhaustive = False   # only sub-streams are enumerated completely (see the note), the geometries are sampled
    ctx.notes.append("enumerated completely in this tier: index tables for all side lengths and vertex counts 1..30 (both directions); "
                     "_get_bbox_slices for all shapes 2..8 x 2..8 x vertices_per_side None,2..12; AreaBoundary.decimate for sides of 2..12 vertices "
                     "x ratio 1..7%s" % ("; encoded swaths in all 8 orientations x shapes 2..8 x 2..8 x vertices_per_side None,2..12" if ctx.thorough else ""))
    ctx.notes.append("H_corner_is_clockwise, H_footprint, H_geos_intersection are validated by search on the implementation only (spherical geometry is not modelled)")
    ctx.notes.append("timing: driver %.1fs, oracle+coq %.1fs" % (t_impl - t_start, time.time() - t_impl))
    print("C16 timing: driver %.1fs, oracle+model %.1fs, cases=%d" % (t_impl - t_start, time.time() - t_impl, ctx.evaluations))


# ------------------------------------------------------------------ planar helpers for the geostationary oracle
def clip_rect(poly, ext):
    """Sutherland-Hodgman clipping of a convex polygon by the rectangle (xmin, ymin, xmax, ymax)"""
    xmin, ymin, xmax, ymax = min(ext[0], ext[2]), min(ext[1], ext[3]), max(ext[0], ext[2]), max(ext[1], ext[3])
    def clip(pts, inside, inter):
        out = []
        n = len(pts)
        for i in range(n):
            a, b = pts[i], pts[(i + 1) % n]
            ia, ib = inside(a), inside(b)
            if ia:
                out.append(a)
            if ia != ib:
                out.append(inter(a, b))
        return out
    def ix(x0):
        return lambda a, b: (x0, a[1] + (b[1] - a[1]) * (x0 - a[0]) / (b[0] - a[0]))
    def iy(y0):
        return lambda a, b: (a[0] + (b[0] - a[0]) * (y0 - a[1]) / (b[1] - a[1]), y0)
    pts = poly
    for inside, inter in ((lambda p: p[0] >= xmin, ix(xmin)), (lambda p: p[0] <= xmax, ix(xmax)),
                          (lambda p: p[1] >= ymin, iy(ymin)), (lambda p: p[1] <= ymax, iy(ymax))):
        if not pts:
            break
        pts = clip(pts, inside, inter)
    return pts


def poly_area(p):
    return abs(shoelace(p))


def dedupe(pts, tol):
    out = []
    for p in pts:
        if not any(abs(p[0] - q[0]) <= tol and abs(p[1] - q[1]) <= tol for q in out):
            out.append(p)
    return out


def min_turn(p, tiny=0.0):
    """smallest |sin| of the turning angle along a planar ring (0: three collinear or two (nearly) coincident vertices)"""
    n = len(p)
    best = 1.0
    for i in range(n):
        a, b, c = p[i - 1], p[i], p[(i + 1) % n]
        u, v = (b[0] - a[0], b[1] - a[1]), (c[0] - b[0], c[1] - b[1])
        lu, lv = math.hypot(*u), math.hypot(*v)
        if lu <= tiny or lv <= tiny:
            return 0.0
        best = min(best, abs(u[0] * v[1] - u[1] * v[0]) / (lu * lv))
    return best


def replay(ctx, data):
    """Re-run one recorded failing case on the implementation; True iff it still violates the property."""
    case = data.get("case", {})
    kind = case.get("oracle")
    sub = Sub(ctx)
    if kind == "linspace":
        cases = {"linspace": [tuple(case["args"])], "slices": [], "rings": [], "nan": [], "geos": [], "geos_consts": geos_consts()}
    elif kind == "slices":
        cases = {"linspace": [], "slices": [tuple(case["args"])], "rings": [], "nan": [], "geos": [], "geos_consts": geos_consts()}
    elif kind == "ring":
        cases = {"linspace": [], "slices": [], "rings": [case["case"]], "nan": [], "geos": [], "geos_consts": geos_consts()}
    elif kind == "nan":
        h, w, v, nlon, nlat = case["args"][:5]
        cls, container = (case["args"] + ["mixed", "numpy"])[5:7]
        cases = {"linspace": [], "slices": [], "rings": [], "nan": [(h, w, v, [tuple(p) for p in nlon], [tuple(p) for p in nlat], cls, container)],
                 "geos": [], "geos_consts": geos_consts()}
    elif kind == "decimate":
        lens, q, t = case["args"]
        cases = {"linspace": [], "slices": [], "rings": [], "nan": [], "geos": [], "geos_consts": geos_consts(), "decimate": [(lens, q, t)]}
    elif kind == "geos":
        g = dict(case["case"])
        g["kind"] = "area"
        cases = {"linspace": [], "slices": [], "rings": [], "nan": [], "geos": [g], "geos_consts": geos_consts()}
    else:
        return True
    global gen_cases
    saved = gen_cases
    try:
        gen_cases = lambda _ctx: cases   # noqa: E731
        run(sub)
    finally:
        gen_cases = saved
    return bool(sub.failures)


def geos_consts():
    xa = math.acos(math.sqrt(1 - (GEOS_A / 1000.0) ** 2 / ((GEOS_H / 1000.0 + GEOS_A / 1000.0) ** 2)))
    ya = math.acos(math.sqrt(1 - (GEOS_B / 1000.0) ** 2 / ((GEOS_H / 1000.0 + GEOS_A / 1000.0) ** 2)))
    return (xa * GEOS_H, ya * GEOS_H, xa, ya)


class Sub:
    """a context that records failures of a replayed case without touching the evidence of the run"""
    def __init__(self, ctx):
        self._c = ctx
        self.failures, self.broken, self.notes = [], [], []
        self.rng = ctx.rng
        self.thorough = False
        self.rule, self.traces, self.exhaustive, self.evaluations = "", 0, False, 0

    def n(self, q, t):
        return q

    def case(self, *a, **k):
        self.evaluations += 1

    def count(self, *a, **k):
        pass

    def add_failure(self, key, what, replay, concrete=True):
        self.failures.append((key, what))

    def impl(self, *a, **k):
        return self._c.impl(*a, **k)

    def coq_eval_many(self, named):
        return self._c.coq_eval_many(named)
