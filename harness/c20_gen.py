"""C20 translator front end: two small, fail-closed extensions of tools/py2coq.py used for Gen/GenC20.v only.

1. dict-with-literal-keys as a record: `x['first']` on a parameter declared with a record type is the record
   projection named in the spec (the dicts built by `_load_cf_axis_info` have a fixed key set).
2. statement slicing: for a function whose body is mostly I/O (xarray / gdal / cartopy calls) the spec locates the
   *outputs* structurally (the value under a key of the returned dict, an argument of a named call) and the *inputs*
   (a parameter, the value under a key of the returned dict, an element of a tuple-unpacked call).  The backward slice
   of the outputs over the top-level simple assignments, down to the inputs, is wrapped into
   `def f(<inputs>): ...; return <outputs>`.  Local variable names play no role.
   Fail-closed conditions: every input is a parameter or assigned exactly once in the whole function; a name the
   slice depends on may only be bound by simple top-level assignments (never inside if/for/try/with); every located
   call / dict key must exist exactly once.

Everything else (expression/statement semantics, typing, literals) is py2coq's.  The module is registered by
harness/c20.py by wrapping `py2coq.translate_module` for the module name "GenC20" in this process only.
"""
import ast
import hashlib
import json

import py2coq
from py2coq import Untranslatable, _fail


def _tup(t):
    if isinstance(t, list):
        return tuple(_tup(x) for x in t)
    return t


class Fn20(py2coq.Fn):
    def __init__(self, spec, fdef):
        super().__init__(spec, fdef)
        self.records = {k: {a: (p, _tup(t)) for a, (p, t) in v.items()} for k, v in self.records.items()}
        self.calls = {k: (c, [_tup(a) for a in ats], _tup(r)) for k, (c, ats, r) in self.calls.items()}

    def expr(self, n, env):
        if isinstance(n, ast.Subscript) and isinstance(n.slice, ast.Constant) and isinstance(n.slice.value, str):
            base, bt = self.expr(n.value, env)
            if isinstance(bt, tuple) and bt[0] == 'R' and n.slice.value in self.records.get(bt[1], {}):
                proj, ft = self.records[bt[1]][n.slice.value]
                if ft == 'F' or (isinstance(ft, tuple) and 'F' in ft):
                    self.uses_T = True
                return ("(%s %s)" % (proj, base), ft)
            _fail(n, "string subscript %r on %s" % (n.slice.value, bt))
        return super().expr(n, env)


def _stores(fdef):
    """name -> number of binding occurrences in the whole function (assignments, loops, with, except, imports)."""
    out = {}
    for node in ast.walk(fdef):
        if isinstance(node, ast.Name) and isinstance(node.ctx, (ast.Store, ast.Del)):
            out[node.id] = out.get(node.id, 0) + 1
        elif isinstance(node, ast.ExceptHandler) and node.name:
            out[node.name] = out.get(node.name, 0) + 1
        elif isinstance(node, (ast.Import, ast.ImportFrom)):
            for a in node.names:
                nm = (a.asname or a.name).split(".")[0]
                out[nm] = out.get(nm, 0) + 1
    return out


def _dotted(f):
    if isinstance(f, ast.Name):
        return f.id
    if isinstance(f, ast.Attribute):
        b = _dotted(f.value)
        return None if b is None else b + "." + f.attr
    return None


def _return_dict(fdef):
    rets = [s for s in fdef.body if isinstance(s, ast.Return) and isinstance(s.value, ast.Dict)]
    if len(rets) != 1:
        raise Untranslatable("expected exactly one top-level `return {...}`")
    d = rets[0].value
    keys = {}
    for k, v in zip(d.keys, d.values):
        if not (isinstance(k, ast.Constant) and isinstance(k.value, str)):
            raise Untranslatable("returned dict has a non-literal key")
        keys[k.value] = v
    return fdef.body.index(rets[0]), keys


def _locate(fdef, where):
    """(index of the top-level statement holding it, expression) for an output / input locator of the spec."""
    if "return_dict_key" in where:
        idx, keys = _return_dict(fdef)
        if where["return_dict_key"] not in keys:
            raise Untranslatable("returned dict has no key %r" % where["return_dict_key"])
        return idx, keys[where["return_dict_key"]]
    if "call" in where:
        hits = []
        for idx, s in enumerate(fdef.body):
            for node in ast.walk(s):
                if isinstance(node, ast.Call):
                    nm = _dotted(node.func)
                    if nm is not None and nm.split(".")[-1] == where["call"]:
                        hits.append((idx, node))
        if len(hits) != 1:
            raise Untranslatable("expected exactly one call to %s, found %d" % (where["call"], len(hits)))
        idx, call = hits[0]
        if "kw" in where:
            vals = [k.value for k in call.keywords if k.arg == where["kw"]]
            if len(vals) != 1:
                raise Untranslatable("call to %s has no keyword %s" % (where["call"], where["kw"]))
            return idx, vals[0]
        if where["arg"] >= len(call.args) or any(isinstance(a, ast.Starred) for a in call.args):
            raise Untranslatable("call to %s has no positional argument %d" % (where["call"], where["arg"]))
        return idx, call.args[where["arg"]]
    if "unpack_call" in where:
        hits = [(idx, s) for idx, s in enumerate(fdef.body)
                if isinstance(s, ast.Assign) and isinstance(s.value, ast.Call) and _dotted(s.value.func) == where["unpack_call"]]
        if len(hits) != 1 or len(hits[0][1].targets) != 1 or not isinstance(hits[0][1].targets[0], ast.Tuple):
            raise Untranslatable("expected exactly one tuple-unpacking of %s()" % where["unpack_call"])
        idx, s = hits[0]
        elts = s.targets[0].elts
        if where["index"] >= len(elts):
            raise Untranslatable("unpacking of %s() has no element %d" % (where["unpack_call"], where["index"]))
        return idx, elts[where["index"]]
    if "unpack_attr" in where:
        hits = [(idx, s) for idx, s in enumerate(fdef.body)
                if isinstance(s, ast.Assign) and isinstance(s.value, ast.Attribute) and _dotted(s.value) == where["unpack_attr"]]
        if len(hits) != 1 or len(hits[0][1].targets) != 1 or not isinstance(hits[0][1].targets[0], ast.Tuple):
            raise Untranslatable("expected exactly one tuple-unpacking of %s" % where["unpack_attr"])
        idx, s = hits[0]
        elts = s.targets[0].elts
        if where["index"] >= len(elts):
            raise Untranslatable("unpacking of %s has no element %d" % (where["unpack_attr"], where["index"]))
        return idx, elts[where["index"]]
    if "raise_test" in where:
        # the condition of the top-level `if` whose own body raises the named exception
        hits = []
        for idx, s in enumerate(fdef.body):
            if isinstance(s, ast.If) and not s.orelse:
                for b in s.body:
                    if isinstance(b, ast.Raise) and b.exc is not None:
                        nm = _dotted(b.exc.func) if isinstance(b.exc, ast.Call) else _dotted(b.exc)
                        if nm == where["raise_test"]:
                            hits.append((idx, s.test))
        if len(hits) != 1:
            raise Untranslatable("expected exactly one top-level `if ...: raise %s`, found %d" % (where["raise_test"], len(hits)))
        return hits[0]
    raise Untranslatable("unknown locator %r" % (where,))


def _loads(node):
    return {n.id for n in ast.walk(node) if isinstance(n, ast.Name) and isinstance(n.ctx, ast.Load)}


def _binds(node):
    out = set()
    for n in ast.walk(node):
        if isinstance(n, ast.Name) and isinstance(n.ctx, (ast.Store, ast.Del)):
            out.add(n.id)
        elif isinstance(n, ast.ExceptHandler) and n.name:
            out.add(n.name)
    return out


def slice_function(fdef, sl):
    """Backward slice of the function body from the located output expressions down to the located inputs.
    Locators are structural (a key of the returned dict, an argument of a named call, an element of a tuple-unpacked
    call, a parameter), so renaming locals or reordering independent statements does not change the result."""
    stores = _stores(fdef)
    # names bound by import statements are module-like: left to py2coq's call whitelist
    for node in ast.walk(fdef):
        if isinstance(node, (ast.Import, ast.ImportFrom)):
            for a in node.names:
                stores.pop((a.asname or a.name).split(".")[0], None)
    args = {a.arg for a in fdef.args.args}
    # inputs: role -> local name
    local, types = {}, {}
    for role, spec in sl["inputs"].items():
        if spec["from"] == "param":
            if role not in args:
                raise Untranslatable("parameter %s not found" % role)
            nm = role
        else:
            _, e = _locate(fdef, spec["from"])
            if not isinstance(e, ast.Name):
                raise Untranslatable("input %s is not a plain name in the source" % role)
            nm = e.id
        k = stores.get(nm, 0)
        if not ((nm in args and k == 0) or (nm not in args and k == 1)):
            raise Untranslatable("input %s (%s) is not a single-assignment value" % (role, nm))
        local[role], types[nm] = nm, spec["type"]
    inputs = set(local.values())
    outs, limit = [], 0
    for w in sl["outputs"]:
        idx, e = _locate(fdef, w)
        outs.append(e)
        limit = max(limit, idx)
    needed = set()
    for e in outs:
        needed |= {n for n in _loads(e) if n in stores or n in args}
    needed -= inputs
    kept = []
    for s in reversed(fdef.body[:limit]):
        b = _binds(s)
        if not (b & needed):
            continue
        if isinstance(s, ast.Assign) and len(s.targets) == 1 and \
                (isinstance(s.targets[0], ast.Name) or (isinstance(s.targets[0], ast.Tuple) and all(isinstance(t, ast.Name) for t in s.targets[0].elts))):
            kept.append(s)
            needed = (needed - b) | {n for n in _loads(s.value) if n in stores or n in args}
        elif isinstance(s, ast.AugAssign) and isinstance(s.target, ast.Name):
            kept.append(s)
            needed |= {n for n in _loads(s.value) if n in stores or n in args}
        else:
            raise Untranslatable("line %d: %s binds %s, which the sliced arithmetic depends on" % (s.lineno, type(s).__name__, sorted(b & needed)))
        needed -= inputs
    if needed:
        raise Untranslatable("the sliced arithmetic depends on %s, which are neither inputs nor simple assignments" % sorted(needed))
    kept.reverse()
    ret = outs[0] if len(outs) == 1 else ast.Tuple(elts=outs, ctx=ast.Load())
    order = [local[r] for r in sl["inputs"]]
    new = ast.FunctionDef(name=fdef.name, args=ast.arguments(posonlyargs=[], args=[ast.arg(arg=p) for p in order], kwonlyargs=[],
                                                            kw_defaults=[], defaults=[]),
                          body=kept + [ast.Return(value=ret)], decorator_list=[], returns=None, type_params=[])
    ast.copy_location(new, fdef)
    ast.fix_missing_locations(new)
    return new, {nm: types[nm] for nm in order}


class _Subst(ast.NodeTransformer):
    """p[<key expr>] -> Name p__key, with the loop variable replaced by a literal key."""

    def __init__(self, dict_name, loop_var, key, fields):
        self.d, self.v, self.k, self.fields = dict_name, loop_var, key, fields

    def visit_Subscript(self, node):
        if isinstance(node.value, ast.Name) and node.value.id == self.d:
            sl = node.slice
            key = self.k if (isinstance(sl, ast.Name) and sl.id == self.v) else sl.value if isinstance(sl, ast.Constant) else None
            if key not in self.fields:
                raise Untranslatable("subscript of %s with %r is not a declared field" % (self.d, key))
            return ast.copy_location(ast.Name(id="%s__%s" % (self.d, key), ctx=node.ctx), node)
        return self.generic_visit(node)

    def visit_Name(self, node):
        if node.id == self.v:
            raise Untranslatable("loop variable %s used other than as a key of %s" % (self.v, self.d))
        return node


def unroll_function(fdef, un):
    """`for k in (<literal keys>): d[k] <op>= <expr>` on a dict parameter with a fixed key set, as a record update:
    the unique such loop of the function is unrolled key by key over per-field locals and the updated record is returned."""
    d = un["dict_param"]
    fields = [f for f, _ in un["fields"]]
    if d not in {a.arg for a in fdef.args.args}:
        raise Untranslatable("parameter %s not found" % d)
    loops = [n for n in ast.walk(fdef) if isinstance(n, ast.For)]
    if len(loops) != 1:
        raise Untranslatable("expected exactly one for-loop, found %d" % len(loops))
    loop = loops[0]
    if not (isinstance(loop.target, ast.Name) and isinstance(loop.iter, (ast.Tuple, ast.List)) and not loop.orelse
            and all(isinstance(e, ast.Constant) and isinstance(e.value, str) for e in loop.iter.elts)):
        raise Untranslatable("the loop is not `for k in (<literal keys>)`")
    stores = _stores(fdef)
    body = []
    for f in fields:
        body.append(ast.Assign(targets=[ast.Name(id="%s__%s" % (d, f), ctx=ast.Store())],
                               value=ast.Subscript(value=ast.Name(id=d, ctx=ast.Load()), slice=ast.Constant(value=f), ctx=ast.Load())))
    free = set()
    for e in loop.iter.elts:
        for st in loop.body:
            if not isinstance(st, (ast.Assign, ast.AugAssign)):
                raise Untranslatable("loop body statement %s" % type(st).__name__)
            import copy
            st2 = _Subst(d, loop.target.id, e.value, fields).visit(copy.deepcopy(st))
            body.append(st2)
            free |= {n for n in _loads(st2) if not n.startswith(d + "__")}
    scal = sorted(free)
    for nm in scal:
        if stores.get(nm, 0) > 1:
            raise Untranslatable("%s used in the loop is assigned more than once" % nm)
    body.append(ast.Return(value=ast.Call(func=ast.Name(id="__mk", ctx=ast.Load()),
                                         args=[ast.Name(id="%s__%s" % (d, f), ctx=ast.Load()) for f in fields], keywords=[])))
    new = ast.FunctionDef(name=fdef.name, args=ast.arguments(posonlyargs=[], args=[ast.arg(arg=d)] + [ast.arg(arg=n) for n in scal],
                                                            kwonlyargs=[], kw_defaults=[], defaults=[]),
                          body=body, decorator_list=[], returns=None, type_params=[])
    ast.copy_location(new, fdef)
    ast.fix_missing_locations(new)
    params = {d: ["R", un["record"]]}
    params.update({n: un["scalar_type"] for n in scal})
    return new, params


def translate_module(repo, modname, mod):
    out = ["(* GENERATED by tools/py2coq.py (+ harness/c20_gen.py front end) from the current source tree -- do not edit. *)",
           "From Coq Require Import ZArith Bool List."]
    out += mod.get("header", [])
    out += ["Import ListNotations.", "Open Scope Z_scope.", "", "Section Gen.\nContext {T : Type} (OP : ops T).\n"]
    for spec in mod["functions"]:
        spec = dict(spec)
        src = open(repo.rstrip("/") + "/" + spec["source"]).read()
        fdef = py2coq.find_function(ast.parse(src), spec["qualname"])
        try:
            what = "whole function"
            if "slice" in spec:
                sl = spec["slice"]
                fdef2, spec["params"] = slice_function(fdef, sl)
                what = "backward slice of %s" % json.dumps(sl["outputs"])
            elif "unroll" in spec:
                un = spec["unroll"]
                fdef2, spec["params"] = unroll_function(fdef, un)
                spec["calls"] = dict(spec.get("calls", {}))
                spec["calls"]["__mk"] = [un["ctor"], [t for _, t in un["fields"]], ["R", un["record"]]]
                what = "unrolled key loop on %s" % un["dict_param"]
            else:
                fdef2 = fdef
            spec["params"] = {k: _tup(v) for k, v in spec["params"].items()}
            spec["ret"] = _tup(spec.get("ret"))
            text = Fn20(spec, fdef2).translate()
        except Untranslatable as e:
            raise Untranslatable("%s:%s: %s" % (spec["source"], spec["qualname"], e))
        digest = hashlib.sha1(ast.dump(fdef2).encode()).hexdigest()[:16]      # of the translated part only
        out.append("(* %s:%s (%s) ast %s *)\n%s\n" % (spec["source"], spec["qualname"], what, digest, text))
    out.append("End Gen.")
    return "\n".join(out) + "\n"


def install():
    """Route module GenC20 through this front end (process-local; other modules are untouched)."""
    if getattr(py2coq.translate_module, "_c20", False):
        return
    orig = py2coq.translate_module

    def wrapped(repo, modname, mod):
        if modname == "GenC20":
            return translate_module(repo, modname, mod)
        return orig(repo, modname, mod)
    wrapped._c20 = True
    py2coq.translate_module = wrapped
