"""C02 — nearest-neighbour resampling returns the truly nearest source value or fill.

run(ctx):  PRNG geometry pairs -> real kd_tree (driver impl/c02.py) ->
  (1) property oracle: exhaustive O(n*m) chord distances in Python floats straight from lon/lat;
  (2) correspondence with Model/KDTree.v inside Coq (validity masks bit-exact, index array accepted by the
      proved-sound predicate on EXACT distances of the implementation's own cartesian coordinates, final
      array = model gather of the implementation's index array, exact incl. mask/shape/dtype);
  (3) sub-check "kd-tree = brute force" on integer lattices (exact ties / distance == bound);
  (4) the implementation's cartesian coordinates against a 40-digit recomputation.
"""
import math
import sys
from decimal import Decimal, getcontext

from .common import fhex, ints

PROP_FILE = "Properties/C02.v"
GEN = ["GenC02", "GenC02imp"]
RUN_FILES = ["Model/C02_run.v"]

R_EARTH = 6370997.0
NAN, INF = float("nan"), float("inf")
DTYPES = ["float64", "float32", "int32", "uint8", "int16", "int64"]
DT_CODE = {d: i for i, d in enumerate(DTYPES)}
DT_MAX = {"float64": sys.float_info.max, "float32": 3.4028234663852886e+38, "int32": 2 ** 31 - 1, "uint8": 255,
          "int16": 2 ** 15 - 1, "int64": 2 ** 63 - 1}
DT_MIN = {"int32": -2 ** 31, "uint8": 0, "int16": -2 ** 15, "int64": -2 ** 63}
BAD_LON = [200.0, 180.00000000000003, -180.00000000000003, -180.5, 360.0, NAN, INF, -INF, 1e30, -1e30]
BAD_LAT = [90.00000000000001, -90.00000000000001, 91.0, -100.0, NAN, INF, -INF, 1e30]
# (a, b, k): relative slack a/b on squared distances; k >= 0 adds the absolute slack (2^-k m)^2 (k < 0: none).
# binary32 trees need the absolute part: squares of coordinate differences below ~1e-22 m underflow to 0 in float32,
# so a source at distance 1e-25 m ties with an exactly coincident one (observed).
TOL_F64 = ((10 ** 12 + 1) ** 2, 10 ** 24, -1)
TOL_F32 = ((10 ** 5 + 1) ** 2, 10 ** 10, 10)


# ------------------------------------------------------------------------------------------ generators
def wrap(lon):
    return ((lon + 180.0) % 360.0) - 180.0


def f32(x):
    import struct
    return struct.unpack("f", struct.pack("f", x))[0]


def gen_points(r, n, centre, spread, polar):
    lon0, lat0 = centre
    lons, lats = [], []
    for _ in range(n):
        lat = max(-90.0, min(90.0, lat0 + r.uniform(-spread, spread)))
        if polar:
            lon = r.uniform(-180.0, 180.0)
        else:
            f = 1.0 / max(math.cos(math.radians(lat)), 0.02)
            lon = wrap(lon0 + r.uniform(-spread, spread) * min(f, 180.0 / spread))
        u = r.random()
        if u < 0.03:
            lon = r.choice([180.0, -180.0, 0.0, -0.0])
        elif u < 0.06:
            lat = r.choice([90.0, -90.0, 0.0]) if polar or u < 0.04 else lat
        lons.append(lon)
        lats.append(lat)
    return lons, lats


def spoil(r, lons, lats, p):
    for i in range(len(lons)):
        if r.random() < p:
            if r.random() < 0.5:
                lons[i] = r.choice(BAD_LON)
            else:
                lats[i] = r.choice(BAD_LAT)


def duplicate(r, lons, lats, p):
    n = len(lons)
    for i in range(n):
        if r.random() < p:
            j = r.randrange(n)
            lons[i], lats[i] = lons[j], lats[j]


def gen_shape(r, nmax, two_d):
    if not two_d:
        return [r.randint(1, nmax)]
    a = r.randint(1, max(1, int(nmax ** 0.5) + 2))
    b = r.randint(1, max(1, nmax // a))
    return [a, b]


def gen_geo(r, ctx, role, centre, spread, polar, nmax, kinds):
    kind = r.choice(kinds)
    if kind in ("swath1", "swath2", "gridpts"):
        shape = gen_shape(r, nmax, kind != "swath1")
        n = shape[0] * (shape[1] if len(shape) > 1 else 1)
        lons, lats = gen_points(r, n, centre, spread, polar)
        tag = []
        if r.random() < 0.35:
            spoil(r, lons, lats, r.choice([0.05, 0.3, 1.0]) if r.random() < 0.9 else 1.0)
            tag.append("invalid")
        if r.random() < 0.3:
            duplicate(r, lons, lats, r.choice([0.2, 0.6]))
            tag.append("dup")
        dt = "float64"
        if r.random() < 0.12:
            dt = "float32"
            lons = [f32(x) for x in lons]
            lats = [f32(x) for x in lats]
            tag.append("f32")
        g = {"kind": "swath" if kind != "gridpts" else "grid", "shape": shape, "lons": lons, "lats": lats, "dtype": dt}
        if g["kind"] == "grid" and len(shape) != 2:
            g["kind"] = "swath"
        return g, n, tag
    if kind == "grid":
        h, w = r.randint(1, max(1, int(nmax ** 0.5))), r.randint(1, max(1, int(nmax ** 0.5)))
        lon0, lat0 = centre
        f = 1.0 / max(math.cos(math.radians(lat0)), 0.05)
        lons = [wrap(lon0 + (j - (w - 1) / 2.0) * 2 * spread * min(f, 30) / max(w, 1)) for i in range(h) for j in range(w)]
        lats = [max(-90.0, min(90.0, lat0 - (i - (h - 1) / 2.0) * 2 * spread / max(h, 1))) for i in range(h) for j in range(w)]
        return {"kind": "grid", "shape": [h, w], "lons": lons, "lats": lats, "dtype": "float64"}, h * w, ["regular"]
    # AreaDefinition
    lon0, lat0 = centre
    side = max(1, int(nmax ** 0.5))
    h, w = r.randint(1, side), r.randint(1, side)
    half = spread * 111e3
    fam = kind[5:]
    if fam == "laea":
        proj = {"proj": "laea", "lat_0": lat0, "lon_0": lon0, "ellps": "WGS84"}
        ext = [-half, -half * r.uniform(0.5, 1), half * r.uniform(0.5, 1), half]
    elif fam == "stere":
        proj = {"proj": "stere", "lat_0": 90 if lat0 >= 0 else -90, "lat_ts": 60 if lat0 >= 0 else -60, "lon_0": lon0, "ellps": "WGS84"}
        ext = [-half, -half, half, half]
    elif fam == "merc":
        proj = {"proj": "merc", "lon_0": lon0, "ellps": "WGS84"}
        y0 = 6378137.0 * math.log(math.tan(math.pi / 4 + math.radians(max(-80, min(80, lat0))) / 2))
        ext = [-half, y0 - half, half, y0 + half]
    elif fam == "longlat":
        proj = {"proj": "longlat", "datum": "WGS84"}
        ext = [lon0 - spread, max(-90.0, lat0 - spread), lon0 + spread, min(90.0, lat0 + spread)]
        if ext[1] >= ext[3]:
            ext[1], ext[3] = ext[3] - 1.0, ext[3]
    elif fam == "eqc":
        proj = {"proj": "eqc", "lon_0": lon0, "ellps": "WGS84"}
        y0 = lat0 * 111319.49
        ext = [-half, y0 - half, half, y0 + half]
    else:  # geos: corners look into space -> non-finite lon/lat
        proj = {"proj": "geos", "h": 35785831.0, "lon_0": lon0, "ellps": "WGS84"}
        e = r.choice([5.6e6, 3.0e6, 6.5e6])
        ext = [-e, -e, e, e]
    return {"kind": "area", "proj": proj, "shape": [h, w], "extent": ext}, h * w, [fam]


def gen_data(r, n, src_shape):
    dt = r.choice(["float64"] * 4 + ["float32", "int32", "uint8", "int16", "int64"])
    k = r.choice([0, 0, 0, 1, 2, 3])
    kk = max(k, 1)
    vals = []
    base = r.randint(-50, 50)
    for i in range(n):
        row = []
        for c in range(kk):
            v = base + i * kk + c
            if dt == "uint8":
                v = (v - base) % 250
            elif dt == "int16":
                v = v % 30000
            elif dt in ("float64", "float32"):
                v = v * 0.5 if dt == "float32" else v + r.choice([0.0, 0.25, 0.1])
            row.append(v)
        vals.append(row)
    mask, mkind = None, "plain"
    u = r.random()
    if u < 0.3:
        p = r.choice([0.1, 0.4, 0.9])
        mask = [[1 if r.random() < p else 0 for _ in range(kk)] for _ in range(n)]
        mkind = "masked"
    elif u < 0.36:
        mask = [[0] * kk for _ in range(n)]
        mkind = "masked_none_set"
    layout = "flat"
    if len(src_shape) == 2 and src_shape[1] > 1 and r.random() < 0.4:
        layout = "geo"
    # fill
    u = r.random()
    isf = dt.startswith("float")
    if u < 0.3:
        fill = None
    elif u < 0.5:
        fill = 0
    elif isf:
        fill = r.choice([-999.0, NAN, 0.5, 65536.0, -0.0, 1.0])
    else:
        fill = r.choice([7, 1, DT_MAX[dt], DT_MIN[dt], 100])
    sentinel = False
    if fill is None and r.random() < 0.25 and n:
        # data equal to the sentinel _get_fill_mask_value(dtype) (common for uint8 imagery)
        for _ in range(r.randint(1, 3)):
            vals[r.randrange(n)][r.randrange(kk)] = DT_MAX[dt]
        sentinel = True
    return {"dtype": dt, "k": k, "values": vals, "mask": mask, "layout": layout}, fill, mkind, sentinel


def xyz(lon, lat):
    la, lo = math.radians(lat), math.radians(lon)
    return (R_EARTH * math.cos(la) * math.cos(lo), R_EARTH * math.cos(la) * math.sin(lo), R_EARTH * math.sin(la))


def dist(p, q):
    return math.sqrt((p[0] - q[0]) ** 2 + (p[1] - q[1]) ** 2 + (p[2] - q[2]) ** 2)


def in_range(lon, lat):
    return -180 <= lon <= 180 and -90 <= lat <= 90


def gen_case(r, ctx, big=False):
    region = r.choice(["npole", "spole", "antimeridian", "equator0", "europe", "random", "random"])
    polar = region in ("npole", "spole")
    centre = {"npole": (r.uniform(-180, 180), 90.0 - r.choice([0.0, 0.3, 2.0])),
              "spole": (r.uniform(-180, 180), -90.0 + r.choice([0.0, 0.3, 2.0])),
              "antimeridian": (r.choice([180.0, 179.9, -179.95]), r.uniform(-70, 70)),
              "equator0": (0.0, 0.0), "europe": (10.0, 50.0),
              "random": (r.uniform(-180, 180), r.uniform(-85, 85))}[region]
    spread = r.choice([0.01, 0.5, 0.5, 5.0, 5.0, 30.0])
    area_kinds = ["area_laea", "area_longlat", "area_eqc"] + (["area_stere"] if abs(centre[1]) > 45 else ["area_merc"])
    if abs(centre[1]) < 1 and r.random() < 0.5:
        area_kinds = ["area_geos"]
    skinds = ["swath1"] * 4 + ["swath2"] * 3 + ["gridpts", "grid"] + area_kinds[:2]
    tkinds = ["swath1"] * 2 + ["swath2"] * 3 + ["gridpts", "grid"] * 2 + area_kinds
    ns = r.choice([3, 12, 40, 200 if big else 90]) if not big else r.choice([200, 120])
    nt = r.choice([1, 6, 20, 100 if big else 40])
    src, n, stag = gen_geo(r, ctx, "src", centre, spread, polar, ns, skinds)
    if r.random() < 0.12 and src["kind"] != "area":       # sparse source: a handful of far-apart points
        src["lons"] = [wrap(x * 7.3) for x in src["lons"]]
        stag.append("sparse")
    if src["kind"] != "area" and n > 16 and r.random() < 0.2:
        # first source pixel NaN in both coordinates (more than one kd-tree leaf: a NaN point in the tree corrupts the search)
        src["lons"][0] = NAN
        src["lats"][0] = NAN
        stag.append("nan_first")
    tgt, m, ttag = gen_geo(r, ctx, "tgt", centre, spread * r.choice([0.5, 1.0, 1.0, 1.5]), polar, nt, tkinds)
    if src["kind"] != "area" and tgt["kind"] != "area" and r.random() < 0.15:
        # targets sitting exactly on source points
        for i in range(len(tgt["lons"])):
            if r.random() < 0.5:
                j = r.randrange(n)
                tgt["lons"][i], tgt["lats"][i] = src["lons"][j], src["lats"][j]
        ttag.append("coincident")
    data, fill, mkind, sentinel = gen_data(r, n, src["shape"])
    # radius
    typical = spread * 111e3 * r.choice([0.05, 0.3, 1.0, 1.0, 3.0, 3.0])
    u = r.random()
    rk = "typical"
    radius = typical
    if u < 0.05:
        radius, rk = r.choice([1e-3, 1.0, 1e-9]), "tiny"
    elif u < 0.08:
        radius, rk = 0, "zero"
    elif u < 0.24:
        radius, rk = r.choice([1e8, 2e7, 1.3e7, 1e30]), "huge"
    elif u < 0.30:
        radius, rk = int(typical) + 1, "int"
    elif u < 0.50 and src["kind"] != "area" and tgt["kind"] != "area":
        ps = [(a, b) for a, b in zip(src["lons"], src["lats"]) if in_range(a, b)]
        pt = [(a, b) for a, b in zip(tgt["lons"], tgt["lats"]) if in_range(a, b)]
        if ps and pt:
            t = xyz(*r.choice(pt))
            ds = sorted(dist(t, xyz(*s)) for s in ps)
            d = ds[0] if r.random() < 0.7 else r.choice(ds)
            radius = r.choice([d, math.nextafter(d, INF), math.nextafter(d, 0.0)]) if d > 0 else 0.0
            rk = "exact_neighbour_distance"
    # memory layouts of the array arguments (same logical values)
    mems = ["F", "T", "neg", "strided"]
    data["mem"] = r.choice(mems) if r.random() < 0.45 else "C"
    for g in (src, tgt):
        if g["kind"] != "area":
            g["mem"] = r.choice(mems) if r.random() < 0.3 else "C"
    eps = 0
    if r.random() < 0.15:
        eps = r.choice([0.125, 0.5, 2.0, 0.1])
    case = {"src": src, "tgt": tgt, "radius": radius, "data": data, "fill": fill, "epsilon": eps,
            "check_segments": r.random() < 0.25, "check_k2": r.random() < 0.1}
    tags = {"region": region, "src": src["kind"] + ("/" + "+".join(stag) if stag else ""),
            "tgt": tgt["kind"] + ("/" + "+".join(ttag) if ttag else ""), "radius": rk,
            "data": "%s/k%d/%s/%s" % (data["dtype"], data["k"], mkind, data["layout"]),
            "fill": "None" if fill is None else ("nan" if fill != fill else "number"), "sentinel": sentinel,
            "epsilon": "0" if not eps else "positive",
            "mem": "data:%s/src:%s/tgt:%s" % (data["mem"], src.get("mem", "-"), tgt.get("mem", "-"))}
    return case, tags


def fixed_cases():
    """Deterministic cases: the inputs of the two known findings / Coq refutation witnesses, and plain sanity cases."""
    def sw(lons, lats, shape=None):
        return {"kind": "swath", "shape": shape or [len(lons)], "lons": lons, "lats": lats, "dtype": "float64"}
    base = {"region": "equator0", "radius": "typical", "sentinel": False, "epsilon": "0", "mem": "data:C/src:C/tgt:C"}
    out = []
    out.append(({"src": sw([0.0, 1.0, 2.0], [0.0, 0.0, 0.0]), "tgt": sw([0.1], [0.0]), "radius": 50000,
                 "data": {"dtype": "uint8", "k": 0, "values": [[255], [7], [9]], "mask": None, "layout": "flat"}, "fill": None},
                dict(base, src="swath", tgt="swath", data="uint8/k0/plain/flat", fill="None", sentinel=True)))
    out.append(({"src": sw([0.0, 1.0], [0.0, 0.0]), "tgt": sw([0.1, 0.9, 0.2, 5.0], [0.0] * 4, [2, 2]), "radius": 50000,
                 "data": {"dtype": "float64", "k": 1, "values": [[5.0], [7.0]], "mask": [[0], [1]], "layout": "flat"}, "fill": 0},
                dict(base, src="swath", tgt="swath", data="float64/k1/masked/flat", fill="number")))
    out.append(({"src": sw([0.0, 1.0], [0.0, 0.0]), "tgt": sw([0.1, 0.9, 0.2, 5.0], [0.0] * 4, [2, 2]), "radius": 50000,
                 "data": {"dtype": "float64", "k": 1, "values": [[5.0], [7.0]], "mask": None, "layout": "flat"}, "fill": 0},
                dict(base, src="swath", tgt="swath", data="float64/k1/plain/flat", fill="number")))
    # an invalid source sitting exactly on a target must not be used
    out.append(({"src": sw([0.0, 200.0, 10.0, NAN], [0.0, 0.0, 0.0, 0.0]), "tgt": sw([200.0, 10.0, 0.0, 5.1], [0.0] * 4),
                 "radius": 1e7, "data": {"dtype": "int32", "k": 2, "values": [[1, 2], [3, 4], [5, 6], [7, 8]],
                                          "mask": [[0, 1], [1, 1], [0, 0], [1, 0]], "layout": "flat"}, "fill": None},
                dict(base, src="swath/invalid", tgt="swath/invalid", data="int32/k2/masked/flat", fill="None", radius="huge")))
    # first source pixel NaN/NaN in front of 24 regular points (two kd-tree leaves), targets next to several of them
    out.append(({"src": sw([NAN] + [0.5 * i for i in range(24)], [NAN] + [0.1 * (i % 3) for i in range(24)]),
                 "tgt": sw([0.26, 3.1, 5.9, 8.45, 11.3, 200.0], [0.0, 0.1, 0.2, 0.05, 0.0, 0.0]), "radius": 40000.0,
                 "data": {"dtype": "float64", "k": 0, "values": [[float(i)] for i in range(25)], "mask": None, "layout": "flat"}, "fill": -1.0},
                dict(base, src="swath/invalid+nan_first", tgt="swath/invalid", data="float64/k0/plain/flat", fill="number")))
    # neighbour info reused: targets out of reach, first valid source value differs from the fill value
    out.append(({"src": sw([0.0, 1.0, 2.0], [0.0, 0.0, 0.0]), "tgt": sw([0.1, 40.0, 2.1, -50.0], [0.0, 10.0, 0.0, 5.0], [2, 2]), "radius": 50000.0,
                 "data": {"dtype": "float64", "k": 0, "values": [[11.0], [12.0], [13.0]], "mask": None, "layout": "flat", "mem": "C"}, "fill": -1.0},
                dict(base, src="swath", tgt="swath", data="float64/k0/plain/flat", fill="number")))
    # 2-D field on a 3 x 4 swath handed over column-major / as a transposed view
    for mem in ("F", "T"):
        out.append(({"src": sw([float(j) for i in range(3) for j in range(4)], [float(i) for i in range(3) for j in range(4)], [3, 4]),
                     "tgt": sw([0.1, 2.9, 1.1, 3.0], [0.0, 0.1, 1.9, 2.0], [2, 2]), "radius": 50000.0,
                     "data": {"dtype": "float64", "k": 0, "values": [[float(10 * i + j)] for i in range(3) for j in range(4)],
                              "mask": [[(i + j) % 3 == 0] for i in range(3) for j in range(4)], "layout": "geo", "mem": mem}, "fill": None},
                    dict(base, src="swath", tgt="swath", data="float64/k0/masked/geo", fill="None", mem="data:%s/src:C/tgt:C" % mem)))
    return out


def gen_lattice(r, ctx):
    out = []
    for _ in range(ctx.n(150, 1500)):
        span = r.choice([1, 2, 4, 6])
        n = r.choice([1, 2, 5, 12, 30, 100])
        pts = [[r.randint(-span, span) for _ in range(3)] for _ in range(n)]
        qs = [[r.randint(-span - 1, span + 1) for _ in range(3)] for _ in range(r.randint(1, 25))]
        rr = r.choice([0, 1, 2, 3, 5, 7, 9, 13, 10 ** 6])
        out.append({"pts": pts, "queries": qs, "r": float(rr), "r2": rr * rr})
    # exhaustive small scope: every sequence of 1..3 points on the 1-D lattice {-2..2}, every query in {-3..3}, bounds 0..3
    import itertools
    line = [-2, -1, 0, 1, 2]
    qs = [[q, 0, 0] for q in range(-3, 4)]
    for n in (1, 2, 3):
        for pts in itertools.product(line, repeat=n):
            for rr in (0, 1, 2, 3):
                out.append({"pts": [[p, 0, 0] for p in pts], "queries": qs, "r": float(rr), "r2": rr * rr, "exhaustive": True})
    return out


# ------------------------------------------------------------------------------------------ property oracle
def veq(a, b):
    return a == b or (a != a and b != b)


def oracle(case, obs, _nested=False):
    """Judge one observation against the property text. Returns list of (key, what)."""
    if "error" in obs:
        return [("C02.error." + obs["error"], "resampling raised %s: %s" % (obs["error"], obs.get("msg", "")))]
    fails = []
    d = case["data"]
    k, kk = d["k"], max(d["k"], 1)
    fill = case["fill"]
    r = float(case["radius"])
    eps = float(case.get("epsilon", 0) or 0)
    near_key = "C02.nearest" if not eps else "C02.epsilon"     # eps > 0 is judged against the (1+eps)-approximate contract
    sl, sa, tl, ta = obs["src_lons"], obs["src_lats"], obs["tgt_lons"], obs["tgt_lats"]
    single = obs["coord_dtype"] == "float32" or obs["tgt_coord_dtype"] == "float32" or obs.get("xyz_dtype") == "float32"
    rel, ab = (1e-5, 16.0) if single else (1e-9, 1e-6)
    res = obs["res"]
    M = len(tl)
    want_shape = list(obs["tgt_shape"]) + ([k] if k else [])
    if res["shape"] != want_shape:
        key = "C02.shape.masked_single_channel" if (k == 1 and d["mask"] is not None and res["shape"] == list(obs["tgt_shape"])) else "C02.shape"
        fails.append((key, "output shape %s, expected target shape + channels %s" % (res["shape"], want_shape)))
    if res["dtype"] != d["dtype"]:
        fails.append(("C02.dtype", "output dtype %s, input dtype %s" % (res["dtype"], d["dtype"])))
    if obs.get("mutated"):
        fails.append(("C02.history.arguments_mutated", "get_sample_from_neighbour_info changed its argument(s) %s in place (the neighbour info / "
                      "data belong to the caller and are reused)" % ", ".join(obs["mutated"])))
    if obs.get("reuse_differs") and not _nested:
        sub = dict(obs)
        sub["res"] = obs["res_reuse"]
        for kdrop in ("mutated", "reuse_differs", "res_reuse", "segments_differ", "k2", "layout_same"):
            sub.pop(kdrop, None)
        sub["direct_same"] = True
        inner = oracle(case, sub, _nested=True)
        pref = [w for kk_, w in inner if kk_.startswith(("C02.nearest", "C02.invalid_contributes", "C02.epsilon"))]
        what = pref[0] if pref else (inner[0][1] if inner else "result differs from the first use (which satisfies the property)")
        fails.append(("C02.history.reuse_of_neighbour_info", "the %s get_sample_from_neighbour_info call with the SAME neighbour info gives a "
                      "different result: %s" % (obs["reuse_differs"], what)))
    if obs.get("layout_same") is False:
        fails.append(("C02.layout", "result depends on the memory layout of the array arguments (%s): differs from the result for C-contiguous "
                      "copies of the same logical arrays" % case["data"].get("mem")))
    if obs.get("segments_differ"):
        fails.append(("C02.segments", "get_neighbour_info differs from the segments=1 result for segments in %s" % obs["segments_differ"]))
    if obs.get("k2") not in (None, "n/a", "ValueError"):
        fails.append(("C02.nn_k2", "get_sample_from_neighbour_info('nn') on a 2-neighbour index array: %s (ValueError expected)" % obs["k2"]))
    if not obs.get("direct_same", True):
        fails.append(("C02.two_step", "resample_nearest differs from get_sample_from_neighbour_info(get_neighbour_info)"))
    if len(res["vals"]) != M * kk:
        fails.append(("C02.shape", "output has %d elements for %d targets x %d channels" % (len(res["vals"]), M, kk)))
        return fails
    # invalid (NaN / inf / out-of-range) locations must be flagged invalid by the implementation itself
    bad_s = [i for i in range(min(len(sl), len(obs["vii"]))) if obs["vii"][i] and not in_range(sl[i], sa[i])]
    if bad_s:
        i = bad_s[0]
        fails.append(("C02.invalid_contributes.source_flagged_valid",
                      "source %d (lon %r lat %r) is flagged valid in valid_input_index (%d such sources): it enters the kd-tree"
                      % (i, sl[i], sa[i], len(bad_s))))
    if sum(obs["vii"]):      # with no valid source _create_empty_info reports all-true and every output is fill
        bad_t = [i for i in range(min(len(tl), len(obs["voi"]))) if obs["voi"][i] and not in_range(tl[i], ta[i])]
        if bad_t:
            i = bad_t[0]
            fails.append(("C02.invalid_contributes.target_flagged_valid",
                          "target %d (lon %r lat %r) is flagged valid in valid_output_index (%d such targets): it is queried"
                          % (i, tl[i], ta[i], len(bad_t))))
    sv = [i for i in range(len(sl)) if in_range(sl[i], sa[i])]
    sx = {i: xyz(sl[i], sa[i]) for i in sv}
    mask_in = d["mask"]
    sentinel = DT_MAX[d["dtype"]]
    for t in range(M):
        vals = res["vals"][t * kk:(t + 1) * kk]
        msk = res["mask"][t * kk:(t + 1) * kk] if res["mask"] is not None else [0] * kk
        if fill is None:
            is_fill = bool(res["is_ma"]) and all(msk)
        else:
            is_fill = all(veq(v, fill) for v in vals)
        allowed_fill = True
        cands = []
        dmin = None
        if in_range(tl[t], ta[t]) and sv:
            tx = xyz(tl[t], ta[t])
            ds = [(dist(tx, sx[i]), i) for i in sv]
            dmin = min(ds)[0]
            cands = [i for (dd, i) in ds if dd <= dmin * (1 + eps) * (1 + rel) + ab and dd <= r * (1 + rel) + ab]
            allowed_fill = dmin * (1 + eps) >= r * (1 - rel) - ab
        ok = allowed_fill and is_fill
        sentinel_only = False
        if not ok:
            for i in cands:
                row = d["values"][i]
                mrow = mask_in[i] if mask_in is not None else [0] * kk
                if all(veq(a, b) for a, b in zip(vals, row)):
                    if [int(bool(x)) for x in msk] == [int(bool(x)) for x in mrow]:
                        ok = True
                        break
                    if fill is None and all(bool(a) == bool(b) or (a and veq(v, sentinel)) for a, b, v in zip(msk, mrow, row)):
                        sentinel_only = True
        if not ok:
            if sentinel_only:
                fails.append(("C02.mask_sentinel", "target %d: nearest valid source holds the dtype maximum %r unmasked, output element is masked "
                              "(fill_value=None masks every element equal to the sentinel)" % (t, sentinel)))
            elif not in_range(tl[t], ta[t]) or not sv:
                fails.append(("C02.invalid_contributes", "target %d (lon %r lat %r, %d valid sources) must be fill, got %r mask %r"
                              % (t, tl[t], ta[t], len(sv), vals, msk)))
            else:
                fails.append((near_key, "target %d (lon %r lat %r): got %r mask %r; nearest valid source at %.9g m, radius %r, "
                              "admissible sources %s%s" % (t, tl[t], ta[t], vals, msk, dmin, case["radius"], cands[:5],
                                                           " or fill" if allowed_fill else "")))
    return fails


# ------------------------------------------------------------------------------------------ 40-digit trig
getcontext().prec = 50
PI = Decimal("3.14159265358979323846264338327950288419716939937510582097494")


def dsin(x):
    x = x % (2 * PI)
    if x > PI:
        x -= 2 * PI
    term, s, n = x, x, 1
    while abs(term) > Decimal(10) ** -45:
        term = -term * x * x / ((n + 1) * (n + 2))
        s += term
        n += 2
    return s


def dcos(x):
    return dsin(x + PI / 2)


def xyz_hp(lon, lat):
    lo, la = Decimal(lon) * PI / 180, Decimal(lat) * PI / 180
    Rd = Decimal(R_EARTH)
    return (Rd * dcos(la) * dcos(lo), Rd * dcos(la) * dsin(lo), Rd * dsin(la))


# ------------------------------------------------------------------------------------------ Coq text
HDR = ("From Coq Require Import ZArith List Bool PrimFloat.\nFrom PR Require Import Base.F64 Base.ListX Model.KDTree Model.NdArr Model.C02_run.\n"
       "Import ListNotations.\nOpen Scope Z_scope.\n")


def bl(l):
    return "[" + ";".join("true" if x else "false" for x in l) + "]"


def fl(l):
    return "[" + ";".join(fhex(x) for x in l) + "]"


def zl(l):
    return "[" + ";".join("(%d)" % x for x in l) + "]"


def xl(l):
    return "[" + ";".join("(%s,%s,%s)" % tuple(fhex(v) for v in p) for p in l) + "]"


def coq_case(case, obs):
    """Coq term for one case, or None when the observation cannot be typed (reported separately)."""
    d = case["data"]
    res = obs["res"]
    isf = d["dtype"].startswith("float")
    if res["dtype"] not in DT_CODE or res["dtype"].startswith("float") != isf:
        return None, None
    lit = fhex if isf else (lambda v: "(%d)" % v)
    k, kk = d["k"], max(d["k"], 1)
    single = obs.get("xyz_dtype") == "float32"
    a, b, kabs = TOL_F32 if single else TOL_F64
    eps = case.get("epsilon", 0) or 0
    if eps:
        from fractions import Fraction
        fe = Fraction(float(eps))                        # exact value of the binary64 epsilon handed to the tree
        a, b = a * (fe.denominator + fe.numerator) ** 2, b * fe.denominator ** 2
    geo = "(mk_geo %s %s %s %s %s %s %s %s %s %s (%d, %d, (%d)))" % (
        fl(obs["src_lons"]), fl(obs["src_lats"]), fl(obs["tgt_lons"]), fl(obs["tgt_lats"]), bl(obs["vii"]), bl(obs["voi"]),
        zl(obs["idx"]), xl(obs["src_xyz"]), xl(obs["tgt_xyz"]), fhex(float(case["radius"])), a, b, kabs)
    rows = "[" + ";".join("[" + ";".join(lit(v) for v in row) + "]" for row in d["values"]) + "]"
    mrows = "None" if d["mask"] is None else "(Some [" + ";".join(bl(m) for m in d["mask"]) + "])"
    fill = "None" if case["fill"] is None else "(Some %s)" % lit(float(case["fill"]) if isf else case["fill"])
    rmask = "None" if res["mask"] is None else "(Some %s)" % bl(res["mask"])
    dat = "(mk_data %s %d %s %d %s %s %s %s %s %d %s %s)" % (
        zl(obs["tgt_shape"]), DT_CODE[d["dtype"]], "true" if k else "false", kk, rows, mrows, fill, lit(DT_MAX[d["dtype"]]),
        zl(res["shape"]), DT_CODE[res["dtype"]], "[" + ";".join(lit(v) for v in res["vals"]) + "]", rmask)
    inshape = (list(obs["src_shape"]) if d["layout"] == "geo" else [len(d["values"])]) + ([k] if k else [])
    return "(%s, %s, %s)" % (geo, dat, zl(inshape)), ("F" if isf else "Z")


CODE_NAMES = {512: "translated get_sample: values", 1024: "translated get_sample: mask", 2048: "translated get_sample: shape",
              4096: "translated get_sample: dtype", 8192: "translated get_sample raises / runs out of fuel", 1: "valid_input_index", 2: "valid_output_index", 4: "index_array(empty-source path)", 8: "index_array not optimal for the exact distances",
              16: "values", 32: "mask", 64: "shape", 128: "dtype"}


def decode(code):
    return [n for b, n in CODE_NAMES.items() if code & b]


# ------------------------------------------------------------------------------------------ run
def fill_is_representable(case):
    return True


def judge(ctx, case, obs, tags, record=True):
    fails = oracle(case, obs)
    # group per key, one failure per key per case
    seen = set()
    for key, what in fails:
        if key in seen:
            continue
        seen.add(key)
        ctx.add_failure(key, what + "  [src %s, tgt %s, radius %r, data %s, fill %r]" % (
            tags.get("src"), tags.get("tgt"), case["radius"], tags.get("data"), case["fill"]),
            {"oracle": "nn", "case": case, "tags": tags,
             "observed": {k: obs.get(k) for k in ("res", "idx", "vii", "voi", "error", "msg")}})
    return fails


def check_xyz(ctx, case, obs, tags):
    if "error" in obs:
        return
    single = obs.get("xyz_dtype") == "float32" or obs["coord_dtype"] == "float32" or obs["tgt_coord_dtype"] == "float32"
    tol = Decimal(6.0) if single else Decimal("1e-7")
    sv = [i for i, v in enumerate(obs["vii"]) if v]
    tv = [i for i, v in enumerate(obs["voi"]) if v]
    pairs = list(zip([(obs["src_lons"][i], obs["src_lats"][i]) for i in sv], obs["src_xyz"]))
    if len(obs["tgt_xyz"]) == len(tv):
        pairs += list(zip([(obs["tgt_lons"][i], obs["tgt_lats"][i]) for i in tv], obs["tgt_xyz"]))
    for (lon, lat), p in pairs[:40]:
        if not in_range(lon, lat):
            continue
        hp = xyz_hp(lon, lat)
        err = max(abs(Decimal(p[i]) - hp[i]) for i in range(3)) if all(v == v and abs(v) != INF for v in p) else Decimal(10) ** 9
        if err > tol:
            ctx.add_failure("C02.cartesian", "transform_lonlats(%r, %r) = %r is %.3g m away from R*(cos lat cos lon, cos lat sin lon, sin lat)"
                            % (lon, lat, p, float(err)), {"oracle": "nn", "case": case, "tags": tags})
            return


def run(ctx):
    import time
    r = ctx.rng
    t_start = time.time()
    sys.stderr.write("  [C02] proofs+gate+assumptions done at %.1fs\n" % (t_start - ctx.t0))
    ctx.rule = ("Generation: 5 fixed cases (inputs of the two known findings / Coq refutation witnesses, an invalid source sitting on a target, "
                "a NaN first source pixel in front of two kd-tree leaves) + PRNG source/target pairs drawn from ctx.rng: geometry kind per side "
                "(swath 1-D/2-D, GridDefinition from points or a regular mesh, AreaDefinition laea/stere/merc/longlat/eqc/geos) around a centre "
                "(poles, antimeridian, equator/0-meridian, Europe, random) with spread 0.01-30 degrees; per-point features: exact +-180/+-90/0 "
                "coordinates, out-of-range / NaN / inf / 1e30 coordinates on either side, duplicated points, float32 coordinates, sparse sources, "
                "targets coincident with sources, NaN first source pixel; radius zero / tiny / typical / integer / huge / exactly (+-1 ulp) a "
                "neighbour distance; data float64/float32/int32/uint8/int16/int64, 1-D / (n,k) / geo-shaped, plain, masked or masked with no bit "
                "set, values equal to the dtype maximum; fill number / NaN / None; epsilon 0 or positive (judged against the (1+eps) contract); "
                "a quarter of the cases also query with segments None/2/3/rows+3, a tenth feed a 2-neighbour index array to 'nn' sampling.  "
                "Plus kd-tree queries on integer lattices: PRNG 3-D point sets (ties, distance == bound) and, exhaustively, every sequence of "
                "1..3 points on the 1-D lattice {-2..2} x every query in {-3..3} x bounds 0..3.  "
                "Non-trivial: at least two valid sources compete and at least one target receives a source value (lattice: at least two "
                "points).  distinct = number of distinct canonical inputs (full geometry, radius, data, fill) among the non-trivial ones.")
    ncases = ctx.n(700, 5000)
    cases, tagl = [], []
    for c, tg in fixed_cases():
        cases.append(c)
        tagl.append(tg)
    for i in range(ncases):
        c, tg = gen_case(r, ctx, big=(i % 25 == 0))
        cases.append(c)
        tagl.append(tg)
    lattice = gen_lattice(r, ctx)
    obs_all = {"cases": [], "lattice": []}
    CH = 1500
    for i in range(0, len(cases), CH):
        o = ctx.impl("c02", {"cases": cases[i:i + CH], "lattice": lattice if i == 0 else []})
        obs_all["cases"] += o["cases"]
        if i == 0:
            obs_all["lattice"] = o["lattice"]
    sys.stderr.write("  [C02] implementation run on %d cases + %d lattice cases: %.1fs\n" % (len(cases), len(lattice), time.time() - t_start))
    t_or = time.time()
    texts = {"F": [], "Z": []}
    for ci, (case, tg, obs) in enumerate(zip(cases, tagl, obs_all["cases"])):
        for kname in ("region", "radius", "fill", "epsilon"):
            ctx.count("%s=%s" % (kname, tg[kname]))
        for part in tg.get("mem", "").split("/"):
            if part and not part.endswith("-"):
                ctx.count("mem_" + part.replace(":", "="))
        ctx.count("history=info_used_3_times")
        ctx.count("src=" + tg["src"].split("/")[0])
        ctx.count("tgt=" + tg["tgt"].split("/")[0])
        ctx.count("data=" + tg["data"].split("/")[0] + "/" + tg["data"].split("/")[2])
        for t in (tg["src"] + "+" + tg["tgt"]).replace("/", "+").split("+"):
            if t in ("invalid", "dup", "f32", "sparse", "coincident", "nan_first"):
                ctx.count("feature=" + t)
        judge(ctx, case, obs, tg)
        check_xyz(ctx, case, obs, tg)
        if "error" in obs:
            ctx.case(("err", ci), nontrivial=False)
            ctx.count("outcome=error")
            continue
        nvs = sum(obs["vii"])
        n = nvs
        got_value = sum(1 for x in obs["idx"] if x < n) if nvs else 0
        got_fill = len(obs["voi"]) - got_value
        ctx.count("outcome=" + ("all_fill" if not got_value else "mixed" if got_fill else "all_value"))
        if nvs < len(obs["vii"]):
            ctx.count("has_invalid_source")
        if sum(obs["voi"]) < len(obs["voi"]):
            ctx.count("has_invalid_target")
        ctx.case(repr((case["src"], case["tgt"], case["radius"], case["data"], case["fill"])), nontrivial=(nvs >= 2 and got_value >= 1),
                 sample={"nn_src_" + tg["src"].split("/")[0]: {"region": tg["region"], "src": tg["src"], "tgt": tg["tgt"], "epsilon": case.get("epsilon", 0), "n_src": len(obs["vii"]), "n_valid_src": nvs, "n_tgt": len(obs["voi"]),
                                "radius": case["radius"], "data": tg["data"], "fill": repr(case["fill"]),
                                "targets_with_value": got_value, "out_shape": obs["res"]["shape"]}})
        if obs.get("tree_data_same") is False:
            ctx.broken.append(("correspondence:xyz", "kd-tree was not built on Cartesian.transform_lonlats(valid sources) in case %d" % ci))
        term, ty = coq_case(case, obs)
        if term is None:
            ctx.broken.append(("correspondence:dtype", "case %d: output dtype %s for input dtype %s cannot be compared with the model"
                               % (ci, obs["res"]["dtype"], case["data"]["dtype"])))
            continue
        texts[ty].append((ci, term, len(term)))
    # shards balanced by text size
    named, index = [], {}
    for ty in ("F", "Z"):
        items = sorted(texts[ty], key=lambda x: -x[2])
        nsh = max(1, min(12 if ty == "F" else 4, len(items) // 4 or 1)) if not ctx.thorough else max(1, min(64, len(items) // 40 or 1))
        shards = [[] for _ in range(nsh)]
        sizes = [0] * nsh
        for it in items:
            j = sizes.index(min(sizes))
            shards[j].append(it)
            sizes[j] += it[2]
        for j, sh in enumerate(shards):
            if not sh:
                continue
            name = "c02_%s_%03d" % (ty, j)
            index[name] = [it[0] for it in sh]
            ctype = "float" if ty == "F" else "Z"
            named.append((name, HDR + "Definition cases : list (geo_case * @data_case %s * list Z) := [\n%s].\nEval vm_compute in (bad_codes full_code_%s cases).\n"
                          % (ctype, ";\n".join(it[1] for it in sh), ty)))
    # Cartesian.transform_lonlats: model products with the implementation's own cos/sin as oracle table (binary64 only)
    X = []
    for ci, (case, obs) in enumerate(zip(cases, obs_all["cases"])):
        if "error" in obs or "trig" not in obs:
            continue
        if case.get("check_segments"):
            ctx.count("checked=segments(None,2,3,rows+3)")
        if obs.get("k2") not in (None, "n/a"):
            ctx.count("checked=nn_rejects_2_neighbours")
        sv = [i for i, v in enumerate(obs["vii"]) if v]
        tv = [i for i, v in enumerate(obs["voi"]) if v]
        if len(obs["tgt_xyz"]) != len(tv) or len(obs["src_xyz"]) != len(sv):
            continue
        lls = [(obs["src_lons"][i], obs["src_lats"][i]) for i in sv] + [(obs["tgt_lons"][i], obs["tgt_lats"][i]) for i in tv]
        if not lls:
            continue
        ctx.count("checked=transform_lonlats_model")
        X.append((ci, "(%s, %s, %s)" % ("[" + ";".join("(%s,(%s,%s))" % (fhex(a), fhex(b), fhex(c)) for a, b, c in obs["trig"]) + "]",
                                       "[" + ";".join("(%s,%s)" % (fhex(a), fhex(b)) for a, b in lls) + "]",
                                       xl(obs["src_xyz"] + obs["tgt_xyz"]))))
    XCH = max(1, (len(X) + 7) // 8) if not ctx.thorough else 80
    for j in range(0, len(X), XCH):
        name = "c02_xyz_%03d" % (j // XCH)
        index[name] = [it[0] for it in X[j:j + XCH]]
        named.append((name, HDR + "Definition cases : list xyz_case := [\n%s].\nEval vm_compute in (bad_codes xyz_code cases).\n"
                      % ";\n".join(it[1] for it in X[j:j + XCH])))
    # lattice
    L = []
    lat_ok = []
    for lc, lo in zip(lattice, obs_all["lattice"]):
        ctx.count("lattice=exhaustive_1d" if lc.get("exhaustive") else "lattice=random_3d")
        ctx.case(("lat", repr(lc)), nontrivial=len(lc["pts"]) >= 2, sample={"lattice": {"points": len(lc["pts"]), "queries": len(lc["queries"]), "bound": lc["r"]}})
        if "error" in lo:
            ctx.add_failure("C02.kdtree." + lo["error"], "KDTree query raised on integer lattice: %s" % lo.get("msg"), {"oracle": "lattice", "case": lc})
            continue
        # independent brute force: strict bound, lower index wins ties
        n = len(lc["pts"])
        for q, i in zip(lc["queries"], lo["idx"]):
            ds = [sum((a - b) ** 2 for a, b in zip(q, p)) for p in lc["pts"]]
            dm = min(ds)
            ok = (i == n and dm >= lc["r2"]) or (i < n and ds[i] == dm and dm <= lc["r2"])
            if not ok:
                ctx.add_failure("C02.kdtree.oracle_spec", "KDTree(k=1, bound %r) returned %d for query %s; squared distances %s" % (lc["r"], i, q, ds[:20]),
                                {"oracle": "lattice", "case": lc, "observed": lo})
                break
        L.append("(%s, %s, %d, %s)" % ("[" + ";".join("(%d,%d,%d)" % tuple(p) for p in lc["pts"]) + "]",
                                       "[" + ";".join("(%d,%d,%d)" % tuple(p) for p in lc["queries"]) + "]", lc["r2"], zl(lo["idx"])))
    LCH = 400
    for j in range(0, len(L), LCH):
        name = "c02_lat_%03d" % (j // LCH)
        index[name] = list(range(j, min(j + LCH, len(L))))
        named.append((name, HDR + "Definition cases : list lattice_case := [\n%s].\nEval vm_compute in (bad_codes lattice_code cases).\n" % ";\n".join(L[j:j + LCH])))
    sys.stderr.write("  [C02] property oracle + xyz recomputation + case text: %.1fs\n" % (time.time() - t_or))
    t_coq = time.time()
    res = ctx.coq_eval_many(named, timeout=1500)
    sys.stderr.write("  [C02] Coq evaluation of %d shards: %.1fs\n" % (len(named), time.time() - t_coq))
    for name, _ in named:
        out, ok = res[name]
        what = "lattice(kd-tree = brute force, strict bound)" if "_lat_" in name else \
            ("transform_lonlats" if "_xyz_" in name else "nearest")
        if not ok:
            ctx.broken.append(("correspondence:" + what, "model evaluation failed in %s: %s" % (name, out[-300:])))
            continue
        v = ints(out)
        pairs = list(zip(v[0::2], v[1::2]))
        if pairs:
            pos, code = pairs[0]
            ci = index[name][pos]
            if "_xyz_" in name:
                detail = "Cartesian.transform_lonlats differs from the model R*cos(lat*d)*cos(lon*d), R*cos(lat*d)*sin(lon*d), R*sin(lat*d) " \
                         "(implementation's own cos/sin) on %d cases, e.g. case %d (src %s)" % (len(pairs), ci, tagl[ci]["src"])
            elif "_lat_" in name:
                detail = "kd-tree answer differs from the brute-force reference on %d lattice cases, e.g. %s -> %s" % (
                    len(pairs), {k2: lattice[ci][k2] for k2 in ("pts", "queries", "r")}, obs_all["lattice"][ci])
            else:
                detail = "model and implementation differ on %d of %d cases; first: case %d differs in %s (src %s, tgt %s, radius %r, data %s, fill %r)" % (
                    len(pairs), len(index[name]), ci, decode(code), tagl[ci]["src"], tagl[ci]["tgt"], cases[ci]["radius"], tagl[ci]["data"], cases[ci]["fill"])
            ctx.broken.append(("correspondence:" + what, detail[:1200]))
    ctx.traces = len(cases)
    ctx.notes.append("kd-tree (pykdtree) is an oracle: the theorems hold for any query function meeting knn_spec_tol; each observed index array is "
                     "checked against that contract on exact rational squared distances of the implementation's own cartesian coordinates "
                     "(relative slack 1e-12 on distances for float64 trees; 1e-5 plus an absolute 2^-10 m for float32 trees)")
    ctx.notes.append("cos/sin (numexpr/libm) are an oracle: cartesian coordinates are compared with a 40-digit recomputation (1e-7 m for float64)")


def replay(ctx, data):
    case = data.get("case", {})
    if case.get("oracle") == "lattice":
        lo = ctx.impl("c02", {"cases": [], "lattice": [case["case"]]})["lattice"][0]
        lc = case["case"]
        if "error" in lo:
            return True
        n = len(lc["pts"])
        for q, i in zip(lc["queries"], lo["idx"]):
            ds = [sum((a - b) ** 2 for a, b in zip(q, p)) for p in lc["pts"]]
            dm = min(ds)
            if not ((i == n and dm >= lc["r2"]) or (i < n and ds[i] == dm and dm <= lc["r2"])):
                return True
        return False
    obs = ctx.impl("c02", {"cases": [case["case"]], "lattice": []})["cases"][0]
    fails = oracle(case["case"], obs)
    n0 = len(ctx.failures)
    check_xyz(ctx, case["case"], obs, case.get("tags", {}))
    return bool(fails) or len(ctx.failures) > n0
