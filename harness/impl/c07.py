"""Driver: run the real BucketResampler on the given cases (C07). JSON on stdin -> JSON on stdout.
Floats travel as float.hex() strings.  No model logic here."""
import json
import sys
import logging
import warnings

warnings.simplefilter("ignore")
import dask
import dask.array as da
import numpy as np

dask.config.set(scheduler="synchronous")
logging.disable(logging.CRITICAL)
from pyresample.geometry import AreaDefinition
from pyresample import bucket
from pyresample.bucket import BucketResampler


class StubProjResampler(BucketResampler):
    """PROJ replaced by the identity table: the given coordinates ARE the projected coordinates."""

    def _get_proj_coordinates(self, lons, lats):
        return np.stack((lons, lats))


def fh(x):
    return float.fromhex(x)


def hx(a):
    return [float(v).hex() for v in np.asarray(a, dtype=np.float64).ravel()]


def ints(a):
    return [int(v) for v in np.asarray(a).ravel()]


def chunked(values, shape, chunks, dtype=np.float64):
    arr = np.array(values, dtype=np.float64).reshape(shape).astype(dtype)
    return da.from_array(arr, chunks=tuple(tuple(c) for c in chunks))


def wrap(arr, variant):
    """alternative entry point: the data handed over as an xarray.DataArray"""
    if variant == "xr":
        import xarray as xr
        return xr.DataArray(arr)
    return arr


def run_case(case):
    ar = case["area"]
    ext = tuple(fh(v) for v in ar["extent"])
    adef = AreaDefinition("c07", "c07", "c07", ar["proj"], ar["w"], ar["h"], ext)
    xs = [fh(v) for v in case["xs"]]
    ys = [fh(v) for v in case["ys"]]
    data = [fh(v) for v in case["data"]]
    fdata = [fh(v) for v in case["fdata"]]
    shape = tuple(case["shape"])
    fill, ebv, ffill = fh(case["fill"]), fh(case["ebv"]), fh(case["ffill"])
    skipna = case["skipna"]
    cats = case["cats"]
    variant = case.get("variant", "dask")
    idt = np.dtype(case.get("dtype", "float64"))
    ddt = np.dtype(case.get("data_dtype", "float64"))
    fdata2 = [fh(v) for v in case["fdata2"]] if "fdata2" in case else [-v for v in fdata]
    outs = []
    for ch in case["chunkings"]:
        try:
            lons = chunked(xs, shape, ch["coord"])
            lats = chunked(ys, shape, ch["coord"])
            cls = StubProjResampler if case["mode"] == "stub" else BucketResampler
            r = cls(adef, lons, lats)
            o = {"res": [float(v).hex() for v in adef.resolution]}
            if case["mode"] == "stub":
                px, py = np.array(xs), np.array(ys)
            else:
                px, py = r.prj(np.array(xs), np.array(ys))
            o["px"], o["py"] = hx(px), hx(py)
            d = chunked(data, shape, ch["data"], ddt)
            fd = chunked(fdata, shape, ch["fdata"], idt)
            o["fdata_chunks"] = [int(c) for c in fd.ravel().chunks[0]]
            o["idx_chunks"] = [int(c) for c in r.idxs.chunks[0]]
            o["data_chunks"] = [int(c) for c in d.ravel().chunks[0]]
            lazy = [r.x_idxs, r.y_idxs, r.idxs, r.get_count(),
                    r.get_sum(wrap(d, variant), fill_value=fill, skipna=skipna, empty_bucket_value=ebv),
                    r.get_average(d, fill_value=fill, skipna=skipna),
                    r.get_min(wrap(fd, variant)), r.get_max(wrap(fd, variant)), r.get_abs_max(wrap(fd, variant))]
            fr = r.get_fractions(fd, categories=cats, fill_value=ffill)
            o["cats"] = [float(k) for k in fr.keys()]
            first = ch is case["chunkings"][0]
            if first:
                # a second, different data array with the same chunking, evaluated in the SAME dask computation
                fd2 = chunked(fdata2, shape, ch["fdata"], idt)
                joint = [r.get_min(fd2), r.get_max(fd2), r.get_abs_max(fd2)]
            else:
                joint = []
            res = da.compute(*(lazy + joint + list(fr.values())))
            if first:
                o["joint"] = {"min2": hx(res[9]), "max2": hx(res[10]), "absmax2": hx(res[11])}
                res = res[:9] + res[12:]
                # stand-alone evaluation of the same lazy results
                o["alone"] = {"min2": hx(r.get_min(fd2).compute()), "max2": hx(r.get_max(fd2).compute())}
            o["x_idxs"], o["y_idxs"], o["idxs"] = ints(res[0]), ints(res[1]), ints(res[2])
            o["count"] = ints(res[3])
            for nm, v in zip(("sum", "avg", "min", "max", "absmax"), res[4:9]):
                o[nm] = hx(v)
            o["frac"] = [hx(v) for v in res[9:]]
            o["shape"] = [int(s) for s in r.get_count().shape]
            if ch is case["chunkings"][0] and case.get("history"):
                # a history of eager calls on ONE fresh object (self.idxs is re-chunked in place, self.counts is memoised)
                r2 = cls(adef, lons, lats)
                hist = []
                for op, j in case["history"]:
                    chj = case["chunkings"][j]
                    if op == "count":
                        hist.append({"op": op, "out": ints(r2.get_count().compute())})
                    elif op == "average":
                        dj = chunked(data, shape, chj["data"], ddt)
                        hist.append({"op": op, "lens": [int(c) for c in dj.ravel().chunks[0]],
                                     "out": hx(r2.get_average(dj, fill_value=fill, skipna=skipna).compute())})
                    elif op == "fractions":
                        fj = chunked(fdata, shape, chj["fdata"], idt)
                        if not o["cats"]:
                            continue
                        cat0 = o["cats"][0]
                        hist.append({"op": op, "lens": [int(c) for c in fj.ravel().chunks[0]], "cat": cat0,
                                     "out": hx(r2.get_fractions(fj, categories=[cat0], fill_value=ffill)[cat0].compute())})
                    elif op == "sum":
                        dj = chunked(data, shape, chj["data"], ddt)
                        hist.append({"op": op, "lens": [int(c) for c in dj.ravel().chunks[0]],
                                     "out": hx(r2.get_sum(dj, fill_value=fill, skipna=skipna, empty_bucket_value=ebv).compute())})
                    else:
                        fj = chunked(fdata, shape, chj["fdata"], idt)
                        f = r2.get_min if op == "min" else r2.get_max
                        hist.append({"op": op, "lens": [int(c) for c in fj.ravel().chunks[0]], "out": hx(f(fj).compute())})
                o["history"] = hist
            outs.append(o)
        except Exception as e:  # noqa
            outs.append({"error": type(e).__name__ + ": " + str(e)[:200]})
    return outs


req = json.load(sys.stdin)
out = {"cases": [run_case(c) for c in req.get("cases", [])]}

ks = req.get("kernels", [])
if ks:
    xs = np.array([fh(a) for a, _ in ks])
    ys = np.array([fh(b) for _, b in ks])
    inv = [bool(bucket._get_invalid_mask(np.array([x]), y)[0]) for x, y in zip(xs, ys)]
    am = BucketResampler._get_abs_max_from_min_max(da.from_array(xs, chunks=7), da.from_array(ys, chunks=7)).compute()
    out["kernels"] = {"invalid": inv, "absmax": hx(am)}
json.dump(out, sys.stdout)
