"""Driver: run the real BucketResampler on the given cases (C07). JSON on stdin -> JSON on stdout.
Floats travel as float.hex() strings.  No model logic here."""
import json
import sys
import logging
import warnings

warnings.simplefilter("ignore")
import dask
import dask.array as da
import numpy as np

dask.config.set(scheduler="synchronous")
logging.disable(logging.CRITICAL)
from pyresample.geometry import AreaDefinition
from pyresample import bucket
from pyresample.bucket import BucketResampler


class StubProjResampler(BucketResampler):
    """PROJ replaced by the identity table: the given coordinates ARE the projected coordinates."""

    def _get_proj_coordinates(self, lons, lats):
        return np.stack((lons, lats))


def fh(x):
    return float.fromhex(x)


def hx(a):
    return [float(v).hex() for v in np.asarray(a, dtype=np.float64).ravel()]


def ints(a):
    return [int(v) for v in np.asarray(a).ravel()]


def chunked(values, shape, chunks):
    arr = np.array(values, dtype=np.float64).reshape(shape)
    return da.from_array(arr, chunks=tuple(tuple(c) for c in chunks))


def run_case(case):
    ar = case["area"]
    ext = tuple(fh(v) for v in ar["extent"])
    adef = AreaDefinition("c07", "c07", "c07", ar["proj"], ar["w"], ar["h"], ext)
    xs = [fh(v) for v in case["xs"]]
    ys = [fh(v) for v in case["ys"]]
    data = [fh(v) for v in case["data"]]
    fdata = [fh(v) for v in case["fdata"]]
    shape = tuple(case["shape"])
    fill, ebv, ffill = fh(case["fill"]), fh(case["ebv"]), fh(case["ffill"])
    skipna = case["skipna"]
    cats = case["cats"]
    outs = []
    for ch in case["chunkings"]:
        try:
            lons = chunked(xs, shape, ch["coord"])
            lats = chunked(ys, shape, ch["coord"])
            cls = StubProjResampler if case["mode"] == "stub" else BucketResampler
            r = cls(adef, lons, lats)
            o = {"res": [float(v).hex() for v in adef.resolution]}
            if case["mode"] == "stub":
                px, py = np.array(xs), np.array(ys)
            else:
                px, py = r.prj(np.array(xs), np.array(ys))
            o["px"], o["py"] = hx(px), hx(py)
            d = chunked(data, shape, ch["data"])
            fd = chunked(fdata, shape, ch["fdata"])
            o["data_chunks"] = [int(c) for c in d.ravel().chunks[0]]
            lazy = [r.x_idxs, r.y_idxs, r.idxs, r.get_count(),
                    r.get_sum(d, fill_value=fill, skipna=skipna, empty_bucket_value=ebv),
                    r.get_average(d, fill_value=fill, skipna=skipna),
                    r.get_min(fd), r.get_max(fd), r.get_abs_max(fd)]
            fr = r.get_fractions(fd, categories=cats, fill_value=ffill)
            o["cats"] = [float(k) for k in fr.keys()]
            res = da.compute(*(lazy + list(fr.values())))
            o["x_idxs"], o["y_idxs"], o["idxs"] = ints(res[0]), ints(res[1]), ints(res[2])
            o["count"] = ints(res[3])
            for nm, v in zip(("sum", "avg", "min", "max", "absmax"), res[4:9]):
                o[nm] = hx(v)
            o["frac"] = [hx(v) for v in res[9:]]
            o["shape"] = [int(s) for s in r.get_count().shape]
            outs.append(o)
        except Exception as e:  # noqa
            outs.append({"error": type(e).__name__ + ": " + str(e)[:200]})
    return outs


req = json.load(sys.stdin)
out = {"cases": [run_case(c) for c in req.get("cases", [])]}

ks = req.get("kernels", [])
if ks:
    xs = np.array([fh(a) for a, _ in ks])
    ys = np.array([fh(b) for _, b in ks])
    inv = [bool(bucket._get_invalid_mask(np.array([x]), y)[0]) for x, y in zip(xs, ys)]
    am = BucketResampler._get_abs_max_from_min_max(da.from_array(xs, chunks=7), da.from_array(ys, chunks=7)).compute()
    out["kernels"] = {"invalid": inv, "absmax": hx(am)}
json.dump(out, sys.stdout)
