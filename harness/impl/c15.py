"""Driver (C15): run the REAL pyresample Scheduler.__iter__ generators under a deterministic controller.

Each worker is a thread executing `for s in scheduler: <write result rows s>`.  On the Scheduler *instance*
the attributes _lock, _ndata, _start are replaced by wrappers around the original mp.Lock / mp.RawValue
objects; every acquire / read / write / release (and the result write) first hands control to the
controller and is performed only when the controller gives that worker a turn.  One turn = one atomic
shared-memory action (or nothing, when the worker is blocked on the lock or has finished).
No model logic here: the driver only executes turns and records what the real code did.

Also: real multi-process runs of Proj_MP / cKDTree_MP against their single-process counterparts."""
import json
import random
import sys
import threading

WAIT = 60.0


class Abort(BaseException):
    pass


class DriverError(Exception):
    pass


class Ctl:
    def __init__(self, nw):
        self.nw = nw
        self.go = [threading.Semaphore(0) for _ in range(nw)]
        self.arrived = [threading.Semaphore(0) for _ in range(nw)]
        self.parked = [None] * nw       # kind of the action the worker is waiting to perform, or 'finished'
        self.tls = threading.local()
        self.abort = False
        self.events = []                # (worker, code, value) per turn
        self.holder = None              # observed lock holder (from successful acquire / release actions)
        self.yields = []                # (worker, start, stop) in order of emission
        self.works = []                 # (worker, start, stop) in order of completion
        self.errors = []

    def atomic(self, kind, fn):
        w = self.tls.w
        self.parked[w] = kind
        self.arrived[w].release()
        if not self.go[w].acquire(timeout=WAIT):
            raise Abort()
        if self.abort:
            raise Abort()
        return fn(w)


class TLock:
    """wrapper around the original mp.Lock of the Scheduler instance"""

    def __init__(self, orig, ctl):
        self._orig, self._ctl = orig, ctl

    def _try(self, w):
        ok = self._orig.acquire(False)
        if ok:
            self._ctl.holder = w
        self._ctl.events.append((w, 2 if ok else 1, 0))
        return ok

    def _rel(self, w):
        self._orig.release()
        self._ctl.holder = None
        self._ctl.events.append((w, 7, 0))

    def acquire(self, block=True, timeout=None):
        while True:
            if self._ctl.atomic('acq', self._try):
                return True
            if not block:
                return False

    def release(self):
        self._ctl.atomic('rel', self._rel)

    def __enter__(self):
        self.acquire()
        return self

    def __exit__(self, *a):
        self.release()
        return False


class TValue:
    """wrapper around the original mp.RawValue (keeps its ctypes store semantics)"""

    def __init__(self, orig, ctl, rd, wr):
        object.__setattr__(self, '_orig', orig)
        object.__setattr__(self, '_ctl', ctl)
        object.__setattr__(self, '_rd', rd)
        object.__setattr__(self, '_wr', wr)

    def _read(self, w):
        v = int(self._orig.value)
        self._ctl.events.append((w, self._rd, v))
        return v

    @property
    def value(self):
        return self._ctl.atomic('rd', self._read)

    @value.setter
    def value(self, v):
        def wr(w):
            self._ctl.events.append((w, self._wr, int(v)))
            self._orig.value = v
        self._ctl.atomic('wr', wr)


def make_scheduler(conf):
    from pyresample._multi_proc import Scheduler
    return Scheduler(conf['n'], conf['nprocs'], chunk=conf['chunk'], schedule=conf['kind'])


class Execution:
    """one controlled execution of nw workers iterating one real Scheduler"""

    def __init__(self, conf, nw):
        import ctypes
        self.conf, self.nw = conf, nw
        self.sched = make_scheduler(conf)
        self.bits = 8 * ctypes.sizeof(self.sched._ndata)
        self.chunk0 = int(self.sched._chunk)
        self.ctl = ctl = Ctl(nw)
        self.raw_ndata, self.raw_start = self.sched._ndata, self.sched._start
        self.sched._lock = TLock(self.sched._lock, ctl)
        self.sched._ndata = TValue(self.raw_ndata, ctl, 3, 5)
        self.sched._start = TValue(self.raw_start, ctl, 4, 6)
        self.turns = []
        self.choices = []     # (turn index, chosen worker, enabled workers) at decision points after the prefix
        self.threads = [threading.Thread(target=self._body, args=(w,), daemon=True) for w in range(nw)]
        for w, t in enumerate(self.threads):
            t.start()
            self._wait(w)

    def _body(self, w):
        ctl = self.ctl
        ctl.tls.w = w
        try:
            for s in self.sched:
                ctl.yields.append((w, int(s.start), int(s.stop)))

                def work(w_, s=s):
                    ctl.events.append((w_, 9, int(s.start)))
                    ctl.works.append((w_, int(s.start), int(s.stop)))
                ctl.atomic('work', work)
        except Abort:
            pass
        except BaseException as e:  # the real code raised
            ctl.errors.append("%s: %s" % (type(e).__name__, e))
        finally:
            ctl.parked[w] = 'finished'
            ctl.arrived[w].release()

    def _wait(self, w):
        if not self.ctl.arrived[w].acquire(timeout=WAIT):
            raise DriverError("worker %d did not reach its next action" % w)

    def finished(self, w):
        return self.ctl.parked[w] == 'finished'

    def all_finished(self):
        return all(self.finished(w) for w in range(self.nw))

    def enabled(self, w):
        p = self.ctl.parked[w]
        if p == 'finished':
            return False
        if p == 'acq' and self.ctl.holder is not None:
            return False
        return True

    def turn(self, w):
        """give worker w one turn"""
        self.turns.append(w)
        if self.finished(w):
            self.ctl.events.append((w, 0, 0))
            return
        self.ctl.go[w].release()
        self._wait(w)

    def macro_turn(self, w):
        """let w run one critical section (acquire .. release) or its pending result write, without interruption"""
        if self.finished(w) or not self.enabled(w) or self.ctl.parked[w] == 'work':
            self.turn(w)
            return
        guard = 0
        while True:
            self.turn(w)
            guard += 1
            if self.finished(w) or self.ctl.parked[w] in ('work', 'acq') or guard > 64:
                return

    def close(self):
        self.ctl.abort = True
        for w in range(self.nw):
            if not self.finished(w):
                self.ctl.go[w].release()
        for t in self.threads:
            t.join(timeout=WAIT)

    def result(self, extra=None):
        r = {"bits": self.bits, "chunk0": self.chunk0, "turns": self.turns,
             "events": [list(e) for e in self.ctl.events],
             "yields": [list(y) for y in self.ctl.yields], "works": [list(y) for y in self.ctl.works],
             "final": [int(self.raw_ndata.value), int(self.raw_start.value)],
             "finished": [self.finished(w) for w in range(self.nw)],
             "errors": list(self.ctl.errors)}
        if extra:
            r.update(extra)
        return r


def limit_for(conf, nw):
    n = abs(int(conf['n']))
    return 40 * (min(n, 2000) + nw) + 400


def execute(conf, nw, prefix=(), macro=False, seed=None, stick=0.0, record_choices=False):
    """prefix turns (explicit), then either PRNG-chosen turns (seed) or the lowest enabled worker, until all finished"""
    try:
        ex = Execution(conf, nw)
    except DriverError:
        raise
    except Exception as e:   # the constructor of the real Scheduler raised
        return {"error": "%s: %s" % (type(e).__name__, e)}
    try:
        lim = limit_for(conf, nw)
        for w in prefix:
            (ex.macro_turn if macro else ex.turn)(w)
        rng = random.Random(seed) if seed is not None else None
        last = 0
        nonterm = False
        while not ex.all_finished():
            if len(ex.turns) > lim:
                nonterm = True
                break
            en = [w for w in range(nw) if ex.enabled(w)]
            if not en:
                nonterm = True   # deadlock: nobody can move although somebody has not finished
                break
            if rng is not None and len(ex.turns) < lim // 2:
                w = last if rng.random() < stick else rng.randrange(nw)   # may pick a blocked / finished worker
            else:
                w = en[0]
            if record_choices:
                ex.choices.append([len(ex.turns), w, en])
            last = w
            (ex.macro_turn if macro else ex.turn)(w)
        return ex.result({"nonterminating": nonterm, "choices": ex.choices})
    finally:
        ex.close()


def explore(conf, nw, macro, cap):
    """all maximal executions in which every turn goes to an enabled worker (stateless depth-first search:
    re-execute a prefix, continue with the lowest enabled worker, branch on every other enabled worker)"""
    out = []
    stack = [[]]
    complete = True
    while stack:
        if len(out) >= cap:
            complete = False
            break
        prefix = stack.pop()
        r = execute(conf, nw, prefix=prefix, macro=macro, record_choices=True)
        if "error" in r:
            return [r], True
        out.append(r)
        if r["nonterminating"] or r["errors"]:
            return out, False     # a failing execution was found: no point in enumerating its siblings
        pre = list(prefix)
        for _, w, en in r["choices"]:
            for alt in en:
                if alt != w:
                    stack.append(pre + [alt])
            pre.append(w)
        r["prefix_len"] = len(prefix)
        del r["choices"]
    return out, complete


# ---------------------------------------------------------------------------------------------------------
def mp_runs(cases):
    import numpy as np
    res = []
    for c in cases:
        try:
            rs = np.random.RandomState(c["seed"])
            if c["what"] == "proj":
                import pyproj
                from pyproj import CRS
                from pyproj.enums import TransformDirection
                from pyresample._spatial_mp import Proj_MP
                from pyresample.utils.proj4 import get_geodetic_crs_with_no_datum_shift
                shape = tuple(c["shape"])
                lons = rs.uniform(-60, 60, size=shape)
                lats = rs.uniform(-70, 70, size=shape)
                kw = dict(nprocs=c["nprocs"], chunk=c["chunk"], schedule=c["kind"])
                # single-process counterpart 1: the same PROJ engine the workers use, one call over the whole array
                crs = CRS.from_user_input(c["proj"])
                tr = pyproj.Transformer.from_crs(get_geodetic_crs_with_no_datum_shift(crs), crs, always_xy=True)
                x1, y1 = Proj_MP(c["proj"])(lons, lats, **kw)
                xs, ys = tr.transform(lons.ravel(), lats.ravel())
                xs, ys = np.asarray(xs, dtype=float).reshape(shape), np.asarray(ys, dtype=float).reshape(shape)
                l1, t1 = Proj_MP(c["proj"])(xs, ys, inverse=True, **kw)
                ls, ts = tr.transform(xs.ravel(), ys.ravel(), direction=TransformDirection.INVERSE)
                ls, ts = np.asarray(ls, dtype=float).reshape(shape), np.asarray(ts, dtype=float).reshape(shape)
                same = bool(x1.shape == shape and y1.shape == shape and np.array_equal(x1, xs) and np.array_equal(y1, ys)
                            and np.array_equal(l1, ls) and np.array_equal(t1, ts))
                # single-process counterpart 2: pyproj.Proj (its inverse differs from the Transformer pipeline in the last bits)
                x0, y0 = pyproj.Proj(c["proj"])(lons, lats)
                l0, t0 = pyproj.Proj(c["proj"])(xs, ys, inverse=True)
                close = bool(np.allclose(x1, x0, rtol=1e-12, atol=1e-6) and np.allclose(y1, y0, rtol=1e-12, atol=1e-6)
                             and np.allclose(l1, l0, rtol=0, atol=1e-9) and np.allclose(t1, t0, rtol=0, atol=1e-9))
                res.append({"ok": same and close, "same_as_single_process_transformer": same, "close_to_pyproj_Proj": close,
                            "bit_identical_to_pyproj_Proj": bool(np.array_equal(x1, x0) and np.array_equal(y1, y0)
                                                                 and np.array_equal(l1, l0) and np.array_equal(t1, t0)),
                            "n": int(lons.size)})
            else:
                import scipy.spatial as sp
                from pyresample._spatial_mp import cKDTree_MP
                data = rs.uniform(-1, 1, size=(c["ndata"], 3))
                x = rs.uniform(-1, 1, size=(c["nx"], 3))
                k = c["k"]
                dub = c["dub"] if c["dub"] is not None else np.inf
                d1, i1 = cKDTree_MP(data, nprocs=c["nprocs"], chunk=c["chunk"], schedule=c["kind"]).query(x, k=k, distance_upper_bound=dub)
                d0, i0 = sp.cKDTree(data).query(x, k=k, distance_upper_bound=dub)
                ok = bool(d1.shape == d0.shape and i1.shape == i0.shape and np.array_equal(d1, d0) and np.array_equal(i1, i0))
                res.append({"ok": ok, "n": int(c["nx"])})
        except Exception as e:
            res.append({"error": "%s: %s" % (type(e).__name__, e)})
    return res


def relayout(np, a, layout):
    """the same values and shape as `a` in another memory layout"""
    if layout == "C":
        return np.ascontiguousarray(a)
    if layout == "F":
        return np.asfortranarray(a)
    if layout == "T":                      # transposed view of a C-contiguous array
        return np.ascontiguousarray(a.T).T
    if layout == "strided":                # every 2nd / 3rd element of a larger C-contiguous array
        big = np.zeros(tuple(2 * n for n in a.shape[:-1]) + (3 * a.shape[-1],), dtype=a.dtype)
        view = big[tuple(slice(None, None, 2) for _ in a.shape[:-1]) + (slice(None, None, 3),)]
        view[...] = a
        return view
    if layout == "negative":               # negative strides along every axis
        rev = np.ascontiguousarray(a[tuple(slice(None, None, -1) for _ in a.shape)])
        return rev[tuple(slice(None, None, -1) for _ in a.shape)]
    if layout == "offset":                 # an interior window of a larger array
        big = np.zeros(tuple(n + 3 for n in a.shape), dtype=a.dtype)
        view = big[tuple(slice(1, n + 1) for n in a.shape)]
        view[...] = a
        return view
    raise ValueError(layout)


def hist_runs(cases):
    """histories of calls on ONE object: the same cKDTree_MP queried several times with equal-size point sets, the
    same Proj_MP called several times, kd_tree.get_neighbour_info with segments (several queries on one tree)"""
    import numpy as np
    res = []
    for c in cases:
        try:
            rs = np.random.RandomState(c["seed"])
            calls = []
            kept, extra = [], {}
            if c["what"] == "kdtree_repeat":
                # ONE cKDTree_MP object driven through a history of queries (same size with new values, other sizes, same
                # size again); every returned array is KEPT by the caller and all of them are compared with the single-process
                # results again after the last call; the caller overwrites the arrays it passed in after each call and, at the
                # end, the arrays it received, and queries once more
                import scipy.spatial as sp
                from pyresample._spatial_mp import cKDTree_MP
                data = rs.uniform(-1, 1, size=(c["ndata"], 3))
                data_in = data.copy()
                tree = cKDTree_MP(data_in, nprocs=c["nprocs"], chunk=c["chunk"], schedule=c["kind"])
                data_in[...] = 7.0       # the constructor documents an internal copy of data
                ref = sp.cKDTree(data)
                plan = c.get("plan") or [c["nx"]] * c["repeat"]
                got = []
                for nx in plan:
                    x = rs.uniform(-1, 1, size=(nx, 3))
                    d0, i0 = ref.query(x, k=c["k"])
                    x_in = x.copy()
                    d1, i1 = tree.query(x_in, k=c["k"])
                    x_in[...] = np.nan
                    calls.append(bool(d1.shape == d0.shape and np.array_equal(d1, d0) and np.array_equal(i1, i0)))
                    got.append((d1, i1, d0.copy(), i0.copy()))
                kept = [bool(np.array_equal(d1, d0) and np.array_equal(i1, i0)) for d1, i1, d0, i0 in got]
                for d1, i1, _, _ in got:
                    d1[...] = -1.0
                    i1[...] = 0
                x = rs.uniform(-1, 1, size=(plan[0], 3))
                d0, i0 = ref.query(x, k=c["k"])
                d1, i1 = tree.query(x, k=c["k"])
                extra["after_scribble"] = bool(np.array_equal(d1, d0) and np.array_equal(i1, i0))
            elif c["what"] == "proj_repeat":
                import pyproj
                from pyproj import CRS
                from pyresample._spatial_mp import Proj_MP
                from pyresample.utils.proj4 import get_geodetic_crs_with_no_datum_shift
                crs = CRS.from_user_input(c["proj"])
                tr = pyproj.Transformer.from_crs(get_geodetic_crs_with_no_datum_shift(crs), crs, always_xy=True)
                pmp = Proj_MP(c["proj"])
                plan = c.get("plan") or [[c["n"]]] * c["repeat"]
                got = []

                def one(shape):
                    lons = rs.uniform(-60, 60, size=tuple(shape))
                    lats = rs.uniform(-70, 70, size=tuple(shape))
                    xs, ys = tr.transform(lons.ravel(), lats.ravel())
                    xs, ys = np.asarray(xs, dtype=float).reshape(lons.shape), np.asarray(ys, dtype=float).reshape(lons.shape)
                    x0, y0 = pyproj.Proj(c["proj"])(lons, lats)
                    a, b = lons.copy(), lats.copy()
                    x1, y1 = pmp(a, b, nprocs=c["nprocs"], chunk=c["chunk"], schedule=c["kind"])
                    a[...] = np.nan          # the caller reuses its input buffers
                    b[...] = np.nan
                    ok = bool(x1.shape == lons.shape and np.array_equal(x1, xs) and np.array_equal(y1, ys)
                              and np.allclose(x1, x0, rtol=1e-12, atol=1e-6) and np.allclose(y1, y0, rtol=1e-12, atol=1e-6))
                    return ok, (x1, y1, xs, ys)
                for shape in plan:
                    ok, g = one(shape)
                    calls.append(ok)
                    got.append(g)
                kept = [bool(np.array_equal(x1, xs) and np.array_equal(y1, ys)) for x1, y1, xs, ys in got]
                for x1, y1, _, _ in got:
                    x1[...] = -1.0
                    y1[...] = -1.0
                extra["after_scribble"] = one(plan[0])[0]
            elif c["what"] in ("proj_failure", "kdtree_failure"):
                # inputs on which the engine fails for SOME rows only (so some, not all, workers fail while holding a slice):
                # the multi-process call must behave like the single-process one - raise when it raises, return the same
                # arrays (inf / nan included) when it returns - never return anything else
                import warnings as _w

                def outcome(fn):
                    try:
                        with _w.catch_warnings():
                            _w.simplefilter("ignore")
                            return ("ok", fn())
                    except Exception as e:
                        return ("raised", "%s: %s" % (type(e).__name__, str(e)[:120]))
                n = c["n"]
                bad_rows = [min(n - 1, max(0, int(round(q * (n - 1))))) for q in c["bad_at"]]
                if c["what"] == "proj_failure":
                    import pyproj
                    from pyproj import CRS
                    from pyresample._spatial_mp import Proj_MP
                    from pyresample.utils.proj4 import get_geodetic_crs_with_no_datum_shift
                    crs = CRS.from_user_input(c["proj"])
                    tr = pyproj.Transformer.from_crs(get_geodetic_crs_with_no_datum_shift(crs), crs, always_xy=True)
                    lons = rs.uniform(-5, 25, size=n)
                    lats = rs.uniform(50, 70, size=n)
                    for b in bad_rows:
                        if c["bad"] == "lat95":
                            lats[b] = 95.0
                        elif c["bad"] == "nan_lon":
                            lons[b] = np.nan           # NaN in only one of the two paired coordinate arrays
                        else:
                            lats[b] = np.inf
                    single = outcome(lambda: tr.transform(lons, lats, errcheck=c["errcheck"]))
                    multi = outcome(lambda: Proj_MP(c["proj"])(lons, lats, errcheck=c["errcheck"], nprocs=c["nprocs"],
                                                               chunk=c["chunk"], schedule=c["kind"]))
                else:
                    import scipy.spatial as sp
                    from pyresample._spatial_mp import cKDTree_MP
                    data = rs.uniform(-1, 1, size=(c["ndata"], 3))
                    x = rs.uniform(-1, 1, size=(n, 3))
                    for b in bad_rows:
                        x[b, b % 3] = np.nan if c["bad"] == "nan" else np.inf
                    single = outcome(lambda: sp.cKDTree(data).query(x, k=c["k"]))
                    multi = outcome(lambda: cKDTree_MP(data, nprocs=c["nprocs"], chunk=c["chunk"], schedule=c["kind"]).query(x, k=c["k"]))
                if single[0] == "raised":
                    good = multi[0] == "raised"
                else:
                    good = multi[0] == "ok" and all(np.asarray(a).shape == np.asarray(b).shape and
                                                    np.array_equal(np.asarray(a, dtype=float), np.asarray(b, dtype=float), equal_nan=True)
                                                    for a, b in zip(single[1], multi[1]))
                calls.append(bool(good))
                extra["single_process"] = single[0] if single[0] == "ok" else single[1]
                if multi[0] == "ok":
                    extra["multi_process"] = "returned arrays; entries equal to the initial 0: %s" % (
                        [int((np.asarray(a) == 0).sum()) for a in multi[1]],)
                else:
                    extra["multi_process"] = multi[1]
            elif c["what"] == "proj_layout":
                # the same logical coordinate arrays handed in with different memory layouts / dtypes: the result may
                # depend on the VALUES at each index only
                import pyproj
                from pyproj import CRS
                from pyproj.enums import TransformDirection
                from pyresample._spatial_mp import Proj_MP
                from pyresample.utils.proj4 import get_geodetic_crs_with_no_datum_shift
                crs = CRS.from_user_input(c["proj"])
                tr = pyproj.Transformer.from_crs(get_geodetic_crs_with_no_datum_shift(crs), crs, always_xy=True)
                shape = tuple(c["shape"])
                lons = rs.uniform(-60, 60, size=shape)
                lats = rs.uniform(-70, 70, size=shape)
                if c["inverse"]:
                    lons, lats = tr.transform(lons, lats)
                    lons, lats = np.asarray(lons), np.asarray(lats)
                if c["dtype"] != "float64":
                    lons, lats = np.round(lons).astype(c["dtype"]), np.round(lats).astype(c["dtype"])
                direction = TransformDirection.INVERSE if c["inverse"] else TransformDirection.FORWARD
                xs, ys = tr.transform(np.ascontiguousarray(lons, dtype=np.float64).ravel(),
                                      np.ascontiguousarray(lats, dtype=np.float64).ravel(), direction=direction)
                xs, ys = np.asarray(xs).reshape(shape), np.asarray(ys).reshape(shape)
                a1, a2 = relayout(np, lons, c["layout"][0]), relayout(np, lats, c["layout"][1])
                assert np.array_equal(a1, lons) and np.array_equal(a2, lats) and a1.shape == shape
                x1, y1 = Proj_MP(c["proj"])(a1, a2, inverse=c["inverse"], nprocs=c["nprocs"], chunk=c["chunk"], schedule=c["kind"])
                calls.append(bool(x1.shape == shape and y1.shape == shape and np.array_equal(x1, xs) and np.array_equal(y1, ys)))
            elif c["what"] == "kdtree_layout":
                import scipy.spatial as sp
                from pyresample._spatial_mp import cKDTree_MP
                data = rs.uniform(-1, 1, size=(c["ndata"], 3))
                x = rs.uniform(-1, 1, size=(c["nx"], 3))
                if c["dtype"] != "float64":
                    data, x = data.astype(c["dtype"]), x.astype(c["dtype"])
                d0, i0 = sp.cKDTree(np.ascontiguousarray(data, dtype=np.float64)).query(np.ascontiguousarray(x, dtype=np.float64), k=c["k"])
                a1, a2 = relayout(np, data, c["layout"][0]), relayout(np, x, c["layout"][1])
                assert np.array_equal(a1, data) and np.array_equal(a2, x)
                d1, i1 = cKDTree_MP(a1, nprocs=c["nprocs"], chunk=c["chunk"], schedule=c["kind"]).query(a2, k=c["k"])
                calls.append(bool(d1.shape == d0.shape and np.array_equal(d1, d0) and np.array_equal(i1, i0)))
            else:   # neighbour_info: nprocs=2 with segments (one tree, one query per segment) vs single process
                from pyresample import geometry, kd_tree
                rows, cols = c["shape"]
                area = geometry.AreaDefinition("a", "a", "a", "+proj=laea +lat_0=50 +lon_0=10 +ellps=WGS84", cols, rows,
                                               (-350000.0, -450000.0, 350000.0, 450000.0))
                lons = rs.uniform(2, 18, size=c["nsrc"])
                lats = rs.uniform(44, 56, size=c["nsrc"])
                swath = geometry.SwathDefinition(lons=lons, lats=lats)
                kw = dict(neighbours=c["k"], reduce_data=False)
                v1, o1, i1, d1 = kd_tree.get_neighbour_info(swath, area, 150000, nprocs=c["nprocs"], segments=c["segments"], **kw)
                v0, o0, i0, d0 = kd_tree.get_neighbour_info(swath, area, 150000, nprocs=1, segments=1, **kw)
                calls.append(bool(np.array_equal(v1, v0) and np.array_equal(o1, o0) and i1.shape == i0.shape
                                  and np.array_equal(i1, i0) and np.allclose(d1, d0, rtol=1e-9, atol=1e-6)))
                calls.append(bool(np.any(np.isfinite(d0))))     # the reference finds neighbours (non-trivial case)
            r = {"ok": all(calls) and all(kept) and all(v for v in extra.values() if isinstance(v, bool)), "calls": calls}
            if kept:
                r["kept"] = kept
            r.update(extra)
            res.append(r)
        except Exception as e:
            res.append({"error": "%s: %s" % (type(e).__name__, e)})
    return res


def main():
    req = json.load(sys.stdin)
    out = {}
    tr = []
    hung = 0
    for t in req.get("traces", []):
        if hung >= 2:
            tr.append({"skipped": True})   # two executions already ran into the turn limit
            continue
        tr.append(execute(t["conf"], t["nw"], prefix=t.get("prefix", ()), macro=t.get("macro", False),
                          seed=t.get("seed"), stick=t.get("stick", 0.0)))
        if tr[-1].get("nonterminating"):
            hung += 1
    out["traces"] = tr
    ex = []
    for t in req.get("explore", []):
        runs, complete = explore(t["conf"], t["nw"], t.get("macro", False), t.get("cap", 1000))
        ex.append({"runs": runs, "complete": complete})
    out["explore"] = ex
    if "mp" in req:
        try:
            out["mp"] = mp_runs(req["mp"])
        except Exception as e:
            out["mp_unavailable"] = "%s: %s" % (type(e).__name__, e)
    if "hist" in req:
        try:
            out["hist"] = hist_runs(req["hist"])
        except Exception as e:
            out["hist_unavailable"] = "%s: %s" % (type(e).__name__, e)
    json.dump(out, sys.stdout)


if __name__ == "__main__":
    main()
