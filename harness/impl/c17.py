"""Driver: run the real pyresample.spherical on the given polygons / polygon pairs (C17).

No model logic here: areas, results of union/intersection, and the raw geometric tables (Arc.intersection points,
distances along the edges, signs of Arc.angle, _is_inside) that the Coq model of the edge walk takes as its oracle."""
import json
import signal
import sys

import numpy as np
import pyresample.spherical as sph
from pyresample.spherical import Arc, SCoordinate, SphPolygon


class NPProxy:
    """numpy, with the results of arctan2 recorded (the azimuth oracle of SphPolygon.area)."""

    def __init__(self, real):
        self._real = real
        self.rec = None

    def __getattr__(self, name):
        return getattr(self._real, name)

    def arctan2(self, *a, **k):
        r = self._real.arctan2(*a, **k)
        if self.rec is not None:
            self.rec.append(r)
        return r


proxy = NPProxy(np)
sph.np = proxy


def flist(a):
    return [float(x) for x in np.asarray(a, dtype=np.float64).ravel()]


def do_poly(p):
    out = {}
    try:
        r = p["r"]
        pol = SphPolygon(np.array(p["v"], dtype=np.float64), radius=r)
        out["lon"] = flist(pol.lon)
        out["lat"] = flist(pol.lat)
        proxy.rec = []
        try:
            area = pol.area()
        finally:
            rec, proxy.rec = proxy.rec, None
        out["area"] = float(area)
        out["az"] = [flist(a) for a in rec if np.ndim(a) == 1]
        out["r2"] = float(pol.radius ** 2)
        if p.get("inv"):
            inv = pol.inverse()
            out["inv_area"] = float(inv.area())
            out["inv_v"] = [[float(a), float(b)] for a, b in inv.vertices]
            pol2 = SphPolygon(np.array(p["v"], dtype=np.float64), radius=r)
            pol2.invert()
            out["invert_area"] = float(pol2.area())
            pol2.invert()                       # history on one object: invert() twice is the polygon again
            out["invert2_area"] = float(pol2.area())
            out["invert2_v"] = [[float(a), float(b)] for a, b in pol2.vertices]
    except Exception as e:  # noqa
        out["error"] = "%s: %s" % (type(e).__name__, e)
    return out


def orient_bit(arr, v):
    """0: arr is the vertex array v, 1: v reversed, 2: neither"""
    arr = np.asarray(arr)
    if arr.shape == v.shape and np.array_equal(arr, v):
        return 0
    if arr.shape == v.shape and np.array_equal(arr, v[::-1]):
        return 1
    return 2


def attrs_ok(pol):
    """lon/lat/cvertices of the object describe its own vertices (lon up to whole turns)"""
    try:
        dl = (np.asarray(pol.lon) - pol.vertices[:, 0]) / (2 * np.pi)
        cv = np.array([np.cos(pol.vertices[:, 1]) * np.cos(pol.vertices[:, 0]), np.cos(pol.vertices[:, 1]) * np.sin(pol.vertices[:, 0]),
                       np.sin(pol.vertices[:, 1])]).T * pol.radius
        return bool(np.allclose(dl, np.round(dl), atol=1e-9) and np.array_equal(np.asarray(pol.lat), pol.vertices[:, 1])
                    and np.allclose(pol.cvertices, cv, atol=1e-9 * max(1.0, abs(pol.radius)))
                    and np.array_equal(pol.x__, pol.cvertices[:, 0]) and np.array_equal(pol.z__, pol.cvertices[:, 2]))
    except Exception:  # noqa
        return False


def do_hist(h):
    """one object driven through a history of calls (0 area(), 1 inverse(), 2 invert()); after every call the object,
    the returned object and the caller's array are observed and areas of FRESH objects are given for comparison"""
    out = {"steps": []}
    try:
        v = np.array(h["v"], dtype=np.float64)
        r = h["r"]
        out["fresh"] = [float(SphPolygon(v.copy(), radius=r).area()), float(SphPolygon(np.flipud(v.copy()), radius=r).area())]
        given = v.copy()
        pol = SphPolygon(given, radius=r)
        for op in h["ops"]:
            st = {"op": op}
            if op == 0:
                st["ret_area"] = float(pol.area())
            elif op == 1:
                ret = pol.inverse()
                st["ret_state"] = orient_bit(ret.vertices, v)
                st["ret_area"] = float(ret.area())
                st["ret_attrs_ok"] = attrs_ok(ret)
            else:
                pol.invert()
            st["state"] = orient_bit(pol.vertices, v)
            st["attrs_ok"] = attrs_ok(pol)
            st["area"] = float(pol.area())
            st["input_state"] = orient_bit(given, v)
            out["steps"].append(st)
    except Exception as e:  # noqa
        out["error"] = "%s: %s" % (type(e).__name__, e)
    return out


def cart(lon, lat):
    return np.array([np.cos(lat) * np.cos(lon), np.cos(lat) * np.sin(lon), np.sin(lat)])


class OpTimeout(Exception):
    pass


def _alarm(signum, frame):
    raise OpTimeout("no result after %d s (the while-loop of _find_intersection_nodes does not terminate)" % OP_TIMEOUT)


OP_TIMEOUT = 2
signal.signal(signal.SIGALRM, _alarm)


def run_op(p1, p2, name):
    signal.alarm(OP_TIMEOUT)
    try:
        res = getattr(p1, name)(p2)
    except OpTimeout as e:
        return {"kind": 5, "err": "Timeout: %s" % e}
    except Exception as e:  # noqa
        return {"kind": 4, "err": "%s: %s" % (type(e).__name__, e)}
    finally:
        signal.alarm(0)
    if res is None:
        return {"kind": 0}
    if res is p1:
        return {"kind": 1, "area": float(res.area())}
    if res is p2:
        return {"kind": 2, "area": float(res.area())}
    out = {"kind": 3, "v": [[float(a), float(b)] for a, b in zip(res.lon, res.lat)]}
    try:
        out["area"] = float(res.area())
    except Exception as e:  # noqa
        out["area_err"] = "%s: %s" % (type(e).__name__, e)
    return out


def turn(arc1, arc2):
    """arc1.angle(arc2) the way _find_intersection_nodes asks for it (unsnapped where Arc.angle offers that)"""
    try:
        return arc1.angle(arc2, snap=False)
    except TypeError:
        return arc1.angle(arc2)


def table(p1, p2):
    """Crossing table of the ordered pair (p1, p2) from Arc.intersection with the filters of get_next_intersection."""
    arcs1 = list(p1.aedges())
    arcs2 = list(p2.aedges())
    rows = []
    pts = []
    asym = 0
    for i, a1 in enumerate(arcs1):
        for j, a2 in enumerate(arcs2):
            x12 = a1.intersection(a2)
            if x12 is not None and not (x12 != a2.end and x12 != a1.end):
                x12 = None
            x21 = a2.intersection(a1)
            if x21 is not None and not (x21 != a1.end and x21 != a2.end):
                x21 = None
            if (x12 is None) != (x21 is None):
                asym += 1
                continue
            if x12 is None:
                continue
            s12 = float(np.sign(turn(Arc(x12, a1.end), Arc(x12, a2.end))))
            s21 = float(np.sign(turn(Arc(x21, a2.end), Arc(x21, a1.end))))
            pts.append(x12)
            rows.append({"e1": i, "e2": j, "d1": float(a1.start.distance(x12)), "d2": float(a2.start.distance(x21)),
                         "s12": s12, "s21": s21, "p": [float(x12.lon), float(x12.lat)], "q": [float(x21.lon), float(x21.lat)]})
    out = {"rows": rows, "asym": asym}
    # Arc.get_next_intersection itself: every edge of p1 against all edges of p2, without and with each known crossing of that edge
    gni = []
    try:
        for i, a1 in enumerate(arcs1):
            for k in [-1] + [c for c, row in enumerate(rows) if row["e1"] == i]:
                inter, arc = a1.get_next_intersection(arcs2) if k < 0 else a1.get_next_intersection(arcs2, pts[k])
                if inter is None:
                    gni.append([i, k, -1, -1])
                    continue
                j = [t for t, a2 in enumerate(arcs2) if a2 is arc]
                j = j[0] if len(j) == 1 else -3
                rid = [c for c, row in enumerate(rows) if row["e1"] == i and row["e2"] == j]
                gni.append([i, k, rid[0] if len(rid) == 1 else -3, j])
        out["gni"] = gni
    except Exception as e:  # noqa
        out["gni_err"] = "%s: %s" % (type(e).__name__, e)
    for key, (a, b) in (("i12", (p1, p2)), ("i21", (p2, p1))):
        try:
            out[key] = bool(a._is_inside(b))
        except Exception as e:  # noqa
            out[key] = None
            out[key + "_err"] = "%s: %s" % (type(e).__name__, e)
    return out


def do_pair(p):
    out = {}
    r = p["r"]
    a = SphPolygon(np.array(p["a"], dtype=np.float64), radius=r)
    b = SphPolygon(np.array(p["b"], dtype=np.float64), radius=r)
    out["area_a"] = float(a.area())
    out["area_b"] = float(b.area())
    out["lon_a"], out["lat_a"] = flist(a.lon), flist(a.lat)
    out["lon_b"], out["lat_b"] = flist(b.lon), flist(b.lat)
    out["inter_ab"] = run_op(a, b, "intersection")
    out["inter_ba"] = run_op(b, a, "intersection")
    out["union_ab"] = run_op(a, b, "union")
    out["union_ba"] = run_op(b, a, "union")
    # the set operations are pure: the operands are what they were
    out["area_a_after"] = float(a.area())
    out["area_b_after"] = float(b.area())
    out["operands_unchanged"] = bool(np.array_equal(a.vertices, np.array(p["a"], dtype=np.float64))
                                     and np.array_equal(b.vertices, np.array(p["b"], dtype=np.float64)))
    if p.get("table"):
        try:
            out["table_ab"] = table(a, b)
            out["table_ba"] = table(b, a)
        except Exception as e:  # noqa
            out["table_err"] = "%s: %s" % (type(e).__name__, e)
    return out


req = json.load(sys.stdin)
res = {"polys": [do_poly(p) for p in req.get("polys", [])], "pairs": [], "hist": [do_hist(h) for h in req.get("hist", [])]}
for p in req.get("pairs", []):
    try:
        res["pairs"].append(do_pair(p))
    except Exception as e:  # noqa
        res["pairs"].append({"error": "%s: %s" % (type(e).__name__, e)})
json.dump(res, sys.stdout)
